#!/bin/bash
# usage: process_seed.sh <id> <x> [props...]  -- confirm seed /tmp/seedwork/out_<id>/<x> in its worktree, store it under
# /verif/seeded/<id>-<x>/, then run the listed properties' checks (default: <id>) against the patched worktree.
ID=$1; X=$2; shift 2; PROPS=${@:-$ID}
SRC=/tmp/seedwork/out_$ID/$X; WT=/tmp/seedwork/wt_$ID; DST=/verif/seeded/$ID-$X
mkdir -p /verif/.build/seedlog; LOG=/verif/.build/seedlog/$ID-$X.log
{
[ -f $SRC/patch.diff ] || { echo "no patch"; exit 2; }
rm -rf $SRC/demo/target
/verif/tools/confirm_seed.sh $WT $SRC
} > $LOG 2>&1
if grep -q "CONFIRM OK" $LOG; then
  mkdir -p $DST; rm -rf $SRC/demo/target $SRC/demo/Cargo.lock; cp -r $SRC/patch.diff $SRC/demo $SRC/meta.json $DST/ 2>/dev/null
  grep CONFIRM $LOG > $DST/confirm.log
  for P in $PROPS; do
    /verif/tools/seed_trial.sh $WT $SRC/patch.diff $P >> $LOG 2>&1
  done
  grep -E "^TRIAL|^VIOLATION" $LOG | sed 's#/verif/.build/alt_[0-9a-f]*/##' > $DST/trial.log
fi
echo "== $ID-$X: $(grep -c 'CONFIRM OK' $LOG) confirmed; $(grep '^TRIAL' $LOG | tr '\n' ' ')"
