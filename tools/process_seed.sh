#!/bin/bash
# usage: process_seed.sh <id> <x> [props...]  -- confirm seed /tmp/seedwork/out_<id>/<x> in its worktree, store it under
# /verif/seeded/<id>-<x>/, then run the listed properties' checks (default: <id>) against the patched worktree.
ID=$1; X=$2; shift 2; PROPS=${@:-$ID}
# ROUND=2 in the environment selects the second round of seeds (out2_<id>/, stored as <id>-r2<x>)
if [ "${ROUND:-1}" = "8" ]; then SRC=/tmp/seedwork/out8_$ID/$X; DST=/verif/seeded/$ID-r8$X; TAG=$ID-r8$X; elif [ "${ROUND:-1}" = "7" ]; then SRC=/tmp/seedwork/out7_$ID/$X; DST=/verif/seeded/$ID-r7$X; TAG=$ID-r7$X; elif [ "${ROUND:-1}" = "6" ]; then SRC=/tmp/seedwork/out6_$ID/$X; DST=/verif/seeded/$ID-r6$X; TAG=$ID-r6$X; elif [ "${ROUND:-1}" = "5" ]; then SRC=/tmp/seedwork/out5_$ID/$X; DST=/verif/seeded/$ID-r5$X; TAG=$ID-r5$X; elif [ "${ROUND:-1}" = "4" ]; then SRC=/tmp/seedwork/out4_$ID/$X; DST=/verif/seeded/$ID-r4$X; TAG=$ID-r4$X; elif [ "${ROUND:-1}" = "3" ]; then SRC=/tmp/seedwork/out3_$ID/$X; DST=/verif/seeded/$ID-r3$X; TAG=$ID-r3$X; elif [ "${ROUND:-1}" = "2" ]; then SRC=/tmp/seedwork/out2_$ID/$X; DST=/verif/seeded/$ID-r2$X; TAG=$ID-r2$X; else SRC=/tmp/seedwork/out_$ID/$X; DST=/verif/seeded/$ID-$X; TAG=$ID-$X; fi
WT=/tmp/seedwork/wt_$ID
mkdir -p /verif/.build/seedlog; LOG=/verif/.build/seedlog/$TAG.log
{
[ -f $SRC/patch.diff ] || { echo "no patch"; exit 2; }
rm -rf $SRC/demo/target
/verif/tools/confirm_seed.sh $WT $SRC
} > $LOG 2>&1
if grep -q "CONFIRM OK" $LOG; then
  mkdir -p $DST; rm -rf $SRC/demo/target $SRC/demo/Cargo.lock; cp -r $SRC/patch.diff $SRC/demo $SRC/meta.json $DST/ 2>/dev/null
  grep CONFIRM $LOG > $DST/confirm.log
  for P in $PROPS; do
    /verif/tools/seed_trial.sh $WT $SRC/patch.diff $P >> $LOG 2>&1
  done
  grep -E "^TRIAL|^VIOLATION" $LOG | sed 's#/verif/.build/alt_[0-9a-f]*/##' > $DST/trial.log
fi
echo "== $TAG: $(grep -c 'CONFIRM OK' $LOG) confirmed; $(grep '^TRIAL' $LOG | tr '\n' ' ')"
