#!/bin/bash
# usage: seed_trial.sh <worktree> <patch.diff> <prop> [tier]
# Applies the patch inside the scratch worktree, runs ./check <prop> against that worktree
# (VERIF_REPO), restores the worktree. /repo is not touched.
WT=$1; P=$2; PROP=$3; TIER=${4:-quick}
git -C $WT checkout -q -- . && git -C $WT checkout -q --detach main && git -C $WT apply $P || { echo "TRIAL apply failed"; exit 2; }
cd /verif && VERIF_REPO=$WT timeout 3000 ./check $PROP --tier $TIER; RC=$?
git -C $WT checkout -q -- .
# scratch build output of the trial (harness target dir, shards) is removed again
rm -rf /verif/.build/alt_* /verif/.build/target-avx2_alt_* /verif/.build/target_alt_*
echo "TRIAL prop=$PROP patch=$P rc=$RC"
