#!/usr/bin/env python3
"""Writes MANIFEST.json from tools/registry.py (single source of truth for what is claimed)."""
import json, os, sys
ROOT = os.path.join(os.path.dirname(os.path.abspath(__file__)), "..")
sys.path.insert(0, os.path.dirname(os.path.abspath(__file__)))
from registry import PROPS, HOOK_COMMITS, NOT_CLAIMED  # noqa

ALL = ["C%02d" % i for i in range(1, 21)]
claimed = [p for p in ALL if p in PROPS and PROPS[p].get("claimed", True)]
m = {
    "version": 1,
    "setup_cmd": "./check setup",
    "hooks": {
        "guard": "vibrato_verif",
        "enable": "RUSTFLAGS=\"--cfg vibrato_verif\" (set by ./check when it builds harness/ against /repo/vibrato)",
        "baseline_off_cmd": "cd /repo && cargo test --workspace --no-fail-fast --offline",
        "source_commits": HOOK_COMMITS,
        "add_only": True,
    },
    "engines": [
        {"name": "coq", "path": "coq", "serves_properties": claimed,
         "kind_free_text": "Coq 8.16.1 development: executable Gallina model (coq/Model), specifications and oracles (coq/Spec), proofs (coq/Proofs), property theorems with Print Assumptions (coq/Props), correspondence glue (coq/Check)"},
        {"name": "harness", "path": "harness", "serves_properties": claimed,
         "kind_free_text": "Rust crate built against /repo's working tree with --cfg vibrato_verif; generates cases, runs the implementation, writes Coq case files evaluated with vm_compute"},
    ],
    "checks": [],
    "not_applicable": [],
}
for p in claimed:
    c = PROPS[p]
    m["checks"].append({
        "property_id": p,
        "quick_cmd": "./check %s --tier quick" % p,
        "thorough_cmd": "./check %s --tier thorough" % p,
        "evidence_file": "evidence/%s.json" % p,
        "replay_cmd_template": "./check replay {path}",
        "engine": "coq",
        "level_claimed": {"category": "proof", "text": c["level_text"], "design_ref": "DESIGN.md section 5, %s" % p},
        "level_note": c["level_note"],
        "technique": c.get("technique", "machine-checked proof in Coq + checked model/code correspondence"),
    })
for p in ALL:
    if p not in claimed:
        m["not_applicable"].append({"property_id": p, "reason": NOT_CLAIMED.get(p, "not claimed yet: the proof technique applies (see DESIGN.md section 5) but model, theorem and correspondence for this property are still being built; no check is registered until they exist")})
json.dump(m, open(os.path.join(ROOT, "MANIFEST.json"), "w"), indent=1, ensure_ascii=False)
print("claimed:", claimed)
