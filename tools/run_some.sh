#!/bin/bash
# usage: tools/run_some.sh <tier> <prop>...  -- like run_all.sh for the listed properties only
TIER=$1; shift
cd "$(dirname "$0")/.."
for p in "$@"; do
  S=$(date +%s)
  OUT=$(timeout 7200 ./check $p --tier $TIER 2>/dev/null | grep -E "VIOLATION|KNOWN-FINDING" | cut -c1-160)
  echo "$p tier=$TIER $(( $(date +%s) - S ))s $(python3 -c "import json; e=json.load(open('evidence/$p.json')); print('evals', e['coverage']['evaluations'], 'nontrivial', e['coverage']['distinct_nontrivial'], 'violations', e['violations'])")"
  [ -n "$OUT" ] && echo "$OUT"
  echo "$OUT" | grep -q VIOLATION && FAIL=1
done
exit ${FAIL:-0}
