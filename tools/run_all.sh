#!/bin/bash
# usage: tools/run_all.sh <tier>  -- runs every registered check once, prints one line per property
TIER=${1:-quick}
cd "$(dirname "$0")/.."
for p in C01 C02 C03 C04 C05 C06 C07 C08 C09 C10 C11 C12 C13 C14 C15 C16 C17 C18 C19 C20; do
  S=$(date +%s)
  OUT=$(timeout 7200 ./check $p --tier $TIER 2>/dev/null | grep -E "VIOLATION|KNOWN-FINDING" | cut -c1-160)
  RC=$?
  echo "$p tier=$TIER $(( $(date +%s) - S ))s $(python3 -c "import json; e=json.load(open('evidence/$p.json')); print('evals', e['coverage']['evaluations'], 'nontrivial', e['coverage']['distinct_nontrivial'], 'violations', e['violations'])")"
  [ -n "$OUT" ] && echo "$OUT"
  echo "$OUT" | grep -q VIOLATION && FAIL=1
done
exit ${FAIL:-0}
