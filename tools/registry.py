"""Per-property configuration of ./check."""

ALLOWED_AXIOMS = {
    # axioms declared by Coq's standard library (Reals / Flocq dependencies); none is declared here
    "ClassicalDedekindReals.sig_forall_dec",
    "ClassicalDedekindReals.sig_not_dec",
    "FunctionalExtensionality.functional_extensionality_dep",
    "Classical_Prop.classic",
}

TRUSTED_BASE_COMMON = [
    "Coq 8.16.1 kernel (coqc; vm_compute for evaluating cases and closed witnesses; no native_compute)",
    "hand-written Gallina model of the anchored Rust functions (coq/Model), tied to /repo's working tree by the differential correspondence check of this run",
    "correspondence harness (harness/, Rust) built from /repo's working tree with --cfg vibrato_verif, its generators, and the comparison functions in coq/Check",
    "rustc/cargo, catch_unwind as panic observation, the verif hooks in /repo (guarded, add-only)",
    "tools/registry.py + ./check (orchestration, Print Assumptions parsing, source grep)",
]

TOK_RULE = ("cases = (structured char.def / unk.def / lex.csv / user lexicon / matrix.def, options, 1-8 sentences) from one "
            "splitmix64 stream (VERIF_SEED): 1-7 categories with every invoke/group/length mix, overlapping and "
            "multi-category ranges, 0-3 unk rows per category, 0-14 lexicon rows with homographs and nested prefixes, "
            "1-5 ids per side, costs incl. i16 extremes and tie-heavy tables, sentences of 0-16 characters over a 16-letter "
            "alphabet of 1-4 byte characters (incl. U+FFFF, U+10000, U+1F600, U+3000); the real dictionary is built from the "
            "rendered files, every sentence runs on ONE reused worker with varying call patterns (double tokenize, abandoned "
            "reset, empty sentence in between) and is compared with the model run on a fresh worker")
TOK_TRUSTED = [
    "modelled, not verified: crawdad (common-prefix search modelled as 'all rows whose surface is a prefix, by length then row'), Rust std char_indices/UTF-8 lengths",
    "connection costs enter the model through the verif_conn_cost hook for every id pair (the connectors themselves are C07's subject)",
]

HOOK_COMMITS = ["5d5ee93", "5a2f35c", "81fceb8"]
NOT_CLAIMED = {}

PROPS = {
    "C17": {
        "theorems": ["c17_first_match", "c17_fallback", "c17_rewrite_def", "c17_oracle_sound"],
        "check_targets": ["Check/C17Check.vo"],
        "case_type": "c17_case",
        "report_fn": "c17_report",
        "n": {"quick": 3000, "thorough": 60000},
        "rule": "cases = (rewrite.def text, 1-6 feature lists) drawn from one splitmix64 stream (VERIF_SEED), "
                "rules over the columns {*, a, b, c, (a|b), (b|a), (b|c), (a), multi-byte, ...} with 1-4 columns, "
                "1-4 sections in any order, comments/blank lines/CRLF/odd whitespace, 1 in 7 texts with injected "
                "malformed lines; identical cases are dropped; a case is non-trivial when some feature list is "
                "matched by at least two rules of one rule set (so rule order decides the outcome)",
        "trusted_base": [
            "modelled, not verified: Rust std (BufRead::lines, str::trim, split_ascii_whitespace, split), regex crate for ^\\$([0-9]+)$, HashSet equality/contains",
            "the model keeps the trie as a first-child/next-sibling tree and the matcher as structural DFS; the Rust code uses a node vector and an explicit stack (equivalence exercised by the correspondence: rewrite results and node counts)",
        ],
        "assumptions": ["rewrite.def is valid UTF-8 (otherwise BufRead::lines returns Err before any rule is read)"],
        "level_text": "Coq theorem c17_first_match: for every rule list and feature list the trie matcher of the model returns the output of the earliest registered matching rule (and c17_fallback / c17_rewrite_def for the fallback and the three independent rule sets of rewrite.def); the model is tied to the code on every run by evaluating it in Coq on the cases the real TrainerConfig::parse_rewrite_config + FeatureRewriter ran.",
        "level_note": "Trusted: Coq kernel + vm_compute; the hand-written model (tree-shaped trie, structural DFS) vs the Rust node vector / explicit stack is validated by differential testing only (generated rewrite.def texts); Rust std/regex/HashSet modelled.",
        "technique": "machine-checked proof in Coq (induction over rules and patterns) + checked model/code correspondence",
    },
    "C02": {
        "theorems": ["c02_insert_invariant", "c02_optimal", "c02_reported_path"],
        "check_targets": ["Check/C02Check.vo"],
        "case_type": "tokcase",
        "report_fn": "c02_report",
        "n": {"quick": 900, "thorough": 20000},
        "rule": TOK_RULE + "; non-trivial: a sentence whose lattice holds more candidate nodes than the reported path uses (competing segmentations)",
        "trusted_base": TOK_TRUSTED + [
            "the C02 oracle (forward recursion over the implementation's dumped candidates, Spec/ViterbiSpec.v) is executable Gallina evaluated by vm_compute; its own optimality is not proved, it is used only to search for failing inputs",
        ],
        "assumptions": ["accumulated costs within i32 (the model panics otherwise, like the dev-profile build)",
                        "fewer than 65536 nodes per boundary (u16 back pointer)"],
        "level_text": "Coq theorems c02_insert_invariant / c02_optimal / c02_reported_path: for every connection-cost function (hence every connector kind), dictionary, option setting and sentence, every node's stored min_cost is attained by a BOS-rooted chain of lattice nodes and is minimal among all such chains (Viterbi invariant by induction over the insertion sequence of build_lattice_inner), EOS picks the cheapest predecessor including the connection to id 0, and the reported tokens are such a chain whose accumulated costs are the tokens' total_cost. The model (lattice.rs, tokenizer.rs, worker.rs, token.rs, sentence.rs, unknown.rs) is tied to the code on every run: the real lattice dump, tokens and costs of generated dictionaries/sentences are compared field by field with the model evaluated in Coq, and an independent forward-recursion oracle re-computes the optimum from the implementation's dumped candidates.",
        "level_note": "Trusted: Coq kernel + vm_compute; hand model vs code tied by differential testing only; crawdad prefix search modelled at list level; connection costs taken from the implementation through the conn_cost hook; costs in Z with i32 overflow = Panicked (the property's own 32-bit restriction).",
        "technique": "machine-checked proof in Coq (Viterbi invariant over all insertion sequences) + checked model/code correspondence on lattice dumps",
    },
    "C04": {
        "theorems": ["c04_state_independent", "c04_history", "c04_idempotent", "c04_interleave"],
        "check_targets": ["Check/C04Check.vo"],
        "case_type": "tokcase",
        "report_fn": "c04_report",
        "n": {"quick": 700, "thorough": 15000},
        "rule": TOK_RULE + "; C04: 1-9 sentences per worker (repeated sentences, empty first line), each also tokenized on a brand-new worker and on 3 further threads (own worker each, shared tokenizer, three rounds in thread-specific orders); non-trivial: at least two non-empty tokenized sentences on the one reused worker, each with alternative observations to compare",
        "trusted_base": TOK_TRUSTED + [
            "thread schedules, Send/Sync and memory effects are outside the model: Tokenizer/Dictionary: Send + Sync is asserted at compile time in the harness (a change that breaks it stops the harness from building => VIOLATION), the threaded run is a test supporting the tie, not a proof",
        ],
        "assumptions": ["workers are used through reset_sentence/tokenize/token accessors (the public API)"],
        "level_text": "Coq theorems c04_state_independent / c04_history / c04_idempotent / c04_interleave: in the model of worker.rs + lattice.rs, for EVERY worker state (not only reachable ones) reset_sentence(cs); tokenize() gives the outcome and token nodes of a fresh worker (the lattice vector kept between sentences is erased by reset up to the relation 'same node list at every boundary', which every model operation respects), repeated tokenize calls report the same tokens, and under any interleaving of the operations of a family of workers each worker ends in the state its own operation list produces. Tied to the code on every run: real workers with generated histories (abandoned resets, empty sentences, double/triple tokenize) are compared with the model on a fresh worker, and the oracle compares the real reused worker with a real fresh worker and with workers on three other threads.",
        "level_note": "Partial with respect to real concurrency: thread interleavings/memory effects cannot be exhibited by the Gallina model; covered by a compile-time Send+Sync assertion and a threaded differential run only. Otherwise trusted: Coq kernel + vm_compute, hand model tied by differential testing, crawdad modelled at list level.",
        "technique": "machine-checked proof in Coq (state-independence of reset+tokenize for all worker states, projection lemma for interleavings) + checked model/code correspondence on operation histories",
    },
    "C13": {
        "theorems": ["c13_counts_are_evaluations", "c13_history_additive", "c13_empty_sentence", "c13_probs_perm", "c13_probs_sorted", "c13_probs_accepted"],
        "check_targets": ["Check/C13Check.vo"],
        "case_type": "tokcase",
        "report_fn": "c13_report",
        "n": {"quick": 700, "thorough": 15000},
        "rule": TOK_RULE + "; C13: every case counts (init_connid_counter, update_connid_counts after every sentence incl. empty and repeated lines), then compute_connid_probs and map_connection_ids_from_iter of its output on a rebuilt dictionary followed by re-tokenization; non-trivial: at least two left ids with a non-zero count (so the order is decided by frequencies)",
        "trusted_base": TOK_TRUSTED + [
            "binary64 quotients count/sum are modelled by the order on counts (division by one positive float is monotone and separates integers below 2^53; sum = 0 gives NaN everywhere = all equal): not proved in Coq, exercised by the correspondence (the real order must equal the model's order on the observed counts)",
            "sort_unstable_by modelled by insertion sort (the comparator is a total order on distinct ids, so the sorted result is unique)",
        ],
        "assumptions": ["at most 65535 connection ids per side (u16)"],
        "level_text": "Coq theorems: c13_counts_are_evaluations (what add_connid_counts counts over the finished lattice is, as a multiset, exactly the connection-cost evaluations of the run: invariant over the whole scan, using the Viterbi frontier invariant to show earlier boundaries are final), c13_history_additive / c13_empty_sentence (a sentence's contribution does not depend on the worker's past; the empty sentence adds nothing), c13_probs_perm / c13_probs_sorted (the output lists every id but 0 exactly once by count desc, id asc) and c13_probs_accepted (ConnIdMapper::parse accepts it: parse accepts exactly the permutations of 1..n, mapper_parse_accepts_iff). Tied to the code on every run: real counters after every sentence of generated histories vs the model, real compute_connid_probs order vs the model's order, and the oracle recounts evaluations from the implementation's own lattice dumps, checks permutation/sortedness, acceptance by map_connection_ids_from_iter and identical re-tokenization.",
        "level_note": "Trusted: Coq kernel + vm_compute; float quotient order modelled on counts (not proved); hand model tied by differential testing; the 'mapped dictionary tokenizes identically' part is C06's theorem, here only observed on the implementation.",
        "technique": "machine-checked proof in Coq (scan invariant relating evaluation log and counted events; permutation characterisation of ConnIdMapper::parse; sortedness of the statistics) + checked model/code correspondence",
    },
    "C01": {
        "theorems": ["c01_partition", "c01_ordered", "c01_cover", "c01_byte_offsets", "c01_terminates", "c01_empty", "c01_no_panic_refuted"],
        "check_targets": ["Check/C01Check.vo"],
        "case_type": "tokcase",
        "report_fn": "c01_report",
        "n": {"quick": 900, "thorough": 20000},
        "rule": TOK_RULE + "; C01: dictionaries may leave categories without unk.def rows (the known-finding class K1 is generated on purpose); non-trivial: a sentence with at least two tokens and at least one multi-byte character (byte and character ranges differ)",
        "trusted_base": TOK_TRUSTED + [
            "the boolean oracle (Check/C01Check.v) is the executable counterpart of tok_seq/token_ok/tail_ok; its equivalence with the Prop statement is by inspection, not proved",
            "UTF-8 encoding itself is not modelled: surfaces are code-point lists, byte offsets are sums of utf8_len",
        ],
        "assumptions": ["'never panics' is not proved: it is false of the pinned tree for dictionaries with a category lacking unk.def rows (known finding K1, c01_no_panic_refuted) and otherwise only observed by the correspondence (dev profile: overflow and debug assertions panic)"],
        "level_text": "Coq theorems c01_partition / c01_ordered / c01_cover / c01_byte_offsets / c01_terminates / c01_empty about the model of tokenizer.rs + lattice.rs + worker.rs + token.rs + sentence.rs + unknown.rs: for every dictionary, option setting and sentence, whenever tokenization completes the tokens are non-empty, ordered, non-overlapping, inside the sentence, each starts where the previous ended or after a skipped run beginning with a SPACE character, byte ranges are the UTF-8 offsets of the character ranges, surfaces are the input slices, feature/lex type/ids/cost are those of the named dictionary entry (lattice-wide node invariant through a generic induction over the scan loop), without ignore_space the surfaces concatenate to the input, the loop never exhausts its fuel, and the empty string gives no tokens. Tied to the code on every run by comparing real tokens, lattice dumps, char infos and groupable with the model, and by an oracle evaluating the same predicate on the implementation's tokens.",
        "level_note": "Partial: totality ('never panics') is not a theorem — refuted for the known-finding class K1 (c01_no_panic_refuted) and outside it only observed (a panic outside K1 is reported as a violation). Trusted: Coq kernel + vm_compute; hand model tied by differential testing; crawdad at list level; UTF-8 encoder not modelled.",
        "technique": "machine-checked proof in Coq (lattice-wide node invariant by induction over the scan loop + Viterbi path structure) + checked model/code correspondence",
    },
    "C03": {
        "theorems": ["c03_char_info", "c03_groupable_is_run", "c03_run_maximal", "c03_unknown_words", "c03_lexicon_prefixes",
                     "c03_astral_is_entry0", "c03_char_info_refuted", "c03_char_info_outside_known"],
        "check_targets": ["Check/C03Check.vo"],
        "case_type": "tokcase",
        "report_fn": "c03_report",
        "n": {"quick": 900, "thorough": 20000},
        "rule": TOK_RULE + "; non-trivial: a sentence whose reported tokens include an unknown word while its lattice also holds lexicon candidates",
        "trusted_base": TOK_TRUSTED + [
            "the oracle (Check/C03Check.v) recomputes the candidate multiset of every processed start position from the source rows with the declarative functions of Spec/CandSpec.v (cinfo_spec, run_at, unk_lens_spec, prefix test), using the character infos the implementation reported",
            "char.def line grammar and inclusive bounds are C10's subject: here ranges arrive already parsed (the generator writes the file, the model receives [start, end+1))",
        ],
        "assumptions": ["at most 18 categories (generated: at most 9)", "code points below 2^16 for the char-info clause (beyond: known finding K2)"],
        "level_text": "Coq theorems: c03_char_info (table lookup = last covering char.def range, DEFAULT otherwise, for code points below 2^16), c03_groupable_is_run + c03_run_maximal (groupable = maximal run of neighbours sharing a category, characterised declaratively), c03_unknown_words (gen_unk_words equals the declarative list of lengths of the property statement x all unk.def entries of the primary category; the early break on the sentence end is dead code), c03_lexicon_prefixes (lookup = exactly the rows whose surface is a non-empty prefix). Known finding K2 (astral code points get the info of U+0000): c03_char_info_refuted with witness + c03_char_info_outside_known. Tied to the code on every run: char infos, groupable, full lattice dumps and tokens of the real tokenizer vs the model, and the oracle recomputes the candidate multiset at every processed start position of the implementation's lattice from the source rows.",
        "level_note": "Trusted: Coq kernel + vm_compute; crawdad common-prefix search modelled at list level (exercised through the lattice dumps); hand model tied by differential testing; 'every reachable start position' is checked by the oracle on dumps (for ignore_space=false), not stated as one theorem.",
        "technique": "machine-checked proof in Coq (code-shaped candidate generation = declarative specification) + checked model/code correspondence on lattice dumps",
    },
    "C08": {
        "theorems": ["c08_candidates_equiv", "c08_user_labelled", "c08_system_kept", "c08_replace", "c08_clear", "c08_accept_in_range"],
        "check_targets": ["Check/C08Check.vo"],
        "case_type": "tokcase",
        "report_fn": "c08_report",
        "n": {"quick": 700, "thorough": 15000},
        "rule": TOK_RULE + "; C08: 90% of the cases carry a user lexicon (homographs of system words, longer/shorter overlapping surfaces, extreme costs, 1 in 25 rows with an id outside the connector -> must be rejected); every sentence is also tokenized on a system lexicon extended by the user rows, after load(other);load(user), after load(user);load(None), and on a dictionary that never had a user lexicon; non-trivial: a sentence with all five observations whose reported path contains a user-lexicon token",
        "trusted_base": TOK_TRUSTED + [
            "equality of the OPTIMAL COST between the user-lexicon dictionary and the extended system lexicon is observed on the implementation by the oracle (path cost incl. EOS connection) and follows in the model from c08_candidates_equiv + C02's optimality over the candidate set; the permutation-invariance of the Viterbi minimum is not yet a separate Coq theorem",
        ],
        "assumptions": ["ids of system/unknown entries inside the connector (checked by the builder, modelled in build_dict)"],
        "level_text": "Coq theorems: c08_candidates_equiv (at every start position the candidates with a user lexicon are, as a multiset of (start, end, left id, right id, cost), those of the system lexicon extended by the same rows, including the effect on unknown-word suppression), c08_user_labelled / c08_system_kept (added words carry the user lexicon type and their row's parameters; system words stay), c08_replace / c08_clear (state machine of reset_user_lexicon: the second load replaces the first, None restores exactly the dictionary without one), c08_accept_in_range (an accepted user lexicon names only ids inside the connector). Tied to the code on every run: real tokens/lattices with user lexicon vs the model, candidate multisets from the lattice dump vs the declarative specification (user ++ system ++ unknown), and the oracle compares the real optimum with a real dictionary built from lex.csv ++ user.csv and the real replace / clear sequences token by token.",
        "level_note": "Trusted: Coq kernel + vm_compute; hand model tied by differential testing; CSV parsing of the user lexicon is C11's subject; optimal-cost equality across the two dictionaries is checked on the implementation, not a separate theorem.",
        "technique": "machine-checked proof in Coq (permutation of candidate multisets, dictionary state machine) + checked model/code correspondence and metamorphic oracle",
    },
    "C12": {
        "theorems": ["c12_run_of_spaces", "c12_words_start_after_run", "c12_no_space_in_words", "c12_spaces_only", "c12_ignore_space_rejected"],
        "check_targets": ["Check/C12Check.vo"],
        "case_type": "tokcase",
        "report_fn": "c12_report",
        "n": {"quick": 800, "thorough": 20000},
        "rule": TOK_RULE + "; C12: ignore_space always on, 90% of the dictionaries satisfy the precondition by construction (SPACE-only lines for U+0020 / U+3000 appended last, no space in lexicon surfaces); each case = one sentence + 3 re-spacings (every run of U+0020 to another non-zero length, leading/trailing runs added or removed); non-trivial: precondition holds, first sentence has at least two tokens and at least one re-spacing differs from it",
        "trusted_base": TOK_TRUSTED + [
            "the invariance under re-spacing is NOT a Coq theorem: it is decided by the metamorphic oracle on the implementation's tokens and, for the model, through the correspondence",
        ],
        "assumptions": ["precondition of the property (checked per case by the oracle; cases violating it are not judged)"],
        "level_text": "PARTIAL proof. Coq theorems under the property's precondition: c12_run_of_spaces (the skip covers exactly the maximal run of space characters), c12_words_start_after_run (every word starts at a non-space character), c12_no_space_in_words (no stored word, hence no token, contains a space character: lattice-wide invariant over the scan), c12_spaces_only (a sentence of spaces yields no tokens), c12_ignore_space_rejected (error when SPACE is undefined). The central statement 'tokens are unchanged by re-spacing' is kept visible in Props/C12.v as not proved; it is decided on every run by a metamorphic oracle on the real tokenizer (4 re-spacings per sentence, all token fields except ranges compared) and the model is tied to the code by the usual correspondence on the same cases.",
        "level_note": "Partial: re-spacing invariance itself is checked by exploration (metamorphic differential run), not by a theorem; what is proved are the structural lemmas it rests on. Trusted: Coq kernel + vm_compute; hand model tied by differential testing.",
        "technique": "machine-checked proof in Coq of the structural lemmas (run skipping, space-free words, spaces-only) + metamorphic oracle and checked model/code correspondence for the invariance",
    },
    "C06": {
        "theorems": ["c06_parse_accepts_iff", "c06_parse_never_panics", "c06_parse_inverse", "c06_tokenize_invariant", "c06_history"],
        "check_targets": ["Check/C06Check.vo"],
        "case_type": "c06case",
        "report_fn": "c06_report",
        "harness": "C06",
        "n": {"quick": 500, "thorough": 12000},
        "rule": "cases = generated dictionary (as for the tokenizer family; connector = matrix.def in half of the cases, otherwise a generated bigram model compiled as raw or dual connector, with duplicate feature rows) + a history of 1-5 operations drawn from {map with random permutations of the left/right ids, load a user lexicon (rows in the ORIGINAL ids, homographs of system words), clear it, write/read round trip} + in 1 of 3 cases one malformed mapping (too long, too short, mentions 0, duplicate, out of range) applied after the history + 1-3 sentences; observed: outcome of every operation, stored mapper tables, every connection cost, tokens/lattice of the final dictionary and of the base dictionary that was never mapped; non-trivial: all operations succeeded, at least one mapping is not the identity and some sentence has at least two tokens",
        "trusted_base": [
            "modelled, not verified: the three connectors' map_connection_ids (the model states their contract conn'(fr r)(fl l) = conn r l; the oracle checks it on the implementation for EVERY id pair of every case); all three connector kinds are generated",
            "crawdad prefix search at list level; CSV parsing of user lexicons is C11's subject",
        ],
        "assumptions": ["fewer than 65535 ids per side"],
        "level_text": "Coq theorems: c06_parse_accepts_iff / c06_parse_never_panics / c06_parse_inverse (ConnIdMapper::parse accepts exactly the permutations of 1..n, returns the inverse table with 0 fixed, never panics), c06_tokenize_invariant (for ANY pair of id functions fixing 0 and ANY connector satisfying conn'(fr r)(fl l) = conn r l, the renamed dictionary gives the same outcome and the same tokens up to the ids: simulation over search_min / insert_node / the scan loop / EOS / the back-pointer walk), c06_history (every dictionary reachable by mappings and user-lexicon loads is the renaming of the base dictionary by the composition of the mappings). Tied to the code on every run: operation outcomes and stored mapper of the real Dictionary vs the model's state machine, full tokenizer correspondence on the final dictionary with rows renamed by the model, and an oracle that compares the real final tokens with the real base tokens renamed by the composed permutation, every connection cost pair, and requires Err (never a panic) for malformed mappings.",
        "level_note": "Trusted: Coq kernel + vm_compute; connector remapping functions enter as their contract (checked exhaustively per case on the implementation, not proved from a model of the loops); hand model tied by differential testing.",
        "technique": "machine-checked proof in Coq (permutation characterisation of parse; simulation proof of renaming invariance; composition over histories) + checked model/code correspondence on operation histories",
    },
    "C07": {
        "theorems": ["c07_scorer_correct", "c07_trie_wellformed", "c07_raw_cost"],
        "check_targets": ["Check/C07Check.vo"],
        "case_type": "c07case",
        "report_fn": "c07_report",
        "harness": "C07",
        "avx2": True,
        "n": {"quick": 400, "thorough": 10000},
        "rule": "cases = generated bigram models: 1-19 templates (most often 8-12), 1-4 ids per side, ragged rows, feature strings shared across positions and position-tagged, quoted cells (comma, double quote), the empty feature, '*', multi-byte text, duplicate rows, dense/sparse cost tables incl. BOS/EOS pairs (''/x, x/'', ''/''), cross-position and unused pairs, 1 in 8 with costs up to 200000 (dual judged only when every partial sum fits 16 bits), 1 in 10 listing '*' as a feature (known-finding class K3); built as raw and dual dictionary and as matrix.def materialised from the defining sums; every id pair read through the conn_cost hook; portable and AVX2 harness builds; non-trivial: at least 3 non-zero connection costs",
        "trusted_base": [
            "modelled, not verified: DualConnector (its template split depends on hash-set order; it is compared with the defining sum for every id pair, not modelled), AVX2 intrinsics (the AVX2 build is compared with the same specification), csv-core for quoted cells (the harness renders the rows)",
            "the step from feature ids to feature strings (interning is injective, so lane sums over ids equal the defining sum over strings) is not a Coq theorem: it is checked on every case (model = implementation = defining sum for every id pair)",
        ],
        "assumptions": ["fewer than 2^31-1 distinct features per side (INVALID_FEATURE_ID is never a key)", "'*' is not listed as a feature in bigram.cost (otherwise known finding K3)", "no feature contains '/' (bigram.cost syntax)"],
        "level_text": "Coq theorems: c07_scorer_correct (the XOR double array built by ScorerBuilder::build — bases, check_base search, placement — answers every pair of keys, listed or not, exactly like the two-level trie: invariant over the processed first-level keys, positions of one key are distinct because xor cancels, new positions are free by check_base), c07_trie_wellformed (tries read from bigram.cost satisfy the premise), c07_raw_cost (the raw connector's cost is the lane-by-lane sum of trie entries; padding lanes with the invalid id add nothing). Tied to the code on every run: the model of RawConnector::from_readers (interning, trie, double array, BOS row, padding, accumulate) must give the real connector's cost for every id pair, and the oracle compares the real raw AND dual connectors, portable and AVX2 builds, with the defining feature-pair sum for every id pair, plus identical optima of raw / dual / materialised-matrix dictionaries.",
        "level_note": "Partial: the dual connector and the AVX2 path are decided by the differential oracle against the defining sum (all id pairs of every case), not by a theorem. Trusted: Coq kernel + vm_compute; arrays checks/costs modelled as one position->(check,cost) map.",
        "technique": "machine-checked proof in Coq (double-array invariant with xor cancellation) + checked model/code correspondence and specification oracle on every id pair",
    },
    "C19": {
        "theorems": ["c19_parse_write", "c19_malformed", "c19_tokenizer_output"],
        "check_targets": ["Check/C19Check.vo"],
        "case_type": "c19case",
        "report_fn": "c19_report",
        "harness": "C19",
        "n": {"quick": 3000, "thorough": 100000},
        "rule": "3 of 4 cases = generated corpus text: 0-4 sentences of 0-3 token lines over surfaces {a, b, multi-byte, space, U+3000, 'EOS', empty, 'x y', CR, quote} and features incl. trailing whitespace / interior CR / quoted cells, LF or CRLF, plus a malformed/edge stream (text after the last EOS, line without tab, two tabs, blank line, no final newline, a token whose surface is EOS, sentences of empty surfaces followed by a normal one, ' EOS', 'eos'); 1 of 4 = the MeCab-style output (as printed by tokenize/src/main.rs) of a generated dictionary on a generated sentence; observed: from_reader outcome and examples, Example::write of every example, re-parse; non-trivial: at least one example parsed",
        "trusted_base": [
            "modelled, not verified: BufRead::lines (LF split, one trailing CR dropped), str::split('\\t'), Sentence::set_sentence; the tokenize tool's printing loop is replicated in the harness (three write calls per token)",
            "the premise of c19_tokenizer_output on FEATURES is a property of the dictionary (K4 in DESIGN.md: a feature containing a tab makes the output unparsable); generated features contain no tab",
        ],
        "assumptions": ["valid UTF-8 input"],
        "level_text": "Coq theorems c19_parse_write (for every list of examples free of tab/LF, without trailing CR in features and with non-empty text, parse(write(exs)) = exs: lemmas about lines/split over concatenations), c19_malformed (a line without tab that is not EOS, or with two or more tabs, is an error) and c19_tokenizer_output (the tokenizer's printed lines parse to exactly the printed tokens, or to no example when the text is empty). Tied to the code on every run: real Corpus::from_reader / Example::write on generated texts vs the model (outcome, examples, written bytes), and an oracle on the implementation (errors only for malformed lines, kept sentences non-empty, write+re-parse identity, tokenizer output = tokens).",
        "level_note": "Trusted: Coq kernel + vm_compute; hand model tied by differential testing; evaluate/split tools only reuse Corpus::from_reader.",
        "technique": "machine-checked proof in Coq (round-trip law of the line format) + checked model/code correspondence",
    },
    "C09": {
        "theorems": ["c09_truncated_rejected", "c09_foreign_rejected", "c09_no_strict_prefix_decodes"],
        "check_targets": ["Check/ImgCheck.vo"],
        "case_type": "c09case",
        "report_fn": "c09_report",
        "harness": "C09",
        "n": {"quick": 12, "thorough": 60},
        "rule": "cases = images (about 263 kB each) of generated dictionaries: matrix / raw / dual connector, with or without user lexicon and id mapping; per image: Dictionary::read on strict prefixes at offsets 0-399, the last 3000, 2500 random ones (thorough: 40000, and EVERY offset for three images, in parallel), on every single-byte substitution of the 21 magic bytes (7 values per position, all 255 for the first images), partial / shortened / lengthened magics and other tool or version strings, each alone and followed by the valid payload; the model decodes the first two images of a run completely (nine in the thorough tier); non-trivial: at least 1000 prefixes and 100 magics tested for the image",
        "trusted_base": [
            "modelled, not verified: bincode 2's derive output and its handling of short reads (the model is the documented wire format: u64 lengths, u8 Option tag, u32 enum tag, fixed arrays without length, structs in declaration order) — validated on every run by decoding real images with the model (all bytes consumed, identical re-encoding); crawdad's trie blob is opaque bytes; UTF-8 validation of strings by the decoder is not modelled (it can only reject more)",
            "that the Rust decoder turns 'not enough bytes' into Err rather than a panic or a huge allocation is observed (every tested prefix), not proved",
        ],
        "assumptions": ["numeric fields fit their widths (inner_dom): true of every image the implementation writes"],
        "level_text": "Coq theorems c09_truncated_rejected (for every well-formed dictionary value and EVERY strict prefix of its image, the model of Dictionary::read fails: laws 'round trip' and 'no strict prefix decodes' proved for every combinator — fixed-width integers, vectors, strings, Option, enum tags, fixed arrays, guarded values — and composed over the whole DictionaryInner layout incl. the three connector kinds) and c09_foreign_rejected (anything not starting with the generated MODEL_MAGIC is rejected). Tied to the code on every run: the model decodes real images byte for byte and re-encodes them identically, rejects the same sampled prefixes, and the oracle requires Err (no Ok, no panic) from the real Dictionary::read on thousands of prefixes and wrong magics per image (all offsets in the thorough tier).",
        "level_note": "Partial where the runtime matters: Err-instead-of-panic on short reads is observed, not proved. Trusted: Coq kernel + vm_compute; wire-format model validated against real images on every run.",
        "technique": "machine-checked proof in Coq (prefix-freeness of a compositional codec) + checked model/code correspondence on real images + truncation sweep",
    },
    "C05": {
        "theorems": ["c05_read_write", "c05_write_count", "c05_rewrite_same", "c05_lanes"],
        "check_targets": ["Check/ImgCheck.vo"],
        "case_type": "c05case",
        "report_fn": "c05_report",
        "harness": "C05",
        "avx2": True,
        "n": {"quick": 60, "thorough": 1500},
        "rule": "cases = generated dictionaries (matrix / raw / dual connector, optional user lexicon, optional id mapping); D is written (byte count compared), read back as D', written again (bytes compared); 3 sentences are tokenized with both; then 0-3 later operations from {map with random permutations, load user lexicon, clear it, write/read} are applied to both and outcomes, tokens and final images compared; the portable run leaves its images on disk and the AVX2 build of the harness compares its own bytes for the same seeds and reads them; the model decodes and re-encodes the first two images of a run (nine in the thorough tier); non-trivial: at least six comparisons were made for the case",
        "trusted_base": [
            "modelled, not verified: bincode 2's derive output and its handling of short reads (the model is the documented wire format: u64 lengths, u8 Option tag, u32 enum tag, fixed arrays without length, structs in declaration order) — validated on every run by decoding real images with the model (all bytes consumed, identical re-encoding); crawdad's trie blob is opaque bytes; UTF-8 validation of strings by the decoder is not modelled (it can only reject more)",
            "that the Rust decoder turns 'not enough bytes' into Err rather than a panic or a huge allocation is observed (every tested prefix), not proved",
        ],
        "assumptions": ["numeric fields fit their widths (inner_dom)", "dual-connector images are not compared across builds (the template split depends on hash order and differs from process to process)"],
        "level_text": "Coq theorems c05_read_write (read(write d ++ rest) = (d, rest) for every well-formed dictionary value: the compositional round-trip law over the whole DictionaryInner layout, so every later operation sees identical data), c05_write_count, c05_rewrite_same, c05_lanes (a U31x8 is eight little-endian u32 whatever the build). Tied to the code on every run: the model decodes real images completely and re-encodes them to the same bytes; the oracle compares, on the implementation, D with read(write(D)) under tokenization and under later operation sequences (tokens, outcomes, final images), the reported byte count, rewriting, and portable vs AVX2 images.",
        "level_note": "Trusted: Coq kernel + vm_compute; wire-format model validated against real images; 'behaves identically' follows in the model from equality of the decoded data and is checked behaviourally on the implementation.",
        "technique": "machine-checked proof in Coq (compositional codec round-trip law) + checked model/code correspondence on real images + behavioural differential oracle",
    },
    "C11": {
        "theorems": ["c11_parse_render", "c11_surface_unquoted", "c11_blank_lines"],
        "check_targets": ["Check/C11Check.vo"],
        "case_type": "c11case",
        "report_fn": "c11_report",
        "harness": "C11",
        "n": {"quick": 3000, "thorough": 150000},
        "rule": "2 of 3 cases = CSV rendered from 1-6 generated rows: surfaces incl. multi-byte text, commas, quotes, spaces, the empty surface, duplicates and prefixes of one another; ids 0..65535; costs incl. -32768/32767; features of 0-4 cells incl. quoted cells with commas, doubled quotes and embedded newlines, trailing empty cells; layout: optional quoting of cells that do not need it, LF / CRLF / CR terminators, leading / interior / trailing blank lines, with or without final newline; 1 of 3 = one random edit of such a file (drop / insert a comma, quote, newline, cut, duplicate a byte); parsed by the real Lexicon::parse_csv through the hook; non-trivial: well-formed file with at least two words",
        "trusted_base": [
            "modelled, not verified: csv-core (the model is a reference lexer for the dialect it implements with default settings, NOT a transcription of its automaton and of the span bookkeeping in parse_csv; agreement is checked on every case, corrupted files included); str::parse for u16/i16; crawdad (homograph lookup is C03's subject)",
        ],
        "assumptions": ["cells shorter than 4096 bytes (csv-core output buffer; longer: 'Field too large' error)", "valid UTF-8"],
        "level_text": "Coq theorems about the reference model of Lexicon::parse_csv: c11_parse_render (for every list of rows rendered as CSV — any surface, quoted with doubled quotes when needed or by choice, any numerals parsing to the numbers, any comma-separated plain feature cells — the parser returns exactly the rows with non-empty surface, in order, surface unquoted, feature byte for byte; homographs stay distinct), c11_surface_unquoted, c11_blank_lines. Tied to the code on every run: the reference model must agree with the real parser (rows or Err) on rendered AND on corrupted files, and the oracle compares the real parser's rows with the source rows the file was rendered from (feature bytes verbatim incl. quoting, all terminators, blank lines, missing final newline) and forbids panics.",
        "level_note": "Partial: the theorem covers features without quotes/line breaks and LF-terminated rows; quoted feature cells, CR/CRLF and missing final newline are covered by the correspondence and the oracle only. Trusted: Coq kernel + vm_compute; csv-core modelled by a reference lexer.",
        "technique": "machine-checked proof in Coq (parse/render round trip of the reference CSV lexer) + checked model/code correspondence incl. malformed inputs",
    },
    "C20": {
        "theorems": ["c20_same_string_same_id", "c20_diff_string_diff_id", "c20_template_applies", "c20_line_cost", "c20_connector_sums"],
        "check_targets": ["Check/C20Check.vo"],
        "case_type": "c20case",
        "report_fn": "c20_report",
        "harness": "C20",
        "n": {"quick": 600, "thorough": 30000},
        "rule": "cases = generated MeCab descriptions: feature.def with 1-5 BIGRAM templates (literal tags, %L[i]/%R[i] and optional %L?[i]/%R?[i] references, a stray '%'), UNIGRAM lines; right-id.def / left-id.def with 2-5 ids (id 0 = BOS/EOS), 2-4 feature columns over {multi-byte tags, '*', letters, a cell with a space}, in file order or shuffled; model.def with one line per feature text drawn from the real expansions (incl. BOS/EOS pairs), unmatched texts, header lines, a unigram line; weights over {2, -3, 10, 0.5, -1.25, 0, 0.0, 7.75, -0.125, 100, -41} (dyadic decimals: exact in binary64), cost factors {1, 8, 100, 700, 800}; error stream: a gap among the ids, no id 0, id 0 not BOS/EOS, a malformed id line; the generated files are compiled with the real raw connector and every non-zero id pair is read through the conn_cost hook; non-trivial: at least two non-zero costs among non-zero id pairs",
        "trusted_base": [
            "the end-to-end statement is decided by the oracle, not proved; regex crate, str::parse::<f64> (weights are dyadic decimals, so the exact rational arithmetic of the oracle coincides with binary64), csv-core for the id-table rows are modelled/trusted",
            "hypotheses of the property generated for: expansions contain no '/' and no 'BOS/EOS' text, one model.def line per feature text",
        ],
        "assumptions": ["one model.def line per feature text (with duplicates the last non-zero line wins in the implementation)"],
        "level_text": "PARTIAL proof. The end-to-end statement (connection cost of the dictionary compiled from the generated bigram files = sum over applicable templates of -trunc(weight x factor) of the matching model.def line) is kept visible in Props/C20.v and decided on every run by an oracle that recomputes the defining sum in Coq (template parsing, expansion with optional references, exact rational truncation) from the MeCab description and compares it with the real pipeline generate_bigram_info -> RawConnector for every non-zero id pair, plus dense-id and error-reporting checks. Proved in Coq are the components: interning gives equal ids to equal strings and different ids to different strings (c20_same_string_same_id / c20_diff_string_diff_id), when a template applies (c20_template_applies), the line cost (c20_line_cost), and the connector's lane sum (c20_connector_sums, from C07's double-array theorem).",
        "level_note": "Partial: component theorems + specification oracle; no end-to-end theorem over a model of generate_bigram_info. Trusted: Coq kernel + vm_compute.",
        "technique": "machine-checked proof in Coq of the components (interning, template applicability, connector sum) + specification oracle evaluated in Coq against the real conversion pipeline",
    },
}
