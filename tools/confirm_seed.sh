#!/bin/bash
# usage: confirm_seed.sh <worktree> <seed_dir (with patch.diff, demo/run.sh)> 
# Confirms in a scratch worktree: patch applies, test suite passes with it, demo fails with it, demo passes without it.
WT=$1; SD=$2
export CARGO_NET_OFFLINE=true
cd $WT || exit 2
git checkout -q -- . ; git apply --check $SD/patch.diff || { echo "CONFIRM apply=FAIL"; exit 1; }
git apply $SD/patch.diff
T=$(cargo test --workspace --no-fail-fast --offline 2>&1 | grep -E "^test result" | awk '{p+=$4; f+=$6} END {print p" passed "f" failed"}')
echo "CONFIRM tests_with_patch: $T"
( cd $SD/demo && bash run.sh $WT >/tmp/confirm_demo_with.$$ 2>&1 ); RC1=$?
echo "CONFIRM demo_with_patch rc=$RC1 (expect non-zero): $(tail -2 /tmp/confirm_demo_with.$$ | tr '\n' ' ')"
git checkout -q -- .
( cd $SD/demo && bash run.sh $WT >/tmp/confirm_demo_without.$$ 2>&1 ); RC2=$?
echo "CONFIRM demo_without_patch rc=$RC2 (expect 0): $(tail -2 /tmp/confirm_demo_without.$$ | tr '\n' ' ')"
rm -f /tmp/confirm_demo_with.$$ /tmp/confirm_demo_without.$$
if [ "$RC1" != "0" ] && [ "$RC2" = "0" ]; then echo "CONFIRM OK"; else echo "CONFIRM BAD"; fi
