#!/bin/bash
# usage: try_seed.sh <patch.diff> <prop> [tier]   -- applies the patch to /repo, runs the check, restores /repo
P=$1; PROP=$2; TIER=${3:-quick}
cd /repo && git diff --quiet || { echo "/repo dirty"; exit 2; }
git apply $P || exit 2
cd /verif && ./check $PROP --tier $TIER; RC=$?
git -C /repo checkout -q -- .
echo "TRY rc=$RC"
