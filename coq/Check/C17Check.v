(** Correspondence glue for C17: case type, comparison of observations, oracle, non-triviality. *)
From Vib Require Import Model.Base Model.Text Model.Rewriter Spec.RewriterSpec.

Definition c17_case := (str * list (list str) * result rewrite_obs)%type.

Definition obs_eqb (a b : rewrite_obs) : bool :=
  list_eqb (list_eqb (option_eqb (list_eqb str_eqb))) (fst a) (fst b)
  && list_eqb N.eqb (snd a) (snd b).

Definition c17_corr (c : c17_case) : bool :=
  let '(text, fss, impl) := c in
  result_eqb obs_eqb (run_rewrite_def text fss) impl.

Definition c17_oracle (c : c17_case) : bool :=
  let '(text, fss, impl) := c in
  match impl with
  | Ok (obs, _) => forallb2 (oracle_c17 text) fss obs
  | _ => true
  end.

(** non-trivial: some feature list is matched by at least two rules of one set, so that the
    order of rules decides the result *)
Definition two_match (rules : list rule) (fs : list str) : bool :=
  N.leb 2 (N.of_nat (length (filter (fun ru => matches (fst ru) fs) rules))).
Definition c17_nontrivial (c : c17_case) : bool :=
  let '(text, fss, impl) := c in
  match parse_rewrite_def text with
  | Ok rs => existsb (fun fs => two_match (rs_uni rs) fs || two_match (rs_left rs) fs || two_match (rs_right rs) fs) fss
  | _ => false
  end.

Definition c17_report := report c17_corr c17_oracle (fun _ => false) c17_nontrivial.
