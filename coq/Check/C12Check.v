(** C12: metamorphic oracle on the implementation: the sentences of a case are re-spacings of
    its first sentence; under the property's precondition (checked on the case) all of them
    must give the same tokens up to character/byte ranges, no token may contain a space
    character, and a sentence of spaces gives no token. *)
From Vib Require Import Model.Base Model.Lattice Model.Tokenizer Model.DictBuild Spec.CandSpec Check.TokCheck Check.C01Check Check.C03Check.

Definition stripped_eqb (a b : dtoken) : bool :=
  str_eqb (dt_surface a) (dt_surface b) && (dt_lex a =? dt_lex b)%N && (dt_wid a =? dt_wid b)%N
  && str_eqb (dt_feature a) (dt_feature b) && (dt_lid a =? dt_lid b)%N && (dt_rid a =? dt_rid b)%N
  && (dt_wcost a =? dt_wcost b)%Z && (dt_total a =? dt_total b)%Z.

Definition space_char (d : dict) (m : N) (c : N) : bool := negb (N.land (ci_cates (cinfo_spec (d_chars d) c)) m =? 0)%N.

(** the precondition of the property, on the characters that occur in the case *)
Definition c12_pre (d : dict) (m : N) (c : tokcase) : bool :=
  forallb (fun so => forallb (fun t => let '(cates, _, _, _, _) := t in
                                       (N.land cates m =? 0)%N || (cates =? m)%N) (so_cinfos so)
                     && forallb (fun ch => (ch <? 65536)%N) (so_chars so)) (tc_sents c)
  && forallb (fun r => forallb (fun ch => negb (space_char d m ch)) (lr_surface r))
             (d_sys d ++ match d_user d with Some u => u | None => [] end).

Definition sent_space_free (m : N) (so : sentobs) : bool :=
  forallb (fun t => forallb (fun i => (N.land (cates_at so i) m =? 0)%N)
                            (seq (N.to_nat (dt_cs t)) (N.to_nat (dt_ce t) - N.to_nat (dt_cs t)))) (so_tokens so).

Definition all_space (m : N) (so : sentobs) : bool :=
  forallb (fun t => let '(cates, _, _, _, _) := t in negb (N.land cates m =? 0)%N) (so_cinfos so).

(** the maximal space-free factors of a sentence (by the implementation's character infos) *)
Fixpoint segs_aux (m : N) (cs : list N) (cis : list (N * N * bool * bool * N)) (cur : list N) : list (list N) :=
  match cs, cis with
  | ch :: cs', (cates, _, _, _, _) :: cis' =>
      if (N.land cates m =? 0)%N then segs_aux m cs' cis' (ch :: cur)
      else match cur with [] => segs_aux m cs' cis' [] | _ => rev cur :: segs_aux m cs' cis' [] end
  | _, _ => match cur with [] => [] | _ => [rev cur] end
  end.
Definition segments (m : N) (so : sentobs) : list (list N) := segs_aux m (so_chars so) (so_cinfos so) [].
Definition same_segments (m : N) (a b : sentobs) : bool := list_eqb (list_eqb N.eqb) (segments m a) (segments m b).

Definition c12_oracle (c : tokcase) : bool :=
  with_dict c true (fun d o =>
    match o_space o with
    | None => true
    | Some m =>
        if negb (c12_pre d m c) then true else
        forallb (fun so => (so_outcome so =? 0)%N || uncovered d so) (tc_sents c)
        && (if forallb (fun so => (so_outcome so =? 0)%N) (tc_sents c) then
              forallb (fun so => sent_space_free m so
                                 && (negb (all_space m so) || match so_tokens so with [] => true | _ => false end)) (tc_sents c)
              && match tc_sents c with
                 | [] => true
                 | so0 :: rest => forallb (fun so => negb (same_segments m so so0) || list_eqb stripped_eqb (so_tokens so) (so_tokens so0)) rest
                 end
            else true)
    end).

Definition c12_nontrivial (c : tokcase) : bool :=
  with_dict c false (fun d o =>
    match o_space o, tc_sents c with
    | Some m, so0 :: _ :: _ => c12_pre d m c && Nat.leb 2 (length (so_tokens so0))
                               && existsb (fun so => negb (list_eqb N.eqb (so_chars so) (so_chars so0)) && same_segments m so so0) (tc_sents c)
    | _, _ => false
    end).

Definition c12_report := report tok_corr c12_oracle (fun _ => false) c12_nontrivial.
