(** C20: oracle — the connection cost of the raw connector compiled from the generated bigram
    files vs the defining sum, every pair of non-zero ids; error cases. *)
From Vib Require Import Model.Base Model.Text Model.Scorer Model.Template Model.Mecab.
Local Open Scope N_scope.

Record c20case := {
  c20_in : mecab_in;
  c20_outcome : N;                            (* generate_bigram_info: 0 ok, 1 err, 2 panic *)
  c20_conn : result (list (list Z));          (* costs of the dictionary compiled from the files, [right id][left id] *)
  c20_dims : N * N;                           (* number of rows of bigram.right / bigram.left *)
  c20_files : option (list (list str) * list (list str) * list (str * str * Z))   (* the generated files: rows of bigram.right (ids 1..), of bigram.left, lines of bigram.cost *)
}.

Definition zrow_eqb := list_eqb Z.eqb.

(** hypotheses of the property: expansions free of '/' and of the text BOS/EOS are guaranteed by
    the generator; what is checked here is the statement itself *)
Definition c20_oracle (c : c20case) : bool :=
  let m := c20_in c in
  let well := ids_dense (mi_rightdef m) && ids_dense (mi_leftdef m) && id0_ok (mi_rightdef m) && id0_ok (mi_leftdef m) in
  if negb well then (c20_outcome c =? 1)            (* gap / id 0 not BOS/EOS: an error, not a panic, not accepted *)
  else
    (c20_outcome c =? 0)
    && match c20_conn c with
       | Ok mat =>
           let nr := length (nodup N.eq_dec (map fst (mi_rightdef m))) in
           let nl := length (nodup N.eq_dec (map fst (mi_leftdef m))) in
           (* ids are emitted densely: one row per non-zero id *)
           (fst (c20_dims c) =? N.of_nat (nr - 1)) && (snd (c20_dims c) =? N.of_nat (nl - 1))
           && forallb (fun r => forallb (fun l =>
                 (nth l (nth r mat []) 0%Z =? c20_spec m (N.of_nat r) (N.of_nat l))%Z) (seq 1 (nl - 1))) (seq 1 (nr - 1))
       | _ => false
       end.

(** correspondence: the model of generate_bigram_info produces the implementation's files, cell by
    cell and line by line, and fails exactly when the implementation reports an error *)
Definition rows_eqb := list_eqb (list_eqb str_eqb).
Definition c20_corr (c : c20case) : bool :=
  match gen (c20_in c), c20_files c with
  | Ok (r, l, cs), Some (r', l', cs') =>
      (c20_outcome c =? 0) && rows_eqb r r' && rows_eqb l l'
      && list_eqb (fun x y => str_eqb (fst (fst x)) (fst (fst y)) && str_eqb (snd (fst x)) (snd (fst y)) && (snd x =? snd y)%Z) cs cs'
  | Err, None => (c20_outcome c =? 1)
  | _, _ => false
  end.
(** the hypotheses of the end-to-end theorem hold for the case (judged cases only) *)
Definition c20_wf (c : c20case) : bool := wf_model (c20_in c).

Definition c20_nontrivial (c : c20case) : bool :=
  match c20_conn c with
  | Ok mat => Nat.leb 2 (length (filter (fun z => negb (z =? 0)%Z) (concat (tl (map (@tl Z) mat)))))
  | _ => false
  end.

Definition c20_report := report c20_corr c20_oracle (fun _ => false) (fun c => c20_nontrivial c && c20_wf c).
