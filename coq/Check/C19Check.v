(** C19: correspondence of [Corpus::from_reader] / [Example::write] and oracle on the implementation. *)
From Vib Require Import Model.Base Model.Text Model.Corpus.
Local Open Scope N_scope.

Record c19case := {
  c9_kind : N;                                   (* 0: generated corpus text, 1: MeCab-style output of the tokenizer, 2: the text (as given here) with one byte that is not UTF-8 inserted *)
  c9_text : str;
  c9_parsed : result (list (list word));
  c9_written : result str;
  c9_reparsed : result (list (list word));
  c9_tokens : list word                          (* kind 1: the tokens themselves (surface, feature) as the Token API reports them *)
}.

Definition word_eqb (a b : word) : bool := str_eqb (fst a) (fst b) && str_eqb (snd a) (snd b).
Definition exs_eqb := list_eqb (list_eqb word_eqb).

Definition c19_corr (c : c19case) : bool :=
  if (c9_kind c =? 2) then true else
  result_eqb exs_eqb (parse_corpus (c9_text c)) (c9_parsed c)
  && match c9_parsed c, c9_written c with
     | Ok exs, Ok w => str_eqb w (write_corpus exs)
     | Err, Err => true
     | _, _ => false
     end.

(** lines of the text as the documented format reads them: split at LF, one trailing CR dropped *)
Definition line_kind (l : str) : N :=      (* 0 token line, 1 EOS, 2 malformed *)
  match split_on ch_tab l with
  | [_; _] => 0
  | [s] => if str_eqb s EOS_STR then 1 else 2
  | _ => 2
  end.

(** the documented reading of a corpus, independent of the parser model: token lines grouped by
    EOS lines, sentences whose text is empty dropped, lines after the last EOS ignored *)
Fixpoint spec_examples (ls : list str) (cur : list word) : list (list word) :=
  match ls with
  | [] => []
  | l :: rest =>
      match split_on ch_tab l with
      | [s; f] => spec_examples rest (cur ++ [(s, f)])
      | _ => match concat (map fst cur) with
             | [] => spec_examples rest []
             | _ => cur :: spec_examples rest []
             end
      end
  end.

Definition c19_oracle (c : c19case) : bool :=
  (* a stream that is not UTF-8 is an error, never an accepted (shorter) corpus, never a panic *)
  if (c9_kind c =? 2) then match c9_parsed c with Err => true | _ => false end else
  let ls := lines (c9_text c) in
  let malformed := existsb (fun l => (line_kind l =? 2)) ls in
  match c9_parsed c with
  | Panic => false
  | Err => malformed                                               (* errors only for malformed lines *)
  | Ok exs =>
      negb malformed
      && exs_eqb exs (spec_examples ls [])
      (* sentences with no text are dropped, every other one is kept with its lines in order *)
      && forallb (fun ex => match concat (map fst ex) with [] => false | _ => true end) exs
      (* writing and re-parsing gives the same examples; the written text is the token lines + EOS *)
      && match c9_written c, c9_reparsed c with
         | Ok w, Ok exs2 => exs_eqb exs exs2 && str_eqb w (write_corpus exs)
         | _, _ => false
         end
      (* the tokenizer's output: one sentence whose tokens are exactly the printed lines (none if there is no token) *)
      && (if (c9_kind c =? 1) then
            let toks := flat_map (fun l => match split_on ch_tab l with [s; f] => [(s, f)] | _ => [] end) ls in
            match toks with
            | [] => match exs with [] => true | _ => false end
            | _ => exs_eqb exs [toks]
            end
            (* ... and they are the tokens the tokenizer reported, surface and feature *)
            && match c9_tokens c with
               | [] => match exs with [] => true | _ => false end
               | tk => exs_eqb exs [tk]
               end
          else true)
  end.

Definition c19_nontrivial (c : c19case) : bool :=
  match c9_parsed c with Ok (_ :: _) => true | _ => false end.

Definition c19_report := report c19_corr c19_oracle (fun _ => false) c19_nontrivial.
