(** C01: oracle on the implementation's tokens (executable counterpart of [tok_seq] /
    [token_ok] / [tail_ok] of Proofs/PartitionProofs.v), using the character infos the
    implementation reported for the sentence. *)
From Vib Require Import Model.Base Model.Lattice Model.Tokenizer Model.DictBuild Check.TokCheck.

Fixpoint byte_len_b (cs : list N) : nat := match cs with [] => 0 | c :: t => utf8_len c + byte_len_b t end.
Definition byte_off_b (cs : list N) (i : nat) : nat := byte_len_b (firstn i cs).

Definition lexrow_matches (r : lexrow) (t : dtoken) : bool :=
  (dt_lid t =? lr_lid r)%N && (dt_rid t =? lr_rid r)%N && (dt_wcost t =? lr_cost r)%Z
  && str_eqb (dt_feature t) (lr_feature r) && str_eqb (dt_surface t) (lr_surface r).

Definition entry_oracle (d : dict) (t : dtoken) : bool :=
  if (dt_lex t =? 0)%N then
    match nth_error (d_sys d) (N.to_nat (dt_wid t)) with Some r => lexrow_matches r t | None => false end
  else if (dt_lex t =? 1)%N then
    match d_user d with
    | Some rows => match nth_error rows (N.to_nat (dt_wid t)) with Some r => lexrow_matches r t | None => false end
    | None => false
    end
  else if (dt_lex t =? 2)%N then
    match nth_error (d_unk d) (N.to_nat (dt_wid t)) with
    | Some u => (dt_lid t =? ur_lid u)%N && (dt_rid t =? ur_rid u)%N && (dt_wcost t =? ur_cost u)%Z
                && str_eqb (dt_feature t) (ur_feature u)
    | None => false
    end
  else false.

Definition cates_at (so : sentobs) (i : nat) : N :=
  match nth_error (so_cinfos so) i with Some (c, _, _, _, _) => c | None => 0%N end.
Definition space_at (o : options) (so : sentobs) (i : nat) : bool :=
  match o_space o with Some m => negb (N.land (cates_at so i) m =? 0)%N | None => false end.

Fixpoint tokens_oracle (d : dict) (o : options) (so : sentobs) (p : nat) (ts : list dtoken) : bool :=
  match ts with
  | [] => let len := length (so_chars so) in Nat.eqb p len || (Nat.ltb p len && space_at o so p)
  | t :: rest =>
      let cs := N.to_nat (dt_cs t) in let ce := N.to_nat (dt_ce t) in
      (Nat.eqb cs p || (Nat.ltb p cs && space_at o so p))
      && Nat.ltb cs ce && Nat.leb ce (length (so_chars so))
      && Nat.eqb (N.to_nat (dt_bs t)) (byte_off_b (so_chars so) cs)
      && Nat.eqb (N.to_nat (dt_be t)) (byte_off_b (so_chars so) ce)
      && str_eqb (dt_surface t) (slice (so_chars so) cs ce)
      && entry_oracle d t
      && tokens_oracle d o so ce rest
  end.

(** known finding K1: a character whose primary category has no unk.def entry *)
Definition uncovered (d : dict) (so : sentobs) : bool :=
  existsb (fun ci => let '(_, base, _, _, _) := ci in negb (existsb (fun u => (ur_cate u =? base)%N) (d_unk d))) (so_cinfos so).

Definition sent_oracle_c01 (d : dict) (o : options) (so : sentobs) : bool :=
  (so_outcome so =? 0)%N
  && match so_chars so with
     | [] => match so_tokens so with [] => true | _ => false end
     | _ => tokens_oracle d o so 0 (so_tokens so)
     end.

Definition with_dict {A} (c : tokcase) (dflt : A) (f : dict -> options -> A) : A :=
  match build_dict c with
  | Ok (d, names) => match build_opts c names with Ok o => f d o | _ => dflt end
  | _ => dflt
  end.

(** oracle outside the known class *)
Definition c01_oracle (c : tokcase) : bool :=
  with_dict c true (fun d o => forallb (fun so => sent_oracle_c01 d o so || uncovered d so) (tc_sents c)).
(** failures inside the known class: a panic (and only a panic) on a sentence with an uncovered character *)
Definition c01_known (c : tokcase) : bool :=
  with_dict c false (fun d o => existsb (fun so => negb (sent_oracle_c01 d o so) && uncovered d so && (so_outcome so =? 2)%N) (tc_sents c))
  && with_dict c true (fun d o => forallb (fun so => sent_oracle_c01 d o so || (uncovered d so && (so_outcome so =? 2)%N)) (tc_sents c)).

Definition c01_oracle_all (c : tokcase) : bool :=
  with_dict c true (fun d o => forallb (fun so => sent_oracle_c01 d o so) (tc_sents c)).

(** non-trivial: some sentence with at least two tokens, or a gap, or a multi-byte character *)
Definition c01_nontrivial (c : tokcase) : bool :=
  existsb (fun so => (so_outcome so =? 0)%N && Nat.leb 2 (length (so_tokens so))
                     && existsb (fun ch => (128 <=? ch)%N) (so_chars so)) (tc_sents c).

Definition c01_report (cases : list tokcase) : list N * list N * list N * N :=
  (failing (map tok_corr cases),
   failing (map (fun c => c01_oracle_all c || c01_known c) cases),   (* violations outside the known finding *)
   failing (map (fun c => negb (c01_known c)) cases),                (* hits of the known finding *)
   count_true (map c01_nontrivial cases)).
