(** Size-boundary stream (sentences longer than 65536 characters, giant space runs, long
    histories): the observations are consistency flags computed by the harness (1 = holds); the
    list-based model is not evaluated on inputs of this size. *)
From Vib Require Import Model.Base Model.Text.
Local Open Scope N_scope.

Record bigcase := { bg_id : N; bg_flags : list (str * N) }.

Definition bg_prefix (p : str) (f : str * N) : bool := starts_with p (fst f).
Definition bg_ok (p : str) (c : bigcase) : bool := forallb (fun f => negb (bg_prefix p f) || (snd f =? 1)) (bg_flags c).
Definition bg_some (p : str) (c : bigcase) : bool := existsb (bg_prefix p) (bg_flags c).
Definition big_report (p : str) := report (fun _ : bigcase => true) (bg_ok p) (fun _ => false) (bg_some p).

Definition big_c01_report := big_report [99;48;49;95].
Definition big_c02_report := big_report [99;48;50;95].
Definition big_c03_report := big_report [99;48;51;95].
Definition big_c04_report := big_report [99;48;52;95].
Definition big_c12_report := big_report [99;49;50;95].
Definition big_c13_report := big_report [99;49;51;95].
