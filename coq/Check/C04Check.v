(** C04: oracle on the implementation's observations. Every sentence was tokenized on a worker
    with a history (earlier sentences, abandoned resets, repeated tokenize calls), on a brand-new
    worker, and (thorough and quick tiers alike) on workers of other threads sharing the
    tokenizer: all token sequences must coincide. *)
From Vib Require Import Model.Base Model.Lattice Model.Tokenizer Model.DictBuild Check.TokCheck.

Definition sent_oracle_c04 (so : sentobs) : bool :=
  (so_pre so =? 0)%N &&      (* nothing of an earlier sentence is readable once the sentence is replaced *)
  if (so_outcome so =? 0)%N
  then forallb (fun alt => list_eqb dtoken_eqb alt (so_tokens so)) (so_alt so)
  else true.

Definition c04_oracle (c : tokcase) : bool := forallb sent_oracle_c04 (tc_sents c).

(** non-trivial: a case with at least two non-empty sentences on the same worker and an
    alternative observation to compare with *)
Definition c04_nontrivial (c : tokcase) : bool :=
  Nat.leb 2 (length (filter (fun so => match so_tokens so, so_alt so with _ :: _, _ :: _ => true | _, _ => false end) (tc_sents c))).

Definition c04_report := report tok_corr c04_oracle (fun _ => false) c04_nontrivial.
