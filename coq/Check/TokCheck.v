(** Correspondence glue shared by the tokenizer properties (C01 C02 C03 C04 C08 C12 C13):
    the case type written by the harness, the model run on the same inputs, field-by-field
    comparison of the observations. *)
From Vib Require Import Model.Base Model.Lattice Model.Tokenizer Model.DictBuild.

Record dnode := { dn_sn : N; dn_sw : N; dn_lex : N; dn_wid : N; dn_lid : N; dn_rid : N; dn_midx : N; dn_mc : Z }.

Record dtoken := {
  dt_cs : N; dt_ce : N; dt_bs : N; dt_be : N; dt_surface : list N; dt_lex : N; dt_wid : N;
  dt_feature : list N; dt_lid : N; dt_rid : N; dt_wcost : Z; dt_total : Z
}.

Record sentobs := {
  so_chars : list N;
  so_outcome : N;                           (* 0 = ok, 2 = panic *)
  so_tokens : list dtoken;
  so_ends : list (list dnode);              (* boundaries 1..len *)
  so_eos : option dnode;
  so_group : list N;
  so_cinfos : list (N * N * bool * bool * N);
  so_counts : option (list N * list N);     (* cumulative counts per left id / right id *)
  so_alt : list (list dtoken);              (* the same sentence on a fresh worker / on other threads *)
  so_pre : N                                (* num_tokens() read after reset_sentence and before tokenize (a fresh worker answers 0) *)
}.

Record tokcase := {
  tc_chardef : chardef;
  tc_unk : list unkline;
  tc_sys : list lexrow;
  tc_user : option (list lexrow);
  tc_built : N;                             (* 0 ok, 1 err, 2 panic *)
  tc_conn : list (list Z);
  tc_ignore_space : bool;
  tc_space_res : N;                         (* outcome of Tokenizer::ignore_space: 0 ok, 1 err *)
  tc_mgl : N;
  tc_sents : list sentobs;
  tc_extra : list (list N)                  (* property-specific observations (C13: id orders of compute_probs, map flags) *)
}.

Definition conn_dims (conn : list (list Z)) : N * N :=
  (N.of_nat (length conn), N.of_nat (length (hd [] conn))).

Definition rows_ok (conn : list (list Z)) (rows : list lexrow) : bool :=
  let '(nr, nl) := conn_dims conn in
  forallb (fun r => (lr_lid r <? nl)%N && (lr_rid r <? nr)%N) rows.
Definition unk_ok (conn : list (list Z)) (rows : list unkrow) : bool :=
  let '(nr, nl) := conn_dims conn in
  forallb (fun r => (ur_lid r <? nl)%N && (ur_rid r <? nr)%N) rows.

(** crawdad rejects an empty key set and keys containing U+0000 (its end marker) *)
Definition lexicon_ok (rows : list lexrow) : bool :=
  match rows with
  | [] => false
  | _ => forallb (fun r => negb (existsb (N.eqb 0) (lr_surface r))) rows
  end.

(** model of [SystemDictionaryBuilder::build] + [reset_user_lexicon_from_reader] on the
    structured inputs (the connector itself comes from the implementation: its costs are
    observed through the hook for every id pair) *)
Definition build_dict (c : tokcase) : result (dict * list str) :=
  do cn <- compile_chardef (tc_chardef c) ;;
  let '(ct, names) := cn in
  do unk <- compile_unk names (tc_unk c) ;;
  if negb (lexicon_ok (tc_sys c)) then Err
  else if negb (match tc_user c with Some u => lexicon_ok u | None => true end) then Err
  else if negb (rows_ok (tc_conn c) (tc_sys c)) then Err
  else if negb (unk_ok (tc_conn c) unk) then Err
  else if negb (match tc_user c with Some u => rows_ok (tc_conn c) u | None => true end) then Err
  else Ok ({| d_chars := ct; d_sys := tc_sys c; d_user := tc_user c; d_unk := unk; d_conn := tc_conn c |}, names).

Definition build_opts (c : tokcase) (names : list str) : result options :=
  let mgl := if (tc_mgl c =? 0)%N then None else Some (N.to_nat (tc_mgl c)) in
  if tc_ignore_space c then
    do m <- space_mask names ;; Ok {| o_space := Some m; o_mgl := mgl |}
  else Ok {| o_space := None; o_mgl := mgl |}.

Definition res_code {A} (r : result A) : N := match r with Ok _ => 0 | Err => 1 | Panic => 2 end.

(** model observations in the shape of [sentobs] *)
Definition dnode_of (n : node) : dnode :=
  {| dn_sn := N.of_nat (n_sn n); dn_sw := N.of_nat (n_sw n); dn_lex := n_lex n; dn_wid := n_wid n;
     dn_lid := n_lid n; dn_rid := n_rid n; dn_midx := N.of_nat (n_midx n); dn_mc := n_mc n |}.
Definition dtoken_of (t : token) : dtoken :=
  {| dt_cs := N.of_nat (t_cs t); dt_ce := N.of_nat (t_ce t); dt_bs := N.of_nat (t_bs t);
     dt_be := N.of_nat (t_be t); dt_surface := t_surface t; dt_lex := t_lex t; dt_wid := t_wid t;
     dt_feature := t_feature t; dt_lid := t_lid t; dt_rid := t_rid t; dt_wcost := t_wcost t;
     dt_total := t_total t |}.

Definition dnode_eqb (a b : dnode) : bool :=
  (dn_sn a =? dn_sn b)%N && (dn_sw a =? dn_sw b)%N && (dn_lex a =? dn_lex b)%N && (dn_wid a =? dn_wid b)%N
  && (dn_lid a =? dn_lid b)%N && (dn_rid a =? dn_rid b)%N && (dn_midx a =? dn_midx b)%N && (dn_mc a =? dn_mc b)%Z.
Definition dtoken_eqb (a b : dtoken) : bool :=
  (dt_cs a =? dt_cs b)%N && (dt_ce a =? dt_ce b)%N && (dt_bs a =? dt_bs b)%N && (dt_be a =? dt_be b)%N
  && str_eqb (dt_surface a) (dt_surface b) && (dt_lex a =? dt_lex b)%N && (dt_wid a =? dt_wid b)%N
  && str_eqb (dt_feature a) (dt_feature b) && (dt_lid a =? dt_lid b)%N && (dt_rid a =? dt_rid b)%N
  && (dt_wcost a =? dt_wcost b)%Z && (dt_total a =? dt_total b)%Z.

Definition cinfo_tuple (ci : cinfo) : N * N * bool * bool * N :=
  (ci_cates ci, ci_base ci, ci_invoke ci, ci_group ci, N.of_nat (ci_length ci)).
Definition cinfo_tuple_eqb (a b : N * N * bool * bool * N) : bool :=
  let '(a1, a2, a3, a4, a5) := a in
  let '(b1, b2, b3, b4, b5) := b in
  (a1 =? b1)%N && (a2 =? b2)%N && Bool.eqb a3 b3 && Bool.eqb a4 b4 && (a5 =? b5)%N.

(** counts per id from the event list *)
Definition count_ids (n : N) (ids : list N) : list N :=
  map (fun i => N.of_nat (length (filter (N.eqb (N.of_nat i)) ids))) (seq 0 (N.to_nat n)).

(** per-sentence comparison of everything but the counters *)
Definition sent_corr (d : dict) (o : options) (so : sentobs) : bool :=
  let s := compile (d_chars d) (so_chars so) in
  ((so_outcome so =? 2)%N || list_eqb N.eqb (map N.of_nat (s_group s)) (so_group so))   (* nothing is read back after a panic *)
  && list_eqb cinfo_tuple_eqb (map cinfo_tuple (s_cinfos s)) (so_cinfos so)
  && match tokenize_fresh d o (so_chars so) with
     | Done (ts, L, eos) =>
         (so_outcome so =? 0)%N
         && list_eqb dtoken_eqb (map dtoken_of ts) (so_tokens so)
         && match so_chars so with
            | [] => true       (* no lattice is built for the empty sentence *)
            | _ => list_eqb (list_eqb dnode_eqb) (map (map dnode_of) (firstn (length (so_chars so)) (tl L))) (so_ends so)
                   && option_eqb dnode_eqb (option_map dnode_of eos) (so_eos so)
            end
     | Panicked => (so_outcome so =? 2)%N
     | OutOfFuel => false
     end.

(** counters: the implementation's worker counted every sentence in order *)
Fixpoint counts_corr (d : dict) (o : options) (acc : list (N * N)) (sos : list sentobs) : bool :=
  match sos with
  | [] => true
  | so :: rest =>
      match so_counts so with
      | None => counts_corr d o acc rest
      | Some (lc, rc) =>
          match tokenize d o (reset_sentence d new_worker (so_chars so)) with
          | Done w =>
              match update_counts (init_counter w) with
              | Some w' =>
                  let acc' := acc ++ match w_counts w' with Some ev => ev | None => [] end in
                  let '(nr, nl) := conn_dims (d_conn d) in
                  list_eqb N.eqb (count_ids nl (map fst acc')) lc
                  && list_eqb N.eqb (count_ids nr (map snd acc')) rc
                  && counts_corr d o acc' rest
              | None => false
              end
          | _ => true    (* a panicking sentence stops the implementation's counting run *)
          end
      end
  end.

Definition tok_corr (c : tokcase) : bool :=
  match build_dict c with
  | Ok (d, names) =>
      (tc_built c =? 0)%N
      && match build_opts c names with
         | Ok o => (tc_space_res c =? 0)%N && forallb (sent_corr d o) (tc_sents c) && counts_corr d o [] (tc_sents c)
         | Err => (tc_space_res c =? 1)%N
         | Panic => false
         end
  | Err => (tc_built c =? 1)%N
  | Panic => (tc_built c =? 2)%N
  end.

(** generic report: correspondence only *)
Definition tok_nontrivial (c : tokcase) : bool :=
  existsb (fun so => (so_outcome so =? 0)%N && Nat.ltb (length (so_tokens so)) (length (concat (so_ends so)))) (tc_sents c).
Definition tok_report := report tok_corr (fun _ => true) (fun _ => false) tok_nontrivial.
