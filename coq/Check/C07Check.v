(** C07: correspondence (model of the raw connector vs the implementation, every id pair) and
    oracle (implementation vs the defining feature-pair sum, raw and dual). *)
From Vib Require Import Model.Base Model.Scorer Model.Dual.
Local Open Scope Z_scope.

Record c07case := {
  c7_right : list (list str);
  c7_left : list (list str);
  c7_cost : list (str * str * Z);
  c7_k : N;
  c7_raw : result (list (list Z));
  c7_dual : result (list (list Z));
  c7_same_dual : N;      (* 1: raw and dual dictionaries reach the same optimum on the probe sentences; 0: not; 2: not comparable *)
  c7_same_matrix : N;
  c7_split : option (list N)   (* template positions the implementation pre-summed (hook verif_last_dual_split); None: no dual dictionary *)
}.

Definition zmat_eqb (a b : list (list Z)) : bool := list_eqb (list_eqb Z.eqb) a b.

Definition ids (n : nat) : list N := map N.of_nat (seq 0 n).
Definition matrix_of (f : N -> N -> Z) (nr nl : nat) : list (list Z) := map (fun r => map (fun l => f r l) (ids nl)) (ids nr).

Definition star : str := [42%N].
(** '*' listed as a feature in bigram.cost (known finding K3: it is then counted like any feature) *)
Definition star_listed (c : c07case) : bool :=
  existsb (fun t => let '(a, b, _) := t in str_eqb a star || str_eqb b star) (c7_cost c).

(** the defining sum with '*' counted as 0 even when listed *)
Definition spec_cost_star0 (c : c07case) (r l : N) : Z :=
  spec_cost (c7_right c) (c7_left c)
            (filter (fun t => let '(a, b, _) := t in negb (str_eqb a star || str_eqb b star)) (c7_cost c)) r l.

Definition spec_matrix (c : c07case) : list (list Z) :=
  matrix_of (spec_cost_star0 c) (S (length (c7_right c))) (S (length (c7_left c))).

Definition in_i16 (z : Z) : bool := (-32768 <=? z) && (z <=? 32767).

(** correspondence: the model of the raw connector (interning, trie, double array, padded
    lanes, accumulate) gives the implementation's cost for every id pair *)
Definition c07_corr_raw (c : c07case) : bool :=
  match build_raw (N.to_nat 4000) (c7_right c) (c7_left c) (c7_cost c), c7_raw c with
  | Some rc, Ok m => zmat_eqb (matrix_of (raw_cost rc) (S (length (c7_right c))) (S (length (c7_left c)))) m
  | None, _ => false
  | Some _, _ => false
  end.

(** the model of the dual connector, evaluated with one fixed split of the template positions
    (the implementation's own split depends on hash order; c07_dual_is_defining_sum holds for
    every split): when its pre-summed part fits 16 bits it gives the implementation's dual costs *)
Fixpoint alt_mask (k : nat) (b : bool) : list bool := match k with O => [] | S k' => b :: alt_mask k' (negb b) end.
Definition c07_corr_dual (c : c07case) : bool :=
  let k := fold_right Nat.max 0%nat (map (@length _) (c7_right c ++ c7_left c)) in
  let nr := S (length (c7_right c)) in let nl := S (length (c7_left c)) in
  match build_dual (N.to_nat 4000) (alt_mask k true) (c7_right c) (c7_left c) (c7_cost c), c7_dual c with
  | Some dc, Ok m =>
      if forallb (fun r => forallb (fun l => in_i16 (matrix_part dc r l)) (ids nl)) (ids nr)
      then zmat_eqb (matrix_of (dual_cost dc) nr nl) m
      else true
  | None, _ => false
  | Some _, _ => true
  end.

(** the model of the dual connector evaluated with the implementation's own split: it gives the
    implementation's dual costs, clamped pre-sums included *)
Definition tmpl_k (c : c07case) : nat := fold_right Nat.max 0%nat (map (@length _) (c7_right c ++ c7_left c)).
Definition real_mask (c : c07case) : option (list bool) :=
  match c7_split c with
  | Some s => Some (map (fun p => mem_N (N.of_nat p) s) (seq 0 (tmpl_k c)))
  | None => None
  end.
Definition c07_corr_dual_real (c : c07case) (mask : list bool) : bool :=
  let nr := S (length (c7_right c)) in let nl := S (length (c7_left c)) in
  match build_dual (N.to_nat 4000) mask (c7_right c) (c7_left c) (c7_cost c), c7_dual c with
  | Some dc, Ok m => zmat_eqb (matrix_of (dual_cost dc) nr nl) m
  | None, _ => false
  | Some _, _ => false
  end.

(** partial sums over any subset of positions fit 16 bits when the sum of absolute values does *)
Definition abs_sum (c : c07case) (r l : N) : Z :=
  let k := fold_right Nat.max 0%nat (map (@length _) (c7_right c ++ c7_left c)) in
  fold_right Z.add 0
    (map (fun p => match feature_at (c7_right c) r p k, feature_at (c7_left c) l p k with
                   | Some a, Some b => match table_get (c7_cost c) a b None with Some x => Z.abs x | None => 0 end
                   | _, _ => 0
                   end) (seq 0 k)).
Definition presum_fits (c : c07case) : bool :=
  forallb (fun r => forallb (fun l => in_i16 (abs_sum c r l)) (ids (S (length (c7_left c))))) (ids (S (length (c7_right c)))).

(** the pre-summed part under the implementation's own split: the sum of the listed costs over the
    positions of the matrix part *)
Definition part_sum (c : c07case) (mask : list bool) (r l : N) : Z :=
  let k := tmpl_k c in
  fold_right Z.add 0
    (map (fun p => if nth p mask false then
                     match feature_at (c7_right c) r p k, feature_at (c7_left c) l p k with
                     | Some a, Some b => match table_get (c7_cost c) a b None with Some x => x | None => 0 end
                     | _, _ => 0
                     end
                   else 0) (seq 0 k)).
(** "whenever the pre-summed part fits in 16 bits": decided with the implementation's split when
    the hook reports one, with the bound over all splits otherwise *)
Definition fits (c : c07case) : bool :=
  match real_mask c with
  | Some mask => forallb (fun r => forallb (fun l => in_i16 (part_sum c mask r l)) (ids (S (length (c7_left c))))) (ids (S (length (c7_right c))))
  | None => presum_fits c
  end.

Definition c07_corr (c : c07case) : bool :=
  c07_corr_raw c
  && match real_mask c with
     | Some mask => c07_corr_dual_real c mask
     | None => match c7_dual c with Ok _ => false | _ => true end   (* a dual dictionary always reports its split *)
     end
  && (star_listed c || negb (presum_fits c) || c07_corr_dual c).

Definition c07_oracle_gen (c : c07case) : bool :=
  match c7_raw c with
  | Ok m => zmat_eqb m (spec_matrix c)
  | _ => false                                   (* well-formed files must build *)
  end
  && match c7_dual c with
     | Ok m => if fits c then zmat_eqb m (spec_matrix c) else true
     | _ => false
     end
  && (if fits c then negb (c7_same_dual c =? 0)%N else true)
  && negb (c7_same_matrix c =? 0)%N.

Definition c07_oracle (c : c07case) : bool := c07_oracle_gen c.
(** known finding K3: with '*' listed in bigram.cost the implementation counts it; the oracle with
    '*' counted like a feature must then hold *)
Definition c07_known (c : c07case) : bool :=
  star_listed c && negb (c07_oracle_gen c)
  && match c7_raw c with
     | Ok m => zmat_eqb m (matrix_of (spec_cost (c7_right c) (c7_left c) (c7_cost c)) (S (length (c7_right c))) (S (length (c7_left c))))
     | _ => false
     end
  && match c7_dual c with
     | Ok m => if fits c then zmat_eqb m (matrix_of (spec_cost (c7_right c) (c7_left c) (c7_cost c)) (S (length (c7_right c))) (S (length (c7_left c)))) else true
     | _ => false
     end.

Definition c07_nontrivial (c : c07case) : bool :=
  match c7_raw c with
  | Ok m => Nat.leb 3 (length (filter (fun z => negb (z =? 0)) (concat m)))
  | _ => false
  end.

Definition c07_report := report c07_corr c07_oracle c07_known c07_nontrivial.
