(** C05 / C09: the model of the image format is tied to the code by decoding REAL images
    (every byte consumed, re-encoding reproduces the bytes, sampled strict prefixes are rejected by
    the model too); the oracles read what the harness observed on the implementation. *)
From Vib Require Import Model.Base Model.Codec Model.DictImage.
Local Open Scope N_scope.

Definition bytes_eqb (a b : bytes) : bool := list_eqb N.eqb a b.

(** the model decodes the whole image and re-encodes it to the same bytes *)
Definition image_roundtrip (img : bytes) : bool :=
  match read_image inner_c img with
  | Some (d, []) => bytes_eqb (fst (write_image inner_c d)) img && (snd (write_image inner_c d) =? N.of_nat (length img))
  | _ => false
  end.

Record c09case := {
  c9_image : option bytes;
  c9_len : N;
  c9_prefixes_tested : N;
  c9_prefix_bad : list (N * N);        (* (offset, outcome) with outcome 0 = accepted, 2 = panic *)
  c9_magics_tested : N;
  c9_magic_bad : list (N * N);
  c9_model_offsets : list N
}.

Definition c09_corr (c : c09case) : bool :=
  match c9_image c with
  | None => true
  | Some img =>
      image_roundtrip img
      && forallb (fun k => match read_image inner_c (firstn (N.to_nat k) img) with None => true | Some _ => false end) (c9_model_offsets c)
  end.
Definition c09_oracle (c : c09case) : bool :=
  match c9_prefix_bad c, c9_magic_bad c with [], [] => true | _, _ => false end.
Definition c09_nontrivial (c : c09case) : bool := (1000 <=? c9_prefixes_tested c) && (100 <=? c9_magics_tested c).
Definition c09_report := report c09_corr c09_oracle (fun _ => false) c09_nontrivial.

Record c05case := {
  c5_id : N;                           (* the case's seed *)
  c5_image : option bytes;
  c5_flags : list (str * N)
}.
Definition c05_corr (c : c05case) : bool :=
  match c5_image c with None => true | Some img => image_roundtrip img end.
Definition c05_oracle (c : c05case) : bool := forallb (fun f => (snd f =? 1)) (c5_flags c).
Definition c05_nontrivial (c : c05case) : bool := Nat.leb 6 (length (c5_flags c)).
Definition c05_report := report c05_corr c05_oracle (fun _ => false) c05_nontrivial.
