(** C11: correspondence of the lexicon CSV parser and oracle on the implementation's rows. *)
From Vib Require Import Model.Base Model.Text Model.LexCsv.
Local Open Scope N_scope.

Record c11row := { r_surface : list N; r_lid : N; r_rid : N; r_cost : Z; r_feature : list N }.

Record c11case := {
  c11_wellformed : bool;               (* rendered from rows by the generator (else: arbitrary / corrupted bytes) *)
  c11_text : list N;                   (* the CSV bytes *)
  c11_source : list c11row;            (* the rows it was rendered from, feature = raw bytes as written *)
  c11_parsed : result (list c11row);   (* what Lexicon::parse_csv returned *)
  c11_stored : option (result (list (list N)));  (* None: not compiled for this case; features stored in a dictionary compiled from the same rows, by word id *)
  c11_user : option (result (list (list N)));    (* the same rows loaded as a user lexicon: features by user word id *)
  c11_homs : list (list N * list N)    (* compiled cases: every distinct surface tokenized as a sentence, with (word id * 16 + left id * 4 + right id) of the system-lexicon nodes spanning it, in lattice order (the compiled rows use ids mod 4) *)
}.

Definition row_eqb (a : lexent) (b : c11row) : bool :=
  list_eqb N.eqb (le_surface a) (r_surface b) && (le_lid a =? r_lid b) && (le_rid a =? r_rid b)
  && (le_cost a =? r_cost b)%Z && list_eqb N.eqb (le_feature a) (r_feature b).
Definition crow_eqb (a b : c11row) : bool :=
  list_eqb N.eqb (r_surface a) (r_surface b) && (r_lid a =? r_lid b) && (r_rid a =? r_rid b)
  && (r_cost a =? r_cost b)%Z && list_eqb N.eqb (r_feature a) (r_feature b).

Definition c11_corr (c : c11case) : bool :=
  match parse_lex_csv (c11_text c), c11_parsed c with
  | Ok rows, Ok rows' => forallb2 row_eqb rows rows'
  | Err, Err => true
  | _, _ => false
  end.

(** property: every source row with a non-empty surface becomes exactly one word, in order, with
    its numbers and its feature bytes verbatim; never a panic *)
Definition c11_oracle (c : c11case) : bool :=
  match c11_parsed c with
  | Panic => false
  | Err => negb (c11_wellformed c)
  | Ok rows =>
      if c11_wellformed c
      then forallb2 crow_eqb (filter (fun r => match r_surface r with [] => false | _ => true end) (c11_source c)) rows
      else true
  end.

(** the compiled dictionary holds the feature of every kept row byte for byte (an empty lexicon
    cannot be compiled: crawdad rejects an empty key set) *)
Definition c11_stored_ok (c : c11case) : bool :=
  let kept := filter (fun r => match r_surface r with [] => false | _ => true end) (c11_source c) in
  match c11_stored c with
  | None => true
  | Some (Ok fs) => list_eqb (list_eqb N.eqb) fs (map r_feature kept)
  | Some Err => match kept with [] => true | _ => existsb (fun r => existsb (N.eqb 0) (r_surface r)) kept end
  | Some Panic => false
  end.

(** all rows sharing a surface are kept as distinct homographs: the tokenizer finds, for every
    surface, exactly the kept rows with that surface, in row order *)
Fixpoint ids_with (sf : list N) (rows : list c11row) (i : N) : list N :=
  match rows with
  | [] => []
  | r :: t => (if list_eqb N.eqb (r_surface r) sf then [i * 16 + (r_lid r mod 4) * 4 + r_rid r mod 4] else []) ++ ids_with sf t (N.succ i)
  end.
Definition c11_homs_ok (c : c11case) : bool :=
  let kept := filter (fun r => match r_surface r with [] => false | _ => true end) (c11_source c) in
  forallb (fun h => list_eqb N.eqb (snd h) (ids_with (fst h) kept 0)) (c11_homs c).

(** loaded as a user lexicon the same rows give the same features (an empty user lexicon is rejected) *)
Definition c11_user_ok (c : c11case) : bool :=
  let kept := filter (fun r => match r_surface r with [] => false | _ => true end) (c11_source c) in
  match c11_user c with
  | None => true
  | Some (Ok fs) => list_eqb (list_eqb N.eqb) fs (map r_feature kept)
  | Some Err => match kept with [] => true | _ => existsb (fun r => existsb (N.eqb 0) (r_surface r)) kept end
  | Some Panic => false
  end.

Definition c11_nontrivial (c : c11case) : bool :=
  c11_wellformed c && match c11_parsed c with Ok (_ :: _ :: _) => true | _ => false end.

Definition c11_report := report c11_corr (fun c => c11_oracle c && c11_stored_ok c && c11_user_ok c && c11_homs_ok c) (fun _ => false) c11_nontrivial.
