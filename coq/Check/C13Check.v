(** C13: correspondence of the statistics and oracle on the implementation's observations. *)
From Vib Require Import Model.Base Model.Lattice Model.Tokenizer Model.DictBuild Model.Mapper Model.Float Check.TokCheck.

(** evaluations recounted from the implementation's own lattice dump: one per (node, node of
    the boundary it connects to), plus EOS against the boundary it is connected to *)
Definition dump_events (so : sentobs) : list (N * N) :=
  match so_chars so, so_eos so with
  | [], _ => []
  | _, None => []
  | _, Some eos =>
      let ends := [ {| dn_sn := 0; dn_sw := 0; dn_lex := 0; dn_wid := 0; dn_lid := 65535; dn_rid := 0; dn_midx := 0; dn_mc := 0%Z |} ] :: so_ends so in
      flat_map (fun l => flat_map (fun r => map (fun p => (dn_lid r, dn_rid p)) (nth (N.to_nat (dn_sn r)) ends [])) l) (so_ends so)
      ++ map (fun p => (0%N, dn_rid p)) (nth (N.to_nat (dn_sn eos)) ends [])
  end.

Definition last_counts (sos : list sentobs) : option (list N * list N) :=
  fold_left (fun acc so => match so_counts so with Some c => Some c | None => acc end) sos None.

(** cumulative counts after every sentence = recount of the dumps so far *)
Fixpoint counts_oracle (nl nr : N) (acc : list (N * N)) (sos : list sentobs) : bool :=
  match sos with
  | [] => true
  | so :: rest =>
      let acc' := acc ++ dump_events so in
      match so_counts so with
      | Some (lc, rc) =>
          list_eqb N.eqb (count_ids nl (map fst acc')) lc && list_eqb N.eqb (count_ids nr (map snd acc')) rc
          && counts_oracle nl nr acc' rest
      | None => counts_oracle nl nr acc' rest
      end
  end.

Definition is_perm_from1 (n : nat) (l : list N) : bool :=
  Nat.eqb (length l) (n - 1) && forallb (fun i => Nat.eqb (length (filter (N.eqb i) l)) 1) (ids_from1 n).

Fixpoint sorted_by (le : N -> N -> bool) (l : list N) : bool :=
  match l with
  | [] => true
  | x :: t => match t with [] => true | y :: _ => le x y && sorted_by le t end
  end.

(** the listed statistics are count / total in binary64 (Flocq evaluation of the division the code performs) *)
Definition f64_same (x y : f64) : bool :=
  match f64_cmp x y with
  | Some Eq => true
  | None => match x, y with BinarySingleNaN.B754_nan, BinarySingleNaN.B754_nan => true | _, _ => false end
  | _ => false
  end.
Definition values_ok (cnt ids bits : list N) : bool :=
  let total := Z.of_N (fold_right N.add 0%N cnt) in
  Nat.eqb (length ids) (length bits)
  && forallb (fun p => f64_same (f64_of_bits (Z.of_N (snd p))) (f64_prob (Z.of_N (cnt_of cnt (fst p))) total)) (combine ids bits).
Definition probs_values_ok (lc lo rc ro : list N) (pb : list (list N)) : bool :=
  match pb with
  | [lpb; rpb] => values_ok lc lo lpb && values_ok rc ro rpb
  | [] => true
  | _ => false
  end.

Definition c13_oracle (c : tokcase) : bool :=
  if negb ((tc_built c =? 0)%N && (tc_space_res c =? 0)%N && forallb (fun so => (so_outcome so =? 0)%N) (tc_sents c))
  then true else
  let '(nr, nl) := conn_dims (tc_conn c) in
  match last_counts (tc_sents c) with
  | None => true
  | Some _ => counts_oracle nl nr [] (tc_sents c)
  end
  && match tc_extra c, last_counts (tc_sents c) with
     | lo :: ro :: [acc; same] :: pb, Some (lc, rc) =>
         probs_values_ok lc lo rc ro pb && is_perm_from1 (length lc) lo && sorted_by (before lc) lo
         && is_perm_from1 (length rc) ro && sorted_by (before rc) ro
         && (acc =? 1)%N && (same =? 1)%N
     | lo :: ro :: [acc; same] :: _, None =>
         (* no sentence was counted: counters are all zero; ids in ascending order *)
         list_eqb N.eqb lo (ids_from1 (N.to_nat nl)) && list_eqb N.eqb ro (ids_from1 (N.to_nat nr))
         && (acc =? 1)%N && (same =? 1)%N
     | [], _ => true
     | _, _ => false
     end.

(** correspondence: the generic tokenizer tie (tokens, lattice, counters) + the order *)
Definition c13_corr (c : tokcase) : bool :=
  tok_corr c
  && match tc_extra c, last_counts (tc_sents c) with
     | lo :: ro :: _, Some (lc, rc) => list_eqb N.eqb (probs_order lc) lo && list_eqb N.eqb (probs_order rc) ro
     | _, _ => true
     end.

Definition c13_nontrivial (c : tokcase) : bool :=
  match tc_extra c, last_counts (tc_sents c) with
  | _ :: _ :: _ :: _, Some (lc, _) => Nat.leb 2 (length (filter (fun x => negb (x =? 0)%N) lc))
  | _, _ => false
  end.

Definition c13_report := report c13_corr c13_oracle (fun _ => false) c13_nontrivial.
