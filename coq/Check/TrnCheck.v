(** C14 C15 C16 C18: observations of tiny trainings. The named flags are comparisons made on
    the implementation by the harness (1 = holds); the C18 oracle is computed here from the
    templates, the rewrite rules and the feature columns with the models of Model/Rewriter.v and
    Model/Template.v. *)
From Vib Require Import Model.Base Model.Text Model.Rewriter Model.Template Model.Float Model.LexCsv Model.DefText Model.DictBuild Model.DictGen.
Local Open Scope N_scope.

Record numdata := {
  nd_sets : list (Z * N * N);          (* merged feature sets in label order: weight bits, left id, right id *)
  nd_matrix : list (N * N * Z);        (* merged connection weights: right conn id, left conn id, weight bits *)
  nd_lex : list (N * N * Z);           (* lex.csv rows as emitted: left id, right id, cost *)
  nd_unk : list (N * N * Z);           (* unk.def rows as emitted *)
  nd_matrix_lines : list (N * N * Z);  (* matrix.def lines after the header: right, left, cost *)
  nd_dims : N * N                      (* matrix.def header *)
}.

Record gendata := {
  gd_chardef : list N; gd_lex : list N; gd_unk : list N; gd_user : list N;
  gd_labels : list N; gd_dims : N * N;
  gd_out_lex : list N; gd_out_unk : list N; gd_out_matrix : list N; gd_out_user : list N
}.

Record trncase := {
  tn_id : N;
  tn_flags : list (str * N);
  tn_bigrams : list (str * str);                 (* BIGRAM templates: left part, right part *)
  tn_rewrite_def : str;
  (* views (in-memory model; model read back from write_model), each after the user lexicon was read:
     words (lexicon rows, unk.def rows, 0,0,0 user rows) as feature columns + emitted left / right id,
     then bigram.left and bigram.right (row i = id i+1) *)
  tn_views : list (list (list str * N * N * N) * list (list str) * list (list str));
  (* numbers of the in-memory model after the user lexicon was read: the freshly merged model
     (weights as binary64 bit patterns) and the numeric columns of the emitted files *)
  tn_num : option numdata;
  (* the definition files, the user-entry labels and merged dimensions (hooks), and the four emitted files, as bytes *)
  tn_gen : option gendata
}.

Definition has_prefix (p : str) (f : str * N) : bool := starts_with p (fst f).
Definition flags_ok (p : str) (c : trncase) : bool :=
  forallb (fun f => negb (has_prefix p f) || (snd f =? 1)) (tn_flags c).
Definition flags_count (p : str) (c : trncase) : nat := length (filter (has_prefix p) (tn_flags c)).

Definition P14 : str := [99;49;52;95]. Definition P15 : str := [99;49;53;95]. Definition P16 : str := [99;49;54;95].

(** the cost clause of C14 computed here with exact binary64 arithmetic (Flocq): every emitted cost
    is  ((-w) * (32767.0 / max|w|)) as i16  of the merged model's weight, ids are the merged
    model's, matrix.def lists the connection weights in (right, left) order, ids lie inside the
    header's dimensions *)
Definition nd_scale (nd : numdata) : f64 :=
  f64_scale (map (fun s => f64_of_bits (fst (fst s))) (nd_sets nd) ++ map (fun m => f64_of_bits (snd m)) (nd_matrix nd)).
Definition nd_cost (sc : f64) (bits : Z) : Z := f64_cost sc (f64_of_bits bits).
Definition rlz_eqb (a b : N * N * Z) : bool := ((fst (fst a) =? fst (fst b)) && (snd (fst a) =? snd (fst b)))%N && (snd a =? snd b)%Z.
Definition c14_costs_ok (c : trncase) : bool :=
  match tn_num c with
  | None => true
  | Some nd =>
      let sc := nd_scale nd in
      let exp_rows := map (fun s => (snd (fst s), snd s, nd_cost sc (fst (fst s)))) (nd_sets nd) in
      let nseed := length (nd_lex nd) in
      list_eqb rlz_eqb (firstn nseed exp_rows) (nd_lex nd)
      && list_eqb rlz_eqb (firstn (length (nd_unk nd)) (skipn nseed exp_rows)) (nd_unk nd)
      && list_eqb rlz_eqb (map (fun m => (fst (fst m), snd (fst m), nd_cost sc (snd m))) (fold_right insert_rl [] (nd_matrix nd))) (nd_matrix_lines nd)
      && forallb (fun r => (fst (fst r) <? snd (nd_dims nd)) && (snd (fst r) <? fst (nd_dims nd)))%N (nd_lex nd ++ nd_unk nd)
      && forallb (fun r => (fst (fst r) <? fst (nd_dims nd)) && (snd (fst r) <? snd (nd_dims nd)))%N (nd_matrix_lines nd)
  end.
(** correspondence of C14: the model of write_dictionary (Model/DictGen.v) produces the four emitted files byte for byte *)
Definition c14_gen_ok (c : trncase) : bool :=
  match tn_num c, tn_gen c with
  | Some nd, Some g =>
      match write_dictionary (gd_chardef g) (gd_lex g) (gd_unk g) (gd_user g)
              {| mg_sets := nd_sets nd; mg_matrix := nd_matrix nd; mg_dims := gd_dims g; mg_labels := gd_labels g |} with
      | Ok f => list_eqb N.eqb (gf_lex f) (gd_out_lex g) && list_eqb N.eqb (gf_unk f) (gd_out_unk g)
                && list_eqb N.eqb (gf_matrix f) (gd_out_matrix g) && list_eqb N.eqb (gf_user f) (gd_out_user g)
      | _ => false
      end
  | _, _ => true
  end.
Definition c14_oracle (c : trncase) : bool := flags_ok P14 c && c14_costs_ok c. Definition c15_oracle := flags_ok P15. Definition c16_oracle := flags_ok P16.
(** known finding K7: the trained model has no bigram weight row at all and the first generation
    panics inside rucrf's RawModel::merge *)
Definition K7FLAG : str := [107;55;95;110;111;95;98;105;103;114;97;109;95;119;101;105;103;104;116;115].
Definition k7_class (c : trncase) : bool := existsb (fun f => str_eqb (fst f) K7FLAG && (snd f =? 1)) (tn_flags c).
Definition c14_report := report c14_gen_ok c14_oracle (fun c => k7_class c && negb (c14_oracle c)) (fun c => Nat.leb 5 (flags_count P14 c)).
Definition c15_report := report (fun _ => true) c15_oracle (fun c => k7_class c && negb (c15_oracle c)) (fun c => Nat.leb 4 (flags_count P15 c)).
(** known finding K3 (shared with C07): a bigram template without literal text can expand to '*',
    the marker bigram.left/right use for "no feature" *)
Definition K3FLAG : str := [107;51;95;98;97;114;101;95;116;101;109;112;108;97;116;101].
Definition k3_class (c : trncase) : bool := existsb (fun f => str_eqb (fst f) K3FLAG && (snd f =? 1)) (tn_flags c).
Definition c16_report := report (fun _ => true) c16_oracle (fun c => (k3_class c || k7_class c) && negb (c16_oracle c)) (fun c => Nat.leb 3 (flags_count P16 c)).

(** ** C18 *)
Definition opt_str_eqb (a b : option str) : bool := option_eqb str_eqb a b.
Definition tuple_eqb (a b : list (option str)) : bool := list_eqb opt_str_eqb a b.

(** expanded context tuples of a word: (left-part templates over the left-rewritten features,
    right-part templates over the right-rewritten features) *)
Definition tuples (c : trncase) (rs : rule_sets) (feats : list str) : list (option str) * list (option str) :=
  let lf := rewrite_or_id (build (rs_left rs)) feats in
  let rf := rewrite_or_id (build (rs_right rs)) feats in
  (map (fun b => expand (parse_template 76 (fst b)) lf 0) (tn_bigrams c),
   map (fun b => expand (parse_template 82 (snd b)) rf 0) (tn_bigrams c)).

(** the row listed for an id shows, position by position, the expansion or '*' *)
Definition listed_ok (row : list str) (exp : list (option str)) : bool :=
  forallb2 (fun cell e => str_eqb cell STAR || match e with Some s => str_eqb cell s | None => false end) row exp.

Definition wview := (list (list str * N * N * N) * list (list str) * list (list str))%type.

(** [strict]: judge the sharing of ids only among seed rows (lexicon, unk.def); otherwise also for
    the 0,0,0 user rows read after training (known finding K6) *)
Definition view_ok (strict_only_seed : bool) (c : trncase) (rs : rule_sets) (v : wview) : bool :=
  let '(words, left_rows, right_rows) := v in
  let ws := map (fun w => let '(f, l, r, k) := w in (tuples c rs f, l, r, k)) words in
  forallb (fun a => forallb (fun b =>
    let '(ta, la, ra, ka) := a in let '(tb, lb, rb, kb) := b in
    (strict_only_seed && ((ka =? 2) || (kb =? 2)))
    || ((negb (tuple_eqb (snd ta) (snd tb)) || (la =? lb)) && (negb (tuple_eqb (fst ta) (fst tb)) || (ra =? rb)))) ws) ws
  && forallb (fun a => let '(ta, la, ra, _) := a in
       (1 <=? la) && (1 <=? ra)
       && listed_ok (nth (N.to_nat la - 1) left_rows []) (snd ta)
       && listed_ok (nth (N.to_nat ra - 1) right_rows []) (fst ta)) ws.

Definition c18_oracle_gen (seed_only : bool) (c : trncase) : bool :=
  match parse_rewrite_def (tn_rewrite_def c) with
  | Ok rs => forallb (view_ok seed_only c rs) (tn_views c)
  | _ => false
  end.
Definition P18 : str := [99;49;56;95].
Definition c18_oracle (c : trncase) : bool := c18_oracle_gen false c && flags_ok P18 c.
(** known finding K6: the only failure is a 0,0,0 user row whose tuple coincides with another row's but whose id differs *)
(** ... and, as the listing of K6 says, the connection costs of the two ids are identical: the harness compares the
    connection row and column (and, for an equal surface, the word cost) of every 0,0,0 user row of the reloaded model with
    those of the seed word carrying the same features (flag c14_reload_user_like_seed); a fresh id with other costs is not
    in the class *)
Definition USER_LIKE_SEED : str := [99;49;52;95;114;101;108;111;97;100;95;117;115;101;114;95;108;105;107;101;95;115;101;101;100].
Definition user_like_seed (c : trncase) : bool :=
  forallb (fun f => negb (str_eqb (fst f) USER_LIKE_SEED) || (snd f =? 1)) (tn_flags c).
Definition c18_known (c : trncase) : bool :=
  negb (c18_oracle_gen false c) && c18_oracle_gen true c && flags_ok P18 c && user_like_seed c.

Definition c18_nontrivial (c : trncase) : bool :=
  existsb (fun v : wview => let '(words, left_rows, _) := v in
     Nat.leb 2 (length (nodup N.eq_dec (map (fun w => snd (fst (fst w))) words)))
     && existsb (fun row => existsb (fun cell => negb (str_eqb cell STAR)) row) left_rows) (tn_views c).

Definition c18_report := report (fun _ => true) c18_oracle c18_known c18_nontrivial.

(** ** C17, observed end to end: with templates that expose the columns one by one (L_p:%L[p] /
    R_p:%R[p]) the rows of bigram.left / bigram.right show the left- and right-rewritten features
    exactly as [Trainer::extract_feature_set] used them (first matching rule of the section, the
    ORIGINAL features when no rule matches, the three sections independent of one another) *)
Definition c17t_oracle (c : trncase) : bool :=
  match parse_rewrite_def (tn_rewrite_def c) with
  | Ok rs =>
      forallb (fun v : wview => let '(words, left_rows, right_rows) := v in
        forallb (fun w => let '(f, la, ra, _) := w in let ta := tuples c rs f in
          (1 <=? la) && (1 <=? ra)
          && listed_ok (nth (N.to_nat la - 1) left_rows []) (snd ta)
          && listed_ok (nth (N.to_nat ra - 1) right_rows []) (fst ta)) words) (tn_views c)
  | _ => false
  end.
Definition c17t_report := report (fun _ => true) c17t_oracle (fun _ => false) c18_nontrivial.
