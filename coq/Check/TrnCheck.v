(** C14 C15 C16 C18: observations of tiny trainings. The named flags are comparisons made on
    the implementation by the harness (1 = holds); the C18 oracle is computed here from the
    templates, the rewrite rules and the feature columns with the models of Model/Rewriter.v and
    Model/Template.v. *)
From Vib Require Import Model.Base Model.Text Model.Rewriter Model.Template.
Local Open Scope N_scope.

Record trncase := {
  tn_id : N;
  tn_flags : list (str * N);
  tn_bigrams : list (str * str);                 (* BIGRAM templates: left part, right part *)
  tn_rewrite_def : str;
  tn_words : list (list str * N * N);            (* seed lexicon rows: feature columns, emitted left id, right id *)
  tn_left_rows : list (list str);                (* bigram.left: row i = id i+1 *)
  tn_right_rows : list (list str)
}.

Definition has_prefix (p : str) (f : str * N) : bool := starts_with p (fst f).
Definition flags_ok (p : str) (c : trncase) : bool :=
  forallb (fun f => negb (has_prefix p f) || (snd f =? 1)) (tn_flags c).
Definition flags_count (p : str) (c : trncase) : nat := length (filter (has_prefix p) (tn_flags c)).

Definition P14 : str := [99;49;52;95]. Definition P15 : str := [99;49;53;95]. Definition P16 : str := [99;49;54;95].

Definition c14_oracle := flags_ok P14. Definition c15_oracle := flags_ok P15. Definition c16_oracle := flags_ok P16.
Definition c14_report := report (fun _ => true) c14_oracle (fun _ => false) (fun c => Nat.leb 5 (flags_count P14 c)).
Definition c15_report := report (fun _ => true) c15_oracle (fun _ => false) (fun c => Nat.leb 4 (flags_count P15 c)).
(** known finding K3 (shared with C07): a bigram template without literal text can expand to '*',
    the marker bigram.left/right use for "no feature" *)
Definition K3FLAG : str := [107;51;95;98;97;114;101;95;116;101;109;112;108;97;116;101].
Definition k3_class (c : trncase) : bool := existsb (fun f => str_eqb (fst f) K3FLAG && (snd f =? 1)) (tn_flags c).
Definition c16_report := report (fun _ => true) c16_oracle (fun c => k3_class c && negb (c16_oracle c)) (fun c => Nat.leb 3 (flags_count P16 c)).

(** ** C18 *)
Definition opt_str_eqb (a b : option str) : bool := option_eqb str_eqb a b.
Definition tuple_eqb (a b : list (option str)) : bool := list_eqb opt_str_eqb a b.

(** expanded context tuples of a word: (left-part templates over the left-rewritten features,
    right-part templates over the right-rewritten features) *)
Definition tuples (c : trncase) (rs : rule_sets) (feats : list str) : list (option str) * list (option str) :=
  let lf := rewrite_or_id (build (rs_left rs)) feats in
  let rf := rewrite_or_id (build (rs_right rs)) feats in
  (map (fun b => expand (parse_template 76 (fst b)) lf 0) (tn_bigrams c),
   map (fun b => expand (parse_template 82 (snd b)) rf 0) (tn_bigrams c)).

(** the row listed for an id shows, position by position, the expansion or '*' *)
Definition listed_ok (row : list str) (exp : list (option str)) : bool :=
  forallb2 (fun cell e => str_eqb cell STAR || match e with Some s => str_eqb cell s | None => false end) row exp.

Definition c18_oracle (c : trncase) : bool :=
  match parse_rewrite_def (tn_rewrite_def c) with
  | Ok rs =>
      let ws := map (fun w => let '(f, l, r) := w in (tuples c rs f, l, r)) (tn_words c) in
      (* equal expanded right-context tuples => equal left ids; equal left-context tuples => equal right ids *)
      forallb (fun a => forallb (fun b =>
        let '(ta, la, ra) := a in let '(tb, lb, rb) := b in
        (negb (tuple_eqb (snd ta) (snd tb)) || (la =? lb)) && (negb (tuple_eqb (fst ta) (fst tb)) || (ra =? rb))) ws) ws
      (* the tuple listed for the id is the expansion of every word carrying it *)
      && forallb (fun a => let '(ta, la, ra) := a in
           (1 <=? la) && (1 <=? ra)
           && listed_ok (nth (N.to_nat la - 1) (tn_left_rows c) []) (snd ta)
           && listed_ok (nth (N.to_nat ra - 1) (tn_right_rows c) []) (fst ta)) ws
  | _ => false
  end.

Definition c18_nontrivial (c : trncase) : bool :=
  Nat.leb 2 (length (nodup N.eq_dec (map (fun w => snd (fst w)) (tn_words c))))
  && existsb (fun row => existsb (fun cell => negb (str_eqb cell STAR)) row) (tn_left_rows c).

Definition c18_report := report (fun _ => true) c18_oracle (fun _ => false) c18_nontrivial.
