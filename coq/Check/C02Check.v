(** C02: oracle on the implementation's dump and tokens. *)
From Vib Require Import Model.Base Model.Lattice Model.Tokenizer Model.DictBuild Spec.ViterbiSpec Check.TokCheck.
Local Open Scope Z_scope.

Definition ocand_of (d : dict) (n : dnode) : option ocand :=
  match word_info d (dn_lex n) (dn_wid n) with
  | Some (wc, _) => Some (N.to_nat (dn_sn n), dn_lid n, dn_rid n, wc)
  | None => None
  end.

Fixpoint all_some_l {A} (l : list (option A)) : option (list A) :=
  match l with
  | [] => Some []
  | None :: _ => None
  | Some x :: t => match all_some_l t with Some r => Some (x :: r) | None => None end
  end.

(** every reported token is a dumped candidate linked to the previous token's end *)
Fixpoint tokens_in_dump (ends : list (list dnode)) (prev_end : N) (ts : list dtoken) : bool :=
  match ts with
  | [] => true
  | t :: rest =>
      existsb (fun n => (dn_sn n =? prev_end)%N && (dn_sw n =? dt_cs t)%N && (dn_lex n =? dt_lex t)%N
                        && (dn_wid n =? dt_wid t)%N && (dn_lid n =? dt_lid t)%N && (dn_rid n =? dt_rid t)%N
                        && (dn_mc n =? dt_total t))
              (nth (N.to_nat (dt_ce t) - 1) ends [])
      && tokens_in_dump ends (dt_ce t) rest
  end.

Definition last_end (ts : list dtoken) : N := match rev ts with t :: _ => dt_ce t | [] => 0%N end.

Definition sent_oracle_c02 (d : dict) (so : sentobs) : bool :=
  match so_chars so, so_eos so with
  | [], _ => true
  | _, None => (so_outcome so =? 2)%N          (* a panic is C01's concern *)
  | _, Some eos =>
      match all_some_l (map (fun l => all_some_l (map (ocand_of d) l)) (so_ends so)) with
      | None => false
      | Some ends =>
          match opt_cost (conn_of d) ends (N.to_nat (dn_sn eos)) with
          | None => false
          | Some opt =>
              (dn_mc eos =? opt)
              && tokens_in_dump (so_ends so) 0%N (so_tokens so)
              && (last_end (so_tokens so) =? dn_sn eos)%N
              && match totals_ok (conn_of d) 0%N 0
                         (map (fun t => (dt_lid t, dt_rid t, dt_wcost t, dt_total t)) (so_tokens so)) with
                 | Some (r, acc) => acc + conn_of d r 0%N =? opt
                 | None => false
                 end
          end
      end
  end.

Definition c02_oracle (c : tokcase) : bool :=
  match build_dict c with
  | Ok (d, _) => forallb (sent_oracle_c02 d) (tc_sents c)
  | _ => true
  end.

(** non-trivial: some sentence whose lattice offers more candidates than the reported path uses *)
Definition c02_report := report tok_corr c02_oracle (fun _ => false) tok_nontrivial.
