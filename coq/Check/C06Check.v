(** C06: operation histories on a dictionary. Model: a state machine over the composed id
    tables; correspondence: outcomes of every operation, stored mapper, and the full tokenizer
    tie on the final dictionary (rows renamed by the model). Oracle: the implementation's final
    tokens are the base tokens with ids renamed by the composed permutation, connection costs
    between renamed ids equal the original ones, nothing panics, malformed mappings give Err. *)
From Vib Require Import Model.Base Model.Lattice Model.Tokenizer Model.DictBuild Model.Mapper Check.TokCheck.

Inductive mop := OpMap (l r : list N) | OpUser (u : option (list lexrow)) | OpWriteRead.

Record c06case := {
  c6_base : tokcase;
  c6_ops : list mop;
  c6_outcomes : list N;
  c6_final : tokcase;
  c6_mapper : option (list N * list N);
  c6_bad : option (mop * N)
}.

Definition tget (t : list N) (id : N) : N := nth (N.to_nat id) t 0%N.
Definition compose (old new : list N) : list N := map (tget new) old.
Definition ident (n : nat) : list N := map N.of_nat (seq 0 n).

(** [Dictionary::map_connection_ids_from_iter] up to the point where it can fail *)
Definition check_map (nl nr : nat) (l r : list N) : result (list N * list N) :=
  do t <- mapper_from_iter l r ;;
  if Nat.eqb (length (fst t)) nl && Nat.eqb (length (snd t)) nr then Ok t else Err.

Definition user_ok (nl nr : nat) (rows : list lexrow) : bool :=
  match rows with [] => false | _ => true end
  && forallb (fun r => negb (existsb (N.eqb 0) (lr_surface r))) rows
  && forallb (fun r => (lr_lid r <? N.of_nat nl)%N && (lr_rid r <? N.of_nat nr)%N) rows.

(** state: composed tables (None = never mapped); returns the outcomes and the final tables *)
Fixpoint run_ops (nl nr : nat) (ops : list mop) (st : option (list N * list N)) : list N * option (list N * list N) :=
  match ops with
  | [] => ([], st)
  | op :: rest =>
      match op with
      | OpMap l r =>
          match check_map nl nr l r with
          | Ok (lt, rt) =>
              let st' := match st with
                         | None => Some (lt, rt)
                         | Some (l0, r0) => Some (compose l0 lt, compose r0 rt)
                         end in
              let '(o, f) := run_ops nl nr rest st' in (0%N :: o, f)
          | Err => ([1%N], st)
          | Panic => ([2%N], st)
          end
      | OpUser (Some rows) =>
          if user_ok nl nr rows then let '(o, f) := run_ops nl nr rest st in (0%N :: o, f) else ([1%N], st)
      | OpUser None | OpWriteRead => let '(o, f) := run_ops nl nr rest st in (0%N :: o, f)
      end
  end.

Definition dims (c : tokcase) : nat * nat := (length (hd [] (tc_conn c)), length (tc_conn c)).   (* (nl, nr) *)

Definition ren_lexrow (lt rt : list N) (r : lexrow) : lexrow :=
  {| lr_surface := lr_surface r; lr_lid := tget lt (lr_lid r); lr_rid := tget rt (lr_rid r); lr_cost := lr_cost r; lr_feature := lr_feature r |}.
Definition ren_unkline (lt rt : list N) (u : unkline) : unkline :=
  {| ul_cate := ul_cate u; ul_lid := tget lt (ul_lid u); ul_rid := tget rt (ul_rid u); ul_cost := ul_cost u; ul_feature := ul_feature u |}.

(** the final dictionary as the model predicts it: source rows with renamed ids (the
    connection costs are the implementation's, observed for every id pair) *)
Definition predicted_final (c : c06case) (st : option (list N * list N)) : tokcase :=
  let f := c6_final c in
  match st with
  | None => f
  | Some (lt, rt) =>
      {| tc_chardef := tc_chardef f; tc_unk := map (ren_unkline lt rt) (tc_unk f);
         tc_sys := map (ren_lexrow lt rt) (tc_sys f); tc_user := option_map (map (ren_lexrow lt rt)) (tc_user f);
         tc_built := tc_built f; tc_conn := tc_conn f; tc_ignore_space := tc_ignore_space f;
         tc_space_res := tc_space_res f; tc_mgl := tc_mgl f; tc_sents := tc_sents f; tc_extra := tc_extra f |}
  end.

Definition tables_eqb (a b : option (list N * list N)) : bool :=
  match a, b with
  | None, None => true
  | Some (l1, r1), Some (l2, r2) => list_eqb N.eqb l1 l2 && list_eqb N.eqb r1 r2
  | _, _ => false
  end.

Definition all_ok (l : list N) : bool := forallb (N.eqb 0) l.

Definition c06_corr (c : c06case) : bool :=
  tok_corr (c6_base c)
  && if negb ((tc_built (c6_base c) =? 0)%N) then true else
     let '(nl, nr) := dims (c6_base c) in
     let '(outs, st) := run_ops nl nr (c6_ops c) None in
     list_eqb N.eqb outs (c6_outcomes c)
     && (if all_ok outs && Nat.eqb (length outs) (length (c6_ops c))
         then tables_eqb st (c6_mapper c) && tok_corr (predicted_final c st)
         else true)
     && match c6_bad c with
        | Some (op, out) =>
            if all_ok outs && Nat.eqb (length outs) (length (c6_ops c))
            then (match fst (run_ops nl nr [op] st) with [o] => (o =? out)%N | _ => false end)
            else true
        | None => true
        end.

(** ** oracle *)
Definition ren_dtoken (lt rt : list N) (t : dtoken) : dtoken :=
  {| dt_cs := dt_cs t; dt_ce := dt_ce t; dt_bs := dt_bs t; dt_be := dt_be t; dt_surface := dt_surface t; dt_lex := dt_lex t;
     dt_wid := dt_wid t; dt_feature := dt_feature t; dt_lid := tget lt (dt_lid t); dt_rid := tget rt (dt_rid t);
     dt_wcost := dt_wcost t; dt_total := dt_total t |}.

Definition conn_at (m : list (list Z)) (r l : N) : Z := nth (N.to_nat l) (nth (N.to_nat r) m []) 0%Z.

(** the permutation the valid mappings amount to, computed from the operations alone *)
Fixpoint spec_tables (nl nr : nat) (ops : list mop) (lt rt : list N) : list N * list N :=
  match ops with
  | [] => (lt, rt)
  | OpMap l r :: rest =>
      match mapper_parse l, mapper_parse r with
      | Ok tl, Ok tr => spec_tables nl nr rest (compose lt tl) (compose rt tr)
      | _, _ => (lt, rt)
      end
  | _ :: rest => spec_tables nl nr rest lt rt
  end.

Definition c06_oracle (c : c06case) : bool :=
  if negb ((tc_built (c6_base c) =? 0)%N) then true else
  let '(nl, nr) := dims (c6_base c) in
  (* nothing panics; a malformed mapping is an error *)
  forallb (fun o => negb (o =? 2)%N) (c6_outcomes c)
  && match c6_bad c with Some (_, out) => (out =? 1)%N || negb (all_ok (c6_outcomes c)) | None => true end
  && (if negb (all_ok (c6_outcomes c) && Nat.eqb (length (c6_outcomes c)) (length (c6_ops c))) then true else
      let '(lt, rt) := spec_tables nl nr (c6_ops c) (ident nl) (ident nr) in
      (tc_built (c6_final c) =? 0)%N
      (* cost between mapped ids = original cost between original ids, every pair *)
      && forallb (fun r => forallb (fun l =>
            (conn_at (tc_conn (c6_final c)) (tget rt (N.of_nat r)) (tget lt (N.of_nat l))
             =? conn_at (tc_conn (c6_base c)) (N.of_nat r) (N.of_nat l))%Z) (seq 0 nl)) (seq 0 nr)
      (* same tokens, ids renamed consistently *)
      && forallb2 (fun sb sf => (so_outcome sb =? so_outcome sf)%N
                                && list_eqb dtoken_eqb (map (ren_dtoken lt rt) (so_tokens sb)) (so_tokens sf))
                  (tc_sents (c6_base c)) (tc_sents (c6_final c))).

Definition c06_nontrivial (c : c06case) : bool :=
  all_ok (c6_outcomes c)
  && existsb (fun op => match op with OpMap l _ => negb (list_eqb N.eqb l (map N.of_nat (seq 1 (length l)))) | _ => false end) (c6_ops c)
  && existsb (fun so => Nat.leb 2 (length (so_tokens so))) (tc_sents (c6_final c)).

Definition c06_report := report c06_corr c06_oracle (fun _ => false) c06_nontrivial.
