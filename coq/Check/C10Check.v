(** C10: the builders are total and acceptance implies safe use. *)
From Vib Require Import Model.Base Model.Lattice Model.Tokenizer Model.DictBuild Model.Mapper Check.TokCheck Check.C01Check Check.C06Check.

Inductive c10case :=
| C10Struct (c : tokcase)                                   (* structured dictionary, possibly malformed: model vs implementation *)
| C10Text (id : N) (file : N) (built : N) (sents : list (N * bool))
| C10Bigram (id : N) (edited : N) (dual : bool) (built : N) (sents : list (N * bool))   (* the dictionary with a raw/dual connector from bigram files, valid or with one text edit *)
| C10Map (id : N) (nl nr : N) (lmap rmap : list N) (outcome : N) (sents : list (N * bool)).   (* an arbitrary mapping sequence on an accepted dictionary *)  (* one text edit of one definition file: outcomes only *)

Definition c10_corr (c : c10case) : bool :=
  match c with
  | C10Struct t => tok_corr t
  | C10Text _ _ _ _ => true
  | C10Bigram _ _ _ _ _ => true
  | C10Map _ nl nr l r out _ => (res_code (check_map (N.to_nat nl) (N.to_nat nr) l r) =? out)%N
  end.

(** never a panic while building; an accepted dictionary never panics while tokenizing, except for
    the known finding K1 (a character whose primary category has no unk.def row) *)
Definition c10_oracle_all (c : c10case) : bool :=
  match c with
  | C10Struct t =>
      negb (tc_built t =? 2)%N
      && forallb (fun so => negb (so_outcome so =? 2)%N) (tc_sents t)
  | C10Text _ _ built sents => negb (built =? 2)%N && forallb (fun s => negb (fst s =? 2)%N) sents
  | C10Bigram _ _ _ built sents => negb (built =? 2)%N && forallb (fun s => negb (fst s =? 2)%N) sents
  | C10Map _ _ _ _ _ out sents => negb (out =? 2)%N && forallb (fun s => negb (fst s =? 2)%N) sents
  end.
Definition c10_known (c : c10case) : bool :=
  negb (c10_oracle_all c)
  && match c with
     | C10Struct t =>
         negb (tc_built t =? 2)%N
         && with_dict t false (fun d o => forallb (fun so => negb (so_outcome so =? 2)%N || uncovered d so) (tc_sents t))
     | C10Text _ _ built sents => negb (built =? 2)%N && forallb (fun s => negb (fst s =? 2)%N || snd s) sents
     | C10Bigram _ _ _ built sents => negb (built =? 2)%N && forallb (fun s => negb (fst s =? 2)%N || snd s) sents
     | C10Map _ _ _ _ _ out sents => negb (out =? 2)%N && forallb (fun s => negb (fst s =? 2)%N || snd s) sents
     end.

Definition c10_nontrivial (c : c10case) : bool :=
  match c with
  | C10Struct t => negb (tc_built t =? 0)%N || existsb (fun so => Nat.leb 2 (length (so_tokens so))) (tc_sents t)
  | C10Text _ _ built _ => (built =? 1)%N
  | C10Bigram _ e _ built _ => (built =? 1)%N || (e =? 0)%N
  | C10Map _ _ _ _ _ out _ => (out =? 1)%N
  end.

Definition c10_report (cases : list c10case) : list N * list N * list N * N :=
  (failing (map c10_corr cases),
   failing (map (fun c => c10_oracle_all c || c10_known c) cases),
   failing (map (fun c => negb (c10_known c)) cases),
   count_true (map c10_nontrivial cases)).
