(** C10: the builders are total and acceptance implies safe use. *)
From Vib Require Import Model.Base Model.Text Model.Lattice Model.Tokenizer Model.DictBuild Model.LexCsv Model.DefText Model.BigramText Model.Mapper Check.TokCheck Check.C01Check Check.C06Check.

Inductive c10case :=
| C10Struct (c : tokcase)                                   (* structured dictionary, possibly malformed: model vs implementation *)
| C10Text (id : N) (file : N) (chardef_txt unk_txt matrix_txt lex_txt : str) (user_txt : option str)
          (built : N) (conn : list (list Z)) (ignore_space : bool) (space_res : N) (mgl : N)
          (obs : list sentobs) (sents : list (N * bool))     (* one text edit of one definition file: the whole build and the tokenization are compared with the text-level model *)
| C10Bigram (id : N) (edited : N) (dual : bool) (built : N) (sents : list (N * bool)) (rtxt ltxt ctxt : str) (maxl maxr : N) (base_ok : bool)   (* the dictionary with a raw/dual connector from bigram files, valid or with one text edit *)
| C10BigMap (id : N) (nl nr : N) (outcome : N) (sents : list (N * bool))   (* a VALID permutation of all ids of a connector with 65536 ids on one side: must be accepted *)
| C10Invalid (id : N) (which : N) (built : N)   (* a definition file with a byte that is not UTF-8: must be an error *)
| C10Map (id : N) (nl nr : N) (lmap rmap : list N) (outcome : N) (sents : list (N * bool)).   (* an arbitrary mapping sequence on an accepted dictionary *)  (* one text edit of one definition file: outcomes only *)

(** the definition files at text level: every file parsed by its model, then the structured model *)
Definition text_case (ctxt utxt mtxt ltxt : str) (usr : option str) (built : N) (isp : bool) (sres mgl : N) (obs : list sentobs)
  : result tokcase :=
  do ls <- parse_lex_csv ltxt ;;
  do m <- parse_matrix_text mtxt ;;
  do cd <- parse_chardef_text ctxt ;;
  do us <- parse_lex_csv utxt ;;
  do ur <- match usr with Some t => do r <- parse_lex_csv t ;; Ok (Some (lexrows_of r)) | None => Ok None end ;;
  Ok {| tc_chardef := cd; tc_unk := unklines_of us; tc_sys := lexrows_of ls; tc_user := ur; tc_built := built;
        tc_conn := m; tc_ignore_space := isp; tc_space_res := sres; tc_mgl := mgl; tc_sents := obs; tc_extra := [] |}.

Definition c10_corr (c : c10case) : bool :=
  match c with
  | C10Struct t => tok_corr t
  | C10Text _ _ ctxt utxt mtxt ltxt usr built conn isp sres mgl obs _ =>
      match text_case ctxt utxt mtxt ltxt usr built isp sres mgl obs with
      | Err => (built =? 1)%N
      | Ok tc => tok_corr tc && (negb (built =? 0)%N || list_eqb (list_eqb Z.eqb) (tc_conn tc) conn)
      | Panic => false
      end
  | C10Bigram _ _ _ built _ rtxt ltxt ctxt maxl maxr base_ok => negb base_ok || (bigram_build_code rtxt ltxt ctxt maxl maxr =? built)%N   (* text-level model of the three bigram files *)
  | C10Map _ nl nr l r out _ => (res_code (check_map (N.to_nat nl) (N.to_nat nr) l r) =? out)%N
  | C10Invalid _ _ built => (built =? 1)%N
  | C10BigMap _ _ _ out _ => (out =? 0)%N       (* the model accepts every valid permutation: c06_parse_accepts_iff *)
  end.

(** never a panic while building; an accepted dictionary never panics while tokenizing, except for
    the known finding K1 (a character whose primary category has no unk.def row) *)
Definition c10_oracle_all (c : c10case) : bool :=
  match c with
  | C10Struct t =>
      negb (tc_built t =? 2)%N
      && forallb (fun so => negb (so_outcome so =? 2)%N) (tc_sents t)
  | C10Text _ _ _ _ _ _ _ built _ _ _ _ _ sents => negb (built =? 2)%N && forallb (fun s => negb (fst s =? 2)%N) sents
  | C10Bigram _ _ _ built sents _ _ _ _ _ _ => negb (built =? 2)%N && forallb (fun s => negb (fst s =? 2)%N) sents
  | C10Map _ _ _ _ _ out sents => negb (out =? 2)%N && forallb (fun s => negb (fst s =? 2)%N) sents
  | C10BigMap _ _ _ out sents => negb (out =? 2)%N && forallb (fun s => negb (fst s =? 2)%N) sents
  | C10Invalid _ _ built => negb (built =? 2)%N
  end.
Definition c10_known (c : c10case) : bool :=
  negb (c10_oracle_all c)
  && match c with
     | C10Struct t =>
         negb (tc_built t =? 2)%N
         && with_dict t false (fun d o => forallb (fun so => negb (so_outcome so =? 2)%N || uncovered d so) (tc_sents t))
     | C10Text _ _ _ _ _ _ _ built _ _ _ _ _ sents => negb (built =? 2)%N && forallb (fun s => negb (fst s =? 2)%N || snd s) sents
     | C10Bigram _ _ _ built sents _ _ _ _ _ _ => negb (built =? 2)%N && forallb (fun s => negb (fst s =? 2)%N || snd s) sents
     | C10Map _ _ _ _ _ out sents => negb (out =? 2)%N && forallb (fun s => negb (fst s =? 2)%N || snd s) sents
     | C10BigMap _ _ _ out sents => negb (out =? 2)%N && forallb (fun s => negb (fst s =? 2)%N || snd s) sents
     | C10Invalid _ _ _ => false
     end.

Definition c10_nontrivial (c : c10case) : bool :=
  match c with
  | C10Struct t => negb (tc_built t =? 0)%N || existsb (fun so => Nat.leb 2 (length (so_tokens so))) (tc_sents t)
  | C10Text _ _ _ _ _ _ _ built _ _ _ _ _ _ => (built =? 1)%N
  | C10Bigram _ e _ built _ _ _ _ _ _ _ => (built =? 1)%N || (e =? 0)%N
  | C10Map _ _ _ _ _ out _ => (out =? 1)%N
  | C10BigMap _ _ _ _ _ => true
  | C10Invalid _ _ _ => true
  end.

Definition c10_report (cases : list c10case) : list N * list N * list N * N :=
  (failing (map c10_corr cases),
   failing (map (fun c => c10_oracle_all c || c10_known c) cases),
   failing (map (fun c => negb (c10_known c)) cases),
   count_true (map c10_nontrivial cases)).
