(** C03: oracle on the implementation's observations.  Character infos are compared with the
    declarative lookup in the char.def range lines; the candidates found in the lattice dump
    at every processed start position are compared, as multisets, with the declarative
    candidate set computed from the source rows, the implementation's character infos and an
    independent run-length function. *)
From Vib Require Import Model.Base Model.Lattice Model.Tokenizer Model.DictBuild Spec.CandSpec Check.TokCheck Check.C01Check.

Definition cinfo_of_tuple (t : N * N * bool * bool * N) : cinfo :=
  let '(a, b, i, g, l) := t in {| ci_cates := a; ci_base := b; ci_invoke := i; ci_group := g; ci_length := N.to_nat l |}.

(** character infos: outside the known finding K2 / inside it *)
Definition cinfos_ok (d : dict) (so : sentobs) : bool :=
  forallb2 (fun c t => cinfo_tuple_eqb (cinfo_tuple (cinfo_spec (d_chars d) c)) t) (so_chars so) (so_cinfos so).
Definition cinfos_known_k2 (d : dict) (so : sentobs) : bool :=
  forallb2 (fun c t => cinfo_tuple_eqb (cinfo_tuple (cinfo_spec (d_chars d) c)) t
                       || ((65536 <=? c)%N && cinfo_tuple_eqb (cinfo_tuple (cinfo_spec (d_chars d) 0%N)) t))
           (so_chars so) (so_cinfos so).

Definition obs_cand := (nat * N * N * N * N)%type.   (* end, lex, word id, left id, right id *)
Definition obs_cand_eqb (a b : obs_cand) : bool :=
  let '(e1, x1, w1, l1, r1) := a in let '(e2, x2, w2, l2, r2) := b in
  Nat.eqb e1 e2 && (x1 =? x2)%N && (w1 =? w2)%N && (l1 =? l2)%N && (r1 =? r2)%N.

Fixpoint remove1 (x : obs_cand) (l : list obs_cand) : option (list obs_cand) :=
  match l with
  | [] => None
  | y :: t => if obs_cand_eqb x y then Some t else option_map (cons y) (remove1 x t)
  end.
Fixpoint perm_eqb (l1 l2 : list obs_cand) : bool :=
  match l1 with
  | [] => match l2 with [] => true | _ => false end
  | x :: t => match remove1 x l2 with Some l2' => perm_eqb t l2' | None => false end
  end.

Definition lex_spec (lex : N) (rows : list lexrow) (sw : nat) (suffix : list N) : list obs_cand :=
  flat_map (fun jr => match lr_surface (snd jr) with
                      | [] => []
                      | _ => if is_prefix_b (lr_surface (snd jr)) suffix
                             then [(sw + length (lr_surface (snd jr)), lex, fst jr, lr_lid (snd jr), lr_rid (snd jr))]
                             else []
                      end) (index_from 0 rows).

Definition spec_cands (d : dict) (o : options) (chars : list N) (cis : list cinfo) (sw : nat) : list obs_cand :=
  let suffix := skipn sw chars in
  let u := match d_user d with Some rows => lex_spec 1%N rows sw suffix | None => [] end in
  let m := lex_spec 0%N (d_sys d) sw suffix in
  let matched := match u ++ m with [] => false | _ => true end in
  let ci := nth sw cis dummy_ci in
  u ++ m ++ flat_map (fun k => flat_map (fun ju => if (ur_cate (snd ju) =? ci_base ci)%N
                                                    then [(sw + k, 2%N, fst ju, ur_lid (snd ju), ur_rid (snd ju))] else [])
                                         (index_from 0 (d_unk d)))
                     (unk_lens_spec ci (run_at (skipn sw cis)) matched (o_mgl o)).

Definition dump_nodes (so : sentobs) : list (nat * dnode) :=
  concat (map (fun en => map (fun n => (fst en, n)) (snd en)) (combine (seq 1 (length (so_ends so))) (so_ends so))).

Definition key_eqb (a b : N * N) : bool := (fst a =? fst b)%N && (snd a =? snd b)%N.
Fixpoint nodup_keys (l : list (N * N)) : list (N * N) :=
  match l with
  | [] => []
  | x :: t => if existsb (key_eqb x) t then nodup_keys t else x :: nodup_keys t
  end.

Definition reachable (so : sentobs) (p : nat) : bool :=
  match p with O => true | S p' => match nth p' (so_ends so) [] with [] => false | _ => true end end.

Definition cands_ok (d : dict) (o : options) (so : sentobs) : bool :=
  let cis := map cinfo_of_tuple (so_cinfos so) in
  let nodes := dump_nodes so in
  let keys := nodup_keys (map (fun en => (dn_sn (snd en), dn_sw (snd en))) nodes) in
  (* run lengths as reported = maximal runs *)
  list_eqb N.eqb (so_group so) (map (fun i => N.of_nat (run_at (skipn i cis))) (seq 0 (length cis)))
  (* every processed start position holds exactly the specified candidates *)
  && forallb (fun k =>
        reachable so (N.to_nat (fst k))
        && perm_eqb (map (fun en => (fst en, dn_lex (snd en), dn_wid (snd en), dn_lid (snd en), dn_rid (snd en)))
                         (filter (fun en => key_eqb (dn_sn (snd en), dn_sw (snd en)) k) nodes))
                    (spec_cands d o (so_chars so) cis (N.to_nat (snd k)))) keys
  (* without ignore_space every reachable position was processed *)
  && match o_space o with
     | Some _ => true
     | None => forallb (fun p => negb (reachable so p)
                                 || Bool.eqb (existsb (key_eqb (N.of_nat p, N.of_nat p)) keys)
                                             (match spec_cands d o (so_chars so) cis p with [] => false | _ => true end))
                       (seq 0 (length (so_chars so)))
     end.

Definition sent_ok_c03 (d : dict) (o : options) (so : sentobs) : bool :=
  if (so_outcome so =? 0)%N then
    match so_chars so with [] => true | _ => cands_ok d o so end
  else true.     (* a panic is C01's concern *)

Definition c03_oracle_all (c : tokcase) : bool :=
  with_dict c true (fun d o => forallb (fun so => cinfos_ok d so && sent_ok_c03 d o so) (tc_sents c)).
(** known finding K2: the only failures are astral characters reported with the info of U+0000 *)
Definition c03_known (c : tokcase) : bool :=
  negb (c03_oracle_all c)
  && with_dict c false (fun d o => forallb (fun so => cinfos_known_k2 d so && sent_ok_c03 d o so) (tc_sents c)).

Definition c03_nontrivial (c : tokcase) : bool :=
  existsb (fun so => (so_outcome so =? 0)%N && existsb (fun t => (dt_lex t =? 2)%N) (so_tokens so)
                     && existsb (fun n => negb (dn_lex (snd n) =? 2)%N) (dump_nodes so)) (tc_sents c).

Definition c03_report (cases : list tokcase) : list N * list N * list N * N :=
  (failing (map tok_corr cases),
   failing (map (fun c => c03_oracle_all c || c03_known c) cases),
   failing (map (fun c => negb (c03_known c)) cases),
   count_true (map c03_nontrivial cases)).
