(** C15: the model of the model-file layout (Model/TrainImage.v) against real files written by
    [Model::write_model], and the invariants of what it decodes. *)
From Vib Require Import Model.Base Model.Codec Model.DictImage Model.TrainImage.
Local Open Scope N_scope.

Record mdlcase := {
  md_id : N;
  md_bytes : list N;           (* the file written by write_model *)
  md_uni : list str;           (* UNIGRAM templates of feature.def, in order *)
  md_left : list str;          (* left / right parts of the BIGRAM templates *)
  md_right : list str;
  md_surfaces : list str;      (* surfaces of the seed lexicon rows, in order *)
  md_again_len : N             (* length of write_model (read_model file): the same file up to the order of the id tables *)
}.

Definition tpl_raw (t : ptemplate) : str := fst t.

(** invariants of the stored configuration that every later generation relies on: ids distinct and below the
    next id (training prunes unused features, so the ids need not be dense) *)
Definition ids_ok (t : idtable) (next : N) : bool :=
  forallb (fun e => (snd e <? next) && Nat.eqb (length (filter (fun e' => snd e' =? snd e) t)) 1) t.
Definition captures_ok (t : ptemplate) : bool :=
  let n := N.of_nat (length (fst t)) in
  (fix go (cs : list ((N * N) * (N + unit))) (from : N) : bool :=
     match cs with
     | [] => true
     | ((a, b), _) :: rest => (from <=? a) && (a <? b) && (b <=? n) && go rest b
     end) (snd (snd t)) 0.
Definition rewriter_ok (r : rewriter) : bool :=
  let n := N.of_nat (length r) in
  negb (n =? 0)
  && forallb (fun node => forallb (fun a => match a with inl (_, target) => target <? n | inr _ => true end) node) r.

(** one decoding per case: (correspondence, oracle, non-trivial)
    correspondence: the layout model reads the whole configuration out of the real file, re-encodes it to the
    same bytes (lossless), and finds in it what the definition files said *)
Definition mdl_eval (c : mdlcase) : bool * bool * bool :=
  match read_model config_c (md_bytes c) with
  | Some (cfg, raw) =>
      let ex := fst cfg in
      let nu := fst (snd (snd (snd ex))) in
      let nl := fst (snd (snd (snd (snd ex)))) in
      let nr := fst (snd (snd (snd (snd (snd ex))))) in
      let tu := fst (snd (snd (snd (snd (snd (snd ex)))))) in
      let tl := fst (snd (snd (snd (snd (snd (snd (snd ex))))))) in
      let tr := snd (snd (snd (snd (snd (snd (snd (snd ex))))))) in
      (list_eqb N.eqb (write_model config_c cfg raw) (md_bytes c)
       && list_eqb str_eqb (map tpl_raw tu) (md_uni c)
       && list_eqb str_eqb (map tpl_raw tl) (md_left c)
       && list_eqb str_eqb (map tpl_raw tr) (md_right c)
       && list_eqb str_eqb (snd (snd (snd (snd (snd cfg))))) (md_surfaces c)
       && negb (match raw with [] => true | _ => false end),
       ids_ok (fst ex) nu && ids_ok (fst (snd ex)) nl && ids_ok (fst (snd (snd ex))) nr
       && forallb captures_ok tu && forallb captures_ok tl && forallb captures_ok tr
       && rewriter_ok (fst (snd cfg)) && rewriter_ok (fst (snd (snd cfg))) && rewriter_ok (fst (snd (snd (snd cfg))))
       (* the file written from the re-read model is the same file up to the order of the three id tables *)
       && (md_again_len c =? N.of_nat (length (md_bytes c))),
       Nat.leb 2 (length (fst ex)) && Nat.leb 1 (length (fst (snd ex))))
  | None => (false, false, false)
  end.

Definition mdl_report (cases : list mdlcase) : list N * list N * list N * N :=
  let rs := map mdl_eval cases in
  (failing (map (fun r => fst (fst r)) rs), failing (map (fun r => snd (fst r)) rs), [], count_true (map snd rs)).
