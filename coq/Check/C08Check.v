(** C08: oracle on the implementation's observations. [so_alt] of a sentence holds, for cases
    with a user lexicon: tokens on a fresh worker; on a system lexicon extended by the user rows;
    after load(other) then load(user) (replace); after load(user) then load(None) (clear); on a
    dictionary that never had a user lexicon. *)
From Vib Require Import Model.Base Model.Lattice Model.Tokenizer Model.DictBuild Spec.CandSpec Check.TokCheck Check.C01Check Check.C03Check.
Local Open Scope Z_scope.

(** cost of a reported path including the connection to EOS *)
Definition path_cost (d : dict) (ts : list dtoken) : Z :=
  match rev ts with
  | [] => conn_of d 0%N 0%N
  | t :: _ => dt_total t + conn_of d (dt_rid t) 0%N
  end.

(** same segmentation-independent facts: the merged dictionary must reach the same optimum *)
Definition sent_oracle_c08 (d : dict) (o : options) (so : sentobs) : bool :=
  if negb (so_outcome so =? 0)%N then true else
  match so_alt so with
  | [fresh; merged; replaced; cleared; nouser] =>
      list_eqb dtoken_eqb fresh (so_tokens so)
      && (path_cost d merged =? path_cost d (so_tokens so))
      && list_eqb dtoken_eqb replaced (so_tokens so)
      && list_eqb dtoken_eqb cleared nouser
      (* words of the user lexicon are reported as user-lexicon tokens, system words as system tokens *)
      && forallb (entry_oracle d) (so_tokens so)
  | _ => true
  end.

(** a user lexicon naming a connection id outside the connector must be rejected (Err), and an
    accepted dictionary never panics later on such an id *)
Definition user_in_range (c : tokcase) : bool :=
  let '(nr, nl) := conn_dims (tc_conn c) in
  match tc_user c with
  | Some rows => forallb (fun r => (lr_lid r <? nl)%N && (lr_rid r <? nr)%N) rows
  | None => true
  end.

Definition c08_oracle (c : tokcase) : bool :=
  (user_in_range c || negb (tc_built c =? 0)%N)
  && negb (tc_built c =? 2)%N
  (* the same user lexicon loaded AFTER an id mapping of the dictionary (its ids are given in the original numbering)
     is accepted or rejected exactly like on the unmapped dictionary -- an error, never a panic *)
  && match tc_extra c with [[code]] => (code =? tc_built c)%N | _ => true end
  && with_dict c true (fun d o => forallb (fun so => sent_oracle_c08 d o so && sent_ok_c03 d o so) (tc_sents c)).

(** a rejected user lexicon: ids outside the connector or no rows *)
Definition c08_nontrivial (c : tokcase) : bool :=
  existsb (fun so => (so_outcome so =? 0)%N && Nat.eqb (length (so_alt so)) 5
                     && existsb (fun t => (dt_lex t =? 1)%N) (so_tokens so)) (tc_sents c).

Definition c08_report := report tok_corr c08_oracle (fun _ => false) c08_nontrivial.
