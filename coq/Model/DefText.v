(** Text-level models of the definition-file parsers: [CharProperty::from_reader] line grammar
    (char.def), [MatrixConnector::from_reader] (matrix.def); lex.csv / unk.def / user CSV use the
    CSV model of Model/LexCsv.v.  Texts are lists of Unicode scalar values; the CSV lexer only looks
    at ASCII delimiters, so it is applied to scalar values directly (UTF-8 bytes of a non-ASCII
    character never equal a delimiter). *)
From Vib Require Import Model.Base Model.Text Model.Lattice Model.Tokenizer Model.DictBuild Model.LexCsv.
Local Open Scope N_scope.

(** [usize::from_str_radix(s, 16)] / [str::parse::<uN>]: optional '+', at least one digit, no overflow *)
Definition hex_digit (c : N) : option N :=
  if (48 <=? c) && (c <=? 57) then Some (c - 48)
  else if (97 <=? c) && (c <=? 102) then Some (c - 87)
  else if (65 <=? c) && (c <=? 70) then Some (c - 55)
  else None.
Fixpoint hex_value_acc (s : str) (acc : N) : option N :=
  match s with
  | [] => Some acc
  | c :: t => match hex_digit c with Some d => hex_value_acc t (acc * 16 + d) | None => None end
  end.
Definition USIZE_MAX : N := 18446744073709551615.
Definition parse_hex_usize (s : str) : option N :=
  let s' := match s with 43 :: t => t | _ => s end in
  match s' with
  | [] => None
  | _ => match hex_value_acc s' 0 with Some v => if v <=? USIZE_MAX then Some v else None | None => None end
  end.

(** [trim_start_matches("0x")] *)
Fixpoint trim_0x (fuel : nat) (s : str) : str :=
  match fuel with
  | O => s
  | S f => match s with 48 :: 120 :: t => trim_0x f t | _ => s end
  end.

(** [str::split("..")]: leftmost non-overlapping occurrences *)
Fixpoint split_dotdot (s : str) (cur : str) : list str :=
  match s with
  | [] => [rev cur]
  | 46 :: 46 :: t => rev cur :: split_dotdot_aux t
  | c :: t => split_dotdot t (c :: cur)
  end
with split_dotdot_aux (s : str) : list str :=
  match s with
  | [] => [[]]
  | 46 :: 46 :: t => [] :: split_dotdot_aux t
  | c :: t => split_dotdot t [c]
  end.

Definition S0x : str := [48;120].
Definition SHASH : str := [35].

Definition parse_cat_line (line : str) : result catline :=
  match split_unicode_ws line with
  | name :: iv :: gr :: len :: _ =>
      let bit (t : str) : option bool := match t with [49] => Some true | [48] => Some false | _ => None end in
      match bit iv, bit gr, parse_unsigned len 65535 with
      | Some i, Some g, Some l => Ok {| cl_name := name; cl_invoke := i; cl_group := g; cl_length := l |}
      | _, _, _ => Err
      end
  | _ => Err
  end.

Definition parse_range_line (line : str) : result rangeline :=
  match split_unicode_ws line with
  | c0 :: rest =>
      match rest with [] => Err | _ =>
      let r := split_dotdot c0 [] in
      match parse_hex_usize (trim_0x (length c0) (nth 0 r [])) with
      | None => Err
      | Some start =>
          let eo := match r with
                    | _ :: r1 :: _ => match parse_hex_usize (trim_0x (length c0) r1) with
                                      | Some e => if e =? USIZE_MAX then None else Some (Some (e + 1))
                                      | None => Some None
                                      end
                    | _ => if start =? USIZE_MAX then None else Some (Some (start + 1))
                    end in
          match eo with
          | None => Err                      (* checked_add overflow *)
          | Some None => Err                 (* the second number does not parse *)
          | Some (Some e) =>
              if e <=? start then Err
              else if (65535 <? start) || (65536 <? e) then Err
              else
                let cats := take_while (fun c => negb (starts_with SHASH c)) rest in
                match cats with
                | [] => Err
                | _ => Ok {| rl_start := start; rl_end := e; rl_cats := cats |}
                end
          end
      end end
  | [] => Err
  end.

Fixpoint parse_chardef_lines (ls : list str) (cats : list catline) (ranges : list rangeline) : result chardef :=
  match ls with
  | [] => Ok {| cd_cats := rev cats; cd_ranges := rev ranges |}
  | l :: t =>
      let line := trim l in
      match line with
      | [] => parse_chardef_lines t cats ranges
      | _ =>
          if starts_with SHASH line then parse_chardef_lines t cats ranges
          else if starts_with S0x line then
            do r <- parse_range_line line ;; parse_chardef_lines t cats (r :: ranges)
          else
            do c <- parse_cat_line line ;; parse_chardef_lines t (c :: cats) ranges
      end
  end.
Definition parse_chardef_text (s : str) : result chardef := parse_chardef_lines (lines s) [] [].

(** matrix.def: header "R L", then "r l cost" lines; fields separated by single spaces *)
Definition parse_usize_dec (s : str) : option N := parse_unsigned s USIZE_MAX.

Fixpoint set_nth {A} (n : nat) (x : A) (l : list A) : list A :=
  match n, l with
  | O, _ :: t => x :: t
  | S n', y :: t => y :: set_nth n' x t
  | _, [] => []
  end.

Fixpoint matrix_body (ls : list str) (nr nl : N) (m : list (list Z)) : result (list (list Z)) :=
  match ls with
  | [] => Ok m
  | l :: t =>
      match l with
      | [] => matrix_body t nr nl m
      | _ =>
          match split_on 32 l with
          | [a; b; c] =>
              match parse_usize_dec a, parse_usize_dec b, parse_i16 c with
              | Some r, Some lf, Some cost =>
                  if (nr <=? r) || (nl <=? lf) then Err
                  else matrix_body t nr nl (set_nth (N.to_nat r) (set_nth (N.to_nat lf) cost (nth (N.to_nat r) m [])) m)
              | _, _, _ => Err
              end
          | _ => Err
          end
      end
  end.

Definition parse_matrix_text (s : str) : result (list (list Z)) :=
  match lines s with
  | [] => Err
  | h :: body =>
      match split_on 32 h with
      | [a; b] =>
          match parse_unsigned a 65535, parse_unsigned b 65535 with
          | Some nr, Some nl => matrix_body body nr nl (repeat (repeat 0%Z (N.to_nat nl)) (N.to_nat nr))
          | _, _ => Err
          end
      | _ => Err
      end
  end.

(** lexicon rows / unknown-word lines from the CSV model *)
Definition lexrows_of (es : list lexent) : list lexrow :=
  map (fun e => {| lr_surface := le_surface e; lr_lid := le_lid e; lr_rid := le_rid e; lr_cost := le_cost e; lr_feature := le_feature e |}) es.
Definition unklines_of (es : list lexent) : list unkline :=
  map (fun e => {| ul_cate := le_surface e; ul_lid := le_lid e; ul_rid := le_rid e; ul_cost := le_cost e; ul_feature := le_feature e |}) es.
