(** Byte codecs in the shape of bincode 2 with the configuration of common.rs (little endian,
    fixed-width integers): the wire format of [Dictionary::write] / [Dictionary::read]. *)
From Vib Require Import Model.Base.
Local Open Scope N_scope.

Definition bytes := list N.

Record codec (A : Type) := { enc : A -> bytes; dec : bytes -> option (A * bytes) }.
Arguments enc {A} _ _.
Arguments dec {A} _ _.

(** ** fixed-width little-endian unsigned integers ([w] bytes) *)
Fixpoint wr_le (w : nat) (x : N) : bytes :=
  match w with O => [] | S w' => (x mod 256) :: wr_le w' (x / 256) end.
Fixpoint rd_le (w : nat) (bs : bytes) : option (N * bytes) :=
  match w with
  | O => Some (0, bs)
  | S w' => match bs with
            | [] => None
            | b :: t => match rd_le w' t with
                        | Some (x, r) => Some (b + 256 * x, r)
                        | None => None
                        end
            end
  end.
Definition uint (w : nat) : codec N := {| enc := wr_le w; dec := rd_le w |}.

(** ** combinators *)
Definition pair_c {A B} (ca : codec A) (cb : codec B) : codec (A * B) :=
  {| enc := fun ab => enc ca (fst ab) ++ enc cb (snd ab);
     dec := fun bs => match dec ca bs with
                      | Some (a, r) => match dec cb r with Some (b, r') => Some ((a, b), r') | None => None end
                      | None => None
                      end |}.

Fixpoint dec_n {A} (ca : codec A) (n : nat) (bs : bytes) : option (list A * bytes) :=
  match n with
  | O => Some ([], bs)
  | S n' => match dec ca bs with
            | Some (a, r) => match dec_n ca n' r with Some (l, r') => Some (a :: l, r') | None => None end
            | None => None
            end
  end.
Definition enc_list {A} (ca : codec A) (l : list A) : bytes := flat_map (enc ca) l.

(** [Vec<T>] / [String]: u64 length, then the elements *)
Definition vec_c {A} (ca : codec A) : codec (list A) :=
  {| enc := fun l => wr_le 8 (N.of_nat (length l)) ++ enc_list ca l;
     dec := fun bs => match rd_le 8 bs with
                      | Some (n, r) => dec_n ca (N.to_nat n) r
                      | None => None
                      end |}.

(** [Option<T>]: one tag byte *)
Definition option_c {A} (ca : codec A) : codec (option A) :=
  {| enc := fun o => match o with None => [0] | Some a => 1 :: enc ca a end;
     dec := fun bs => match bs with
                      | 0 :: r => Some (None, r)
                      | 1 :: r => match dec ca r with Some (a, r') => Some (Some a, r') | None => None end
                      | _ => None
                      end |}.

(** a decoder-side validity check ([U31] range, [Scorer] length check, UTF-8 of strings) *)
Definition guard_c {A} (ca : codec A) (ok : A -> bool) : codec A :=
  {| enc := enc ca;
     dec := fun bs => match dec ca bs with
                      | Some (a, r) => if ok a then Some (a, r) else None
                      | None => None
                      end |}.

(** change of representation with an exact inverse *)
Definition iso_c {A B} (ca : codec A) (f : A -> B) (g : B -> A) : codec B :=
  {| enc := fun b => enc ca (g b);
     dec := fun bs => match dec ca bs with Some (a, r) => Some (f a, r) | None => None end |}.

(** enum with a u32 variant index and two or three payload types *)
Inductive sum3 (A B C : Type) := In1 (a : A) | In2 (b : B) | In3 (c : C).
Arguments In1 {A B C} a. Arguments In2 {A B C} b. Arguments In3 {A B C} c.
Definition sum3_c {A B C} (ca : codec A) (cb : codec B) (cc : codec C) : codec (sum3 A B C) :=
  {| enc := fun s => match s with
                     | In1 a => wr_le 4 0 ++ enc ca a
                     | In2 b => wr_le 4 1 ++ enc cb b
                     | In3 c => wr_le 4 2 ++ enc cc c
                     end;
     dec := fun bs => match rd_le 4 bs with
                      | Some (t, r) =>
                          if t =? 0 then match dec ca r with Some (a, r') => Some (In1 a, r') | None => None end
                          else if t =? 1 then match dec cb r with Some (b, r') => Some (In2 b, r') | None => None end
                          else if t =? 2 then match dec cc r with Some (c, r') => Some (In3 c, r') | None => None end
                          else None
                      | None => None
                      end |}.

(** fixed-size array [T; n]: the elements without a length *)
Definition array_c {A} (ca : codec A) (n : nat) : codec (list A) :=
  {| enc := enc_list ca; dec := dec_n ca n |}.
