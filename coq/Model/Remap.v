(** Models of the three [map_connection_ids] loops (matrix_connector.rs, raw_connector.rs,
    dual_connector.rs): a new array is filled by scattering the old entries to their new places. *)
From Vib Require Import Model.Base.
From Coq Require Import Arith.

Fixpoint set_at {A} (l : list A) (i : nat) (v : A) : list A :=
  match l, i with
  | [], _ => []
  | _ :: t, O => v :: t
  | x :: t, S i => x :: set_at t i v
  end.

(** [mapped[dst] = val] for a list of (dst, val) *)
Definition scatter {A} (init : list A) (moves : list (nat * A)) : list A :=
  fold_left (fun acc m => set_at acc (fst m) (snd m)) moves init.

(** ** matrix connector: data[left * num_right + right] *)
Definition mat_index (nr r l : nat) : nat := l * nr + r.
Definition map_matrix (data : list Z) (nr nl : nat) (pr pl : nat -> nat) : list Z :=
  scatter (repeat 0%Z (length data))
    (flat_map (fun r => map (fun l => (mat_index nr (pr r) (pl l), nth (mat_index nr r l) data 0%Z)) (seq 0 nl)) (seq 0 nr)).
Definition mat_cost (data : list Z) (nr r l : nat) : Z := nth (mat_index nr r l) data 0%Z.

(** ** raw connector: one row of feature ids per connection id *)
Definition map_rows {A} (d : A) (rows : list A) (p : nat -> nat) : list A :=
  scatter (repeat d (length rows)) (map (fun i => (p i, nth i rows d)) (seq 0 (length rows))).

(** ** dual connector: per id a matrix row number and a raw feature row; after scattering both,
    the matrix rows are renumbered by first appearance and the matrix is permuted accordingly *)
Fixpoint renumber (ids : list nat) (tbl : list (nat * nat)) (next : nat) : list nat * list (nat * nat) :=
  match ids with
  | [] => ([], tbl)
  | i :: t =>
      match find (fun e => Nat.eqb (fst e) i) tbl with
      | Some e => let '(r, tbl') := renumber t tbl next in (snd e :: r, tbl')
      | None => let '(r, tbl') := renumber t ((i, next) :: tbl) (S next) in (next :: r, tbl')
      end
  end.
Definition tbl_get (tbl : list (nat * nat)) (i : nat) : nat :=
  match find (fun e => Nat.eqb (fst e) i) tbl with Some e => snd e | None => 0%nat end.

Record dualmap := {
  dm_rmap : list nat; dm_lmap : list nat;          (* connection id -> matrix row / column *)
  dm_rfeat : list (list N); dm_lfeat : list (list N);
  dm_matrix : list Z; dm_mr : nat; dm_ml : nat     (* the pre-summed matrix and its dimensions *)
}.

Definition map_dual (dm : dualmap) (pr pl : nat -> nat) : dualmap :=
  let rmap1 := map_rows 0%nat (dm_rmap dm) pr in
  let lmap1 := map_rows 0%nat (dm_lmap dm) pl in
  let '(rmap2, tr) := renumber rmap1 [] 0 in
  let '(lmap2, tl) := renumber lmap1 [] 0 in
  {| dm_rmap := rmap2; dm_lmap := lmap2;
     dm_rfeat := map_rows [] (dm_rfeat dm) pr; dm_lfeat := map_rows [] (dm_lfeat dm) pl;
     dm_matrix := map_matrix (dm_matrix dm) (dm_mr dm) (dm_ml dm) (tbl_get tr) (tbl_get tl);
     dm_mr := dm_mr dm; dm_ml := dm_ml dm |}.

(** what [DualConnector::cost] reads: the matrix entry of the two row numbers and the two raw rows *)
Definition dual_view (dm : dualmap) (r l : nat) : Z * list N * list N :=
  (mat_cost (dm_matrix dm) (dm_mr dm) (nth r (dm_rmap dm) 0%nat) (nth l (dm_lmap dm) 0%nat),
   nth r (dm_rfeat dm) [], nth l (dm_lfeat dm) []).
