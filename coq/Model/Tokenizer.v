(** Model of sentence.rs, unknown.rs ([gen_unk_words]), the lexicon lookup
    (list-level behaviour of [WordMap::common_prefix_iterator]), tokenizer.rs
    ([build_lattice_inner], [add_lattice_edges]), worker.rs and token.rs. *)
From Vib Require Import Model.Base Model.Lattice.

(** ** Character information *)
Record cinfo := {
  ci_cates : N;       (* cate_idset: bit i set = member of category i *)
  ci_base : N;        (* base_id: primary category *)
  ci_invoke : bool;
  ci_group : bool;
  ci_length : nat
}.

(** chr2inf as the list of char.def range lines in file order: [start, end) *)
Record chartable := {
  ct_default : cinfo;
  ct_ranges : list (N * N * cinfo)
}.

Fixpoint lookup_ranges (rs : list (N * N * cinfo)) (acc : cinfo) (c : N) : cinfo :=
  match rs with
  | [] => acc
  | (s, e, ci) :: t => lookup_ranges t (if (s <=? c)%N && (c <? e)%N then ci else acc) c
  end.

(** [CharProperty::char_info]: a code point beyond the table gets the entry of U+0000 *)
Definition char_info (ct : chartable) (c : N) : cinfo :=
  let c' := if (c <? 65536)%N then c else 0%N in
  lookup_ranges (ct_ranges ct) (ct_default ct) c'.

(** ** Sentence *)
Definition utf8_len (c : N) : nat :=
  if (c <? 128)%N then 1 else if (c <? 2048)%N then 2 else if (c <? 65536)%N then 3 else 4.

(** [c2b]: byte offset of every character boundary ([len+1] entries) *)
Fixpoint c2b_from (b : nat) (cs : list N) : list nat :=
  match cs with
  | [] => [b]
  | c :: t => b :: c2b_from (b + utf8_len c) t
  end.
Definition c2b (cs : list N) : list nat := c2b_from 0 cs.

Definition share (a b : cinfo) : bool := negb (N.land (ci_cates a) (ci_cates b) =? 0)%N.

(** [compute_groupable] (the backward loop) *)
Fixpoint groupable_of (cis : list cinfo) : list nat :=
  match cis with
  | [] => []
  | c :: t =>
      let gs := groupable_of t in
      match t, gs with
      | c' :: _, g :: _ => (if share c c' then S g else 1) :: gs
      | _, _ => [1]
      end
  end.

Definition dummy_ci : cinfo :=
  {| ci_cates := 0; ci_base := 0; ci_invoke := false; ci_group := false; ci_length := 0 |}.

Record sentence := {
  s_chars : list N;
  s_cinfos : list cinfo;
  s_group : list nat
}.
Definition compile (ct : chartable) (cs : list N) : sentence :=
  let cis := map (char_info ct) cs in
  {| s_chars := cs; s_cinfos := cis; s_group := groupable_of cis |}.
Definition s_len (s : sentence) : nat := length (s_chars s).
Definition s_ci (s : sentence) (i : nat) : cinfo := nth i (s_cinfos s) dummy_ci.
Definition s_grp (s : sentence) (i : nat) : nat := nth i (s_group s) 1.

(** ** Dictionary view *)
Record lexrow := { lr_surface : list N; lr_lid : N; lr_rid : N; lr_cost : Z; lr_feature : list N }.
Record unkrow := { ur_cate : N; ur_lid : N; ur_rid : N; ur_cost : Z; ur_feature : list N }.

Record dict := {
  d_chars : chartable;
  d_sys : list lexrow;
  d_user : option (list lexrow);
  d_unk : list unkrow;               (* stored order (grouped by category id) *)
  d_conn : list (list Z)             (* connection costs, [right_id][left_id] *)
}.

Record options := {
  o_space : option N;                (* Some (1 << SPACE category id) when ignore_space *)
  o_mgl : option nat                 (* max_grouping_len; None = unlimited *)
}.

(** a candidate word: start, end, lexicon type, word id, ids, cost *)
Record cand := { c_sw : nat; c_end : nat; c_lex : N; c_wid : N; c_lid : N; c_rid : N; c_wc : Z }.

Fixpoint index_from {A} (i : N) (l : list A) : list (N * A) :=
  match l with [] => [] | x :: t => (i, x) :: index_from (N.succ i) t end.

(** [common_prefix_iterator]: matches by increasing prefix length, homographs in row order *)
Definition lex_matches (lex : N) (rows : list lexrow) (sw : nat) (suffix : list N) : list cand :=
  flat_map (fun k =>
    let pre := firstn k suffix in
    flat_map (fun ir => if str_eqb (lr_surface (snd ir)) pre
                        then [{| c_sw := sw; c_end := sw + k; c_lex := lex; c_wid := fst ir;
                                 c_lid := lr_lid (snd ir); c_rid := lr_rid (snd ir); c_wc := lr_cost (snd ir) |}]
                        else [])
             (index_from 0 rows))
  (seq 1 (length suffix)).

(** [scan_entries]: every unk.def entry of the category [base], with its global index *)
Definition scan_entries (unk : list unkrow) (sw e : nat) (base : N) : list cand :=
  flat_map (fun ir => if (ur_cate (snd ir) =? base)%N
                      then [{| c_sw := sw; c_end := e; c_lex := 2%N; c_wid := fst ir;
                               c_lid := ur_lid (snd ir); c_rid := ur_rid (snd ir); c_wc := ur_cost (snd ir) |}]
                      else [])
           (index_from 0 unk).

Fixpoint take_while {A} (f : A -> bool) (l : list A) : list A :=
  match l with [] => [] | x :: t => if f x then x :: take_while f t else [] end.

(** [gen_unk_words], statement by statement *)
Definition gen_unk_words (unk : list unkrow) (s : sentence) (sw : nat) (has_matched : bool)
           (mgl : option nat) : list cand :=
  let ci := s_ci s sw in
  if has_matched && negb (ci_invoke ci) then [] else
  let g := s_grp s sw in
  let grouped := ci_group ci in
  let fits := match mgl with None => true | Some m => Nat.leb (g - 1) m end in
  let part1 := if grouped && fits then scan_entries unk sw (sw + g) (ci_base ci) else [] in
  let hm1 := has_matched || (grouped && fits) in
  let lens := take_while (fun i => Nat.leb (sw + i) (s_len s))
                (filter (fun i => negb (grouped && Nat.eqb i g)) (seq 1 (Nat.min (ci_length ci) g))) in
  let part2 := flat_map (fun i => scan_entries unk sw (sw + i) (ci_base ci)) lens in
  let hm2 := hm1 || match lens with [] => false | _ => true end in
  let part3 := if hm2 then [] else scan_entries unk sw (sw + 1) (ci_base ci) in
  part1 ++ part2 ++ part3.

(** [add_lattice_edges]: user lexicon, system lexicon, unknown words *)
Definition candidates (d : dict) (o : options) (s : sentence) (sw : nat) : list cand :=
  let suffix := skipn sw (s_chars s) in
  let u := match d_user d with Some rows => lex_matches 1%N rows sw suffix | None => [] end in
  let m := lex_matches 0%N (d_sys d) sw suffix in
  let has := match u ++ m with [] => false | _ => true end in
  u ++ m ++ gen_unk_words (d_unk d) s sw has (o_mgl o).

Definition conn_of (d : dict) (r l : N) : Z :=
  nth (N.to_nat l) (nth (N.to_nat r) (d_conn d) []) 0%Z.

Fixpoint insert_all (conn : N -> N -> Z) (L : lattice) (sn : nat) (cs : list cand) : option lattice :=
  match cs with
  | [] => Some L
  | c :: t =>
      match insert_node conn L sn (c_sw c) (c_end c) (c_lex c) (c_wid c) (c_lid c) (c_rid c) (c_wc c) with
      | None => None
      | Some L' => insert_all conn L' sn t
      end
  end.

Inductive outcome (A : Type) := Done (a : A) | Panicked | OutOfFuel.
Arguments Done {A} a.
Arguments Panicked {A}.
Arguments OutOfFuel {A}.

Definition is_space (o : options) (ci : cinfo) : bool :=
  match o_space o with
  | Some m => negb (N.land (ci_cates ci) m =? 0)%N
  | None => false
  end.

(** the [while] loop of [build_lattice_inner]; returns the lattice and the final start_node *)
Fixpoint scan (d : dict) (o : options) (s : sentence) (fuel : nat) (sn sw : nat) (L : lattice)
  : outcome (lattice * nat) :=
  match fuel with
  | O => OutOfFuel
  | S f =>
      if Nat.leb (s_len s) sw then Done (L, sn)
      else if negb (has_prev L sn) then scan d o s f (S sw) (S sw) L
      else
        let sw' := if is_space o (s_ci s sn) then sw + s_grp s sn else sw in
        if Nat.eqb sw' (s_len s) then Done (L, sn)
        else if Nat.ltb (s_len s) sw' then Panicked
        else match insert_all (conn_of d) L sn (candidates d o s sw') with
             | None => Panicked
             | Some L' => scan d o s f (S sw') (S sw') L'
             end
  end.

(** [build_lattice_inner]: reset, scan, EOS *)
Definition build_lattice (d : dict) (o : options) (s : sentence) (L0 : lattice)
  : outcome (lattice * node) :=
  match scan d o s (S (s_len s)) 0 0 (reset L0 (s_len s)) with
  | Done (L, sn) =>
      match insert_eos (conn_of d) L sn (s_len s) with
      | Some eos => Done (L, eos)
      | None => Panicked
      end
  | Panicked => Panicked
  | OutOfFuel => OutOfFuel
  end.

(** ** Tokens (token.rs) *)
Record token := {
  t_cs : nat; t_ce : nat;            (* range_char *)
  t_bs : nat; t_be : nat;            (* range_byte *)
  t_surface : list N;
  t_lex : N; t_wid : N;
  t_feature : list N;
  t_lid : N; t_rid : N;
  t_wcost : Z;                        (* looked up in the dictionary by word index *)
  t_total : Z
}.

Definition slice {A} (l : list A) (s e : nat) : list A := firstn (e - s) (skipn s l).

Definition word_info (d : dict) (lex wid : N) : option (Z * list N) :=
  if (lex =? 0)%N then option_map (fun r => (lr_cost r, lr_feature r)) (nth_error (d_sys d) (N.to_nat wid))
  else if (lex =? 1)%N then
    match d_user d with
    | Some rows => option_map (fun r => (lr_cost r, lr_feature r)) (nth_error rows (N.to_nat wid))
    | None => None
    end
  else option_map (fun r => (ur_cost r, ur_feature r)) (nth_error (d_unk d) (N.to_nat wid)).

Definition token_of (d : dict) (s : sentence) (en : nat * node) : option token :=
  let '(e, n) := en in
  match word_info d (n_lex n) (n_wid n) with
  | None => None
  | Some (wc, feat) =>
      let cb := c2b (s_chars s) in
      Some {| t_cs := n_sw n; t_ce := e; t_bs := nth (n_sw n) cb 0; t_be := nth e cb 0;
              t_surface := slice (s_chars s) (n_sw n) e;
              t_lex := n_lex n; t_wid := n_wid n; t_feature := feat;
              t_lid := n_lid n; t_rid := n_rid n; t_wcost := wc; t_total := n_mc n |}
  end.

Fixpoint all_some {A} (l : list (option A)) : option (list A) :=
  match l with
  | [] => Some []
  | None :: _ => None
  | Some x :: t => match all_some t with Some r => Some (x :: r) | None => None end
  end.

(** ** Worker (worker.rs) as a state machine *)
Record worker := {
  w_sent : sentence;
  w_lat : lattice;                    (* ends, reused between sentences *)
  w_eos : option node;
  w_len : nat;                        (* lattice.len_char *)
  w_top : list (nat * node);          (* top_nodes, EOS side first *)
  w_counts : option (list (N * N))    (* counter: every counted (left_id, right_id) event *)
}.

Definition empty_sentence : sentence := {| s_chars := []; s_cinfos := []; s_group := [] |}.
Definition new_worker : worker :=
  {| w_sent := empty_sentence; w_lat := []; w_eos := None; w_len := 0; w_top := []; w_counts := None |}.

Definition reset_sentence (d : dict) (w : worker) (cs : list N) : worker :=
  {| w_sent := match cs with [] => empty_sentence | _ => compile (d_chars d) cs end;
     w_lat := w_lat w; w_eos := w_eos w; w_len := w_len w; w_top := []; w_counts := w_counts w |}.

Definition tokenize (d : dict) (o : options) (w : worker) : outcome worker :=
  match s_chars (w_sent w) with
  | [] => Done w
  | _ =>
      match build_lattice d o (w_sent w) (w_lat w) with
      | Done (L, eos) =>
          match walk L (S (s_len (w_sent w))) (n_sn eos) (n_midx eos) with
          | Some top =>
              Done {| w_sent := w_sent w; w_lat := L; w_eos := Some eos; w_len := s_len (w_sent w);
                      w_top := top; w_counts := w_counts w |}
          | None => Panicked
          end
      | Panicked => Panicked
      | OutOfFuel => OutOfFuel
      end
  end.

(** [init_connid_counter] / [update_connid_counts]: the counter is the multiset of counted
    (left_id, right_id) events; an empty sentence counts nothing *)
Definition init_counter (w : worker) : worker :=
  {| w_sent := w_sent w; w_lat := w_lat w; w_eos := w_eos w; w_len := w_len w; w_top := w_top w;
     w_counts := Some [] |}.

Definition update_counts (w : worker) : option worker :=
  match w_counts w with
  | None => None                                   (* unwrap on None: panic *)
  | Some cnt =>
      match s_chars (w_sent w) with
      | [] => Some w
      | _ =>
          match w_eos w with
          | None => None
          | Some eos =>
              Some {| w_sent := w_sent w; w_lat := w_lat w; w_eos := w_eos w; w_len := w_len w;
                      w_top := w_top w;
                      w_counts := Some (cnt ++ count_events (w_lat w) (w_len w) (n_sn eos)) |}
          end
      end
  end.

(** tokens in reading order ([token(i)] = [top_nodes[n-i-1]]) *)
Definition tokens (d : dict) (w : worker) : option (list token) :=
  all_some (map (token_of d (w_sent w)) (rev (w_top w))).

(** one-shot tokenization on a fresh worker *)
Definition tokenize_fresh (d : dict) (o : options) (cs : list N) : outcome (list token * lattice * option node) :=
  match tokenize d o (reset_sentence d new_worker cs) with
  | Done w => match tokens d w with
              | Some ts => Done (ts, w_lat w, w_eos w)
              | None => Panicked
              end
  | Panicked => Panicked
  | OutOfFuel => OutOfFuel
  end.
