(** Feature templates of feature.def (feature_extractor.rs): scanning for %F[n] %F?[n] %t
    (unigram), %L[n] %L?[n] (left), %R[n] %R?[n] (right); expansion; first-occurrence interning. *)
From Vib Require Import Model.Base Model.Text Model.Scorer.
Local Open Scope N_scope.

Inductive tpiece := TLit (s : str) | TIdx (n : nat) (required : bool) | TCat.

(** digits then ']' *)
Fixpoint take_digits (s : str) (acc : str) : option (str * str) :=
  match s with
  | c :: t => if is_digit c then take_digits t (acc ++ [c])
              else if c =? 93 then (match acc with [] => None | _ => Some (acc, t) end) else None
  | [] => None
  end.

(** one reference at the head of [s] (after '%'): letter [k], optional '?', '[', digits, ']' *)
Definition take_ref (k : N) (s : str) : option (nat * bool * str) :=
  match s with
  | c :: t =>
      if c =? k then
        match t with
        | 91 :: t1 => match take_digits t1 [] with
                      | Some (ds, r) => match dec_value ds with Some v => Some (N.to_nat v, false, r) | None => None end
                      | None => None
                      end
        | 63 :: 91 :: t1 => match take_digits t1 [] with
                            | Some (ds, r) => match dec_value ds with Some v => Some (N.to_nat v, true, r) | None => None end
                            | None => None
                            end
        | _ => None
        end
      else None
  | [] => None
  end.

(** scan a template; [k] = 70 'F' (unigram, also %t), 76 'L', 82 'R' *)
Fixpoint scan_template (fuel : nat) (k : N) (s : str) (lit : str) : list tpiece :=
  match fuel with
  | O => []
  | S f =>
      match s with
      | [] => match lit with [] => [] | _ => [TLit lit] end
      | 37 :: t =>
          match take_ref k t with
          | Some (n, req, r) => (match lit with [] => [] | _ => [TLit lit] end) ++ TIdx n req :: scan_template f k r []
          | None =>
              match k, t with
              | 70, 116 :: r => (match lit with [] => [] | _ => [TLit lit] end) ++ TCat :: scan_template f k r []
              | _, _ => scan_template f k t (lit ++ [37])
              end
          end
      | c :: t => scan_template f k t (lit ++ [c])
      end
  end.
Definition parse_template (k : N) (s : str) : list tpiece := scan_template (S (length s)) k s [].

Definition STAR : str := [42].
Definition feat_at (feats : list str) (i : nat) : str := nth i feats STAR.

Fixpoint dec_digits (fuel : nat) (n : N) (acc : str) : str :=
  match fuel with
  | O => acc
  | S f => let acc' := (48 + n mod 10) :: acc in if n <? 10 then acc' else dec_digits f (n / 10) acc'
  end.
(* fuel: a number has at most log2 n + 1 decimal digits *)
Definition show_N (n : N) : str := dec_digits (S (N.to_nat (N.log2 n))) n [].

(** expansion: [None] when a '?'-reference is '*' or absent *)
Definition expand (ps : list tpiece) (feats : list str) (cate : N) : option str :=
  if existsb (fun p => match p with TIdx n true => str_eqb (feat_at feats n) STAR | _ => false end) ps then None
  else Some (concat (map (fun p => match p with TLit s => s | TIdx n _ => feat_at feats n | TCat => show_N cate end) ps)).

(** [extract_feature_ids]: ids from 1 in order of first occurrence (table = strings by id-1) *)
Fixpoint extract_ids (templates : list (list tpiece)) (feats : list str) (cate : N) (tbl : list str)
  : list (option N) * list str :=
  match templates with
  | [] => ([], tbl)
  | ps :: rest =>
      match expand ps feats cate with
      | None => let '(ids, tbl') := extract_ids rest feats cate tbl in (None :: ids, tbl')
      | Some s =>
          let '(tbl1, i) := intern tbl s in
          let '(ids, tbl') := extract_ids rest feats cate tbl1 in (Some (N.succ i) :: ids, tbl')
      end
  end.
