(** Reference model of [Lexicon::parse_csv] (lexicon.rs) at the level of the CSV dialect that
    csv-core implements with its default settings: fields separated by ',', records by LF, CR or
    CRLF, a field that STARTS with a double quote is quoted (two double quotes = one; whatever follows
    the closing quote up to the separator is appended), blank lines are skipped.  A lexicon record has four
    leading fields (surface, left id, right id, cost) and its feature is the RAW remainder of the
    record after the fourth comma.  Text = list of bytes. *)
From Vib Require Import Model.Base Model.Text.
Local Open Scope N_scope.

Inductive fend := FComma | FEol | FEof.

(** unquoted part of a field: up to ',', LF, CR or the end; returns content, raw bytes, end kind, rest *)
Fixpoint take_plain (bs : list N) : list N * list N * fend * list N :=
  match bs with
  | [] => ([], [], FEof, [])
  | b :: t =>
      if b =? 44 then ([], [], FComma, t)
      else if b =? 10 then ([], [], FEol, t)
      else if b =? 13 then ([], [], FEol, match t with 10 :: t' => t' | _ => t end)
      else let '(c, raw, e, r) := take_plain t in (b :: c, b :: raw, e, r)
  end.

(** inside quotes; [None] = the input ended inside the quotes *)
Fixpoint take_quoted (bs : list N) : list N * list N * fend * list N :=
  match bs with
  | [] => ([], [], FEof, [])
  | b :: t =>
      if b =? 34 then
        match t with
        | 34 :: t' => let '(c, raw, e, r) := take_quoted t' in (34 :: c, 34 :: 34 :: raw, e, r)
        | _ => let '(c, raw, e, r) := take_plain t in (c, 34 :: raw, e, r)
        end
      else let '(c, raw, e, r) := take_quoted t in (b :: c, b :: raw, e, r)
  end.

Definition take_field (bs : list N) : list N * list N * fend * list N :=
  match bs with
  | 34 :: t => let '(c, raw, e, r) := take_quoted t in (c, 34 :: raw, e, r)
  | _ => take_plain bs
  end.

(** raw remainder of the record (fields from the fifth on, with their commas and quotes) *)
Fixpoint take_rest (fuel : nat) (bs : list N) : list N * list N :=
  match fuel with
  | O => ([], bs)
  | S f =>
      let '(_, raw, e, r) := take_field bs in
      match e with
      | FComma => let '(raw', r') := take_rest f r in (raw ++ 44 :: raw', r')
      | _ => (raw, r)
      end
  end.

Fixpoint skip_blank (bs : list N) : list N :=
  match bs with
  | b :: t => if (b =? 10) || (b =? 13) then skip_blank t else bs
  | [] => []
  end.

(** [str::parse::<u16>] / [<i16>]: optional sign, at least one digit, range *)
Definition parse_unsigned (s : list N) (max : N) : option N :=
  let s' := match s with 43 :: t => t | _ => s end in
  match dec_value s' with
  | Some v => if v <=? max then Some v else None
  | None => None
  end.
Definition parse_i16 (s : list N) : option Z :=
  match s with
  | 45 :: t => match dec_value t with Some v => if v <=? 32768 then Some (- Z.of_N v)%Z else None | None => None end
  | _ => match parse_unsigned s 32767 with Some v => Some (Z.of_N v) | None => None end
  end.

Record lexent := { le_surface : list N; le_lid : N; le_rid : N; le_cost : Z; le_feature : list N }.

Fixpoint parse_records (fuel : nat) (bs : list N) (acc : list lexent) : result (list lexent) :=
  match fuel with
  | O => Err
  | S f =>
      match skip_blank bs with
      | [] => Ok (rev acc)
      | bs1 =>
          let '(surface, _, e0, r0) := take_field bs1 in
          match e0 with
          | FComma =>
              let '(l, _, e1, r1) := take_field r0 in
              match e1 with
              | FComma =>
                  let '(r, _, e2, r2) := take_field r1 in
                  match e2 with
                  | FComma =>
                      let '(c, _, e3, r3) := take_field r2 in
                      match e3 with
                      | FComma =>
                          match parse_unsigned l 65535, parse_unsigned r 65535, parse_i16 c with
                          | Some lid, Some rid, Some cost =>
                              let '(feat, rest) := take_rest (S (length r3)) r3 in
                              let acc' := match surface with
                                          | [] => acc                 (* rows with an empty surface are skipped *)
                                          | _ => {| le_surface := surface; le_lid := lid; le_rid := rid; le_cost := cost; le_feature := feat |} :: acc
                                          end in
                              parse_records f rest acc'
                          | _, _, _ => Err
                          end
                      | _ => Err
                      end
                  | _ => Err
                  end
              | _ => Err
              end
          | _ => Err
          end
      end
  end.

Definition parse_lex_csv (bs : list N) : result (list lexent) := parse_records (S (length bs)) bs [].

(** ** rendering (the well-formed CSVs of the property) *)
Definition needs_quote (s : list N) : bool := existsb (fun b => (b =? 44) || (b =? 34) || (b =? 10) || (b =? 13)) s.
Fixpoint dbl_quotes (s : list N) : list N :=
  match s with [] => [] | b :: t => if b =? 34 then 34 :: 34 :: dbl_quotes t else b :: dbl_quotes t end.
Definition render_cell (quote : bool) (s : list N) : list N :=
  if quote || needs_quote s then 34 :: dbl_quotes s ++ [34] else s.
