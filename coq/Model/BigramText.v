(** Text level of bigram.right / bigram.left / bigram.cost as [RawConnectorBuilder::from_readers] reads them
    (raw_connector.rs): lines; [id TAB csv_row] with ids 1, 2, ... in order; [right/left TAB cost]. *)
From Vib Require Import Model.Base Model.Text Model.LexCsv Model.DefText.
Local Open Scope N_scope.

(** utils::parse_csv_row: the fields of one record (csv-core dialect of Model/LexCsv.v); a CR inside the
    line ends the record *)
Fixpoint csv_row (fuel : nat) (bs : str) : list str :=
  match fuel with
  | O => []
  | S f => let '(c, _, e, r) := take_field bs in
           match e with
           | FComma => c :: csv_row f r
           | _ => [c]
           end
  end.

(** str::parse::<i32>: optional sign, at least one digit, range *)
Definition parse_i32 (s : str) : option Z :=
  match s with
  | 45 :: t => match dec_value t with Some v => if v <=? 2147483648 then Some (- Z.of_N v)%Z else None | None => None end
  | _ => match parse_unsigned s 2147483647 with Some v => Some (Z.of_N v) | None => None end
  end.

Definition parse_feature_line (line : str) : result (N * list str) :=
  match split_on ch_tab line with
  | [id_s; feats] =>
      match parse_usize_dec id_s with
      | Some id => Ok (id, csv_row (S (length feats)) feats)
      | None => Err
      end
  | _ => Err
  end.

(** the i-th line must carry id i (from 1) *)
Fixpoint parse_feature_lines (ls : list str) (i : N) : result (list (list str)) :=
  match ls with
  | [] => Ok []
  | l :: rest =>
      match parse_feature_line l with
      | Ok (id, cells) =>
          if id =? i then
            match parse_feature_lines rest (N.succ i) with
            | Ok rows => Ok (cells :: rows)
            | e => e
            end
          else Err
      | Err => Err
      | Panic => Panic
      end
  end.

Definition parse_cost_line (line : str) : result (str * str * Z) :=
  match split_on ch_tab line with
  | [f; c] =>
      match parse_i32 c with
      | Some z => match split_on ch_slash f with
                  | [r; l] => Ok (r, l, z)
                  | _ => Err
                  end
      | None => Err
      end
  | _ => Err
  end.

Fixpoint parse_cost_lines (ls : list str) : result (list (str * str * Z)) :=
  match ls with
  | [] => Ok []
  | l :: rest =>
      match parse_cost_line l, parse_cost_lines rest with
      | Ok x, Ok xs => Ok (x :: xs)
      | Panic, _ => Panic
      | _, Panic => Panic
      | _, _ => Err
      end
  end.

Definition parse_bigram_texts (rtxt ltxt ctxt : str) : result (list (list str) * list (list str) * list (str * str * Z)) :=
  match parse_cost_lines (lines ctxt), parse_feature_lines (lines rtxt) 1, parse_feature_lines (lines ltxt) 1 with
  | Ok c, Ok r, Ok l =>
      (* no feature row at all: the template size would be 0 *)
      match r, l with [], [] => Err | _, _ => Ok (r, l, c) end
  | Panic, _, _ => Panic | _, Panic, _ => Panic | _, _, Panic => Panic
  | _, _, _ => Err
  end.

(** outcome of building a dictionary whose lexicon / unk.def use left ids up to [maxl] and right ids up to [maxr] *)
Definition bigram_build_code (rtxt ltxt ctxt : str) (maxl maxr : N) : N :=
  match parse_bigram_texts rtxt ltxt ctxt with
  | Ok (r, l, _) => if (maxl <? 1 + N.of_nat (length l)) && (maxr <? 1 + N.of_nat (length r)) then 0 else 1
  | Err => 1
  | Panic => 2
  end.
