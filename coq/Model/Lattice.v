(** Model of vibrato/src/tokenizer/lattice.rs.

    Positions and indices are [nat], connection ids [N], costs [Z].  Two fields of [node] are
    ghosts the Rust node does not store: [n_end] (in Rust the index of the list the node is
    in) and [n_wc] (the word cost that was added into [min_cost]).  i32 overflow panics in
    the dev profile; the model returns [None] ("panic") in these cases and when a
    [debug_assert!] of the Rust code fails. *)
From Vib Require Import Model.Base.
Local Open Scope Z_scope.

Record node := {
  n_sn : nat;        (* start_node: the boundary whose nodes are the predecessors *)
  n_sw : nat;        (* start_word: where the surface starts (>= start_node) *)
  n_end : nat;       (* ghost: end boundary *)
  n_lex : N;         (* 0 system, 1 user, 2 unknown *)
  n_wid : N;
  n_lid : N;
  n_rid : N;
  n_wc : Z;          (* ghost: word cost *)
  n_midx : nat;      (* back pointer into ends[start_node] *)
  n_mc : Z           (* min_cost: cheapest accumulated cost from BOS including this node *)
}.

Definition lattice := list (list node).
Definition at_ (L : lattice) (e : nat) : list node := nth e L [].

Definition in_i32 (z : Z) : bool := (-2147483648 <=? z) && (z <=? 2147483647).

Definition bos : node :=
  {| n_sn := 0; n_sw := 0; n_end := 0; n_lex := 0%N; n_wid := 4294967295%N;
     n_lid := 65535%N; n_rid := 0%N; n_wc := 0; n_midx := 0; n_mc := 0 |}.

Section WithConn.
Variable conn : N -> N -> Z.     (* ConnectorCost::cost right_id left_id *)

(** [search_min_node]: the *last* minimum wins ([<=] update). *)
Fixpoint smin_aux (lid : N) (prevs : list node) (i : nat) (best : option (nat * Z)) : option (nat * Z) :=
  match prevs with
  | [] => best
  | p :: ps =>
      let c := n_mc p + conn (n_rid p) lid in
      let best' := match best with
                   | None => Some (i, c)
                   | Some (_, b) => if c <=? b then Some (i, c) else best
                   end in
      smin_aux lid ps (S i) best'
  end.
Definition search_min (L : lattice) (sn : nat) (lid : N) : option (nat * Z) :=
  smin_aux lid (at_ L sn) 0%nat None.

(** no i32 overflow while scanning the predecessors *)
Definition scan_ok (L : lattice) (sn : nat) (lid : N) : bool :=
  forallb (fun p => in_i32 (n_mc p + conn (n_rid p) lid)) (at_ L sn).

Fixpoint push (L : lattice) (e : nat) (n : node) : lattice :=
  match e, L with
  | O, [] => [[n]]
  | O, l :: t => (l ++ [n]) :: t
  | S e, [] => [] :: push [] e n
  | S e, l :: t => l :: push t e n
  end.

Definition mk_node (sn sw e : nat) (lex wid lid rid : N) (wc : Z) (i : nat) (c : Z) : node :=
  {| n_sn := sn; n_sw := sw; n_end := e; n_lex := lex; n_wid := wid; n_lid := lid; n_rid := rid;
     n_wc := wc; n_midx := i; n_mc := c + wc |}.

(** [insert_node]; [None] = panic (empty predecessor list: debug_assert; i32 overflow) *)
Definition insert_node (L : lattice) (sn sw e : nat) (lex wid lid rid : N) (wc : Z) : option lattice :=
  match search_min L sn lid with
  | None => None
  | Some (i, c) =>
      if scan_ok L sn lid && in_i32 (c + wc)
      then Some (push L e (mk_node sn sw e lex wid lid rid wc i c))
      else None
  end.

(** [insert_eos]: the EOS node is kept outside [ends] *)
Definition insert_eos (L : lattice) (sn len : nat) : option node :=
  match search_min L sn 0%N with
  | None => None
  | Some (i, c) =>
      if scan_ok L sn 0%N
      then Some {| n_sn := sn; n_sw := len; n_end := len; n_lex := 0%N; n_wid := 4294967295%N;
                   n_lid := 0%N; n_rid := 65535%N; n_wc := 0; n_midx := i; n_mc := c |}
      else None
  end.
End WithConn.

Definition has_prev (L : lattice) (i : nat) : bool :=
  match at_ L i with [] => false | _ => true end.

(** [reset]: every list cleared (the vector keeps its length), extended to [len+1] lists, BOS
    inserted at boundary 0. *)
Definition reset (L : lattice) (len : nat) : lattice :=
  let cleared := map (fun _ => @nil node) L in
  let ext := cleared ++ repeat [] (S len - length cleared) in
  match ext with
  | [] => [[bos]]            (* unreachable: |ext| >= len+1 >= 1 *)
  | _ :: t => [bos] :: t
  end.

(** [append_top_nodes]: back-pointer walk from EOS; [None] = index panic, out of fuel *)
Fixpoint walk (L : lattice) (fuel : nat) (e i : nat) : option (list (nat * node)) :=
  match e with
  | O => Some []
  | S _ =>
      match fuel with
      | O => None
      | S f =>
          match nth_error (at_ L e) i with
          | None => None
          | Some n =>
              match walk L f (n_sn n) (n_midx n) with
              | None => None
              | Some rest => Some ((e, n) :: rest)
              end
          end
      end
  end.

(** [add_connid_counts]: one count per (node, node of its predecessor boundary), then EOS
    against the nodes of boundary [eos_from]. Returns the list of (left_id of the right
    node, right_id of the left node) events. *)
Definition count_events (L : lattice) (len : nat) (eos_from : nat) : list (N * N) :=
  flat_map (fun e => flat_map (fun r => map (fun l => (n_lid r, n_rid l)) (at_ L (n_sn r))) (at_ L e))
           (seq 1 len)
  ++ map (fun l => (0%N, n_rid l)) (at_ L eos_from).
