(** The model file of the trainer: [bincode(ModelData { config: TrainerConfig, raw_model: rucrf::RawModel })]
    (common.rs configuration: little endian, fixed-width integers).  [TrainerConfig] is encoded by the
    hand-written impls of config.rs and feature_extractor.rs and the derives of feature_rewriter.rs,
    field by field; rucrf's part follows and is left to rucrf's own decoder (opaque here). *)
From Vib Require Import Model.Base Model.Codec Model.DictImage.
Local Open Scope N_scope.

(** ** two more combinators *)
Definition unit_c : codec unit := {| enc := fun _ => []; dec := fun bs => Some (tt, bs) |}.

Definition sum2_c {A B} (ca : codec A) (cb : codec B) : codec (A + B) :=
  {| enc := fun s => match s with inl a => wr_le 4 0 ++ enc ca a | inr b => wr_le 4 1 ++ enc cb b end;
     dec := fun bs => match rd_le 4 bs with
                      | Some (t, r) =>
                          if t =? 0 then match dec ca r with Some (a, r') => Some (inl a, r') | None => None end
                          else if t =? 1 then match dec cb r with Some (b, r') => Some (inr b, r') | None => None end
                          else None
                      | None => None
                      end |}.

(** NonZeroU32 *)
Definition nz32 : codec N := guard_c u32 (fun x => negb (x =? 0)).

(** ** FeatureExtractor *)
(** FeatureType: Index(usize) | CharacterType *)
Definition ftype_c : codec (N + unit) := sum2_c u64 unit_c.
(** (Range<usize>, FeatureType) *)
Definition capture_c : codec ((N * N) * (N + unit)) := pair_c (pair_c u64 u64) ftype_c.
(** ParsedTemplate { raw_template, required_indices, captures } *)
Definition ptemplate := (list N * (list N * list ((N * N) * (N + unit))))%type.
Definition ptemplate_c : codec ptemplate := pair_c string_c (pair_c (vec_c u64) (vec_c capture_c)).
(** HashMap<String, NonZeroU32> written as Vec<(String, NonZeroU32)> *)
Definition idtable := list (list N * N).
Definition idtable_c : codec idtable := vec_c (pair_c string_c nz32).
(** the nine fields in the order of the hand-written Encode *)
Definition extractor := (idtable * (idtable * (idtable * (N * (N * (N * (list ptemplate * (list ptemplate * list ptemplate))))))))%type.
Definition extractor_c : codec extractor :=
  pair_c idtable_c (pair_c idtable_c (pair_c idtable_c (pair_c u32 (pair_c u32 (pair_c u32
    (pair_c (vec_c ptemplate_c) (pair_c (vec_c ptemplate_c) (vec_c ptemplate_c)))))))).

(** ** FeatureRewriter *)
(** Pattern: Any | Exact(String) | Multiple(HashSet<String>) *)
Definition pattern := sum3 unit (list N) (list (list N)).
Definition pattern_c : codec pattern := sum3_c unit_c string_c (vec_c string_c).
(** Rewrite: Reference(usize) | Text(String) *)
Definition rewrite_c : codec (N + list N) := sum2_c u64 string_c.
(** Edge { pattern, target } *)
Definition edge_c : codec (pattern * N) := pair_c pattern_c u64.
(** Action: Transition(Edge) | Rewrite(Vec<Rewrite>) *)
Definition action := ((pattern * N) + list (N + list N))%type.
Definition action_c : codec action := sum2_c edge_c (vec_c rewrite_c).
(** Node { actions }, FeatureRewriter { nodes } *)
Definition rewriter := list (list action).
Definition rewriter_c : codec rewriter := vec_c (vec_c action_c).

(** ** TrainerConfig { feature_extractor, unigram_rewriter, left_rewriter, right_rewriter, dict.data, surfaces } *)
Definition config_c :=
  pair_c extractor_c (pair_c rewriter_c (pair_c rewriter_c (pair_c rewriter_c (pair_c inner_c (vec_c string_c))))).

(** write_model: the configuration, then rucrf's bytes; read_model: the configuration, the rest goes to rucrf *)
Definition write_model {A} (c : codec A) (cfg : A) (raw : bytes) : bytes := enc c cfg ++ raw.
Definition read_model {A} (c : codec A) (bs : bytes) : option (A * bytes) := dec c bs.
