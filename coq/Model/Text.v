(** Text utilities mirroring the Rust [str] methods the code uses.
    A string is a list of Unicode scalar values ([N]). *)
From Vib Require Import Model.Base.
Local Open Scope N_scope.

(** [str::split(c)]: always at least one piece. *)
Fixpoint split_on (c : N) (s : str) : list str :=
  match s with
  | [] => [[]]
  | x :: t =>
      if N.eqb x c then [] :: split_on c t
      else match split_on c t with
           | [] => [[x]]          (* unreachable *)
           | p :: ps => (x :: p) :: ps
           end
  end.

Definition strip_cr (l : str) : str :=
  match rev l with
  | 13 :: r => rev r
  | _ => l
  end.

(** [BufRead::lines]: pieces between '\n', a trailing '\r' removed from each,
    no final empty piece after a terminating '\n'. *)
Definition lines (s : str) : list str :=
  let ps := split_on 10 s in
  let ps' := match rev ps with
             | [] :: r => rev r
             | _ => ps
             end in
  map strip_cr ps'.

(** [char::is_whitespace] (Unicode White_Space). *)
Definition is_unicode_ws (c : N) : bool :=
  ((9 <=? c) && (c <=? 13)) || (c =? 32) || (c =? 133) || (c =? 160) || (c =? 5760)
  || ((8192 <=? c) && (c <=? 8202)) || (c =? 8232) || (c =? 8233) || (c =? 8239)
  || (c =? 8287) || (c =? 12288).

(** [u8::is_ascii_whitespace]: space, \t, \n, \x0C, \r (not \x0B). *)
Definition is_ascii_ws (c : N) : bool :=
  (c =? 32) || (c =? 9) || (c =? 10) || (c =? 12) || (c =? 13).

Fixpoint drop_while (f : N -> bool) (s : str) : str :=
  match s with
  | [] => []
  | x :: t => if f x then drop_while f t else s
  end.

Definition trim_with (f : N -> bool) (s : str) : str :=
  rev (drop_while f (rev (drop_while f s))).
Definition trim (s : str) : str := trim_with is_unicode_ws s.

(** [str::split_ascii_whitespace]: maximal runs of non-whitespace. *)
Fixpoint split_ws_aux (f : N -> bool) (s : str) (cur : str) : list str :=
  match s with
  | [] => match cur with [] => [] | _ => [rev cur] end
  | x :: t =>
      if f x then match cur with [] => split_ws_aux f t [] | _ => rev cur :: split_ws_aux f t [] end
      else split_ws_aux f t (x :: cur)
  end.
Definition split_ascii_ws (s : str) : list str := split_ws_aux is_ascii_ws s [].
Definition split_unicode_ws (s : str) : list str := split_ws_aux is_unicode_ws s [].

Fixpoint starts_with (p s : str) : bool :=
  match p, s with
  | [], _ => true
  | x :: p', y :: s' => N.eqb x y && starts_with p' s'
  | _ :: _, [] => false
  end.
Definition ends_with (p s : str) : bool := starts_with (rev p) (rev s).

Fixpoint strip_prefix (p s : str) : option str :=
  match p, s with
  | [], _ => Some s
  | x :: p', y :: s' => if N.eqb x y then strip_prefix p' s' else None
  | _ :: _, [] => None
  end.

Definition is_digit (c : N) : bool := (48 <=? c) && (c <=? 57).

(** decimal value of a non-empty all-digit string *)
Fixpoint dec_value_acc (s : str) (acc : N) : option N :=
  match s with
  | [] => Some acc
  | c :: t => if is_digit c then dec_value_acc t (acc * 10 + (c - 48)) else None
  end.
Definition dec_value (s : str) : option N :=
  match s with [] => None | _ => dec_value_acc s 0 end.

(** ASCII literal helper: a Coq [list N] written by hand in the models *)
Definition ch_star : N := 42.    (* '*' *)
Definition ch_hash : N := 35.    (* '#' *)
Definition ch_comma : N := 44.
Definition ch_lpar : N := 40.
Definition ch_rpar : N := 41.
Definition ch_bar : N := 124.
Definition ch_dollar : N := 36.
Definition ch_tab : N := 9.
Definition ch_slash : N := 47.
