(** Model of [Model::write_dictionary] (trainer/model.rs): the four emitted files as byte strings, from
    the seed definition files (read by the CSV / char.def models) and the merged model (weights as
    binary64 bit patterns, connection ids, matrix entries, dimensions, labels of the user entries). *)
From Vib Require Import Model.Base Model.Text Model.LexCsv Model.DefText Model.DictBuild Model.Template Model.Float.
From Coq Require Import ZArith.
Local Open Scope N_scope.

Definition show_Z (z : Z) : list N := if (z <? 0)%Z then 45 :: show_N (Z.to_N (- z)) else show_N (Z.to_N z).
(** utils::quote_csv_cell = csv-core's writer with QuoteStyle::Necessary on one field *)
Definition csv_cell (s : list N) : list N := render_cell false s.

Record merged := {
  mg_sets : list (Z * N * N);        (* per label: weight bits, left id, right id *)
  mg_matrix : list (N * N * Z);      (* right id, left id, weight bits -- in any order *)
  mg_dims : N * N;                   (* number of right ids, number of left ids *)
  mg_labels : list N                 (* label (1-based) of every user entry *)
}.

Definition mg_scale (m : merged) : f64 :=
  f64_scale (map (fun s => f64_of_bits (fst (fst s))) (mg_sets m) ++ map (fun e => f64_of_bits (snd e)) (mg_matrix m)).

(** [first,left,right,cost,feature LF] *)
Definition row5 (first : list N) (l r : N) (cost : Z) (feature : list N) : list N :=
  first ++ 44 :: show_N l ++ 44 :: show_N r ++ 44 :: show_Z cost ++ 44 :: feature ++ [10].

(** rows i = 0, 1, ... take the parameters of the feature sets in order; a missing set is an index panic *)
Fixpoint gen_rows (sc : f64) (first : lexent -> list N) (es : list lexent) (sets : list (Z * N * N)) : result (list N) :=
  match es with
  | [] => Ok []
  | e :: t =>
      match sets with
      | [] => Panic
      | (w, l, r) :: st =>
          do rest <- gen_rows sc first t st ;;
          Ok (row5 (first e) l r (f64_cost sc (f64_of_bits w)) (le_feature e) ++ rest)
      end
  end.

(** matrix.def: header, then the entries by right id and left id *)
Fixpoint insert_rl (x : N * N * Z) (l : list (N * N * Z)) : list (N * N * Z) :=
  match l with
  | [] => [x]
  | y :: t => if (fst (fst x) <? fst (fst y)) || ((fst (fst x) =? fst (fst y)) && (snd (fst x) <=? snd (fst y))) then x :: l else y :: insert_rl x t
  end.
Definition gen_matrix (sc : f64) (m : merged) : list N :=
  show_N (fst (mg_dims m)) ++ 32 :: show_N (snd (mg_dims m)) ++ [10] ++
  flat_map (fun e => show_N (fst (fst e)) ++ 32 :: show_N (snd (fst e)) ++ 32 :: show_Z (f64_cost sc (f64_of_bits (snd e))) ++ [10])
           (fold_right insert_rl [] (mg_matrix m)).

(** user.csv: trained parameters for a 0,0,0 row (those of its label), the given ones otherwise *)
Fixpoint gen_user (sc : f64) (sets : list (Z * N * N)) (es : list lexent) (labels : list N) : result (list N) :=
  match es, labels with
  | [], _ => Ok []
  | e :: t, lb :: lt =>
      do rest <- gen_user sc sets t lt ;;
      match nth_error sets (N.to_nat (lb - 1)) with
      | None => Panic
      | Some (w, l, r) =>
          if (le_lid e =? 0) && (le_rid e =? 0) && (le_cost e =? 0)%Z
          then Ok (row5 (csv_cell (le_surface e)) l r (f64_cost sc (f64_of_bits w)) (le_feature e) ++ rest)
          else Ok (row5 (csv_cell (le_surface e)) (le_lid e) (le_rid e) (le_cost e) (le_feature e) ++ rest)
      end
  | _ :: _, [] => Panic
  end.

(** the unk.def entries in stored order: grouped by category id (char.def order), file order inside a group *)
Definition unk_stored (names : list str) (es : list lexent) : list lexent :=
  flat_map (fun name => filter (fun e => str_eqb (le_surface e) name) es) names.

Record genfiles := { gf_lex : list N; gf_unk : list N; gf_matrix : list N; gf_user : list N }.

Definition write_dictionary (chardef lex unk user : list N) (m : merged) : result genfiles :=
  do cd <- parse_chardef_text chardef ;;
  do cn <- compile_chardef cd ;;
  do seeds <- parse_lex_csv lex ;;
  do unks <- parse_lex_csv unk ;;
  do users <- parse_lex_csv user ;;
  let sc := mg_scale m in
  let ustored := unk_stored (snd cn) unks in
  do l <- gen_rows sc (fun e => csv_cell (le_surface e)) seeds (mg_sets m) ;;
  do u <- gen_rows sc (fun e => le_surface e) ustored (skipn (length seeds) (mg_sets m)) ;;
  do us <- gen_user sc (mg_sets m) users (mg_labels m) ;;
  Ok {| gf_lex := l; gf_unk := u; gf_matrix := gen_matrix sc m; gf_user := us |}.
