(** Model of mecab.rs [generate_bigram_info] on parsed inputs, and the defining cost of C20. *)
From Vib Require Import Model.Base Model.Text Model.Scorer Model.Template.
Local Open Scope N_scope.

Record mecab_in := {
  mi_bigrams : list (str * str);               (* BIGRAM templates of feature.def: (left part, right part) *)
  mi_rightdef : list (N * list str);           (* right-id.def in file order: id, feature columns *)
  mi_leftdef : list (N * list str);            (* left-id.def *)
  mi_model : list (Z * N * str);               (* model.def lines in order: weight = num / 10^exp, feature text *)
  mi_factor : Z
}.

Definition ltemplates (m : mecab_in) := map (fun b => parse_template 76 (fst b)) (mi_bigrams m).
Definition rtemplates (m : mecab_in) := map (fun b => parse_template 82 (snd b)) (mi_bigrams m).

(** -(weight * factor) as i32: truncation toward zero *)
Definition line_cost (num : Z) (exp : N) (factor : Z) : Z := (- Z.quot (num * factor) (10 ^ Z.of_N exp))%Z.

Definition BOSEOS : str := [66;79;83;47;69;79;83].

(** ** the defining sum of the property, directly on the MeCab description *)
Definition feats_of (tbl : list (N * list str)) (id : N) : option (list str) :=
  option_map snd (find (fun e => fst e =? id) (rev tbl)).       (* a later line for the same id replaces an earlier one *)

Fixpoint model_lookup (lines : list (Z * N * str)) (txt : str) (acc : option (Z * N)) : option (Z * N) :=
  match lines with
  | [] => acc
  | (num, e, t) :: rest => model_lookup rest txt (if str_eqb t txt then Some (num, e) else acc)
  end.

Definition c20_spec (m : mecab_in) (r l : N) : Z :=
  match feats_of (mi_rightdef m) r, feats_of (mi_leftdef m) l with
  | Some fr, Some fl =>
      fold_right Z.add 0%Z
        (map (fun b => match expand (parse_template 76 (fst b)) fr 0, expand (parse_template 82 (snd b)) fl 0 with
                       | Some a, Some c =>
                           match model_lookup (mi_model m) (a ++ [ch_slash] ++ c) None with
                           | Some (num, e) => line_cost num e (mi_factor m)
                           | None => 0%Z
                           end
                       | _, _ => 0%Z
                       end) (mi_bigrams m))
  | _, _ => 0%Z
  end.

(** ids defined without a gap from 0, id 0 = BOS/EOS *)
Definition ids_dense (tbl : list (N * list str)) : bool :=
  let n := length (nodup N.eq_dec (map fst tbl)) in
  forallb (fun i => existsb (fun e => fst e =? N.of_nat i) tbl) (seq 0 n).
Definition id0_ok (tbl : list (N * list str)) : bool :=
  forallb (fun e => negb (fst e =? 0) || match snd e with f :: _ => str_eqb f BOSEOS | [] => true end) tbl.
