(** Model of mecab.rs [generate_bigram_info] on parsed inputs, and the defining cost of C20. *)
From Vib Require Import Model.Base Model.Text Model.Scorer Model.Template.
Local Open Scope N_scope.

Record mecab_in := {
  mi_bigrams : list (str * str);               (* BIGRAM templates of feature.def: (left part, right part) *)
  mi_rightdef : list (N * list str);           (* right-id.def in file order: id, feature columns *)
  mi_leftdef : list (N * list str);            (* left-id.def *)
  mi_model : list (Z * N * str);               (* model.def lines in order: weight = num / 10^exp, feature text *)
  mi_factor : Z
}.

Definition ltemplates (m : mecab_in) := map (fun b => parse_template 76 (fst b)) (mi_bigrams m).
Definition rtemplates (m : mecab_in) := map (fun b => parse_template 82 (snd b)) (mi_bigrams m).

(** -(weight * factor) as i32: truncation toward zero *)
Definition line_cost (num : Z) (exp : N) (factor : Z) : Z := (- Z.quot (num * factor) (10 ^ Z.of_N exp))%Z.

Definition BOSEOS : str := [66;79;83;47;69;79;83].

(** ** the defining sum of the property, directly on the MeCab description *)
Definition feats_of (tbl : list (N * list str)) (id : N) : option (list str) :=
  option_map snd (find (fun e => fst e =? id) (rev tbl)).       (* a later line for the same id replaces an earlier one *)

Fixpoint model_lookup (lines : list (Z * N * str)) (txt : str) (acc : option (Z * N)) : option (Z * N) :=
  match lines with
  | [] => acc
  | (num, e, t) :: rest => model_lookup rest txt (if str_eqb t txt then Some (num, e) else acc)
  end.

Definition c20_spec (m : mecab_in) (r l : N) : Z :=
  match feats_of (mi_rightdef m) r, feats_of (mi_leftdef m) l with
  | Some fr, Some fl =>
      fold_right Z.add 0%Z
        (map (fun b => match expand (parse_template 76 (fst b)) fr 0, expand (parse_template 82 (snd b)) fl 0 with
                       | Some a, Some c =>
                           match model_lookup (mi_model m) (a ++ [ch_slash] ++ c) None with
                           | Some (num, e) => line_cost num e (mi_factor m)
                           | None => 0%Z
                           end
                       | _, _ => 0%Z
                       end) (mi_bigrams m))
  | _, _ => 0%Z
  end.

(** ids defined without a gap from 0, id 0 = BOS/EOS *)
Definition ids_dense (tbl : list (N * list str)) : bool :=
  let n := length (nodup N.eq_dec (map fst tbl)) in
  forallb (fun i => existsb (fun e => fst e =? N.of_nat i) tbl) (seq 0 n).
Definition id0_ok (tbl : list (N * list str)) : bool :=
  forallb (fun e => negb (fst e =? 0) || match snd e with f :: _ => str_eqb f BOSEOS | [] => true end) tbl.

(** ** [generate_bigram_info] itself, on parsed inputs *)
Fixpoint is_prefix_str (p s : str) : bool :=
  match p, s with
  | [], _ => true
  | x :: p', y :: s' => (x =? y) && is_prefix_str p' s'
  | _ :: _, [] => false
  end.
(** [str::replace("BOS/EOS", "")]: leftmost non-overlapping occurrences *)
Fixpoint drop_boseos (fuel : nat) (s : str) : str :=
  match fuel with
  | O => s
  | S f => match s with
           | [] => []
           | c :: t => if is_prefix_str BOSEOS s then drop_boseos f (skipn 7 s) else c :: drop_boseos f t
           end
  end.
(** [split('/')]: the first piece and what follows the first '/' *)
Fixpoint split_slash (s : str) : str * option str :=
  match s with
  | [] => ([], None)
  | c :: t => if c =? 47 then ([], Some t) else let '(a, r) := split_slash t in (c :: a, r)
  end.
Definition two_pieces (s : str) : option (str * str) :=
  match split_slash s with
  | (a, Some rest) => Some (a, fst (split_slash rest))
  | (_, None) => None
  end.

Definition idmap := list (N * list (option N)).      (* HashMap<usize, Vec<Option<id>>> as an insertion log: the last entry of a key counts *)
Definition lookup_id (mp : idmap) (id : N) : option (list (option N)) :=
  option_map snd (find (fun e => fst e =? id) (rev mp)).
Definition num_keys (mp : idmap) : nat := length (nodup N.eq_dec (map fst mp)).

(** reading right-id.def / left-id.def: feature ids of every line, interned in line order *)
Fixpoint read_defs (templates : list (list tpiece)) (defs : list (N * list str)) (mp : idmap) (tbl : list str)
  : result (idmap * list str) :=
  match defs with
  | [] => Ok (mp, tbl)
  | (id, feats) :: rest =>
      if (id =? 0) && match feats with f :: _ => negb (str_eqb f BOSEOS) | [] => false end then Err
      else let '(ids, tbl') := extract_ids templates feats 0 tbl in
           read_defs templates rest (mp ++ [(id, ids)]) tbl'
  end.

Definition feat_name (tbl : list str) (s : str) : option str :=
  match s with
  | [] => Some []
  | _ => option_map (fun i => show_N (N.succ i)) (index_of_str s tbl 0)
  end.

(** one model.def line -> at most one bigram.cost line *)
Definition cost_line (tblL tblR : list str) (factor : Z) (ln : Z * N * str) : option (str * str * Z) :=
  let '(num, e, txt) := ln in
  let c := line_cost num e factor in
  if (c =? 0)%Z then None
  else match two_pieces (drop_boseos (length txt) txt) with
       | None => None
       | Some (L, R) =>
           match feat_name tblL L, feat_name tblR R with
           | Some a, Some b => Some (a, b, c)
           | _, _ => None
           end
       end.

Fixpoint filter_map {A B} (f : A -> option B) (l : list A) : list B :=
  match l with [] => [] | x :: t => match f x with Some y => y :: filter_map f t | None => filter_map f t end end.

Definition render_ids (ids : list (option N)) : list str :=
  map (fun o => match o with Some i => show_N i | None => STAR end) ids.

Fixpoint all_ok {A} (l : list (result A)) : result (list A) :=
  match l with
  | [] => Ok []
  | Ok x :: t => match all_ok t with Ok r => Ok (x :: r) | Err => Err | Panic => Panic end
  | Err :: _ => Err
  | Panic :: _ => Panic
  end.

(** rows of ids 1 .. n-1 (n = number of defined ids; id 0 must be among them) *)
Definition rows_of (mp : idmap) : result (list (list str)) :=
  match mp with
  | [] => Ok []
  | _ =>
      match lookup_id mp 0 with
      | None => Err
      | Some _ =>
          all_ok (map (fun i => match lookup_id mp (N.of_nat i) with Some ids => Ok (render_ids ids) | None => Err end)
                      (seq 1 (num_keys mp - 1)))
      end
  end.

Definition gen (m : mecab_in) : result (list (list str) * list (list str) * list (str * str * Z)) :=
  match read_defs (ltemplates m) (mi_rightdef m) [] [] with
  | Ok (mpR, tblL) =>
      match read_defs (rtemplates m) (mi_leftdef m) [] [] with
      | Ok (mpL, tblR) =>
          match rows_of mpR, rows_of mpL with
          | Ok rrows, Ok lrows => Ok (rrows, lrows, filter_map (cost_line tblL tblR (mi_factor m)) (mi_model m))
          | _, _ => Err
          end
      | _ => Err
      end
  | _ => Err
  end.

(** ** the hypotheses of the end-to-end theorem, as a computable predicate
    (a) a model line that yields a two-sided cost entry is the plain text  left '/' right;
    (b) one line per feature text;
    (c) the expansions of the templates on the rows of the non-zero ids are non-empty, free of '/',
        and  a '/' c  holds no occurrence of BOS/EOS. *)
Definition has_slash (s : str) : bool := existsb (fun c => c =? 47) s.
Definition line_plain (txt : str) : bool :=
  match two_pieces (drop_boseos (length txt) txt) with
  | Some (L, R) => match L, R with [], _ => true | _, [] => true | _, _ => str_eqb txt (L ++ [ch_slash] ++ R) end
  | None => true
  end.
Fixpoint nodup_strs (l : list str) : bool :=
  match l with [] => true | x :: t => negb (existsb (str_eqb x) t) && nodup_strs t end.
Definition exp_ok (a c : str) : bool :=
  negb (has_slash a) && negb (has_slash c)
  && match a with [] => false | _ => true end && match c with [] => false | _ => true end
  && str_eqb (drop_boseos (length (a ++ [ch_slash] ++ c)) (a ++ [ch_slash] ++ c)) (a ++ [ch_slash] ++ c).
Definition wf_model (m : mecab_in) : bool :=
  forallb (fun ln => line_plain (snd ln)) (mi_model m)
  && nodup_strs (map snd (mi_model m))
  && forallb (fun b =>
       forallb (fun er => (fst er =? 0)%N ||
         forallb (fun el => (fst el =? 0)%N ||
           match expand (parse_template 76 (fst b)) (snd er) 0, expand (parse_template 82 (snd b)) (snd el) 0 with
           | Some a, Some c => exp_ok a c
           | _, _ => true
           end) (mi_leftdef m)) (mi_rightdef m)) (mi_bigrams m).
