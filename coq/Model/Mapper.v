(** Model of dictionary/mapper.rs: [ConnIdMapper::parse] / [from_iter], [ConnIdCounter] and
    the order computed by [compute_probs]. *)
From Vib Require Import Model.Base.
Local Open Scope N_scope.

Definition U16MAX : N := 65535.

Fixpoint set_nth {A} (l : list A) (i : nat) (v : A) : list A :=
  match l, i with
  | [], _ => []
  | _ :: t, O => v :: t
  | x :: t, S i => x :: set_nth t i v
  end.

(** the second loop of [parse]: [new_ids[old_id] = new_id], rejecting out-of-range and
    already-assigned slots ([u16::MAX] is the "free" mark) *)
Fixpoint parse_loop (olds : list N) (new_id : N) (tbl : list N) : result (list N) :=
  match olds with
  | [] => Ok tbl
  | o :: rest =>
      match nth_error tbl (N.to_nat o) with
      | None => Err
      | Some e =>
          if negb (e =? U16MAX) then Err
          else if U16MAX <? new_id then Err                 (* u16::try_from(new_id)? *)
          else parse_loop rest (N.succ new_id) (set_nth tbl (N.to_nat o) new_id)
      end
  end.

Definition mapper_parse (xs : list N) : result (list N) :=
  if existsb (N.eqb 0) xs then Err
  else parse_loop xs 1 (0 :: repeat U16MAX (length xs)).

(** [ConnIdMapper::from_iter] *)
Definition mapper_from_iter (l r : list N) : result (list N * list N) :=
  do lt <- mapper_parse l ;; do rt <- mapper_parse r ;; Ok (lt, rt).

(** [left(id)] / [right(id)]: indexing panics out of range *)
Definition mapper_get (t : list N) (id : N) : result N :=
  match nth_error t (N.to_nat id) with Some v => Ok v | None => Panic end.

(** ** [compute_probs]: ids 1..n-1 sorted by probability (count / sum) descending, ties by id
    ascending.  The quotients are binary64 numbers in Rust; dividing by one positive sum is
    monotone and separates distinct integers below 2^53, and with sum = 0 every quotient is NaN
    (all comparisons "equal"), so the order is the order on counts: theorem c13_float_order
    (Proofs/FloatOrder.v, with Flocq's binary64 division and comparison). *)
Definition cnt_of (cnt : list N) (i : N) : N := nth (N.to_nat i) cnt 0.
Definition before (cnt : list N) (a b : N) : bool :=
  (cnt_of cnt b <? cnt_of cnt a) || ((cnt_of cnt a =? cnt_of cnt b) && (a <=? b)).

Fixpoint insert_by (le : N -> N -> bool) (x : N) (l : list N) : list N :=
  match l with
  | [] => [x]
  | y :: t => if le x y then x :: l else y :: insert_by le x t
  end.
Definition sort_by (le : N -> N -> bool) (l : list N) : list N := fold_right (insert_by le) [] l.

Definition ids_from1 (n : nat) : list N := map N.of_nat (seq 1 (n - 1)).
Definition probs_order (cnt : list N) : list N := sort_by (before cnt) (ids_from1 (length cnt)).
