(** Ghost instrumentation for C13: the connection-cost evaluations performed while a lattice
    is built.  [search_min] ([smin_aux]) evaluates [conn (n_rid p) lid] exactly once for every
    node [p] of [ends[start_node]] (one call per list element, by its definition), so inserting
    a node with left id [lid] at start [sn] contributes the events below; [insert_eos]
    contributes those with left id 0.  An event is (left id of the right node, right id of the
    left node), the pair [ConnIdCounter::add] receives. *)
From Vib Require Import Model.Base Model.Lattice Model.Tokenizer.

Definition evals_of_insert (L : lattice) (sn : nat) (lid : N) : list (N * N) :=
  map (fun p => (lid, n_rid p)) (at_ L sn).

Fixpoint insert_all_log (conn : N -> N -> Z) (L : lattice) (sn : nat) (cs : list cand) : list (N * N) :=
  match cs with
  | [] => []
  | c :: t =>
      match insert_node conn L sn (c_sw c) (c_end c) (c_lex c) (c_wid c) (c_lid c) (c_rid c) (c_wc c) with
      | None => []
      | Some L' => evals_of_insert L sn (c_lid c) ++ insert_all_log conn L' sn t
      end
  end.

Fixpoint scan_log (d : dict) (o : options) (s : sentence) (fuel : nat) (sn sw : nat) (L : lattice) : list (N * N) :=
  match fuel with
  | O => []
  | S f =>
      if Nat.leb (s_len s) sw then []
      else if negb (has_prev L sn) then scan_log d o s f (S sw) (S sw) L
      else
        let sw' := if is_space o (s_ci s sn) then sw + s_grp s sn else sw in
        if Nat.eqb sw' (s_len s) then []
        else if Nat.ltb (s_len s) sw' then []
        else match insert_all (conn_of d) L sn (candidates d o s sw') with
             | None => []
             | Some L' => insert_all_log (conn_of d) L sn (candidates d o s sw') ++ scan_log d o s f (S sw') (S sw') L'
             end
  end.

(** all evaluations of one [build_lattice] run (lattice built from [L0]) *)
Definition build_log (d : dict) (o : options) (s : sentence) (L0 : lattice) : list (N * N) :=
  let L1 := reset L0 (s_len s) in
  match scan d o s (S (s_len s)) 0 0 L1 with
  | Done (L, sn) => scan_log d o s (S (s_len s)) 0 0 L1 ++ evals_of_insert L sn 0%N
  | _ => []
  end.
