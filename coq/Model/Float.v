(** binary64 arithmetic as Rust's f64 uses it (IEEE 754, round to nearest even), computed with
    Flocq's [BinarySingleNaN] operations; numbers enter as their bit patterns. *)
From Coq Require Import ZArith List.
From Flocq Require Import IEEE754.BinarySingleNaN IEEE754.Binary IEEE754.Bits.
Import ListNotations.
Local Open Scope Z_scope.

Definition f64 := BinarySingleNaN.binary_float 53 1024.
Lemma f64_prec : FLX.Prec_gt_0 53. Proof. reflexivity. Qed.
Lemma f64_emax : (53 < 1024). Proof. reflexivity. Qed.

Definition f64_of_bits (b : Z) : f64 := B2BSN 53 1024 (b64_of_bits b).
Definition f64_mul (x y : f64) : f64 := BinarySingleNaN.Bmult (prec_gt_0_ := f64_prec) (prec_lt_emax_ := f64_emax) BinarySingleNaN.mode_NE x y.
Definition f64_div (x y : f64) : f64 := BinarySingleNaN.Bdiv (prec_gt_0_ := f64_prec) (prec_lt_emax_ := f64_emax) BinarySingleNaN.mode_NE x y.
Definition f64_neg (x : f64) : f64 := BinarySingleNaN.Bopp x.
Definition f64_abs (x : f64) : f64 := BinarySingleNaN.Babs x.
Definition f64_cmp (x y : f64) : option comparison := BinarySingleNaN.Bcompare x y.
(** [f64::max]: the larger one; a NaN operand is ignored *)
Definition f64_max (x y : f64) : f64 :=
  match f64_cmp x y with
  | Some Lt => y
  | Some _ => x
  | None => match x with BinarySingleNaN.B754_nan => y | _ => x end
  end.
(** an integer (exactly representable: |z| < 2^53) as f64 *)
Definition f64_of_Z (z : Z) : f64 :=
  BinarySingleNaN.binary_normalize 53 1024 f64_prec f64_emax BinarySingleNaN.mode_NE z 0 false.

(** [x as i16] / [x as i32]: truncation toward zero, saturating, NaN -> 0 *)
Definition f64_to_int (lo hi : Z) (x : f64) : Z :=
  match x with
  | BinarySingleNaN.B754_nan => 0
  | BinarySingleNaN.B754_infinity s => if s then lo else hi
  | _ => Z.max lo (Z.min hi (BinarySingleNaN.Btrunc x))
  end.
Definition f64_to_i16 := f64_to_int (-32768) 32767.
Definition f64_to_i32 := f64_to_int (-2147483648) 2147483647.

(** the emitted cost of a weight: [((-w) * scale) as i16] *)
Definition f64_cost (sc w : f64) : Z := f64_to_i16 (f64_mul (f64_neg w) sc).
(** the scale of write_dictionary / write_bigram_details: 32767.0 / (largest absolute weight) *)
Definition f64_absmax (ws : list f64) : f64 := fold_left f64_max (map f64_abs ws) (f64_of_Z 0).
Definition f64_scale (ws : list f64) : f64 := f64_div (f64_of_Z 32767) (f64_absmax ws).

(** compute_probs: [cnt as f64 / sum as f64], and the comparator of its sort,
    [p2.partial_cmp(p1).unwrap_or(Equal).then_with(|| i1.cmp(i2))] *)
Definition f64_prob (cnt total : Z) : f64 := f64_div (f64_of_Z cnt) (f64_of_Z total).
Definition prob_order (i1 c1 i2 c2 total : Z) : comparison :=
  match f64_cmp (f64_prob c2 total) (f64_prob c1 total) with
  | Some Lt => Lt
  | Some Gt => Gt
  | _ => Z.compare i1 i2
  end.
