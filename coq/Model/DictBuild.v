(** Model of the semantic part of [CharProperty::from_reader] (category ids, packed
    [CharInfo], range table) and [UnkHandler::from_reader] (grouping by category), working on
    the already split lines. The line grammars are modelled in Model/CharDefText.v. *)
From Vib Require Import Model.Base Model.Lattice Model.Tokenizer.
Local Open Scope N_scope.

Definition CATE_IDSET_BITS : N := 18.
Definition BASE_ID_BITS : N := 8.
Definition LENGTH_BITS : N := 4.
Definition CATE_IDSET_MASK : N := N.ones CATE_IDSET_BITS.
Definition BASE_ID_MASK : N := N.ones BASE_ID_BITS.

Definition b2n (b : bool) : N := if b then 1 else 0.

(** [CharInfo::new]: [None] when a field does not fit *)
Definition pack (cates base : N) (invoke group : bool) (length : N) : option N :=
  if negb (N.shiftr cates CATE_IDSET_BITS =? 0) then None
  else if negb (N.shiftr base BASE_ID_BITS =? 0) then None
  else if negb (N.shiftr length LENGTH_BITS =? 0) then None
  else Some (N.lor cates
            (N.lor (N.shiftl base CATE_IDSET_BITS)
            (N.lor (N.shiftl (b2n invoke) (CATE_IDSET_BITS + BASE_ID_BITS))
            (N.lor (N.shiftl (b2n group) (CATE_IDSET_BITS + BASE_ID_BITS + 1))
                   (N.shiftl length (CATE_IDSET_BITS + BASE_ID_BITS + 2)))))).

Definition unpack (w : N) : cinfo :=
  {| ci_cates := N.land w CATE_IDSET_MASK;
     ci_base := N.land (N.shiftr w CATE_IDSET_BITS) BASE_ID_MASK;
     ci_invoke := N.testbit w (CATE_IDSET_BITS + BASE_ID_BITS);
     ci_group := N.testbit w (CATE_IDSET_BITS + BASE_ID_BITS + 1);
     ci_length := N.to_nat (N.land (N.shiftr w (CATE_IDSET_BITS + BASE_ID_BITS + 2)) 65535) |}.

(** [reset_cate_idset] on the packed word (bits above 18 of [cates] spill, as in Rust) *)
Definition reset_cates (w cates : N) : N :=
  N.land (N.lor (w - N.land w CATE_IDSET_MASK) cates) 4294967295.

Record catline := { cl_name : str; cl_invoke : bool; cl_group : bool; cl_length : N }.
Record rangeline := { rl_start : N; rl_end : N (* exclusive *); rl_cats : list str }.

Fixpoint index_of (name : str) (names : list str) (i : N) : option N :=
  match names with
  | [] => None
  | x :: t => if str_eqb x name then Some i else index_of name t (N.succ i)
  end.

Fixpoint assoc_N {A} (k : N) (l : list (N * A)) : option A :=
  match l with
  | [] => None
  | (k', v) :: t => if k =? k' then Some v else assoc_N k t
  end.

Definition DEFAULT_NAME : str := [68;69;70;65;85;76;84].

(** category lines in file order: names by id, and id -> packed info (latest definition first) *)
Fixpoint read_cats (ls : list catline) (names : list str) (infos : list (N * N))
  : result (list str * list (N * N)) :=
  match ls with
  | [] => Ok (names, infos)
  | l :: t =>
      let '(id, names') := match index_of (cl_name l) names 0 with
                           | Some id => (id, names)
                           | None => (N.of_nat (length names), names ++ [cl_name l])
                           end in
      if CATE_IDSET_BITS <=? id then Err                (* more than 18 categories *)
      else match pack 0 id (cl_invoke l) (cl_group l) (cl_length l) with
      | None => Err                                     (* CharInfo::new(..) = None: LENGTH >= 16 *)
      | Some w => read_cats t names' ((id, w) :: infos)
      end
  end.

(** [encode_cate_info] *)
Fixpoint enc_go (names : list str) (infos : list (N * N)) (ts : list str) (acc : N) : result N :=
  match ts with
  | [] => Ok acc
  | t :: ts' =>
      match index_of t names 0 with
      | None => Err                       (* undefined category *)
      | Some id =>
          match assoc_N id infos with
          | None => Err                   (* a name known but never defined (DEFAULT without a line) *)
          | Some w =>
              let b := N.land (N.shiftr w CATE_IDSET_BITS) BASE_ID_MASK in
              if 32 <=? b then Panic      (* 1 << base_id overflows u32 (dev profile) *)
              else enc_go names infos ts' (N.lor acc (N.shiftl 1 b))
          end
      end
  end.

Definition encode_cate_info (names : list str) (infos : list (N * N)) (targets : list str) : result N :=
  match targets with
  | [] => Err                                           (* a range line without a category is rejected by the parser *)
  | t0 :: _ =>
      match index_of t0 names 0 with
      | None => Err
      | Some id0 =>
          match assoc_N id0 infos with
          | None => Err
          | Some base =>
              do cates <- enc_go names infos targets (N.land base CATE_IDSET_MASK) ;;
              Ok (reset_cates base cates)
          end
      end
  end.

Record chardef := { cd_cats : list catline; cd_ranges : list rangeline }.

Definition compile_chardef (cd : chardef) : result (chartable * list str) :=
  do ni <- read_cats (cd_cats cd) [DEFAULT_NAME] [] ;;
  let '(names, infos) := ni in
  do dflt <- encode_cate_info names infos [DEFAULT_NAME] ;;
  do rs <- mapM_r (fun r => do w <- encode_cate_info names infos (rl_cats r) ;;
                            Ok (rl_start r, rl_end r, unpack w)) (cd_ranges cd) ;;
  Ok ({| ct_default := unpack dflt; ct_ranges := rs |}, names).

(** [UnkHandler::from_reader]: entries grouped by category id, file order inside a group *)
Record unkline := { ul_cate : str; ul_lid : N; ul_rid : N; ul_cost : Z; ul_feature : str }.

Definition compile_unk (names : list str) (ls : list unkline) : result (list unkrow) :=
  do rows <- mapM_r (fun l => match index_of (ul_cate l) names 0 with
                              | None => Err
                              | Some id => Ok {| ur_cate := id; ur_lid := ul_lid l; ur_rid := ul_rid l;
                                                 ur_cost := ul_cost l; ur_feature := ul_feature l |}
                              end) ls ;;
  Ok (flat_map (fun id => filter (fun r => ur_cate r =? id) rows)
               (map N.of_nat (seq 0 (length names)))).

(** [Tokenizer::ignore_space]: [Err] when SPACE is undefined *)
Definition SPACE_NAME : str := [83;80;65;67;69].
Definition space_mask (names : list str) : result N :=
  match index_of SPACE_NAME names 0 with
  | None => Err
  | Some id => if 32 <=? id then Panic else Ok (N.shiftl 1 id)
  end.
