(** Model of connector/dual_connector.rs: the template positions are split into a matrix part
    (pre-summed, clamped to i16) and a raw part (scored by a pruned double array).  WHICH
    positions go where is decided by a greedy search over a hash set in the Rust code; the model
    takes the split as a parameter [mask] (true = matrix part) and the theorem holds for every mask.
    Not modelled: the sharing of matrix rows between ids with equal matrix-part features (the
    entry computed from a representative equals the entry of the id itself). *)
From Vib Require Import Model.Base Model.Scorer.
Local Open Scope N_scope.

(** the features of [row] at the positions whose mask bit is [keep]; a position beyond the row is
    the invalid feature ([row.get(idx).unwrap_or(INVALID)]) *)
Fixpoint sel (keep : bool) (mask : list bool) (row : list N) : list N :=
  match mask with
  | [] => []
  | m :: mt =>
      let x := match row with [] => INVALID | x :: _ => x end in
      let rt := match row with [] => [] | _ :: t => t end in
      if Bool.eqb m keep then x :: sel keep mt rt else sel keep mt rt
  end.

Definition clamp16 (z : Z) : Z := Z.max (-32768) (Z.min 32767 z).

Definition mem_N (x : N) (l : list N) : bool := existsb (N.eqb x) l.

(** [create_raw_connector]: trie entries whose right or left feature is not used by any raw-part
    vector are removed *)
Fixpoint prune_from (T : list smap) (i : N) (usedR usedL : list N) : list smap :=
  match T with
  | [] => []
  | m :: t => (if mem_N i usedR then filter (fun kc => mem_N (fst kc) usedL) m else []) :: prune_from t (N.succ i) usedR usedL
  end.
Definition prune (T : list smap) (usedR usedL : list N) : list smap := prune_from T 0 usedR usedL.

Record dualconn := {
  dc_mask : list bool;
  dc_right : list (list N);       (* feature ids per right id (row 0 = BOS/EOS), unpadded, length = number of templates *)
  dc_left : list (list N);
  dc_full : scorer;               (* scorer of all cost lines: used to pre-sum the matrix part *)
  dc_raw : scorer                 (* scorer of the pruned trie: the raw part *)
}.

Definition build_dual (fuel : nat) (mask : list bool) (right left : list (list str)) (lines : list (str * str * Z)) : option dualconn :=
  let '(rt, lt, T) := read_costs lines [[]] [[]] [] in
  let k := fold_right Nat.max 0%nat (map (@length _) (right ++ left)) in
  let rowsR := pad_to k (repeat 0 k) :: map (fun r => pad_to k (feat_ids rt r)) right in
  let rowsL := pad_to k (repeat 0 k) :: map (fun r => pad_to k (feat_ids lt r)) left in
  let usedR := flat_map (sel false mask) rowsR in
  let usedL := flat_map (sel false mask) rowsL in
  match build fuel T, build fuel (prune T usedR usedL) with
  | Some full, Some raw => Some {| dc_mask := mask; dc_right := rowsR; dc_left := rowsL; dc_full := full; dc_raw := raw |}
  | _, _ => None
  end.

(** [DualConnector::cost]: matrix entry (pre-summed with the full scorer, clamped) + raw part *)
Definition matrix_part (dc : dualconn) (r l : N) : Z :=
  accumulate (dc_full dc) (sel true (dc_mask dc) (nth (N.to_nat r) (dc_right dc) [])) (sel true (dc_mask dc) (nth (N.to_nat l) (dc_left dc) [])).
Definition dual_cost (dc : dualconn) (r l : N) : Z :=
  (clamp16 (matrix_part dc r l)
   + accumulate (dc_raw dc) (sel false (dc_mask dc) (nth (N.to_nat r) (dc_right dc) [])) (sel false (dc_mask dc) (nth (N.to_nat l) (dc_left dc) [])))%Z.
