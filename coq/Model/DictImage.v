(** The compiled dictionary image: [MODEL_MAGIC ++ bincode(DictionaryInner)], field by field in
    declaration order (derive(Encode)) with the four hand-written impls (Trie = byte blob,
    U31 = range-checked u32, U31x8 = eight u32, Scorer = three vectors + length check). *)
From Vib Require Import Model.Base Model.Codec Gen.Constants.
Local Open Scope N_scope.

Definition u8 := uint 1.
Definition u16 := uint 2.     (* also i16: the two's-complement bit pattern *)
Definition u32 := uint 4.     (* also i32 *)
Definition u64 := uint 8.     (* usize *)

(** String: length-prefixed bytes (bincode additionally rejects invalid UTF-8 when decoding;
    that check is not modelled: it only ever turns an acceptance into a rejection) *)
Definition string_c : codec (list N) := vec_c u8.

Definition u31 : codec N := guard_c u32 (fun x => x <=? 2147483647).
Definition u31x8 : codec (list N) := array_c u31 8.

(** WordParam { left_id, right_id, word_cost } *)
Definition param_c : codec (N * (N * N)) := pair_c u16 (pair_c u16 u16).

(** LexType: u32 variant index, three variants *)
Definition lextype_c : codec N := guard_c u32 (fun x => x <? 3).

(** Lexicon { map: WordMap { trie (blob), postings: Vec<u32> }, params, features, lex_type } *)
Definition lexicon := (list N * (list N * (list (N * (N * N)) * (list (list N) * N))))%type.
Definition lexicon_c : codec lexicon :=
  pair_c (vec_c u8) (pair_c (vec_c u32) (pair_c (vec_c param_c) (pair_c (vec_c string_c) lextype_c))).

(** MatrixConnector { data: Vec<i16>, num_right, num_left } *)
Definition matrix := (list N * (N * N))%type.
Definition matrix_c : codec matrix := pair_c (vec_c u16) (pair_c u64 u64).

(** Scorer: bases, checks, costs; decoding requires |checks| = |costs| *)
Definition scorer_img := (list N * (list N * list N))%type.
Definition scorer_c : codec scorer_img :=
  guard_c (pair_c (vec_c u32) (pair_c (vec_c u32) (vec_c u32)))
          (fun s => Nat.eqb (length (fst (snd s))) (length (snd (snd s)))).

(** RawConnector { right_feat_ids, left_feat_ids, feat_template_size, scorer } *)
Definition rawconn_img := (list (list N) * (list (list N) * (N * scorer_img)))%type.
Definition rawconn_c : codec rawconn_img := pair_c (vec_c u31x8) (pair_c (vec_c u31x8) (pair_c u64 scorer_c)).

(** DualConnector { matrix_connector, right_conn_id_map, left_conn_id_map, right_feat_ids, left_feat_ids, raw_scorer } *)
Definition dualconn_img := (matrix * (list N * (list N * (list (list N) * (list (list N) * scorer_img)))))%type.
Definition dualconn_c : codec dualconn_img :=
  pair_c matrix_c (pair_c (vec_c u16) (pair_c (vec_c u16) (pair_c (vec_c u31x8) (pair_c (vec_c u31x8) scorer_c)))).

Definition connector_c := sum3_c matrix_c rawconn_c dualconn_c.

(** ConnIdMapper { left, right } *)
Definition mapper_c : codec (list N * list N) := pair_c (vec_c u16) (vec_c u16).

(** CharProperty { chr2inf: Vec<CharInfo(u32)>, categories: Vec<String> } *)
Definition charprop_c : codec (list N * list (list N)) := pair_c (vec_c u32) (vec_c string_c).

(** UnkHandler { offsets: Vec<usize>, entries: Vec<UnkEntry { cate_id, left_id, right_id, word_cost, feature }> } *)
Definition unkentry_c : codec (N * (N * (N * (N * list N)))) := pair_c u16 (pair_c u16 (pair_c u16 (pair_c u16 string_c))).
Definition unk_c := pair_c (vec_c u64) (vec_c unkentry_c).

(** DictionaryInner { system_lexicon, user_lexicon, connector, mapper, char_prop, unk_handler } *)
Definition inner_c :=
  pair_c lexicon_c (pair_c (option_c lexicon_c) (pair_c connector_c (pair_c (option_c mapper_c) (pair_c charprop_c unk_c)))).

Definition write_image {A} (c : codec A) (d : A) : bytes * N :=
  let b := MODEL_MAGIC ++ enc c d in (b, N.of_nat (length b)).

Fixpoint strip_magic (m bs : bytes) : option bytes :=
  match m, bs with
  | [], _ => Some bs
  | x :: m', y :: bs' => if x =? y then strip_magic m' bs' else None
  | _ :: _, [] => None
  end.

(** [Dictionary::read]: magic, then the payload; bytes after the payload are not read *)
Definition read_image {A} (c : codec A) (bs : bytes) : option (A * bytes) :=
  match strip_magic MODEL_MAGIC bs with
  | Some r => dec c r
  | None => None
  end.
