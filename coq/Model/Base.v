(** Shared basics of the executable model: strings are lists of code points
    (or bytes) as [N]; results carry the three outcomes the harness observes. *)
From Coq Require Export List NArith ZArith Bool Lia.
Export ListNotations.

Definition str := list N.

Inductive result (A : Type) : Type :=
| Ok (a : A)
| Err          (* the Rust function returned Err(_) *)
| Panic.       (* the Rust function panicked (index, unwrap, overflow in the dev profile) *)
Arguments Ok {A} a.
Arguments Err {A}.
Arguments Panic {A}.

Definition rbind {A B} (r : result A) (f : A -> result B) : result B :=
  match r with Ok a => f a | Err => Err | Panic => Panic end.
Notation "'do' x <- r ;; k" := (rbind r (fun x => k)) (at level 200, x pattern, r at level 100, k at level 200, right associativity).

Fixpoint str_eqb (a b : str) : bool :=
  match a, b with
  | [], [] => true
  | x :: a', y :: b' => N.eqb x y && str_eqb a' b'
  | _, _ => false
  end.

Fixpoint list_eqb {A} (eqb : A -> A -> bool) (a b : list A) : bool :=
  match a, b with
  | [], [] => true
  | x :: a', y :: b' => eqb x y && list_eqb eqb a' b'
  | _, _ => false
  end.

Definition option_eqb {A} (eqb : A -> A -> bool) (a b : option A) : bool :=
  match a, b with
  | None, None => true
  | Some x, Some y => eqb x y
  | _, _ => false
  end.

Definition result_eqb {A} (eqb : A -> A -> bool) (a b : result A) : bool :=
  match a, b with
  | Ok x, Ok y => eqb x y
  | Err, Err => true
  | Panic, Panic => true
  | _, _ => false
  end.

Fixpoint nth_N {A} (l : list A) (i : N) : option A :=
  match l with
  | [] => None
  | x :: t => if N.eqb i 0 then Some x else nth_N t (N.pred i)
  end.

(** indices (from 0, as [N]) of the cases whose flag is false *)
Fixpoint failing_from (i : N) (l : list bool) : list N :=
  match l with
  | [] => []
  | b :: t => if b then failing_from (N.succ i) t else i :: failing_from (N.succ i) t
  end.
Definition failing (l : list bool) : list N := failing_from 0 l.
Definition count_true (l : list bool) : N := N.of_nat (length (filter (fun b => b) l)).

Lemma str_eqb_eq a b : str_eqb a b = true <-> a = b.
Proof.
  revert b; induction a as [|x a IH]; intros [|y b]; simpl; split; intros H; try congruence; try reflexivity.
  - apply andb_true_iff in H as [H1 H2]. apply N.eqb_eq in H1. apply IH in H2. congruence.
  - inversion H; subst. rewrite N.eqb_refl. simpl. now apply IH.
Qed.

(** What a shard prints: indices of cases where model and implementation differ, indices
    where the oracle rejects the implementation's observation (outside / inside the known
    findings), and the number of non-trivial cases. *)
Definition report {C} (corr oracle known nontriv : C -> bool) (cases : list C)
  : list N * list N * list N * N :=
  (failing (map corr cases),
   failing (map (fun c => oracle c || known c) cases),
   failing (map (fun c => oracle c || negb (known c)) cases),
   count_true (map nontriv cases)).

Fixpoint forallb2 {A B} (f : A -> B -> bool) (a : list A) (b : list B) : bool :=
  match a, b with
  | [], [] => true
  | x :: a', y :: b' => f x y && forallb2 f a' b'
  | _, _ => false
  end.

Fixpoint mapM_r {A B} (f : A -> result B) (l : list A) : result (list B) :=
  match l with
  | [] => Ok []
  | x :: t => do y <- f x ;; do ys <- mapM_r f t ;; Ok (y :: ys)
  end.
