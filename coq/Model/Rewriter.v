(** Model of vibrato/src/trainer/feature_rewriter.rs and of the rewrite.def reader in
    vibrato/src/trainer/config.rs ([parse_rewrite_rule], [parse_rewrite_config]).

    The Rust trie is a vector of nodes, each with an ordered action list; the model keeps the
    same information as a first-child / next-sibling tree: a [trie] value *is* the ordered
    action list of one node.  The matcher's explicit stack (with resume index) is the
    depth-first search below.  The correspondence check compares rewrite results and node
    counts with the implementation. *)
From Vib Require Import Model.Base Model.Text.
Local Open Scope N_scope.

Inductive pattern :=
| PAny
| PExact (s : str)
| PMulti (alts : list str).      (* HashSet<String>: compared and matched as a set *)

Inductive rw :=
| RRef (idx : N)                 (* $n, stored as n-1 *)
| RText (s : str).

Inductive trie :=
| TNil
| TTrans (p : pattern) (child : trie) (rest : trie)
| TRew (r : list rw) (rest : trie).

Definition mem_str (s : str) (l : list str) : bool := existsb (str_eqb s) l.
Definition subset_str (a b : list str) : bool := forallb (fun s => mem_str s b) a.

(** derived [PartialEq] of [Pattern] ([HashSet] equality = mutual inclusion) *)
Definition pat_eqb (p q : pattern) : bool :=
  match p, q with
  | PAny, PAny => true
  | PExact s, PExact s' => str_eqb s s'
  | PMulti a, PMulti b => subset_str a b && subset_str b a
  | _, _ => false
  end.

Definition pmatch (p : pattern) (f : str) : bool :=
  match p with
  | PAny => true
  | PExact s => str_eqb f s
  | PMulti a => mem_str f a
  end.

(** the chain of fresh nodes created for the not-yet-shared rest of a pattern *)
Fixpoint path (ps : list pattern) (r : list rw) : trie :=
  match ps with
  | [] => TRew r TNil
  | p :: ps' => TTrans p (path ps' r) TNil
  end.

Fixpoint snoc_rew (t : trie) (r : list rw) : trie :=
  match t with
  | TNil => TRew r TNil
  | TTrans p c rest => TTrans p c (snoc_rew rest r)
  | TRew r' rest => TRew r' (snoc_rew rest r)
  end.

(** [add_rule]: an existing edge is re-used only if it is the *last* action of the node. *)
Fixpoint add (ps : list pattern) (r : list rw) (t : trie) {struct ps} : trie :=
  match ps with
  | [] => snoc_rew t r
  | p :: ps' =>
      (fix go (t : trie) : trie :=
         match t with
         | TNil => TTrans p (path ps' r) TNil
         | TTrans p' c TNil =>
             if pat_eqb p p' then TTrans p' (add ps' r c) TNil
             else TTrans p' c (TTrans p (path ps' r) TNil)
         | TTrans p' c rest => TTrans p' c (go rest)
         | TRew r' rest => TRew r' (go rest)
         end) t
  end.

Definition rule := (list pattern * list rw)%type.

Definition build (rules : list rule) : trie :=
  fold_left (fun t ru => add (fst ru) (snd ru) t) rules TNil.

Definition apply_rw (r : list rw) (fs : list str) : list str :=
  map (fun x => match x with
                | RRef i => match nth_N fs i with Some s => s | None => [ch_star] end
                | RText s => s
                end) r.

(** [rewrite]: depth-first, actions in stored order, first [Rewrite] action reached wins.
    [rem] is the not yet consumed suffix of [fs] (depth = |fs| - |rem|). *)
Fixpoint search (fs : list str) (t : trie) (rem : list str) : option (list str) :=
  match t with
  | TNil => None
  | TRew r _ => Some (apply_rw r fs)
  | TTrans p c rest =>
      match rem with
      | f :: rem' =>
          if pmatch p f then
            match search fs c rem' with
            | Some x => Some x
            | None => search fs rest rem
            end
          else search fs rest rem
      | [] => search fs rest rem
      end
  end.

Definition rewrite (t : trie) (fs : list str) : option (list str) := search fs t fs.

(** number of nodes of the Rust vector: one per [TTrans] edge plus the root *)
Fixpoint edges (t : trie) : N :=
  match t with
  | TNil => 0
  | TTrans _ c rest => 1 + edges c + edges rest
  | TRew _ rest => edges rest
  end.
Definition num_nodes (t : trie) : N := 1 + edges t.

(** ** Text level *)

(** [add_rule]'s parsing of one pattern column.  "(" alone starts and ends with a
    parenthesis and makes the slice [1..0] panic. *)
Definition parse_pattern (p : str) : result pattern :=
  if str_eqb p [ch_star] then Ok PAny
  else if starts_with [ch_lpar] p && ends_with [ch_rpar] p then
    match p with
    | [_] => Panic
    | _ => Ok (PMulti (split_on ch_bar (removelast (tl p))))
    end
  else Ok (PExact p).

Definition two64 : N := 18446744073709551616.

(** regex [^\$([0-9]+)$]; [$0] underflows (dev profile), a number above usize panics *)
Definition parse_rw (p : str) : result rw :=
  match p with
  | c :: ds =>
      if N.eqb c ch_dollar then
        match dec_value ds with
        | Some n => if N.eqb n 0 then Panic else if two64 <=? n then Panic else Ok (RRef (n - 1))
        | None => Ok (RText p)
        end
      else Ok (RText p)
  | [] => Ok (RText p)
  end.

Definition mapM {A B} := @mapM_r A B.

(** [parse_rewrite_rule] + the parsing part of [add_rule].  In Rust the pattern columns are
    parsed (and may panic) before the rewrite columns. *)
Definition parse_rule (line : str) : result rule :=
  match split_ascii_ws line with
  | [pat; rew] =>
      do ps <- mapM parse_pattern (split_on ch_comma pat) ;;
      do rs <- mapM parse_rw (split_on ch_comma rew) ;;
      Ok (ps, rs)
  | _ => Err
  end.

Inductive section := SecNone | SecUni | SecLeft | SecRight.

Definition hdr_unigram : str := [91;117;110;105;103;114;97;109;32;114;101;119;114;105;116;101;93].
Definition hdr_left : str := [91;108;101;102;116;32;114;101;119;114;105;116;101;93].
Definition hdr_right : str := [91;114;105;103;104;116;32;114;101;119;114;105;116;101;93].

Record rule_sets := { rs_uni : list rule; rs_left : list rule; rs_right : list rule }.

(** [parse_rewrite_config]: rules are appended to the set of the last header seen. *)
Fixpoint parse_config_lines (ls : list str) (sec : section) (acc : rule_sets) : result rule_sets :=
  match ls with
  | [] => Ok acc
  | l :: rest =>
      let l := trim l in
      match l with
      | [] => parse_config_lines rest sec acc
      | c :: _ =>
          if N.eqb c ch_hash then parse_config_lines rest sec acc
          else if str_eqb l hdr_unigram then parse_config_lines rest SecUni acc
          else if str_eqb l hdr_left then parse_config_lines rest SecLeft acc
          else if str_eqb l hdr_right then parse_config_lines rest SecRight acc
          else
            match sec with
            | SecNone => Err
            | SecUni => do r <- parse_rule l ;;
                parse_config_lines rest sec {| rs_uni := rs_uni acc ++ [r]; rs_left := rs_left acc; rs_right := rs_right acc |}
            | SecLeft => do r <- parse_rule l ;;
                parse_config_lines rest sec {| rs_uni := rs_uni acc; rs_left := rs_left acc ++ [r]; rs_right := rs_right acc |}
            | SecRight => do r <- parse_rule l ;;
                parse_config_lines rest sec {| rs_uni := rs_uni acc; rs_left := rs_left acc; rs_right := rs_right acc ++ [r] |}
            end
      end
  end.

Definition parse_rewrite_def (text : str) : result rule_sets :=
  parse_config_lines (lines text) SecNone {| rs_uni := []; rs_left := []; rs_right := [] |}.

(** what the hook observes: per feature list the three rewrites, and the three node counts *)
Definition rewrite_obs := (list (list (option (list str))) * list N)%type.

Definition run_rewrite_def (text : str) (fss : list (list str)) : result rewrite_obs :=
  do rs <- parse_rewrite_def text ;;
  let tu := build (rs_uni rs) in
  let tl := build (rs_left rs) in
  let tr := build (rs_right rs) in
  Ok (map (fun fs => [rewrite tu fs; rewrite tl fs; rewrite tr fs]) fss,
      [num_nodes tu; num_nodes tl; num_nodes tr]).

(** [Trainer::extract_feature_set]: unchanged features when no rule matches *)
Definition rewrite_or_id (t : trie) (fs : list str) : list str :=
  match rewrite t fs with Some x => x | None => fs end.
