(** The AVX2 path of scorer.rs ([retrieve_cost] / [accumulate_cost] under target_feature = "avx2"),
    lane by lane: 32-bit lanes as bit patterns (N below 2^32), SIGNED comparisons
    (_mm256_cmpgt_epi32), masked gathers that are undefined behaviour when an enabled lane indexes
    outside its array (modelled as [None]), wrapping additions. *)
From Vib Require Import Model.Base Model.Scorer.
Local Open Scope N_scope.

Definition W32 : N := 4294967296.
Definition UNUSED_CHECK : N := 4294967295.
(** the signed reading of a lane *)
Definition s32 (x : N) : Z := if x <? 2147483648 then Z.of_N x else (Z.of_N x - 4294967296)%Z.
(** _mm256_cmpgt_epi32 (a, b): lane mask "a > b", signed *)
Definition cmpgt (a b : N) : bool := (s32 b <? s32 a)%Z.
(** _mm256_mask_i32gather_epi32 (src, base, index, mask, 4): an enabled lane loads base[index] (index signed) *)
Definition gather (src : N) (mem : list N) (idx : N) (mask : bool) : option N :=
  if mask then (if (s32 idx <? 0)%Z then None else nth_error mem (Z.to_nat (s32 idx))) else Some src.

(** the scorer as the three arrays the code holds *)
Record ascorer := { as_bases : list N; as_checks : list N; as_costs : list N }.   (* costs: i32 bit patterns *)

(** one lane of [retrieve_cost] (AVX2) *)
Definition avx2_lane (sc : ascorer) (k1 k2 : N) : option N :=
  let blen := N.of_nat (length (as_bases sc)) in
  let clen := N.of_nat (length (as_checks sc)) in
  let m1 := cmpgt blen k1 in
  match gather 0 (as_bases sc) k1 m1 with
  | None => None
  | Some base =>
      let pos := N.lxor base k2 in
      let m2 := cmpgt clen pos && m1 in
      match gather UNUSED_CHECK (as_checks sc) pos m2 with
      | None => None
      | Some check =>
          let m3 := (check =? k1) && m2 in
          gather 0 (as_costs sc) pos m3
      end
  end.

(** one lane of the portable [retrieve_cost], on the same arrays (0 when nothing is found) *)
Definition scalar_lane (sc : ascorer) (k1 k2 : N) : N :=
  match nth_error (as_bases sc) (N.to_nat k1) with
  | None => 0
  | Some base =>
      let pos := N.lxor base k2 in
      match nth_error (as_checks sc) (N.to_nat pos) with
      | Some check => if check =? k1 then nth (N.to_nat pos) (as_costs sc) 0 else 0
      | None => 0
      end
  end.

(** [accumulate_cost]: eight lane sums with wrapping additions, then their (wrapping) horizontal sum *)
Definition add32 (a b : N) : N := (a + b) mod W32.
Fixpoint lanes_avx2 (sc : ascorer) (a b s : list N) : option (list N) :=
  match a, b, s with
  | x :: a', y :: b', z :: s' =>
      match avx2_lane sc x y, lanes_avx2 sc a' b' s' with
      | Some c, Some rest => Some (add32 z c :: rest)
      | _, _ => None
      end
  | _, _, _ => Some s
  end.
Fixpoint avx2_rows (sc : ascorer) (rows1 rows2 : list (list N)) (sums : list N) : option (list N) :=
  match rows1, rows2 with
  | r1 :: t1, r2 :: t2 =>
      match lanes_avx2 sc r1 r2 sums with
      | Some sums' => avx2_rows sc t1 t2 sums'
      | None => None
      end
  | _, _ => Some sums
  end.
Definition avx2_accumulate (sc : ascorer) (rows1 rows2 : list (list N)) : option Z :=
  match avx2_rows sc rows1 rows2 (repeat 0 8) with
  | Some sums => Some (s32 (fold_left add32 sums 0))
  | None => None
  end.

(** the portable loop: the sum of the lane costs (as integers; Rust's debug build would panic on overflow) *)
Fixpoint lanes_scalar (sc : ascorer) (a b : list N) : Z :=
  match a, b with
  | x :: a', y :: b' => (s32 (scalar_lane sc x y) + lanes_scalar sc a' b')%Z
  | _, _ => 0%Z
  end.
Fixpoint scalar_rows (sc : ascorer) (rows1 rows2 : list (list N)) : Z :=
  match rows1, rows2 with
  | r1 :: t1, r2 :: t2 => (lanes_scalar sc r1 r2 + scalar_rows sc t1 t2)%Z
  | _, _ => 0%Z
  end.
