(** Model of connector/raw_connector/scorer.rs ([ScorerBuilder], [Scorer]) and of the raw
    connector built from bigram.right / bigram.left / bigram.cost (raw_connector.rs).

    The two parallel arrays [checks]/[costs] are modelled as one map from positions to
    (check, cost): a position beyond the arrays or holding UNUSED_CHECK is [None].  This is
    faithful for everything the code does with them: [check_base] treats both cases as free,
    [retrieve_cost] treats both as a miss (a key1 is a U31, never equal to UNUSED_CHECK = 2^32-1). *)
From Vib Require Import Model.Base.
Local Open Scope N_scope.

Definition INVALID : N := 2147483647.     (* INVALID_FEATURE_ID = U31::MAX *)
Definition SIMD : nat := 8.

(** ** the two-level trie of [ScorerBuilder] *)
Definition smap := list (N * Z).           (* second level: key2 -> cost, distinct keys *)
Fixpoint smap_set (k : N) (c : Z) (m : smap) : smap :=
  match m with
  | [] => [(k, c)]
  | (k', c') :: t => if k =? k' then (k, c) :: t else (k', c') :: smap_set k c t
  end.
Fixpoint smap_get (k : N) (m : smap) : option Z :=
  match m with
  | [] => None
  | (k', c) :: t => if k =? k' then Some c else smap_get k t
  end.

Fixpoint trie_insert (T : list smap) (k1 : nat) (k2 : N) (c : Z) : list smap :=
  match k1, T with
  | O, [] => [smap_set k2 c []]
  | O, m :: t => smap_set k2 c m :: t
  | S k, [] => [] :: trie_insert [] k k2 c
  | S k, m :: t => m :: trie_insert t k k2 c
  end.

Definition trie_get (T : list smap) (k1 k2 : N) : option Z :=
  match nth_N T k1 with Some m => smap_get k2 m | None => None end.

(** ** [build] *)
Definition slots := N -> option (N * Z).
Definition upd (s : slots) (p : N) (v : N * Z) : slots := fun q => if q =? p then Some v else s q.

Definition check_base (base : N) (m : smap) (s : slots) : bool :=
  forallb (fun kc => match s (N.lxor base (fst kc)) with None => true | Some _ => false end) m.

Fixpoint find_base (fuel : nat) (base : N) (m : smap) (s : slots) : option N :=
  match fuel with
  | O => None
  | S f => if check_base base m s then Some base else find_base f (N.succ base) m s
  end.

Fixpoint place (base k1 : N) (m : smap) (s : slots) : slots :=
  match m with
  | [] => s
  | (k2, c) :: t => place base k1 t (upd s (N.lxor base k2) (k1, c))
  end.

Record scorer := { sc_bases : list N; sc_slots : slots }.

Fixpoint build_from (fuel : nat) (T : list smap) (k1 : N) (bases : list N) (s : slots) : option scorer :=
  match T with
  | [] => Some {| sc_bases := bases; sc_slots := s |}
  | m :: rest =>
      match find_base fuel 0 m s with
      | None => None
      | Some b => build_from fuel rest (N.succ k1) (bases ++ [b]) (place b k1 m s)
      end
  end.
Definition build (fuel : nat) (T : list smap) : option scorer := build_from fuel T 0 [] (fun _ => None).

(** ** [retrieve_cost] / [accumulate_cost] *)
Definition retrieve (sc : scorer) (k1 k2 : N) : option Z :=
  match nth_N (sc_bases sc) k1 with
  | None => None
  | Some b =>
      match sc_slots sc (N.lxor b k2) with
      | Some (chk, c) => if chk =? k1 then Some c else None
      | None => None
      end
  end.

Fixpoint accumulate (sc : scorer) (ks1 ks2 : list N) : Z :=
  match ks1, ks2 with
  | a :: t1, b :: t2 => (match retrieve sc a b with Some w => w | None => 0 end + accumulate sc t1 t2)%Z
  | _, _ => 0%Z
  end.

(** ** raw connector from the three files (already split into rows) *)
Fixpoint index_of_str (s : str) (tbl : list str) (i : N) : option N :=
  match tbl with
  | [] => None
  | x :: t => if str_eqb x s then Some i else index_of_str s t (N.succ i)
  end.
Definition intern (tbl : list str) (s : str) : list str * N :=
  match index_of_str s tbl 0 with
  | Some i => (tbl, i)
  | None => (tbl ++ [s], N.of_nat (length tbl))
  end.

(** bigram.cost lines in file order: feature tables per side (the empty string is id 0) and the trie *)
Fixpoint read_costs (lines : list (str * str * Z)) (rt lt : list str) (T : list smap) : list str * list str * list smap :=
  match lines with
  | [] => (rt, lt, T)
  | (a, b, c) :: rest =>
      let '(rt', ia) := intern rt a in
      let '(lt', ib) := intern lt b in
      read_costs rest rt' lt' (trie_insert T (N.to_nat ia) ib c)
  end.

Definition feat_ids (tbl : list str) (row : list str) : list N :=
  map (fun f => match index_of_str f tbl 0 with Some i => i | None => INVALID end) row.

Definition pad_to (n : nat) (l : list N) : list N := l ++ repeat INVALID (n - length l).
Definition ceil8 (k : nat) : nat := match k with O => O | _ => ((k - 1) / 8 + 1) * 8 end.

Record rawconn := { rc_right : list (list N); rc_left : list (list N); rc_scorer : scorer }.

Definition build_raw (fuel : nat) (right left : list (list str)) (lines : list (str * str * Z)) : option rawconn :=
  let '(rt, lt, T) := read_costs lines [[]] [[]] [] in
  let k := fold_right Nat.max 0%nat (map (@length _) (right ++ left)) in
  let k8 := ceil8 k in
  match build fuel T with
  | None => None
  | Some sc =>
      Some {| rc_right := pad_to k8 (repeat 0 k) :: map (fun r => pad_to k8 (feat_ids rt r)) right;
              rc_left := pad_to k8 (repeat 0 k) :: map (fun r => pad_to k8 (feat_ids lt r)) left;
              rc_scorer := sc |}
  end.

Definition raw_cost (rc : rawconn) (r l : N) : Z :=
  accumulate (rc_scorer rc) (nth (N.to_nat r) (rc_right rc) []) (nth (N.to_nat l) (rc_left rc) []).

(** ** the defining feature-pair sum (specification, on strings) *)
Fixpoint table_get (lines : list (str * str * Z)) (a b : str) (acc : option Z) : option Z :=
  match lines with
  | [] => acc
  | (x, y, c) :: t => table_get t a b (if str_eqb x a && str_eqb y b then Some c else acc)    (* the last listing wins *)
  end.
Definition feature_at (rows : list (list str)) (id : N) (p k : nat) : option str :=
  if (id =? 0)%N then (if Nat.ltb p k then Some [] else None)
  else match nth_error rows (N.to_nat id - 1) with Some row => nth_error row p | None => None end.
Definition spec_cost (right left : list (list str)) (lines : list (str * str * Z)) (r l : N) : Z :=
  let k := fold_right Nat.max 0%nat (map (@length _) (right ++ left)) in
  fold_right Z.add 0%Z
    (map (fun p => match feature_at right r p k, feature_at left l p k with
                   | Some a, Some b => match table_get lines a b None with Some c => c | None => 0%Z end
                   | _, _ => 0%Z
                   end) (seq 0 k)).
