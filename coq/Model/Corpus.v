(** Model of trainer/corpus.rs ([Corpus::from_reader], [Example::write]) and of the MeCab-style
    printer of the tokenize tool.  Text = list of code points. *)
From Vib Require Import Model.Base Model.Text.
Local Open Scope N_scope.

Definition word := (str * str)%type.           (* surface, feature *)
Definition EOS_STR : str := [69; 79; 83].

(** the loop of [from_reader] over the lines ([BufRead::lines]) *)
Fixpoint parse_lines (ls : list str) (cur : list word) (acc : list (list word)) : result (list (list word)) :=
  match ls with
  | [] => Ok (rev acc)                              (* tokens after the last EOS are dropped *)
  | l :: rest =>
      match split_on ch_tab l with
      | [s; f] => parse_lines rest (cur ++ [(s, f)]) acc
      | [s] => if str_eqb s EOS_STR
               then match concat (map fst cur) with
                    | [] => parse_lines rest [] acc               (* a sentence with empty text is dropped *)
                    | _ => parse_lines rest [] (cur :: acc)
                    end
               else Err
      | _ => Err
      end
  end.
Definition parse_corpus (text : str) : result (list (list word)) := parse_lines (lines text) [] [].

Definition write_word (w : word) : str := fst w ++ [ch_tab] ++ snd w ++ [10].
Definition write_example (ex : list word) : str := concat (map write_word ex) ++ EOS_STR ++ [10].
Definition write_corpus (exs : list (list word)) : str := concat (map write_example exs).
