(** C19: the corpus format round-trips. *)
From Vib Require Import Model.Base Model.Text Model.Corpus.
Local Open Scope N_scope.

Definition no_char (c : N) (s : str) : Prop := ~ In c s.
Definition no_trailing_cr (s : str) : Prop := forall r, rev s <> 13 :: r.

(** a word that survives one trip through the text format *)
Definition clean_word (w : word) : Prop :=
  no_char ch_tab (fst w) /\ no_char 10 (fst w) /\ no_char ch_tab (snd w) /\ no_char 10 (snd w) /\ no_trailing_cr (snd w).
Definition clean_example (ex : list word) : Prop := Forall clean_word ex /\ concat (map fst ex) <> [].

Lemma split_on_app c l rest : ~ In c l -> split_on c (l ++ c :: rest) = l :: split_on c rest.
Proof.
  induction l as [|x l IH]; intros H; simpl.
  - now rewrite N.eqb_refl.
  - destruct (N.eqb_spec x c) as [->|Hne]; [exfalso; apply H; now left|].
    rewrite IH by (intros Hin; apply H; now right). reflexivity.
Qed.

Lemma split_on_none c l : ~ In c l -> split_on c l = [l].
Proof.
  induction l as [|x l IH]; intros H; simpl; [reflexivity|].
  destruct (N.eqb_spec x c) as [->|Hne]; [exfalso; apply H; now left|].
  rewrite IH by (intros Hin; apply H; now right). reflexivity.
Qed.

(** [BufRead::lines] on newline-terminated lines *)
Lemma split_on_lines ls : Forall (no_char 10) ls ->
  split_on 10 (concat (map (fun l => l ++ [10]) ls)) = ls ++ [[]].
Proof.
  induction 1 as [|l ls Hl _ IH]; simpl; [reflexivity|].
  rewrite <- app_assoc. cbn [app]. rewrite split_on_app by exact Hl. now rewrite IH.
Qed.

Lemma strip_cr_id l : no_trailing_cr l -> strip_cr l = l.
Proof.
  intros H. unfold strip_cr. destruct (rev l) as [|x r] eqn:E; [reflexivity|].
  destruct (N.eqb_spec x 13) as [->|Hne]; [exfalso; exact (H r E)|].
  destruct x as [|p]; [reflexivity|]. repeat (destruct p as [p|p|]; try reflexivity); congruence.
Qed.

Lemma lines_of_terminated ls : Forall (no_char 10) ls -> Forall no_trailing_cr ls ->
  lines (concat (map (fun l => l ++ [10]) ls)) = ls.
Proof.
  intros H1 H2. unfold lines. rewrite (split_on_lines ls H1). rewrite rev_app_distr. cbn [rev app].
  rewrite rev_involutive. rewrite <- (map_id ls) at 2. apply map_ext_in. intros l Hl.
  apply strip_cr_id. rewrite Forall_forall in H2. auto.
Qed.

(** lines of a written corpus *)
Definition word_line (w : word) : str := fst w ++ [ch_tab] ++ snd w.
Definition example_lines (ex : list word) : list str := map word_line ex ++ [EOS_STR].

Lemma write_corpus_lines exs :
  write_corpus exs = concat (map (fun l => l ++ [10]) (concat (map example_lines exs))).
Proof.
  unfold write_corpus. induction exs as [|ex exs IH]; [reflexivity|].
  cbn [map concat]. rewrite IH. rewrite map_app, concat_app. f_equal.
  unfold write_example, example_lines. rewrite map_app, concat_app. cbn [map concat]. rewrite app_nil_r.
  f_equal. induction ex as [|w ex IHex]; [reflexivity|]. cbn [map concat]. rewrite IHex.
  unfold write_word, word_line. now rewrite <- !app_assoc.
Qed.

Lemma in_app_not {A} (x : A) l1 l2 : ~ In x l1 -> ~ In x l2 -> ~ In x (l1 ++ l2).
Proof. intros H1 H2 H. apply in_app_or in H. tauto. Qed.

Lemma parse_word_line w : clean_word w -> split_on ch_tab (word_line w) = [fst w; snd w].
Proof.
  intros (H1 & _ & H3 & _). unfold word_line. cbn [app]. rewrite split_on_app by exact H1.
  now rewrite split_on_none by exact H3.
Qed.

Lemma parse_lines_example ex : Forall clean_word ex -> forall rest cur acc,
  parse_lines (map word_line ex ++ rest) cur acc = parse_lines rest (cur ++ ex) acc.
Proof.
  induction 1 as [|w ex Hw _ IH]; intros rest cur acc; cbn [map app parse_lines]; [now rewrite app_nil_r|].
  rewrite (parse_word_line w Hw). rewrite IH. rewrite <- app_assoc. destruct w; reflexivity.
Qed.

Lemma eos_split : split_on ch_tab EOS_STR = [EOS_STR].
Proof. reflexivity. Qed.

Theorem parse_write_lines exs : Forall clean_example exs -> forall acc,
  parse_lines (concat (map example_lines exs)) [] acc = Ok (rev acc ++ exs).
Proof.
  induction 1 as [|ex exs [Hc Hne] _ IH]; intros acc; cbn [map concat].
  - cbn. now rewrite app_nil_r.
  - unfold example_lines at 1. rewrite <- app_assoc. rewrite (parse_lines_example ex Hc). cbn [app parse_lines].
    rewrite eos_split. replace (str_eqb EOS_STR EOS_STR) with true by reflexivity.
    destruct (concat (map fst ex)) eqn:E; [congruence|].
    rewrite IH. cbn [rev]. now rewrite <- app_assoc.
Qed.

Lemma word_line_props w : clean_word w -> no_char 10 (word_line w) /\ no_trailing_cr (word_line w).
Proof.
  intros (H1 & H2 & H3 & H4 & H5). unfold word_line. split.
  - apply in_app_not; [exact H2|]. apply in_app_not; [|exact H4]. intros [E|[]]. discriminate.
  - intros r E. rewrite !rev_app_distr in E. destruct (rev (snd w)) as [|x t] eqn:Er.
    + cbn in E. discriminate.
    + cbn in E. inversion E; subst x. exact (H5 t Er).
Qed.

(** writing clean examples and parsing the text gives the examples back *)
Theorem parse_write exs : Forall clean_example exs -> parse_corpus (write_corpus exs) = Ok exs.
Proof.
  intros H. unfold parse_corpus. rewrite write_corpus_lines, lines_of_terminated.
  - apply (parse_write_lines exs H []).
  - apply Forall_forall. intros l Hl. apply in_concat in Hl. destruct Hl as (ls & Hls & Hl).
    apply in_map_iff in Hls. destruct Hls as (ex & <- & Hex). rewrite Forall_forall in H. destruct (H ex Hex) as [Hc _].
    unfold example_lines in Hl. apply in_app_or in Hl. destruct Hl as [Hl|[<-|[]]].
    + apply in_map_iff in Hl. destruct Hl as (w & <- & Hw). rewrite Forall_forall in Hc. apply (word_line_props w (Hc w Hw)).
    + intros Hin. cbn in Hin. repeat (destruct Hin as [Hin|Hin]; [discriminate|]). exact Hin.
  - apply Forall_forall. intros l Hl. apply in_concat in Hl. destruct Hl as (ls & Hls & Hl).
    apply in_map_iff in Hls. destruct Hls as (ex & <- & Hex). rewrite Forall_forall in H. destruct (H ex Hex) as [Hc _].
    unfold example_lines in Hl. apply in_app_or in Hl. destruct Hl as [Hl|[<-|[]]].
    + apply in_map_iff in Hl. destruct Hl as (w & <- & Hw). rewrite Forall_forall in Hc. apply (word_line_props w (Hc w Hw)).
    + intros r E. cbn in E. discriminate.
Qed.

(** malformed lines are errors: a line without a tab that is not EOS, or with two or more tabs *)
Theorem malformed_line_err l rest cur acc :
  (split_on ch_tab l = [l] /\ l <> EOS_STR) \/ (exists a b c t, split_on ch_tab l = a :: b :: c :: t) ->
  parse_lines (l :: rest) cur acc = Err.
Proof.
  intros [[H1 H2]|(a & b & c & t & H)]; cbn [parse_lines].
  - rewrite H1. destruct (str_eqb l EOS_STR) eqn:E; [apply str_eqb_eq in E; congruence|reflexivity].
  - rewrite H. reflexivity.
Qed.

(** the MeCab-style output of the tokenizer: one "surface<TAB>feature" line per token, then EOS *)
Theorem tokenizer_output_parses ex : Forall clean_word ex ->
  parse_corpus (write_example ex) = Ok (match concat (map fst ex) with [] => [] | _ => [ex] end).
Proof.
  intros Hc. destruct (concat (map fst ex)) eqn:E.
  - (* no text at all: the sentence is dropped *)
    unfold parse_corpus. replace (write_example ex) with (write_corpus [ex]) by (unfold write_corpus; cbn; now rewrite app_nil_r).
    rewrite write_corpus_lines, lines_of_terminated.
    + cbn [map concat]. rewrite app_nil_r. unfold example_lines. rewrite (parse_lines_example ex Hc). cbn [app parse_lines].
      rewrite eos_split. replace (str_eqb EOS_STR EOS_STR) with true by reflexivity. rewrite E. reflexivity.
    + apply Forall_forall. intros l Hl. cbn [map concat] in Hl. rewrite app_nil_r in Hl. unfold example_lines in Hl.
      apply in_app_or in Hl. destruct Hl as [Hl|[<-|[]]].
      * apply in_map_iff in Hl. destruct Hl as (w & <- & Hw). rewrite Forall_forall in Hc. apply (word_line_props w (Hc w Hw)).
      * intros Hin. cbn in Hin. repeat (destruct Hin as [Hin|Hin]; [discriminate|]). exact Hin.
    + apply Forall_forall. intros l Hl. cbn [map concat] in Hl. rewrite app_nil_r in Hl. unfold example_lines in Hl.
      apply in_app_or in Hl. destruct Hl as [Hl|[<-|[]]].
      * apply in_map_iff in Hl. destruct Hl as (w & <- & Hw). rewrite Forall_forall in Hc. apply (word_line_props w (Hc w Hw)).
      * intros r Er. cbn in Er. discriminate.
  - replace (write_example ex) with (write_corpus [ex]) by (unfold write_corpus; cbn; now rewrite app_nil_r).
    apply parse_write. constructor; [|constructor]. split; [exact Hc|]. rewrite E. discriminate.
Qed.
