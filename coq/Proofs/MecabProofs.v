(** C20 end to end: the raw connector compiled from the files that the model of
    [generate_bigram_info] writes returns, for every pair of non-zero ids, the defining sum of the
    MeCab model ([c20_spec]). *)
From Vib Require Import Model.Base Model.Text Model.Scorer Model.Template Model.Mecab
  Proofs.ScorerProofs Proofs.RawSpecProofs Proofs.TemplateProofs.
From Coq Require Import Arith.
Local Open Scope N_scope.

(** ** decimal rendering is injective and never '*' or empty *)
Lemma digit_ok d : d < 10 -> is_digit (48 + d) = true.
Proof. intros H. unfold is_digit. apply andb_true_intro. split; apply N.leb_le; lia. Qed.

Lemma dec_digits_value : forall f n acc, n < 10 ^ N.of_nat f ->
  dec_value_acc (dec_digits f n acc) 0 = dec_value_acc acc n.
Proof.
  induction f as [|f IH]; intros n acc Hn.
  - cbn in Hn. assert (n = 0) by lia. subst. reflexivity.
  - pose proof (N.mod_lt n 10 ltac:(lia)) as Hm. cbn [dec_digits]. destruct (N.ltb_spec n 10) as [Hlt|Hge].
    + cbn [dec_value_acc]. rewrite (digit_ok _ Hm). f_equal. rewrite N.mod_small by exact Hlt. clear. lia.
    + rewrite IH.
      * cbn [dec_value_acc]. rewrite (digit_ok _ Hm). f_equal. pose proof (N.div_mod n 10 ltac:(lia)) as Hd. clear -Hd. set (q := n / 10) in *. set (m := n mod 10) in *. clearbody q m. lia.
      * rewrite Nat2N.inj_succ, N.pow_succ_r' in Hn. apply N.div_lt_upper_bound; lia.
Qed.

Lemma show_N_fuel n : n < 10 ^ N.of_nat (S (N.to_nat (N.log2 n))).
Proof.
  rewrite Nat2N.inj_succ, N2Nat.id.
  destruct (N.eq_dec n 0) as [->|Hne]; [cbn; lia|].
  destruct (N.log2_spec n ltac:(lia)) as [_ H2].
  eapply N.lt_le_trans; [exact H2|]. apply N.pow_le_mono_l. lia.
Qed.

Lemma dec_digits_nonempty f n acc : dec_digits (S f) n acc <> [].
Proof.
  revert n acc. induction f as [|f IH]; intros n acc; cbn [dec_digits].
  - destruct (n <? 10); discriminate.
  - destruct (n <? 10); [discriminate|]. apply IH.
Qed.

Lemma show_N_value n : dec_value (show_N n) = Some n.
Proof.
  unfold show_N, dec_value. pose proof (dec_digits_nonempty (N.to_nat (N.log2 n)) n []) as Hne.
  destruct (dec_digits _ n []) as [|c t] eqn:E; [congruence|]. rewrite <- E.
  rewrite dec_digits_value by apply show_N_fuel. reflexivity.
Qed.

Lemma show_N_inj a b : show_N a = show_N b -> a = b.
Proof. intros H. pose proof (show_N_value a) as Ha. rewrite H, show_N_value in Ha. congruence. Qed.
Lemma show_N_not_nil n : show_N n <> [].
Proof. intros H. pose proof (show_N_value n) as Hv. rewrite H in Hv. discriminate. Qed.
Lemma show_N_not_star n : show_N n <> STAR.
Proof. intros H. pose proof (show_N_value n) as Hv. rewrite H in Hv. discriminate. Qed.

(** ** splitting a plain bigram text at its '/' *)
Lemma split_slash_app a rest : has_slash a = false -> split_slash (a ++ ch_slash :: rest) = (a, Some rest).
Proof.
  induction a as [|x a IH]; intros H; cbn [app split_slash].
  - reflexivity.
  - cbn [has_slash existsb] in H. apply orb_false_iff in H. destruct H as [H1 H2]. rewrite H1. now rewrite (IH H2).
Qed.
Lemma split_slash_none a : has_slash a = false -> split_slash a = (a, None).
Proof.
  induction a as [|x a IH]; intros H; cbn [split_slash]; [reflexivity|].
  cbn [has_slash existsb] in H. apply orb_false_iff in H. destruct H as [H1 H2]. rewrite H1. now rewrite (IH H2).
Qed.
Lemma two_pieces_plain a c : has_slash a = false -> has_slash c = false -> two_pieces (a ++ [ch_slash] ++ c) = Some (a, c).
Proof. intros Ha Hc. unfold two_pieces. cbn [app]. rewrite (split_slash_app a c Ha), (split_slash_none c Hc). reflexivity. Qed.

(** ** feature ids of one id-def line *)
Definition ext (tbl tbl' : list str) : Prop := forall s k, id_of tbl s = Some k -> id_of tbl' s = Some k.
Lemma ext_refl tbl : ext tbl tbl. Proof. intros s k H; exact H. Qed.
Lemma ext_trans a b c : ext a b -> ext b c -> ext a c. Proof. intros H1 H2 s k H. auto. Qed.

(** [ids] are the feature ids of the templates [T] on [feats], read in the table [tbl] *)
Definition ids_ok (tbl : list str) (T : list (list tpiece)) (feats : list str) (ids : list (option N)) : Prop :=
  length ids = length T /\
  forall p ps, nth_error T p = Some ps ->
    match expand ps feats 0 with
    | None => nth_error ids p = Some None
    | Some s => exists i, id_of tbl s = Some i /\ nth_error ids p = Some (Some (N.succ i))
    end.

Lemma ids_ok_ext tbl tbl' T feats ids : ext tbl tbl' -> ids_ok tbl T feats ids -> ids_ok tbl' T feats ids.
Proof.
  intros He [Hl H]. split; [exact Hl|]. intros p ps Hp. specialize (H p ps Hp).
  destruct (expand ps feats 0); [|exact H]. destruct H as (i & Hi & Hn). exists i. auto.
Qed.

Lemma extract_ids_spec T feats : forall tbl ids tbl', extract_ids T feats 0 tbl = (ids, tbl') ->
  ext tbl tbl' /\ ids_ok tbl' T feats ids.
Proof.
  induction T as [|ps T IH]; intros tbl ids tbl' H; cbn [extract_ids] in H.
  - inversion H; subst. split; [apply ext_refl|]. split; [reflexivity|]. intros p ps Hp. destruct p; discriminate.
  - destruct (expand ps feats 0) as [s|] eqn:Ee.
    + destruct (intern tbl s) as [tbl1 i] eqn:Ei. destruct (extract_ids T feats 0 tbl1) as [ids0 tbl2] eqn:Er.
      inversion H; subst ids tbl'; clear H. destruct (IH _ _ _ Er) as [He [Hl Hn]].
      destruct (intern_id _ _ _ _ Ei) as (Hs & Hext & _ & _).
      split; [eapply ext_trans; [exact Hext|exact He]|]. split; [cbn; now rewrite Hl|].
      intros [|p] ps' Hp; cbn [nth_error] in *.
      * inversion Hp; subst ps'. rewrite Ee. exists i. split; [now apply He|reflexivity].
      * apply (Hn p ps' Hp).
    + destruct (extract_ids T feats 0 tbl) as [ids0 tbl2] eqn:Er. inversion H; subst ids tbl'; clear H.
      destruct (IH _ _ _ Er) as [He [Hl Hn]]. split; [exact He|]. split; [cbn; now rewrite Hl|].
      intros [|p] ps' Hp; cbn [nth_error] in *.
      * inversion Hp; subst ps'. rewrite Ee. reflexivity.
      * apply (Hn p ps' Hp).
Qed.

(** ** the id maps after reading an id-def file *)
Lemma find_rev_snoc {A} (f : A -> bool) l x : find f (rev (l ++ [x])) = if f x then Some x else find f (rev l).
Proof. rewrite rev_app_distr. reflexivity. Qed.

Record MInv (T : list (list tpiece)) (tbl : list str) (done : list (N * list str)) (mp : idmap) : Prop := {
  mi_keys : map fst mp = map fst done;
  mi_rows : forall id, match feats_of done id with
                       | Some feats => exists ids, lookup_id mp id = Some ids /\ ids_ok tbl T feats ids
                       | None => lookup_id mp id = None
                       end }.

Lemma read_defs_spec T : forall defs done mp tbl mp' tbl', MInv T tbl done mp ->
  read_defs T defs mp tbl = Ok (mp', tbl') -> ext tbl tbl' /\ MInv T tbl' (done ++ defs) mp'.
Proof.
  induction defs as [|[id feats] defs IH]; intros done mp tbl mp' tbl' I H; cbn [read_defs] in H.
  - inversion H; subst. rewrite app_nil_r. split; [apply ext_refl|exact I].
  - destruct (_ && _); [discriminate|].
    destruct (extract_ids T feats 0 tbl) as [ids tbl1] eqn:Ee. destruct (extract_ids_spec _ _ _ _ _ Ee) as [He Hok].
    specialize (IH (done ++ [(id, feats)]) (mp ++ [(id, ids)]) tbl1 mp' tbl').
    rewrite <- app_assoc in IH. cbn [app] in IH.
    destruct IH as [He2 I2]; [|exact H|split; [eapply ext_trans; eauto|exact I2]].
    constructor.
    + rewrite !map_app. cbn [map fst]. now rewrite (mi_keys _ _ _ _ I).
    + intros id'. unfold feats_of, lookup_id. rewrite !find_rev_snoc. cbn [fst].
      destruct (N.eqb_spec id id') as [->|Hne]; cbn [option_map snd].
      * exists ids. split; [reflexivity|exact Hok].
      * pose proof (mi_rows _ _ _ _ I id') as Hr. unfold feats_of, lookup_id in Hr.
        destruct (option_map snd (find (fun e => fst e =? id') (rev done))) as [fs|]; [|exact Hr].
        destruct Hr as (ids' & Hl & Hok'). exists ids'. split; [exact Hl|eapply ids_ok_ext; eauto].
Qed.

Lemma minv_init T tbl : MInv T tbl [] [].
Proof. constructor; [reflexivity|]. intros id. reflexivity. Qed.

(** ** the emitted rows *)
Lemma all_ok_spec {A} (l : list (result A)) rows : all_ok l = Ok rows ->
  length rows = length l /\ forall j, (j < length l)%nat -> nth_error l j = option_map Ok (nth_error rows j).
Proof.
  revert rows. induction l as [|x l IH]; intros rows H; cbn [all_ok] in H.
  - inversion H; subst. split; [reflexivity|]. intros j Hj. cbn in Hj. lia.
  - destruct x as [a| |]; try discriminate. destruct (all_ok l) as [r| |] eqn:E; try discriminate.
    inversion H; subst rows. destruct (IH r eq_refl) as [Hl Hn]. split; [cbn; now rewrite Hl|].
    intros [|j] Hj; cbn [nth_error option_map]; [reflexivity|]. apply Hn. cbn in Hj. lia.
Qed.

Lemma rows_of_spec mp rows : rows_of mp = Ok rows ->
  forall r, (1 <= r <= length rows)%nat ->
  exists ids, lookup_id mp (N.of_nat r) = Some ids /\ nth_error rows (r - 1) = Some (render_ids ids).
Proof.
  unfold rows_of. intros H r Hr. destruct mp as [|e mp0] eqn:Em; [inversion H; subst; cbn in Hr; lia|]. rewrite <- Em in *.
  destruct (lookup_id mp 0); [|discriminate].
  destruct (all_ok_spec _ _ H) as [Hl Hn]. rewrite map_length, seq_length in Hl.
  specialize (Hn (r - 1)%nat). rewrite map_length, seq_length in Hn. specialize (Hn ltac:(lia)).
  rewrite nth_error_map in Hn. rewrite (nth_error_nth' _ 0%nat) in Hn by (rewrite seq_length; lia).
  rewrite seq_nth in Hn by lia. cbn [option_map] in Hn. replace (1 + (r - 1))%nat with r in Hn by lia.
  destruct (lookup_id mp (N.of_nat r)) as [ids|]; [|destruct (nth_error rows (r - 1)); discriminate].
  exists ids. split; [reflexivity|]. destruct (nth_error rows (r - 1)) as [x|]; [|discriminate].
  cbn in Hn. congruence.
Qed.

Lemma render_ids_nth ids p : nth_error (render_ids ids) p =
  option_map (fun o => match o with Some i => show_N i | None => STAR end) (nth_error ids p).
Proof. unfold render_ids. apply nth_error_map. Qed.

(** ** the cost table: the entry of (id of a, id of c) is the cost of THE model line  a '/' c *)
Section CostTable.
Variables (tblL tblR : list str) (factor : Z) (a c : str) (ia ic : N).
Hypothesis Ha : id_of tblL a = Some ia.
Hypothesis Hc : id_of tblR c = Some ic.
Hypothesis Hexp : exp_ok a c = true.
Local Notation t := (a ++ [ch_slash] ++ c).
Local Notation x := (show_N (N.succ ia)).
Local Notation y := (show_N (N.succ ic)).

Lemma exp_ok_facts : has_slash a = false /\ has_slash c = false /\ a <> [] /\ c <> [] /\ drop_boseos (length t) t = t.
Proof.
  pose proof Hexp as H. unfold exp_ok in H. repeat (apply andb_true_iff in H; destruct H as [H ?]).
  apply negb_true_iff in H. repeat split; auto.
  - now apply negb_true_iff.
  - intros ->. discriminate.
  - intros ->. discriminate.
  - now apply str_eqb_eq.
Qed.

Lemma feat_name_known tbl s i : s <> [] -> id_of tbl s = Some i -> feat_name tbl s = Some (show_N (N.succ i)).
Proof. intros Hne Hi. unfold feat_name. destruct s; [congruence|]. unfold id_of in Hi. now rewrite Hi. Qed.

Lemma feat_name_inv tbl s i0 s0 : id_of tbl s0 = Some i0 -> feat_name tbl s = Some (show_N (N.succ i0)) -> s = s0.
Proof.
  intros H0 H. unfold feat_name in H. destruct s as [|ch s'].
  - inversion H as [E]. symmetry in E. now apply show_N_not_nil in E.
  - destruct (index_of_str (ch :: s') tbl 0) as [i|] eqn:Ei; [|discriminate]. cbn in H. inversion H as [E].
    apply show_N_inj in E. assert (i = i0) by lia. subst i. eapply index_of_str_inj; [exact Ei|exact H0].
Qed.

(** a line that produces the entry (x, y) is the line with text t *)
Lemma cost_line_hits ln z : line_plain (snd ln) = true -> cost_line tblL tblR factor ln = Some (x, y, z) -> snd ln = t.
Proof.
  destruct ln as [[num e] txt]. cbn [snd]. intros Hp H. unfold cost_line in H.
  destruct (line_cost num e factor =? 0)%Z; [discriminate|].
  unfold line_plain in Hp.
  destruct (two_pieces (drop_boseos (length txt) txt)) as [[L R]|]; [|discriminate].
  destruct (feat_name tblL L) as [sa|] eqn:EL; [|discriminate]. destruct (feat_name tblR R) as [sb|] eqn:ER; [|discriminate].
  inversion H; subst sa sb z.
  apply (feat_name_inv tblL L ia a Ha) in EL. apply (feat_name_inv tblR R ic c Hc) in ER. subst L R.
  destruct exp_ok_facts as (_ & _ & Hna & Hnc & _).
  destruct a as [|a0 a']; [congruence|]. destruct c as [|c0 c']; [congruence|]. now apply str_eqb_eq in Hp.
Qed.

(** the line with text t produces the entry (x, y), unless its cost is 0 *)
Lemma cost_line_of_t num e : cost_line tblL tblR factor (num, e, t) =
  if (line_cost num e factor =? 0)%Z then None else Some (x, y, line_cost num e factor).
Proof.
  destruct exp_ok_facts as (Hsa & Hsc & Hna & Hnc & Hd). unfold cost_line.
  destruct (line_cost num e factor =? 0)%Z; [reflexivity|].
  rewrite Hd, (two_pieces_plain a c Hsa Hsc), (feat_name_known tblL a ia Hna Ha), (feat_name_known tblR c ic Hnc Hc). reflexivity.
Qed.

Lemma table_get_other lines : (forall ln z, In ln lines -> cost_line tblL tblR factor ln <> Some (x, y, z)) ->
  forall acc, table_get (filter_map (cost_line tblL tblR factor) lines) x y acc = acc.
Proof.
  induction lines as [|ln lines IH]; intros H acc; cbn [filter_map table_get]; [reflexivity|].
  destruct (cost_line tblL tblR factor ln) as [[[sa sb] z]|] eqn:E; [|apply IH; intros; apply H; now right].
  cbn [table_get]. rewrite IH by (intros; apply H; now right).
  destruct (str_eqb sa x) eqn:E1; [destruct (str_eqb sb y) eqn:E2|]; cbn [andb]; try reflexivity.
  apply str_eqb_eq in E1, E2. subst. exfalso. apply (H ln z); [now left|exact E].
Qed.

Lemma model_lookup_other lines : (forall ln, In ln lines -> snd ln <> t) -> forall acc, model_lookup lines t acc = acc.
Proof.
  induction lines as [|[[num e] txt] lines IH]; intros H acc; cbn [model_lookup]; [reflexivity|].
  rewrite IH by (intros; apply H; now right).
  destruct (str_eqb txt t) eqn:E; [|reflexivity]. apply str_eqb_eq in E. exfalso. apply (H (num, e, txt)); [now left|exact E].
Qed.

Lemma filter_map_app {A B} (f : A -> option B) l1 l2 : filter_map f (l1 ++ l2) = filter_map f l1 ++ filter_map f l2.
Proof. induction l1 as [|u l1 IH]; cbn; [reflexivity|]. destruct (f u); cbn; now rewrite IH. Qed.

Lemma table_get_app lines1 lines2 u v acc : table_get (lines1 ++ lines2) u v acc = table_get lines2 u v (table_get lines1 u v acc).
Proof. revert acc. induction lines1 as [|[[p q] z] l IH]; intros acc; cbn [app table_get]; [reflexivity|]. apply IH. Qed.

Lemma model_lookup_app lines1 lines2 u acc : model_lookup (lines1 ++ lines2) u acc = model_lookup lines2 u (model_lookup lines1 u acc).
Proof. revert acc. induction lines1 as [|[[p q] z] l IH]; intros acc; cbn [app model_lookup]; [reflexivity|]. apply IH. Qed.

Lemma nodup_strs_spec l : nodup_strs l = true -> NoDup l.
Proof.
  induction l as [|s l IH]; intros H; [constructor|]. cbn in H. apply andb_true_iff in H. destruct H as [H1 H2].
  constructor; [|auto]. intros Hin. apply negb_true_iff in H1.
  assert (existsb (str_eqb s) l = true) by (apply existsb_exists; exists s; split; [exact Hin|apply str_eqb_refl]). congruence.
Qed.

Theorem cost_table model :
  forallb (fun ln => line_plain (snd ln)) model = true -> nodup_strs (map snd model) = true ->
  match table_get (filter_map (cost_line tblL tblR factor) model) x y None with Some z => z | None => 0%Z end =
  match model_lookup model t None with Some (num, e) => line_cost num e factor | None => 0%Z end.
Proof.
  intros Hpl Hnd. apply nodup_strs_spec in Hnd. rewrite forallb_forall in Hpl.
  destruct (in_dec str_dec t (map snd model)) as [Hin|Hnin].
  - apply in_map_iff in Hin. destruct Hin as ([[num e] txt] & Et & Hin). cbn [snd] in Et. subst txt.
    apply in_split in Hin. destruct Hin as (pre & post & ->).
    rewrite map_app in Hnd. cbn [map snd] in Hnd. apply NoDup_remove_2 in Hnd.
    assert (Hpre : forall ln, In ln pre -> snd ln <> t).
    { intros ln Hl E. apply Hnd. apply in_or_app. left. apply in_map_iff. eauto. }
    assert (Hpost : forall ln, In ln post -> snd ln <> t).
    { intros ln Hl E. apply Hnd. apply in_or_app. right. apply in_map_iff. eauto. }
    assert (Hother : forall l0, (forall ln, In ln l0 -> In ln (pre ++ (num, e, t) :: post)) -> (forall ln, In ln l0 -> snd ln <> t) ->
              forall ln z, In ln l0 -> cost_line tblL tblR factor ln <> Some (x, y, z)).
    { intros l0 Hsub Hne ln z Hl E. apply (Hne ln Hl). eapply cost_line_hits; [apply Hpl; auto|exact E]. }
    rewrite filter_map_app, table_get_app, model_lookup_app. cbn [filter_map model_lookup].
    rewrite (table_get_other pre) by (apply Hother; [intros; apply in_or_app; now left|exact Hpre]).
    rewrite (model_lookup_other pre Hpre). rewrite str_eqb_refl.
    rewrite (model_lookup_other post Hpost). rewrite cost_line_of_t.
    destruct (Z.eqb_spec (line_cost num e factor) 0) as [E0|Hne0].
    + rewrite (table_get_other post) by (apply Hother; [intros; apply in_or_app; right; now right|exact Hpost]). now rewrite E0.
    + cbn [table_get]. rewrite !str_eqb_refl. cbn [andb].
      rewrite (table_get_other post) by (apply Hother; [intros; apply in_or_app; right; now right|exact Hpost]). reflexivity.
  - assert (Hall : forall ln, In ln model -> snd ln <> t).
    { intros ln Hl E. apply Hnin. apply in_map_iff. eauto. }
    rewrite (model_lookup_other model Hall).
    rewrite (table_get_other model); [reflexivity|].
    intros ln z Hl E. apply (Hall ln Hl). eapply cost_line_hits; [apply Hpl; auto|exact E].
Qed.

(** entries never mention '*' *)
Lemma table_get_star_l model v : table_get (filter_map (cost_line tblL tblR factor) model) STAR v None = None.
Proof.
  assert (G : forall lines acc, (forall p q z, In (p, q, z) lines -> p <> STAR) -> table_get lines STAR v acc = acc).
  { induction lines as [|[[p q] z] l IH]; intros acc H; cbn [table_get]; [reflexivity|].
    rewrite IH by (intros; eapply H; right; eauto).
    destruct (str_eqb p STAR) eqn:E; [apply str_eqb_eq in E; exfalso; eapply H; [now left|exact E]|reflexivity]. }
  apply G. clear G. induction model as [|ln model IH]; intros p q z Hin; cbn [filter_map] in Hin; [destruct Hin|].
  destruct (cost_line tblL tblR factor ln) as [[[sa sb] z0]|] eqn:E; [|eauto].
  destruct Hin as [Hin|Hin]; [|eauto]. inversion Hin; subst. clear -E.
  destruct ln as [[num e] txt]. unfold cost_line in E. destruct (_ =? _)%Z; [discriminate|].
  destruct (two_pieces _) as [[L R]|]; [|discriminate]. destruct (feat_name tblL L) as [s1|] eqn:E1; [|discriminate].
  destruct (feat_name tblR R); [|discriminate]. inversion E; subst. unfold feat_name in E1.
  destruct L; [inversion E1; discriminate|]. destruct (index_of_str _ _ _); [|discriminate]. inversion E1. apply show_N_not_star.
Qed.

Lemma table_get_star_r model u : table_get (filter_map (cost_line tblL tblR factor) model) u STAR None = None.
Proof.
  assert (G : forall lines acc, (forall p q z, In (p, q, z) lines -> q <> STAR) -> table_get lines u STAR acc = acc).
  { induction lines as [|[[p q] z] l IH]; intros acc H; cbn [table_get]; [reflexivity|].
    rewrite IH by (intros; eapply H; right; eauto).
    destruct (str_eqb q STAR) eqn:E; [apply str_eqb_eq in E; exfalso; eapply H; [now left|exact E]|now rewrite andb_false_r]. }
  apply G. clear G. induction model as [|ln model IH]; intros p q z Hin; cbn [filter_map] in Hin; [destruct Hin|].
  destruct (cost_line tblL tblR factor ln) as [[[sa sb] z0]|] eqn:E; [|eauto].
  destruct Hin as [Hin|Hin]; [|eauto]. inversion Hin; subst. clear -E.
  destruct ln as [[num e] txt]. unfold cost_line in E. destruct (_ =? _)%Z; [discriminate|].
  destruct (two_pieces _) as [[L R]|]; [|discriminate]. destruct (feat_name tblL L); [|discriminate].
  destruct (feat_name tblR R) as [s2|] eqn:E2; [|discriminate]. inversion E; subst. unfold feat_name in E2.
  destruct R; [inversion E2; discriminate|]. destruct (index_of_str _ _ _); [|discriminate]. inversion E2. apply show_N_not_star.
Qed.
End CostTable.

(** ** assembly *)
Lemma max_const (rows : list (list str)) n : rows <> [] -> (forall row, In row rows -> length row = n) ->
  fold_right Nat.max 0%nat (map (@length _) rows) = n.
Proof.
  induction rows as [|x rows IH]; intros Hne H; [congruence|]. cbn [map fold_right].
  rewrite (H x (or_introl eq_refl)). destruct rows as [|x2 rows']; [cbn; lia|].
  rewrite IH; [lia|discriminate|intros; apply H; now right].
Qed.

Lemma map_nth_seq {A B} (f : A -> B) (l : list A) d : map f l = map (fun p => f (nth p l d)) (seq 0 (length l)).
Proof.
  induction l as [|x l IH]; [reflexivity|]. cbn [length seq map nth]. f_equal.
  rewrite <- seq_shift, map_map. exact IH.
Qed.

Lemma feats_of_in tbl id fs : feats_of tbl id = Some fs -> In (id, fs) tbl.
Proof.
  unfold feats_of. intros H. destruct (find (fun e => fst e =? id) (rev tbl)) as [[i f]|] eqn:E; [|discriminate].
  apply find_some in E. destruct E as [Hin Hid]. cbn in *. apply N.eqb_eq in Hid. inversion H; subst. now apply in_rev.
Qed.

Lemma rows_all_len T tbl defs mp rows : MInv T tbl defs mp -> rows_of mp = Ok rows ->
  forall row, In row rows -> length row = length T.
Proof.
  intros I H row Hin. apply In_nth_error in Hin. destruct Hin as [j Hj].
  assert (Hlen : (j < length rows)%nat) by (apply nth_error_Some; congruence).
  destruct (rows_of_spec mp rows H (S j) ltac:(lia)) as (ids & Hl & Hn). cbn [Nat.sub] in Hn. rewrite Nat.sub_0_r in Hn.
  rewrite Hj in Hn. inversion Hn; subst row. unfold render_ids. rewrite map_length.
  pose proof (mi_rows _ _ _ _ I (N.of_nat (S j))) as Hr. destruct (feats_of defs (N.of_nat (S j))) as [fs|].
  - destruct Hr as (ids' & Hl' & [Hlen' _]). congruence.
  - congruence.
Qed.

Theorem gen_end_to_end m right left lines fuel rc :
  gen m = Ok (right, left, lines) -> build_raw fuel right left lines = Some rc -> wf_model m = true ->
  N.of_nat (length lines) + 1 < INVALID ->
  forall r l, (1 <= r <= length right)%nat -> (1 <= l <= length left)%nat ->
  raw_cost rc (N.of_nat r) (N.of_nat l) = c20_spec m (N.of_nat r) (N.of_nat l).
Proof.
  intros Hg Hb Hwf Hsmall r l Hr Hl.
  rewrite (raw_cost_spec fuel right left lines rc Hb Hsmall) by (rewrite Nat2N.id; lia).
  unfold gen in Hg.
  destruct (read_defs (ltemplates m) (mi_rightdef m) [] []) as [[mpR tblL]| |] eqn:ER; try discriminate.
  destruct (read_defs (rtemplates m) (mi_leftdef m) [] []) as [[mpL tblR]| |] eqn:EL; try discriminate.
  destruct (rows_of mpR) as [rrows| |] eqn:ERr; try discriminate. destruct (rows_of mpL) as [lrows| |] eqn:ELr; try discriminate.
  inversion Hg; subst rrows lrows lines; clear Hg.
  destruct (read_defs_spec _ _ [] [] [] _ _ (minv_init _ _) ER) as [_ IR]. destruct (read_defs_spec _ _ [] [] [] _ _ (minv_init _ _) EL) as [_ IL].
  cbn [app] in IR, IL.
  destruct (rows_of_spec mpR right ERr r Hr) as (idsr & Hlr & Hnr). destruct (rows_of_spec mpL left ELr l Hl) as (idsl & Hll & Hnl).
  pose proof (mi_rows _ _ _ _ IR (N.of_nat r)) as HRr. pose proof (mi_rows _ _ _ _ IL (N.of_nat l)) as HRl.
  unfold c20_spec.
  destruct (feats_of (mi_rightdef m) (N.of_nat r)) as [fr|] eqn:Efr; [|congruence].
  destruct (feats_of (mi_leftdef m) (N.of_nat l)) as [fl|] eqn:Efl; [|congruence].
  destruct HRr as (idsr' & Hlr' & Hokr). destruct HRl as (idsl' & Hll' & Hokl).
  assert (idsr' = idsr) by congruence. assert (idsl' = idsl) by congruence. subst idsr' idsl'.
  set (nb := length (mi_bigrams m)).
  assert (HlenL : length (ltemplates m) = nb) by (unfold ltemplates; apply map_length).
  assert (HlenR : length (rtemplates m) = nb) by (unfold rtemplates; apply map_length).
  assert (Hk : fold_right Nat.max 0%nat (map (@length _) (right ++ left)) = nb).
  { apply max_const.
    - destruct right; [cbn in Hr; lia|discriminate].
    - intros row Hin. apply in_app_or in Hin. destruct Hin as [Hin|Hin].
      + rewrite <- HlenL. eapply rows_all_len; eauto.
      + rewrite <- HlenR. eapply rows_all_len; eauto. }
  unfold spec_cost. rewrite Hk.
  rewrite (map_nth_seq _ (mi_bigrams m) ([], [])). fold nb.
  apply sum_ext. intros p Hp. apply in_seq in Hp.
  (* the wf hypotheses *)
  unfold wf_model in Hwf. apply andb_true_iff in Hwf. destruct Hwf as [Hwf Hw3]. apply andb_true_iff in Hwf. destruct Hwf as [Hw1 Hw2].
  set (b := nth p (mi_bigrams m) ([], [])).
  assert (Hbin : In b (mi_bigrams m)) by (apply nth_In; lia).
  rewrite forallb_forall in Hw3. specialize (Hw3 b Hbin).
  rewrite forallb_forall in Hw3. specialize (Hw3 (N.of_nat r, fr) (feats_of_in _ _ _ Efr)). cbn [fst snd] in Hw3.
  destruct (N.eqb_spec (N.of_nat r) 0) as [E0|_]; [lia|]. cbn [orb] in Hw3.
  rewrite forallb_forall in Hw3. specialize (Hw3 (N.of_nat l, fl) (feats_of_in _ _ _ Efl)). cbn [fst snd] in Hw3.
  destruct (N.eqb_spec (N.of_nat l) 0) as [E0|_]; [lia|]. cbn [orb] in Hw3.
  (* the features at position p *)
  unfold feature_at.
  destruct (N.eqb_spec (N.of_nat r) 0) as [E0|_]; [lia|]. destruct (N.eqb_spec (N.of_nat l) 0) as [E0|_]; [lia|].
  rewrite !Nat2N.id, Hnr, Hnl, !render_ids_nth.
  assert (HTL : nth_error (ltemplates m) p = Some (parse_template 76 (fst b))).
  { unfold ltemplates. rewrite nth_error_map. rewrite (nth_error_nth' (mi_bigrams m) ([], [])) by (fold nb; lia). reflexivity. }
  assert (HTR : nth_error (rtemplates m) p = Some (parse_template 82 (snd b))).
  { unfold rtemplates. rewrite nth_error_map. rewrite (nth_error_nth' (mi_bigrams m) ([], [])) by (fold nb; lia). reflexivity. }
  destruct Hokr as [_ Hokr]. destruct Hokl as [_ Hokl]. specialize (Hokr p _ HTL). specialize (Hokl p _ HTR).
  destruct (expand (parse_template 76 (fst b)) fr 0) as [a|].
  - destruct Hokr as (ia & Hia & ->). cbn [option_map].
    destruct (expand (parse_template 82 (snd b)) fl 0) as [c|].
    + destruct Hokl as (ic & Hic & ->). cbn [option_map].
      apply (cost_table tblL tblR (mi_factor m) a c ia ic Hia Hic Hw3 (mi_model m) Hw1 Hw2).
    + rewrite Hokl. cbn [option_map]. now rewrite table_get_star_r.
  - rewrite Hokr. cbn [option_map]. destruct (option_map _ (nth_error idsl p)); [now rewrite table_get_star_l|reflexivity].
Qed.
