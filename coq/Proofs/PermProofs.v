(** C08: the optimum does not depend on the order in which the candidates of one start position
    are inserted, nor on their lexicon-type / word-id labels.  Two lattices are [ksim] when every
    boundary holds the same multiset of node keys (everything but labels and back pointers). *)
From Vib Require Import Model.Base Model.Lattice Model.Tokenizer Proofs.Viterbi Proofs.TokenizerProofs
  Proofs.WorkerProofs Proofs.CountProofs Proofs.UserLexProofs.
From Coq Require Import Arith Permutation.
Local Open Scope Z_scope.

Definition key (n : node) : nat * nat * nat * N * N * Z * Z :=
  (n_sn n, n_sw n, n_end n, n_lid n, n_rid n, n_wc n, n_mc n).
Definition ksim (L1 L2 : lattice) : Prop := forall e, Permutation (map key (at_ L1 e)) (map key (at_ L2 e)).

Lemma ksim_refl L : ksim L L. Proof. intros e. reflexivity. Qed.

Section Conn.
Variable conn : N -> N -> Z.

Definition pcost (lid : N) (p : node) : Z := n_mc p + conn (n_rid p) lid.

Lemma key_pcost lid p q : key p = key q -> pcost lid p = pcost lid q.
Proof. unfold key, pcost. intros H. inversion H. congruence. Qed.

Lemma perm_key_in l1 l2 p : Permutation (map key l1) (map key l2) -> In p l1 -> exists q, In q l2 /\ key q = key p.
Proof.
  intros P Hp. assert (In (key p) (map key l2)) by (eapply Permutation_in; [exact P|now apply in_map]).
  apply in_map_iff in H. destruct H as (q & E & Hq). eauto.
Qed.

(** the minimum found by [search_min] depends only on the multiset of keys *)
Lemma search_min_value L1 L2 sn lid : ksim L1 L2 ->
  option_map snd (search_min conn L1 sn lid) = option_map snd (search_min conn L2 sn lid).
Proof.
  intros K. specialize (K sn).
  destruct (search_min conn L1 sn lid) as [[i1 c1]|] eqn:E1, (search_min conn L2 sn lid) as [[i2 c2]|] eqn:E2; cbn.
  - destruct (search_min_spec conn _ _ _ _ _ E1) as [Hmin1 (p1 & Hp1 & Ec1)].
    destruct (search_min_spec conn _ _ _ _ _ E2) as [Hmin2 (p2 & Hp2 & Ec2)].
    apply nth_error_In in Hp1, Hp2.
    destruct (perm_key_in _ _ p1 K Hp1) as (q2 & Hq2 & Ek2).
    destruct (perm_key_in _ _ p2 (Permutation_sym K) Hp2) as (q1 & Hq1 & Ek1).
    pose proof (Hmin1 _ Hq1). pose proof (Hmin2 _ Hq2).
    pose proof (key_pcost lid _ _ Ek1) as F1. pose proof (key_pcost lid _ _ Ek2) as F2. unfold pcost in F1, F2.
    f_equal. lia.
  - exfalso. apply search_min_none in E2. rewrite E2 in K. cbn in K. apply Permutation_sym, Permutation_nil in K.
    destruct (search_min_spec conn _ _ _ _ _ E1) as [_ (p1 & Hp1 & _)]. apply nth_error_In in Hp1.
    destruct (at_ L1 sn); [destruct Hp1|discriminate].
  - exfalso. apply search_min_none in E1. rewrite E1 in K. cbn in K. apply Permutation_nil in K.
    destruct (search_min_spec conn _ _ _ _ _ E2) as [_ (p2 & Hp2 & _)]. apply nth_error_In in Hp2.
    destruct (at_ L2 sn); [destruct Hp2|discriminate].
  - reflexivity.
Qed.

Lemma scan_ok_ksim L1 L2 sn lid : ksim L1 L2 -> scan_ok conn L1 sn lid = scan_ok conn L2 sn lid.
Proof.
  intros K. specialize (K sn). unfold scan_ok.
  assert (H : forall l1 l2, Permutation (map key l1) (map key l2) ->
            forallb (fun p => in_i32 (n_mc p + conn (n_rid p) lid)) l1 = true ->
            forallb (fun p => in_i32 (n_mc p + conn (n_rid p) lid)) l2 = true).
  { intros l1 l2 P H. apply forallb_forall. intros q Hq. destruct (perm_key_in _ _ q (Permutation_sym P) Hq) as (p & Hp & Ek).
    rewrite forallb_forall in H. specialize (H p Hp). pose proof (key_pcost lid _ _ Ek) as F. unfold pcost in F. now rewrite <- F. }
  destruct (forallb _ (at_ L1 sn)) eqn:E1, (forallb _ (at_ L2 sn)) eqn:E2; auto.
  - rewrite (H _ _ K E1) in E2. discriminate.
  - rewrite (H _ _ (Permutation_sym K) E2) in E1. discriminate.
Qed.

(** the key of the node [insert_node] creates: a function of the candidate's data and of the
    minimum over the predecessor boundary *)
Definition new_key (L : lattice) (sn sw e : nat) (lid rid : N) (wc : Z) : option (nat * nat * nat * N * N * Z * Z) :=
  match search_min conn L sn lid with
  | Some (_, c) => if scan_ok conn L sn lid && in_i32 (c + wc) then Some (sn, sw, e, lid, rid, wc, c + wc) else None
  | None => None
  end.

Lemma new_key_ksim L1 L2 sn sw e lid rid wc : ksim L1 L2 -> new_key L1 sn sw e lid rid wc = new_key L2 sn sw e lid rid wc.
Proof.
  intros K. unfold new_key. pose proof (search_min_value L1 L2 sn lid K) as Hv. rewrite (scan_ok_ksim L1 L2 sn lid K).
  destruct (search_min conn L1 sn lid) as [[i1 c1]|], (search_min conn L2 sn lid) as [[i2 c2]|]; cbn in Hv; try discriminate; auto.
  inversion Hv; subst. reflexivity.
Qed.

Lemma insert_node_key L sn sw e lex wid lid rid wc :
  match insert_node conn L sn sw e lex wid lid rid wc, new_key L sn sw e lid rid wc with
  | Some L', Some k => forall j, map key (at_ L' j) = if Nat.eqb j e then map key (at_ L j) ++ [k] else map key (at_ L j)
  | None, None => True
  | _, _ => False
  end.
Proof.
  unfold insert_node, new_key. destruct (search_min conn L sn lid) as [[i c]|]; [|exact I].
  destruct (scan_ok conn L sn lid && in_i32 (c + wc)); [|exact I].
  intros j. destruct (Nat.eqb_spec j e) as [->|Hne].
  - rewrite at_push_same, map_app. reflexivity.
  - now rewrite at_push_other.
Qed.

Lemma new_key_local L1 L2 sn sw e lid rid wc : at_ L1 sn = at_ L2 sn ->
  new_key L1 sn sw e lid rid wc = new_key L2 sn sw e lid rid wc.
Proof. intros H. unfold new_key, search_min, scan_ok. now rewrite H. Qed.

(** the key as a function of the label-free candidate *)
Definition skey (L : lattice) (sn : nat) (t : nat * nat * N * N * Z) : option (nat * nat * nat * N * N * Z * Z) :=
  let '(sw, e, lid, rid, wc) := t in new_key L sn sw e lid rid wc.
Definition ckey (L : lattice) (sn : nat) (c : cand) := skey L sn (strip c).

Lemma skey_ksim L1 L2 sn t : ksim L1 L2 -> skey L1 sn t = skey L2 sn t.
Proof. intros K. destruct t as [[[[sw e] lid] rid] wc]. now apply new_key_ksim. Qed.

(** a batch of insertions at one start boundary [sn] (all ends beyond [sn]): either some candidate
    fails, or every boundary gains exactly the keys of the candidates ending there, in order *)
Lemma insert_all_keys cs : forall L sn, Forall (fun c => (sn < c_end c)%nat) cs ->
  match insert_all conn L sn cs with
  | Some L' => forall j, exists ks, map Some ks = map (ckey L sn) (filter (fun c => Nat.eqb j (c_end c)) cs)
                                    /\ map key (at_ L' j) = map key (at_ L j) ++ ks
  | None => exists c, In c cs /\ ckey L sn c = None
  end.
Proof.
  induction cs as [|c cs IH]; intros L sn F.
  - cbn. intros j. exists []. now rewrite app_nil_r.
  - inversion F as [|? ? Hc F']; subst. cbn [insert_all].
    pose proof (insert_node_key L sn (c_sw c) (c_end c) (c_lex c) (c_wid c) (c_lid c) (c_rid c) (c_wc c)) as Hk.
    change (new_key L sn (c_sw c) (c_end c) (c_lid c) (c_rid c) (c_wc c)) with (ckey L sn c) in Hk.
    destruct (insert_node conn L sn _ _ _ _ _ _ _) as [L1|] eqn:E1.
    + destruct (ckey L sn c) as [k|] eqn:Ek; [|contradiction].
      assert (Hsn : at_ L1 sn = at_ L sn).
      { unfold insert_node in E1. destruct (search_min conn L sn (c_lid c)) as [[i0 c0]|]; [|discriminate].
        destruct (_ && _); [|discriminate]. inversion E1. apply at_push_other. lia. }
      assert (Hsame : forall c', ckey L1 sn c' = ckey L sn c').
      { intros c'. unfold ckey, skey. destruct (strip c') as [[[[sw e] lid] rid] wc]. now apply new_key_local. }
      specialize (IH L1 sn F'). destruct (insert_all conn L1 sn cs) as [L2|].
      * intros j. destruct (IH j) as (ks & Hks & Hat). rewrite (Hk j) in Hat. cbn [filter].
        destruct (Nat.eqb j (c_end c)).
        -- exists (k :: ks). cbn [map]. rewrite Ek. split.
           ++ f_equal. rewrite Hks. apply map_ext. exact Hsame.
           ++ rewrite Hat, <- app_assoc. reflexivity.
        -- exists ks. split; [rewrite Hks; apply map_ext; exact Hsame|exact Hat].
      * destruct IH as (c' & Hin & Hn). exists c'. split; [now right|]. now rewrite <- Hsame.
    + destruct (ckey L sn c) eqn:Ek; [contradiction|]. exists c. split; [now left|exact Ek].
Qed.

Lemma map_some_inj {A} (l1 l2 : list A) : map Some l1 = map Some l2 -> l1 = l2.
Proof. revert l2; induction l1 as [|x l1 IH]; intros [|y l2] H; cbn in H; try discriminate; auto. inversion H. f_equal. auto. Qed.

Lemma filter_map_strip (j : nat) cs :
  map strip (filter (fun c => Nat.eqb j (c_end c)) cs) = filter (fun t => let '(_, e, _, _, _) := t in Nat.eqb j e) (map strip cs).
Proof.
  induction cs as [|c cs IH]; [reflexivity|]. cbn [filter map]. unfold strip at 2. cbn.
  destruct (Nat.eqb j (c_end c)); cbn [map]; now rewrite IH.
Qed.

Lemma perm_filter {A} (f : A -> bool) l1 l2 : Permutation l1 l2 -> Permutation (filter f l1) (filter f l2).
Proof.
  induction 1; cbn; auto.
  - destruct (f x); auto.
  - destruct (f x), (f y); auto. apply perm_swap.
  - etransitivity; eauto.
Qed.

(** permuted, relabelled batches on [ksim] lattices give [ksim] lattices (or fail together) *)
Lemma insert_all_ksim L1 L2 sn cs1 cs2 : ksim L1 L2 ->
  Forall (fun c => (sn < c_end c)%nat) cs1 -> Forall (fun c => (sn < c_end c)%nat) cs2 ->
  Permutation (map strip cs1) (map strip cs2) ->
  optrel ksim (insert_all conn L1 sn cs1) (insert_all conn L2 sn cs2).
Proof.
  intros K F1 F2 P.
  pose proof (insert_all_keys cs1 L1 sn F1) as H1. pose proof (insert_all_keys cs2 L2 sn F2) as H2.
  assert (Hfail : forall csa csb La Lb, ksim La Lb -> Permutation (map strip csa) (map strip csb) ->
            (exists c, In c csa /\ ckey La sn c = None) -> exists c, In c csb /\ ckey Lb sn c = None).
  { intros csa csb La Lb Kab Pab (c & Hin & Hn).
    assert (In (strip c) (map strip csb)) by (eapply Permutation_in; [exact Pab|now apply in_map]).
    apply in_map_iff in H. destruct H as (c' & Es & Hin'). exists c'. split; [exact Hin'|].
    unfold ckey in *. rewrite Es, <- (skey_ksim La Lb sn _ Kab). exact Hn. }
  destruct (insert_all conn L1 sn cs1) as [A|] eqn:EA, (insert_all conn L2 sn cs2) as [B|] eqn:EB; cbn.
  - intros j. destruct (H1 j) as (k1 & Hk1 & Ha1). destruct (H2 j) as (k2 & Hk2 & Ha2).
    rewrite Ha1, Ha2. apply Permutation_app; [apply K|].
    assert (Pk : Permutation (map Some k1) (map Some k2)).
    { rewrite Hk1, Hk2. unfold ckey.
      rewrite <- (map_map strip (skey L1 sn)), <- (map_map strip (skey L2 sn)), !filter_map_strip.
      rewrite (map_ext _ _ (fun t => skey_ksim L1 L2 sn t K)).
      apply Permutation_map. now apply perm_filter. }
    apply Permutation_map_inv in Pk. destruct Pk as (l3 & E3 & P3). apply map_some_inj in E3. subst l3.
    now apply Permutation_sym.
  - exfalso. destruct (Hfail cs2 cs1 L2 L1 (fun e => Permutation_sym (K e)) (Permutation_sym P) H2) as (c & Hin & Hn).
    destruct (H1 (c_end c)) as (k1 & Hk1 & _).
    assert (In (ckey L1 sn c) (map (ckey L1 sn) (filter (fun c0 => Nat.eqb (c_end c) (c_end c0)) cs1))).
    { apply in_map. apply filter_In. split; [exact Hin|apply Nat.eqb_refl]. }
    rewrite <- Hk1, Hn in H. apply in_map_iff in H. destruct H as (x & Hx & _). discriminate.
  - exfalso. destruct (Hfail cs1 cs2 L1 L2 K P H1) as (c & Hin & Hn).
    destruct (H2 (c_end c)) as (k2 & Hk2 & _).
    assert (In (ckey L2 sn c) (map (ckey L2 sn) (filter (fun c0 => Nat.eqb (c_end c) (c_end c0)) cs2))).
    { apply in_map. apply filter_In. split; [exact Hin|apply Nat.eqb_refl]. }
    rewrite <- Hk2, Hn in H. apply in_map_iff in H. destruct H as (x & Hx & _). discriminate.
  - exact I.
Qed.
End Conn.

(** ** the whole lattice construction *)
Lemma forallb_ext' {A} (f g : A -> bool) l : (forall x, f x = g x) -> forallb f l = forallb g l.
Proof. intros H. induction l as [|x l IH]; cbn; [reflexivity|]. now rewrite H, IH. Qed.

Lemma ksim_has_prev L1 L2 i : ksim L1 L2 -> has_prev L1 i = has_prev L2 i.
Proof.
  intros K. specialize (K i). unfold has_prev. apply Permutation_length in K. rewrite !map_length in K.
  destruct (at_ L1 i), (at_ L2 i); cbn in K; try discriminate; reflexivity.
Qed.

Definition kscan_rel (a b : lattice * nat) : Prop := ksim (fst a) (fst b) /\ snd a = snd b.

Lemma scan_ksim d1 d2 o ct cs :
  (forall r l, conn_of d1 r l = conn_of d2 r l) ->
  (forall sw, Permutation (map strip (candidates d1 o (compile ct cs) sw)) (map strip (candidates d2 o (compile ct cs) sw))) ->
  forall fuel sn sw L1 L2, (sn <= sw)%nat -> ksim L1 L2 ->
  orel kscan_rel (scan d1 o (compile ct cs) fuel sn sw L1) (scan d2 o (compile ct cs) fuel sn sw L2).
Proof.
  intros Hconn Hcand. set (s := compile ct cs).
  induction fuel as [|f IH]; intros sn sw L1 L2 Hsw K; cbn [scan]; [exact I|].
  destruct (Nat.leb (s_len s) sw); [split; cbn; auto|].
  rewrite (ksim_has_prev L1 L2 sn K).
  destruct (negb (has_prev L2 sn)); [apply IH; [lia|exact K]|].
  set (sw' := if is_space o (s_ci s sn) then (sw + s_grp s sn)%nat else sw).
  assert (Hsw' : (sn <= sw')%nat) by (subst sw'; destruct (is_space _ _); lia).
  destruct (Nat.eqb sw' (s_len s)); [split; cbn; auto|].
  destruct (Nat.ltb (s_len s) sw'); [exact I|].
  assert (Fw : forall d, Forall (fun c => (sn < c_end c)%nat) (candidates d o s sw')).
  { intros d. pose proof (candidates_wf d o ct cs sw') as F. fold s in F. eapply Forall_impl; [|exact F]. intros c [E1 E2]. lia. }
  assert (Hins : optrel ksim (insert_all (conn_of d1) L1 sn (candidates d1 o s sw')) (insert_all (conn_of d2) L2 sn (candidates d2 o s sw'))).
  { replace (insert_all (conn_of d2) L2 sn (candidates d2 o s sw')) with (insert_all (conn_of d1) L2 sn (candidates d2 o s sw')).
    - apply insert_all_ksim; auto.
    - generalize (candidates d2 o s sw'). intros l. generalize L2. clear L2 K. induction l as [|c l IHl]; intros L2; cbn [insert_all]; [reflexivity|].
      assert (E : forall L, insert_node (conn_of d1) L sn (c_sw c) (c_end c) (c_lex c) (c_wid c) (c_lid c) (c_rid c) (c_wc c)
                          = insert_node (conn_of d2) L sn (c_sw c) (c_end c) (c_lex c) (c_wid c) (c_lid c) (c_rid c) (c_wc c)).
      { intros L. unfold insert_node, search_min, scan_ok.
        assert (Es : forall lid l0 i b, smin_aux (conn_of d1) lid l0 i b = smin_aux (conn_of d2) lid l0 i b).
        { intros lid l0. induction l0 as [|p l0 IH0]; intros i b; cbn; [reflexivity|]. rewrite Hconn. apply IH0. }
        rewrite Es. rewrite (forallb_ext' _ (fun p => in_i32 (n_mc p + conn_of d2 (n_rid p) (c_lid c)))); [reflexivity|]. intros p. now rewrite Hconn. }
      rewrite E. destruct (insert_node (conn_of d2) L2 sn _ _ _ _ _ _ _); [apply IHl|reflexivity]. }
  destruct (insert_all (conn_of d1) L1 sn _) as [A|], (insert_all (conn_of d2) L2 sn _) as [B|]; cbn in Hins; try contradiction; [|exact I].
  apply IH; [lia|exact Hins].
Qed.

Definition eos_same (a b : lattice * node) : Prop := n_mc (snd a) = n_mc (snd b) /\ n_sn (snd a) = n_sn (snd b).

Theorem build_lattice_perm d1 d2 o ct cs L0 :
  (forall r l, conn_of d1 r l = conn_of d2 r l) ->
  (forall sw, Permutation (map strip (candidates d1 o (compile ct cs) sw)) (map strip (candidates d2 o (compile ct cs) sw))) ->
  orel eos_same (build_lattice d1 o (compile ct cs) L0) (build_lattice d2 o (compile ct cs) L0).
Proof.
  intros Hconn Hcand. unfold build_lattice.
  pose proof (scan_ksim d1 d2 o ct cs Hconn Hcand (S (s_len (compile ct cs))) 0 0 _ _ (le_n _) (ksim_refl (reset L0 (s_len (compile ct cs))))) as Hs.
  destruct (scan d1 o _ _ 0 0 _) as [[La sa]| |], (scan d2 o _ _ 0 0 _) as [[Lb sb]| |]; cbn in Hs; try contradiction; try exact I.
  destruct Hs as [K Esn]; cbn in K, Esn; subst sb.
  unfold insert_eos.
  pose proof (search_min_value (conn_of d1) La Lb sa 0%N K) as Hv.
  pose proof (scan_ok_ksim (conn_of d1) La Lb sa 0%N K) as Hso.
  assert (E1 : search_min (conn_of d2) Lb sa 0%N = search_min (conn_of d1) Lb sa 0%N).
  { unfold search_min. generalize (at_ Lb sa). intros l. generalize 0%nat (@None (nat * Z)). induction l as [|p l IHl]; intros i b; cbn; [reflexivity|]. rewrite Hconn. apply IHl. }
  assert (E2 : scan_ok (conn_of d2) Lb sa 0%N = scan_ok (conn_of d1) Lb sa 0%N).
  { unfold scan_ok. apply forallb_ext'. intros p. now rewrite Hconn. }
  rewrite E1, E2, <- Hso.
  destruct (search_min (conn_of d1) La sa 0%N) as [[i1 c1]|], (search_min (conn_of d1) Lb sa 0%N) as [[i2 c2]|]; cbn in Hv; try discriminate; [|exact I].
  inversion Hv; subst c2. destruct (scan_ok (conn_of d1) La sa 0%N); cbn; [split; reflexivity|exact I].
Qed.

(** C08: tokenizing with a user lexicon reaches the same optimum (and connects EOS to the same
    boundary) as tokenizing with the system lexicon extended by the same rows *)
Theorem user_lexicon_same_optimum d u o cs L0 :
  orel eos_same (build_lattice (with_user d (Some u)) o (compile (d_chars d) cs) L0)
                (build_lattice (merged d u) o (compile (d_chars d) cs) L0).
Proof.
  apply build_lattice_perm; [reflexivity|]. intros sw. apply candidates_user_merged.
Qed.
