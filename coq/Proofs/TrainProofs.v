(** C14 / C15 / C16: arithmetic and cache facts behind the generated dictionary files. Costs are
    studied over the rationals (the exact values of the binary64 numbers involved); binary64
    rounding itself is not modelled (DESIGN.md). *)
From Coq Require Import QArith Qround Qabs ZArith Lia List Lqa.
Import ListNotations.

(** truncation toward zero (Rust's float-to-integer cast inside the representable range) *)
Definition qtrunc (q : Q) : Z := if Qle_bool 0 q then Qfloor q else (- Qfloor (- q))%Z.

Lemma qtrunc_err q : Qabs (inject_Z (qtrunc q) - q) < 1.
Proof.
  unfold qtrunc. destruct (Qle_bool 0 q) eqn:E.
  - pose proof (Qfloor_le q). pose proof (Qlt_floor q). rewrite inject_Z_plus in H0. change (inject_Z 1) with 1 in H0.
    apply Qabs_case; intros; lra.
  - pose proof (Qfloor_le (- q)). pose proof (Qlt_floor (- q)). rewrite inject_Z_plus in H0. change (inject_Z 1) with 1 in H0.
    rewrite inject_Z_opp. apply Qabs_case; intros; lra.
Qed.

Lemma qtrunc_mono a b : a <= b -> (qtrunc a <= qtrunc b)%Z.
Proof.
  intros H. unfold qtrunc.
  destruct (Qle_bool 0 a) eqn:Ea, (Qle_bool 0 b) eqn:Eb.
  - now apply Qfloor_resp_le.
  - apply Qle_bool_iff in Ea. assert (~ 0 <= b) by (intros Hb; apply Qle_bool_iff in Hb; congruence). lra.
  - assert (Hb : 0 <= b) by now apply Qle_bool_iff. assert (~ 0 <= a) by (intros Ha; apply Qle_bool_iff in Ha; congruence).
    assert (0 <= Qfloor b)%Z by (apply (Qfloor_resp_le 0 b) in Hb; exact Hb).
    assert (0 <= Qfloor (- a))%Z by (apply (Qfloor_resp_le 0 (- a)); lra). lia.
  - assert (Qfloor (- b) <= Qfloor (- a))%Z by (apply Qfloor_resp_le; lra). lia.
Qed.

(** C14: lower cost <=> higher score: cost w = trunc(-w * scale), scale > 0 *)
Definition cost (scale w : Q) : Z := qtrunc (- w * scale).

Theorem cost_antitone scale w1 w2 : 0 < scale -> w1 <= w2 -> (cost scale w2 <= cost scale w1)%Z.
Proof. intros Hs H. unfold cost. apply qtrunc_mono. nra. Qed.

(** all costs fit 16 bits when scale = 32767 / maxabs and |w| <= maxabs *)
Theorem cost_in_i16 maxabs w : 0 < maxabs -> Qabs w <= maxabs ->
  (-32767 <= cost ((32767 # 1) / maxabs) w <= 32767)%Z.
Proof.
  intros Hm Hw. unfold cost.
  assert (Hb : - (32767 # 1) <= - w * ((32767 # 1) / maxabs) <= 32767 # 1).
  { assert (E : - w * ((32767 # 1) / maxabs) == (32767 # 1) * (- w / maxabs)) by (field; lra). rewrite E.
    assert (- 1 <= - w / maxabs <= 1).
    { apply Qabs_Qle_condition in Hw. destruct Hw. split.
      - apply Qle_shift_div_l; lra.
      - apply Qle_shift_div_r; lra. }
    split; nra. }
  destruct Hb as [H1 H2]. split.
  - change (-32767)%Z with (qtrunc (- (32767 # 1))). now apply qtrunc_mono.
  - change 32767%Z with (qtrunc (32767 # 1)). now apply qtrunc_mono.
Qed.

(** C16: a matrix entry truncates the scaled SUM of K template weights, the bigram dictionary sums
    K separately truncated scaled weights: they differ by at most K + 1 whenever the exact sum and
    the sum computed in floating point differ by less than 1 *)
Fixpoint qsum (l : list Q) : Q := match l with [] => 0 | x :: t => x + qsum t end.
Fixpoint zsum (l : list Z) : Z := match l with [] => 0%Z | x :: t => (x + zsum t)%Z end.

Lemma sum_trunc_err l : Qabs (inject_Z (zsum (map qtrunc l)) - qsum l) <= inject_Z (Z.of_nat (length l)).
Proof.
  induction l as [|x l IH]; cbn [map zsum qsum length].
  - change (inject_Z 0) with 0. change (inject_Z (Z.of_nat 0)) with 0. apply Qabs_case; intros; lra.
  - rewrite inject_Z_plus, Nat2Z.inj_succ, <- Z.add_1_l, inject_Z_plus.
    pose proof (qtrunc_err x) as Hx.
    assert (E : inject_Z (qtrunc x) + inject_Z (zsum (map qtrunc l)) - (x + qsum l)
                == (inject_Z (qtrunc x) - x) + (inject_Z (zsum (map qtrunc l)) - qsum l)) by ring.
    rewrite E. eapply Qle_trans; [apply Qabs_triangle|]. apply Qlt_le_weak in Hx. change (inject_Z 1) with 1. lra.
Qed.

Theorem trunc_sum_bound (X : Q) (xs : list Q) : Qabs (X - qsum xs) < 1 ->
  (Z.abs (qtrunc X - zsum (map qtrunc xs)) <= Z.of_nat (length xs) + 1)%Z.
Proof.
  intros H.
  assert (Hq : Qabs (inject_Z (qtrunc X - zsum (map qtrunc xs))) < inject_Z (Z.of_nat (length xs) + 2)).
  { unfold Zminus. rewrite inject_Z_plus, inject_Z_opp.
    assert (E : inject_Z (qtrunc X) + - inject_Z (zsum (map qtrunc xs))
                == (inject_Z (qtrunc X) - X) + (X - qsum xs) + - (inject_Z (zsum (map qtrunc xs)) - qsum xs)) by ring.
    rewrite E. pose proof (qtrunc_err X). pose proof (sum_trunc_err xs).
    eapply Qle_lt_trans; [apply Qabs_triangle|]. rewrite Qabs_opp.
    eapply Qle_lt_trans; [apply Qplus_le_l; apply Qabs_triangle|].
    rewrite inject_Z_plus. change (inject_Z 2) with 2. lra. }
  apply Qabs_Qlt_condition in Hq. destruct Hq as [H1 H2]. rewrite <- inject_Z_opp in H1.
  rewrite <- Zlt_Qlt in H1, H2. lia.
Qed.

(** C15: the merged model is a cache of a function of the raw model; every operation that changes
    the raw model clears it, so generating always uses merge(raw) *)
Section Cache.
Variables (raw merged files : Type) (merge : raw -> merged) (emit : raw -> merged -> files) (add_user : raw -> raw).
Record mstate := { st_raw : raw; st_cache : option merged }.
Inductive mop := Generate | ReadUser | WriteRead.
Definition mstep (s : mstate) (o : mop) : mstate * option files :=
  match o with
  | Generate => let m := match st_cache s with Some m => m | None => merge (st_raw s) end in
                ({| st_raw := st_raw s; st_cache := Some m |}, Some (emit (st_raw s) m))
  | ReadUser => ({| st_raw := add_user (st_raw s); st_cache := None |}, None)
  | WriteRead => ({| st_raw := st_raw s; st_cache := None |}, None)
  end.
Definition cache_ok (s : mstate) : Prop := match st_cache s with Some m => m = merge (st_raw s) | None => True end.

Lemma mstep_inv s o : cache_ok s -> cache_ok (fst (mstep s o)).
Proof. intros H. destruct o; cbn; auto. unfold cache_ok in *. cbn. destruct (st_cache s); auto. Qed.

(** whatever happened before, generating emits the files of the cache-free reference *)
Theorem generate_uses_fresh_merge s : cache_ok s -> snd (mstep s Generate) = Some (emit (st_raw s) (merge (st_raw s))).
Proof. intros H. cbn. unfold cache_ok in H. destruct (st_cache s); [now rewrite H|reflexivity]. Qed.

Fixpoint mrun (s : mstate) (ops : list mop) : mstate := match ops with [] => s | o :: t => mrun (fst (mstep s o)) t end.
Theorem history_cache_ok s ops : cache_ok s -> cache_ok (mrun s ops).
Proof. revert s; induction ops as [|o t IH]; intros s H; cbn; [exact H|]. apply IH. now apply mstep_inv. Qed.

(** generating twice gives the same files *)
Theorem generate_twice s : cache_ok s -> snd (mstep (fst (mstep s Generate)) Generate) = snd (mstep s Generate).
Proof.
  intros H. rewrite (generate_uses_fresh_merge s H).
  rewrite (generate_uses_fresh_merge _ (mstep_inv s Generate H)). reflexivity.
Qed.
End Cache.
