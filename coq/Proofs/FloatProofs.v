(** C14 over binary64: the emitted cost [((-w) * scale) as i16] as a function of the real numbers
    the floats denote, and its monotonicity -- for EVERY finite weight and every scale. *)
From Coq Require Import ZArith Reals Lia Lra List.
From Flocq Require Import Core IEEE754.BinarySingleNaN.
From Vib Require Import Model.Float.
Import ListNotations.
Local Open Scope R_scope.

Notation fexp64 := (FLT_exp (3 - 1024 - 53) 53).
Definition rnd64 (x : R) : R := round radix2 fexp64 ZnearestE x.
Definition clampZ (lo hi z : Z) : Z := Z.max lo (Z.min hi z).

Lemma clampZ_mono lo hi a b : (a <= b)%Z -> (clampZ lo hi a <= clampZ lo hi b)%Z.
Proof. unfold clampZ; lia. Qed.

Lemma finite_sign (x : f64) : is_finite x = true ->
  (Bsign x = true -> B2R x <= 0) /\ (Bsign x = false -> 0 <= B2R x).
Proof.
  destruct x as [s|s| |s m e H]; try discriminate; intros _; cbn [Bsign B2R]; split; intros Hs; try lra.
  - subst s. apply F2R_le_0. cbn. lia.
  - subst s. apply F2R_ge_0. cbn. lia.
Qed.

Local Instance prec64 : Prec_gt_0 53 := f64_prec.
Lemma rnd64_mono x y : x <= y -> rnd64 x <= rnd64 y.
Proof. apply round_le; typeclasses eauto. Qed.
Lemma rnd64_0 : rnd64 0 = 0.
Proof. apply round_0; typeclasses eauto. Qed.

Lemma bpow_1024 : bpow radix2 1024 = IZR (2 ^ 1024).
Proof. rewrite <- IZR_Zpower by lia. reflexivity. Qed.

(** ** the product followed by the saturating cast *)
Lemma mul_to_int lo hi (x y : f64) : (- 2 ^ 1024 <= lo)%Z -> (lo <= hi)%Z -> (hi <= 2 ^ 1024)%Z ->
  is_finite x = true -> is_finite y = true ->
  f64_to_int lo hi (f64_mul x y) = clampZ lo hi (Ztrunc (rnd64 (B2R x * B2R y))).
Proof.
  intros Hlo Hlh Hhi Fx Fy. unfold f64_mul.
  pose proof (Bmult_correct 53 1024 f64_prec f64_emax mode_NE x y) as C. cbn [round_mode] in C.
  change (round radix2 (SpecFloat.fexp 53 1024) ZnearestE (B2R x * B2R y)) with (rnd64 (B2R x * B2R y)) in C.
  set (z := rnd64 (B2R x * B2R y)) in *.
  destruct (Rlt_bool_spec (Rabs z) (bpow radix2 1024)) as [Hlt|Hge].
  - destruct C as (Cr & Cf & _). rewrite Fx, Fy in Cf. cbn [andb] in Cf.
    set (m := Bmult mode_NE x y) in *.
    assert (E : IZR (Btrunc m) = IZR (Ztrunc z)).
    { rewrite (Btrunc_correct 53 1024 f64_emax), Cr. apply round_FIX_IZR. }
    apply eq_IZR in E.
    destruct m as [s|s| |s mm e H]; try discriminate; unfold f64_to_int, clampZ; now rewrite E.
  - set (m := Bmult mode_NE x y) in *.
    assert (Em : m = B754_infinity (xorb (Bsign x) (Bsign y))).
    { destruct m as [s|s| |s mm e H]; cbn in C; try discriminate. now inversion C. }
    rewrite Em. cbn [f64_to_int].
    destruct (finite_sign x Fx) as (Xn & Xp). destruct (finite_sign y Fy) as (Yn & Yp).
    rewrite bpow_1024 in Hge.
    destruct (Bsign x) eqn:Sx, (Bsign y) eqn:Sy; cbn [xorb].
    + (* both <= 0: product >= 0 *)
      assert (0 <= z) by (rewrite <- rnd64_0; apply rnd64_mono; specialize (Xn eq_refl); specialize (Yn eq_refl); nra).
      rewrite Rabs_pos_eq in Hge by assumption.
      assert (2 ^ 1024 <= Ztrunc z)%Z by (rewrite <- (Ztrunc_IZR (2 ^ 1024)); now apply Ztrunc_le).
      unfold clampZ; lia.
    + assert (z <= 0) by (rewrite <- rnd64_0; apply rnd64_mono; specialize (Xn eq_refl); specialize (Yp eq_refl); nra).
      rewrite Rabs_left1 in Hge by assumption.
      assert (Ztrunc z <= - 2 ^ 1024)%Z.
      { rewrite <- (Ztrunc_IZR (- 2 ^ 1024)). apply Ztrunc_le. rewrite opp_IZR. lra. }
      unfold clampZ; lia.
    + assert (z <= 0) by (rewrite <- rnd64_0; apply rnd64_mono; specialize (Xp eq_refl); specialize (Yn eq_refl); nra).
      rewrite Rabs_left1 in Hge by assumption.
      assert (Ztrunc z <= - 2 ^ 1024)%Z.
      { rewrite <- (Ztrunc_IZR (- 2 ^ 1024)). apply Ztrunc_le. rewrite opp_IZR. lra. }
      unfold clampZ; lia.
    + assert (0 <= z) by (rewrite <- rnd64_0; apply rnd64_mono; specialize (Xp eq_refl); specialize (Yp eq_refl); nra).
      rewrite Rabs_pos_eq in Hge by assumption.
      assert (2 ^ 1024 <= Ztrunc z)%Z by (rewrite <- (Ztrunc_IZR (2 ^ 1024)); now apply Ztrunc_le).
      unfold clampZ; lia.
Qed.

(** ** the cost as a function of real numbers *)
Theorem f64_cost_real (sc w : f64) : is_finite sc = true -> is_finite w = true ->
  f64_cost sc w = clampZ (-32768) 32767 (Ztrunc (rnd64 (- B2R w * B2R sc))).
Proof.
  intros Fs Fw. unfold f64_cost, f64_to_i16, f64_neg.
  rewrite mul_to_int; try (rewrite ?is_finite_Bopp; assumption); try (vm_compute; congruence).
  now rewrite B2R_Bopp.
Qed.

Theorem f64_cost_antitone (sc w1 w2 : f64) : is_finite sc = true -> 0 <= B2R sc ->
  is_finite w1 = true -> is_finite w2 = true -> B2R w1 <= B2R w2 -> (f64_cost sc w2 <= f64_cost sc w1)%Z.
Proof.
  intros Fs Hs F1 F2 Hw. rewrite !f64_cost_real by assumption.
  apply clampZ_mono, Ztrunc_le, rnd64_mono. nra.
Qed.

Theorem f64_cost_i16 (sc w : f64) : (-32768 <= f64_cost sc w <= 32767)%Z.
Proof.
  unfold f64_cost, f64_to_i16, f64_to_int. destruct (f64_mul (f64_neg w) sc) as [s|s| |s m e H]; try destruct s; lia.
Qed.

(** ** an infinite scale (every weight is zero, or the largest one is so small that 32767 / max overflows) *)
Lemma finite_nonzero_sign s m e H : let x : f64 := B754_finite s m e H in if s then B2R x < 0 else 0 < B2R x.
Proof. cbn. destruct s; [apply F2R_lt_0|apply F2R_gt_0]; cbn; lia. Qed.

Theorem f64_cost_antitone_inf (w1 w2 : f64) : is_finite w1 = true -> is_finite w2 = true -> B2R w1 <= B2R w2 ->
  (f64_cost (B754_infinity false) w2 <= f64_cost (B754_infinity false) w1)%Z.
Proof.
  intros F1 F2 Hw.
  destruct w1 as [s1|s1| |s1 m1 e1 H1]; try discriminate; destruct w2 as [s2|s2| |s2 m2 e2 H2]; try discriminate.
  - pose proof (finite_nonzero_sign s2 m2 e2 H2) as P. cbn zeta in P. destruct s2.
    + cbn [B2R] in Hw, P. exfalso; lra.
    + destruct s1; vm_compute; congruence.
  - pose proof (finite_nonzero_sign s1 m1 e1 H1) as P. cbn zeta in P. destruct s1.
    + destruct s2; vm_compute; congruence.
    + cbn [B2R] in Hw, P. exfalso; lra.
  - pose proof (finite_nonzero_sign s1 m1 e1 H1) as P1. pose proof (finite_nonzero_sign s2 m2 e2 H2) as P2. cbn zeta in P1, P2.
    destruct s1, s2; try (vm_compute; congruence). exfalso; cbn [B2R] in Hw, P1, P2; lra.
Qed.

(** ** the scale 32767.0 / (largest absolute weight) *)
Lemma f64_max_spec (x y : f64) : is_finite x = true -> is_finite y = true ->
  (f64_max x y = x \/ f64_max x y = y) /\ B2R x <= B2R (f64_max x y) /\ B2R y <= B2R (f64_max x y).
Proof.
  intros Fx Fy. unfold f64_max, f64_cmp. rewrite (Bcompare_correct 53 1024 x y Fx Fy).
  destruct (Rcompare_spec (B2R x) (B2R y)) as [H|H|H]; repeat split; auto; lra.
Qed.

Definition good_acc (a : f64) : Prop := is_finite a = true /\ Bsign a = false.

Lemma absmax_inv (ws : list f64) : Forall (fun w => is_finite w = true) ws -> forall acc, good_acc acc ->
  good_acc (fold_left f64_max (map f64_abs ws) acc).
Proof.
  induction 1 as [|w ws Fw _ IH]; intros acc G; [exact G|]. cbn [map fold_left]. apply IH.
  destruct G as (Fa & Sa).
  assert (Gw : good_acc (f64_abs w)).
  { split; [unfold f64_abs; now rewrite is_finite_Babs|]. unfold f64_abs. apply Bsign_Babs. }
  destruct (f64_max_spec acc (f64_abs w) Fa (proj1 Gw)) as ([E|E] & _); rewrite E; [now split|exact Gw].
Qed.

Lemma f64_zero_good : good_acc (f64_of_Z 0).
Proof. split; vm_compute; reflexivity. Qed.

Lemma f64_32767 : is_finite (f64_of_Z 32767) = true /\ Bsign (f64_of_Z 32767) = false /\ B2R (f64_of_Z 32767) = 32767.
Proof.
  unfold f64_of_Z, binary_normalize. rewrite is_finite_SF2B, Bsign_SF2B, B2R_SF2B.
  repeat split; try (vm_compute; reflexivity).
  set (s := binary_round _ _ _ _ _ _). vm_compute in s. subst s.
  cbn [SF2R]. unfold F2R. cbn [Fnum Fexp cond_Zopp bpow radix_val radix2].
  change (Z.pow_pos 2 38) with 274877906944%Z. lra.
Qed.

(** the scale is +infinity (all weights zero, or 32767 / max overflows) or a finite non-negative number *)
Theorem f64_scale_cases (ws : list f64) : Forall (fun w => is_finite w = true) ws ->
  f64_scale ws = B754_infinity false \/ (is_finite (f64_scale ws) = true /\ 0 <= B2R (f64_scale ws)).
Proof.
  intros F. unfold f64_scale, f64_absmax.
  destruct (absmax_inv ws F _ f64_zero_good) as (Fm & Sm). set (m := fold_left f64_max (map f64_abs ws) (f64_of_Z 0)) in *.
  destruct f64_32767 as (F3 & S3 & R3). set (c := f64_of_Z 32767) in *.
  clearbody c m. destruct (finite_sign m Fm) as (_ & Mp). specialize (Mp Sm).
  destruct (Req_dec (B2R m) 0) as [Z|NZ].
  - left. destruct m as [s|s| |s mm e H]; try discriminate.
    + cbn [Bsign] in Sm. subst s. destruct c as [s'|s'| |s' m' e' H']; try discriminate; cbn [Bsign] in S3; subst s'.
      * cbn [B2R] in R3. lra.
      * reflexivity.
    + exfalso. pose proof (finite_nonzero_sign s mm e H) as P. cbn zeta in P. cbn [B2R] in Z, P. destruct s; lra.
  - pose proof (Bdiv_correct 53 1024 f64_prec f64_emax mode_NE c m NZ) as C. cbn [round_mode] in C.
    change (round radix2 (SpecFloat.fexp 53 1024) ZnearestE (B2R c / B2R m)) with (rnd64 (B2R c / B2R m)) in C.
    unfold f64_div. destruct (Rlt_bool (Rabs (rnd64 (B2R c / B2R m))) (bpow radix2 1024)).
    + right. destruct C as (Cr & Cf & _). split; [now rewrite Cf|]. rewrite Cr, <- rnd64_0. apply rnd64_mono.
      rewrite R3. apply Rmult_le_pos; [lra|]. apply Rlt_le, Rinv_0_lt_compat. lra.
    + left. rewrite S3, Sm in C. cbn [xorb] in C. unfold binary_overflow in C. cbn [overflow_to_inf] in C.
      destruct (Bdiv mode_NE c m) as [s|s| |s mm e H]; cbn [B2SF] in C; try discriminate. now inversion C.
Qed.

(** ** the statement about the files: with the scale the writers use, a larger weight never gets a larger cost *)
Theorem f64_costs_antitone (ws : list f64) (w1 w2 : f64) : Forall (fun w => is_finite w = true) ws ->
  is_finite w1 = true -> is_finite w2 = true -> B2R w1 <= B2R w2 ->
  (f64_cost (f64_scale ws) w2 <= f64_cost (f64_scale ws) w1)%Z.
Proof.
  intros F F1 F2 Hw. destruct (f64_scale_cases ws F) as [E|(Fs & Ps)].
  - rewrite E. now apply f64_cost_antitone_inf.
  - now apply f64_cost_antitone.
Qed.
