(** C11: rendering rows as CSV and parsing them gives the rows back, in order, surfaces unquoted,
    features byte for byte. *)
From Vib Require Import Model.Base Model.Text Model.LexCsv.
From Coq Require Import Arith.
Local Open Scope N_scope.

Definition plain (c : list N) : Prop := forall b, In b c -> b <> 44 /\ b <> 10 /\ b <> 13 /\ b <> 34.

Lemma take_plain_stop c rest : plain c -> forall b, (b = 44 \/ b = 10) ->
  take_plain (c ++ b :: rest) = (c, c, (if b =? 44 then FComma else FEol), rest).
Proof.
  intros Hp b Hb. induction c as [|x c IH]; cbn [app take_plain].
  - destruct Hb as [-> | ->]; reflexivity.
  - destruct (Hp x (or_introl eq_refl)) as (H1 & H2 & H3 & _).
    destruct (N.eqb_spec x 44); [congruence|]. destruct (N.eqb_spec x 10); [congruence|]. destruct (N.eqb_spec x 13); [congruence|].
    rewrite IH by (intros y Hy; apply Hp; now right). reflexivity.
Qed.

Lemma take_field_plain c rest b : plain c -> (b = 44 \/ b = 10) ->
  take_field (c ++ b :: rest) = (c, c, (if b =? 44 then FComma else FEol), rest).
Proof.
  intros Hp Hb. unfold take_field. destruct c as [|x c].
  - cbn [app]. destruct Hb as [-> | ->]; reflexivity.
  - cbn [app]. destruct (Hp x (or_introl eq_refl)) as (_ & _ & _ & H4).
    assert (E : forall t, match x :: t with 34 :: t0 => let '(c0, raw, e, r) := take_quoted t0 in (c0, 34 :: raw, e, r) | _ => take_plain (x :: t) end = take_plain (x :: t)).
    { intros t. destruct x as [|p]; [reflexivity|]. do 6 (destruct p as [p|p|]; try reflexivity). congruence. }
    rewrite E. apply (take_plain_stop (x :: c) rest Hp b Hb).
Qed.

(** a quoted cell: any bytes at all, quotes doubled *)
Lemma take_quoted_cell s rest :
  exists raw, take_quoted (dbl_quotes s ++ 34 :: 44 :: rest) = (s, raw, FComma, rest).
Proof.
  induction s as [|x s [raw IH]]; cbn [dbl_quotes app].
  - cbn. eexists. reflexivity.
  - destruct (N.eqb_spec x 34) as [->|Hne].
    + cbn [app take_quoted N.eqb Pos.eqb]. rewrite IH. eexists. reflexivity.
    + cbn [app take_quoted]. destruct (N.eqb_spec x 34); [congruence|]. rewrite IH. eexists. reflexivity.
Qed.

Lemma needs_quote_false s : needs_quote s = false -> plain s.
Proof.
  unfold needs_quote. intros H b Hb. 
  assert (Hx : ((b =? 44) || (b =? 34) || (b =? 10) || (b =? 13)) = false).
  { destruct ((b =? 44) || (b =? 34) || (b =? 10) || (b =? 13)) eqn:E; [|reflexivity].
    assert (existsb (fun b => (b =? 44) || (b =? 34) || (b =? 10) || (b =? 13)) s = true) by (apply existsb_exists; eauto). congruence. }
  repeat (apply orb_false_iff in Hx; destruct Hx as [Hx ?]).
  repeat split; apply N.eqb_neq; assumption.
Qed.

(** the first field: the surface, quoted or not, comes back unquoted *)
Lemma take_field_cell q s rest :
  exists raw, take_field (render_cell q s ++ 44 :: rest) = (s, raw, FComma, rest).
Proof.
  unfold render_cell. destruct (q || needs_quote s) eqn:E.
  - cbn [app take_field]. rewrite <- app_assoc. cbn [app]. destruct (take_quoted_cell s rest) as [raw Hr]. rewrite Hr. eexists. reflexivity.
  - apply orb_false_iff in E. destruct E as [_ E]. eexists. apply (take_field_plain s rest 44 (needs_quote_false s E)). now left.
Qed.

(** feature: comma-separated plain cells, taken raw *)
Fixpoint join (cells : list (list N)) : list N :=
  match cells with
  | [] => []
  | [c] => c
  | c :: t => c ++ 44 :: join t
  end.

Lemma join_cons2 c c2 t : join (c :: c2 :: t) = c ++ 44 :: join (c2 :: t).
Proof. reflexivity. Qed.

Lemma take_rest_join cells : cells <> [] -> Forall plain cells -> forall fuel rest, (length cells <= fuel)%nat ->
  take_rest fuel (join cells ++ 10 :: rest) = (join cells, rest).
Proof.
  induction cells as [|c cells IH]; intros Hne F fuel rest Hf; [congruence|].
  inversion F as [|? ? Hc F']; subst. destruct fuel as [|f]; [simpl in Hf; lia|].
  destruct cells as [|c2 cells'].
  - cbn [join take_rest]. rewrite (take_field_plain c rest 10 Hc) by now right. reflexivity.
  - rewrite join_cons2. rewrite <- app_assoc. cbn [app take_rest].
    rewrite (take_field_plain c (join (c2 :: cells') ++ 10 :: rest) 44 Hc) by now left. cbn [N.eqb Pos.eqb].
    rewrite (IH ltac:(discriminate) F' f rest) by (simpl in *; lia). reflexivity.
Qed.

(** ** rows *)
Record srow := {
  s_surface : list N; s_quote : bool;
  s_ltxt : list N; s_rtxt : list N; s_ctxt : list N;
  s_lid : N; s_rid : N; s_cost : Z;
  s_cells : list (list N)
}.
Definition row_ok (r : srow) : Prop :=
  plain (s_ltxt r) /\ plain (s_rtxt r) /\ plain (s_ctxt r) /\
  parse_unsigned (s_ltxt r) 65535 = Some (s_lid r) /\ parse_unsigned (s_rtxt r) 65535 = Some (s_rid r) /\
  parse_i16 (s_ctxt r) = Some (s_cost r) /\
  s_cells r <> [] /\ Forall plain (s_cells r) /\
  (* an unquoted surface must not be mistaken for a blank line *)
  (s_quote r = false -> needs_quote (s_surface r) = false -> True).

Definition render_row (r : srow) : list N :=
  render_cell (s_quote r) (s_surface r) ++ 44 :: s_ltxt r ++ 44 :: s_rtxt r ++ 44 :: s_ctxt r ++ 44 :: join (s_cells r) ++ [10].
Definition entry_of (r : srow) : lexent :=
  {| le_surface := s_surface r; le_lid := s_lid r; le_rid := s_rid r; le_cost := s_cost r; le_feature := join (s_cells r) |}.
Definition keep (r : srow) : bool := match s_surface r with [] => false | _ => true end.

Lemma render_cell_head q s t : skip_blank (render_cell q s ++ 44 :: t) = render_cell q s ++ 44 :: t.
Proof.
  unfold render_cell. destruct (q || needs_quote s) eqn:E; [reflexivity|].
  apply orb_false_iff in E. destruct E as [_ E]. destruct s as [|x s]; [reflexivity|].
  destruct (needs_quote_false _ E x (or_introl eq_refl)) as (_ & H2 & H3 & _).
  cbn [app skip_blank]. destruct (N.eqb_spec x 10); [congruence|]. destruct (N.eqb_spec x 13); [congruence|]. reflexivity.
Qed.

Lemma app_cons_assoc {A} (a : list A) x b r : (a ++ x :: b) ++ r = a ++ x :: (b ++ r).
Proof. now rewrite <- app_assoc. Qed.

Lemma render_row_app r rest : render_row r ++ rest =
  render_cell (s_quote r) (s_surface r) ++ 44 :: (s_ltxt r ++ 44 :: (s_rtxt r ++ 44 :: (s_ctxt r ++ 44 :: (join (s_cells r) ++ 10 :: rest)))).
Proof. unfold render_row. rewrite !app_cons_assoc. reflexivity. Qed.

Lemma parse_one_row r rest fuel acc : row_ok r ->
  parse_records (S fuel) (render_row r ++ rest) acc =
  parse_records fuel rest (if keep r then entry_of r :: acc else acc).
Proof.
  intros (Hl & Hr & Hc & Pl & Pr & Pc & Hne & Hcells & _). rewrite render_row_app.
  cbn [parse_records]. rewrite render_cell_head.
  destruct (render_cell (s_quote r) (s_surface r) ++ _) eqn:E0.
  { exfalso. unfold render_cell in E0. destruct (_ || _); [discriminate|]. destruct (s_surface r); discriminate. }
  rewrite <- E0. clear E0.
  destruct (take_field_cell (s_quote r) (s_surface r) (s_ltxt r ++ 44 :: s_rtxt r ++ 44 :: s_ctxt r ++ 44 :: join (s_cells r) ++ 10 :: rest)) as [raw0 H0].
  rewrite H0.
  rewrite (take_field_plain (s_ltxt r) _ 44 Hl) by now left. cbn [N.eqb Pos.eqb].
  rewrite (take_field_plain (s_rtxt r) _ 44 Hr) by now left. cbn [N.eqb Pos.eqb].
  rewrite (take_field_plain (s_ctxt r) _ 44 Hc) by now left. cbn [N.eqb Pos.eqb].
  rewrite Pl, Pr, Pc.
  rewrite (take_rest_join (s_cells r) Hne Hcells).
  2:{ rewrite app_length. assert (Hj : forall cs, (length cs <= S (length (join cs)))%nat).
      { induction cs as [|c cs IHc]; [simpl; lia|]. destruct cs as [|c2 cs']; [simpl; lia|].
        rewrite join_cons2, app_length. cbn [length] in *. lia. }
      specialize (Hj (s_cells r)). cbn [length]. lia. }
  unfold keep, entry_of. destruct (s_surface r); reflexivity.
Qed.

Lemma parse_rows rows : Forall row_ok rows -> forall fuel acc, (length rows < fuel)%nat ->
  parse_records fuel (concat (map render_row rows)) acc = Ok (rev acc ++ map entry_of (filter keep rows)).
Proof.
  induction 1 as [|r rows Hr _ IH]; intros fuel acc Hf.
  - destruct fuel; [simpl in Hf; lia|]. cbn. now rewrite app_nil_r.
  - destruct fuel as [|f]; [simpl in Hf; lia|]. cbn [map concat].
    rewrite (parse_one_row r _ f acc Hr). rewrite IH by (simpl in Hf; lia).
    cbn [filter]. destruct (keep r); cbn [map rev]; [now rewrite <- app_assoc|reflexivity].
Qed.

Lemma render_row_nonempty r : (1 <= length (render_row r))%nat.
Proof. unfold render_row. rewrite app_length. cbn [length]. lia. Qed.

(** every row with a non-empty surface becomes exactly one word, in row order; the surface is the
    CSV-unquoted first cell, the numbers are the parsed numerals, the feature is the rest of the
    row byte for byte; rows with an empty surface are skipped *)
Theorem parse_render rows : Forall row_ok rows ->
  parse_lex_csv (concat (map render_row rows)) = Ok (map entry_of (filter keep rows)).
Proof.
  intros H. unfold parse_lex_csv. rewrite (parse_rows rows H _ []); [reflexivity|].
  assert (Hl : (length rows <= length (concat (map render_row rows)))%nat).
  { clear H. induction rows as [|r rows IH]; [simpl; lia|]. cbn [map concat]. rewrite app_length. pose proof (render_row_nonempty r). simpl. lia. }
  lia.
Qed.

(** blank lines between or after the rows change nothing *)
Lemma skip_blank_idem bs : skip_blank (skip_blank bs) = skip_blank bs.
Proof. induction bs as [|b t IH]; [reflexivity|]. cbn [skip_blank]. destruct ((b =? 10) || (b =? 13)) eqn:E; [exact IH|]. cbn [skip_blank]. now rewrite E. Qed.

Theorem leading_blank_lines_ignored fuel bs acc nl : (nl = 10 \/ nl = 13) ->
  parse_records (S fuel) (nl :: bs) acc = parse_records (S fuel) bs acc.
Proof.
  intros H. cbn [parse_records skip_blank]. destruct H as [-> | ->]; cbn [N.eqb Pos.eqb orb]; reflexivity.
Qed.
