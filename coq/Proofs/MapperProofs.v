(** [ConnIdMapper::parse] accepts exactly the permutations of 1..n and returns the inverse
    table; [compute_probs] yields such a permutation, sorted by (count desc, id asc). *)
From Vib Require Import Model.Base Model.Mapper.
From Coq Require Import Arith Permutation Sorted.
Local Open Scope N_scope.

Lemma set_nth_length {A} (l : list A) i v : length (set_nth l i v) = length l.
Proof. revert i; induction l as [|x l IH]; intros [|i]; simpl; auto. Qed.

Lemma nth_error_set_nth_same {A} (l : list A) i v : (i < length l)%nat -> nth_error (set_nth l i v) i = Some v.
Proof. revert i; induction l as [|x l IH]; intros [|i] H; simpl in *; try lia; auto. apply IH. lia. Qed.

Lemma nth_error_set_nth_other {A} (l : list A) i j v : i <> j -> nth_error (set_nth l i v) j = nth_error l j.
Proof. revert i j; induction l as [|x l IH]; intros [|i] [|j] H; simpl; auto; try congruence. Qed.

Definition in_range (n : nat) (x : N) : Prop := 1 <= x /\ x <= N.of_nat n.

(** the table after processing the prefix [p] of a sequence of total length [n] *)
Record TInv (n : nat) (p : list N) (tbl : list N) : Prop := {
  ti_len : length tbl = S n;
  ti_zero : nth_error tbl 0 = Some 0;
  ti_set : forall i x, nth_error p i = Some x -> nth_error tbl (N.to_nat x) = Some (N.of_nat (S i));
  ti_free : forall j, (0 < j <= n)%nat -> ~ In (N.of_nat j) p -> nth_error tbl j = Some U16MAX;
  ti_nodup : NoDup p;
  ti_range : Forall (in_range n) p }.

Definition Good (n : nat) (xs : list N) : Prop := NoDup xs /\ Forall (in_range n) xs.

Lemma nth_error_repeat {A} (x : A) n j : (j < n)%nat -> nth_error (repeat x n) j = Some x.
Proof. revert j; induction n; intros [|j] H; simpl; try lia; auto. apply IHn. lia. Qed.

Lemma tinv_init n : TInv n [] (0 :: repeat U16MAX n).
Proof.
  constructor; simpl; auto.
  - now rewrite repeat_length.
  - intros [|i] x H; discriminate.
  - intros [|j] Hj _; [lia|]. simpl. apply nth_error_repeat. lia.
  - constructor.
Qed.

Lemma parse_loop_spec n : N.of_nat n < 65535 -> forall r p tbl,
  TInv n p tbl -> (length p + length r = n)%nat ->
  match parse_loop r (N.of_nat (S (length p))) tbl with
  | Ok t => Good n (p ++ r) /\ TInv n (p ++ r) t
  | Err => ~ Good n (p ++ r)
  | Panic => False
  end.
Proof.
  intros Hn. induction r as [|o r IH]; intros p tbl I Hlen.
  - simpl. rewrite app_nil_r. split; [split; apply I|exact I].
  - cbn [parse_loop].
    destruct (nth_error tbl (N.to_nat o)) as [e|] eqn:Eo.
    2:{ (* out of range *)
      intros [_ F]. rewrite Forall_app in F. destruct F as [_ F]. inversion F as [|? ? [Ho1 Ho2] _]; subst.
      apply nth_error_None in Eo. rewrite (ti_len _ _ _ I) in Eo. lia. }
    assert (Hlt : (N.to_nat o < S n)%nat).
    { rewrite <- (ti_len _ _ _ I). apply nth_error_Some. congruence. }
    destruct (e =? U16MAX) eqn:Ee; cbn [negb].
    2:{ (* slot taken: o = 0 or o already in p *)
      intros [ND F]. apply N.eqb_neq in Ee.
      rewrite Forall_app in F. destruct F as [_ F]. inversion F as [|? ? [Ho1 Ho2] _]; subst.
      apply NoDup_remove_2 in ND. 
      assert (~ In o p) as Hni by (intros H; apply ND; apply in_or_app; now left).
      pose proof (ti_free _ _ _ I (N.to_nat o) ltac:(lia)) as Hf.
      rewrite N2Nat.id in Hf. rewrite (Hf Hni) in Eo. congruence. }
    apply N.eqb_eq in Ee. subst e.
    replace (U16MAX <? N.of_nat (S (length p))) with false
      by (symmetry; apply N.ltb_ge; unfold U16MAX; lia).
    (* o is fresh and in range *)
    assert (Ho0 : N.to_nat o <> 0%nat).
    { intros E. rewrite E, (ti_zero _ _ _ I) in Eo. inversion Eo. }
    assert (Hnotin : ~ In o p).
    { intros Hin. apply In_nth_error in Hin. destruct Hin as [i Hi].
      rewrite (ti_set _ _ _ I _ _ Hi) in Eo. inversion Eo as [E].
      assert (i < length p)%nat by (apply nth_error_Some; congruence). unfold U16MAX in E. lia. }
    replace (N.succ (N.of_nat (S (length p)))) with (N.of_nat (S (length (p ++ [o]))))
      by (rewrite app_length; simpl; lia).
    replace (p ++ o :: r) with ((p ++ [o]) ++ r) by (rewrite <- app_assoc; reflexivity).
    apply IH.
    + constructor.
      * rewrite set_nth_length. apply I.
      * rewrite nth_error_set_nth_other by auto. apply I.
      * intros i x Hi. destruct (Nat.lt_ge_cases i (length p)) as [Hi'|Hi'].
        -- rewrite nth_error_app1 in Hi by exact Hi'.
           assert (x <> o) by (intros ->; apply Hnotin; eapply nth_error_In; eauto).
           rewrite nth_error_set_nth_other by lia. eapply ti_set; eauto.
        -- rewrite nth_error_app2 in Hi by exact Hi'.
           destruct (i - length p)%nat as [|k] eqn:Ek; simpl in Hi; [|destruct k; discriminate].
           inversion Hi; subst x. rewrite nth_error_set_nth_same by (rewrite (ti_len _ _ _ I); exact Hlt).
           f_equal. f_equal. lia.
      * intros j Hj Hnj. rewrite nth_error_set_nth_other.
        -- apply (ti_free _ _ _ I j Hj). intros H. apply Hnj. apply in_or_app. now left.
        -- intros E. apply Hnj. apply in_or_app. right. left. lia.
      * apply Permutation_NoDup with (l := o :: p); [apply Permutation_cons_append|].
        constructor; [exact Hnotin|apply I].
      * apply Forall_app. split; [apply I|]. constructor; [|constructor]. split; lia.
    + rewrite app_length. simpl. simpl in Hlen. lia.
Qed.

(** characterisation of the accepted inputs and of the returned table *)
Theorem mapper_parse_spec xs : N.of_nat (length xs) < 65535 ->
  match mapper_parse xs with
  | Ok t => Good (length xs) xs /\ TInv (length xs) xs t
  | Err => ~ Good (length xs) xs
  | Panic => False
  end.
Proof.
  intros Hn. unfold mapper_parse.
  destruct (existsb (N.eqb 0) xs) eqn:Ez.
  - intros [_ F]. apply existsb_exists in Ez. destruct Ez as (x & Hx & E). apply N.eqb_eq in E. subst x.
    rewrite Forall_forall in F. destruct (F _ Hx). lia.
  - apply (parse_loop_spec (length xs) Hn xs [] _ (tinv_init _)). reflexivity.
Qed.

(** [Good] = permutation of 1..n *)
Lemma good_iff_perm xs : Good (length xs) xs <-> Permutation xs (map N.of_nat (seq 1 (length xs))).
Proof.
  split.
  - intros [ND F]. apply NoDup_Permutation_bis; auto.
    + rewrite map_length, seq_length. lia.
    + intros x Hx. rewrite Forall_forall in F. destruct (F x Hx) as [H1 H2].
      apply in_map_iff. exists (N.to_nat x). split; [lia|]. apply in_seq. lia.
  - intros P. split.
    + apply (Permutation_NoDup (Permutation_sym P)).
      apply FinFun.Injective_map_NoDup; [intros a b; lia|apply seq_NoDup].
    + apply Forall_forall. intros x Hx. apply (Permutation_in _ P) in Hx.
      apply in_map_iff in Hx. destruct Hx as (k & <- & Hk). apply in_seq in Hk. split; lia.
Qed.

Theorem mapper_parse_accepts_iff xs : N.of_nat (length xs) < 65535 ->
  (exists t, mapper_parse xs = Ok t) <-> Permutation xs (map N.of_nat (seq 1 (length xs))).
Proof.
  intros Hn. pose proof (mapper_parse_spec xs Hn) as S. rewrite <- good_iff_perm.
  destruct (mapper_parse xs) as [t| |]; split.
  - intros _. apply S.
  - eauto.
  - intros [t H]. discriminate.
  - intros G. contradiction.
  - contradiction.
  - contradiction.
Qed.

Theorem mapper_parse_inverse xs t : N.of_nat (length xs) < 65535 -> mapper_parse xs = Ok t ->
  length t = S (length xs) /\ nth_error t 0 = Some 0 /\
  forall i x, nth_error xs i = Some x -> nth_error t (N.to_nat x) = Some (N.of_nat (S i)).
Proof.
  intros Hn H. pose proof (mapper_parse_spec xs Hn) as S. rewrite H in S. destruct S as [_ I].
  split; [apply I|]. split; [apply I|apply I].
Qed.

Theorem mapper_parse_never_panics xs : N.of_nat (length xs) < 65535 -> mapper_parse xs <> Panic.
Proof. intros Hn H. pose proof (mapper_parse_spec xs Hn) as S. now rewrite H in S. Qed.

(** ** the order of [compute_probs] *)
Lemma insert_by_perm le x l : Permutation (insert_by le x l) (x :: l).
Proof.
  induction l as [|y t IH]; simpl; auto. destruct (le x y); auto.
  rewrite IH. apply perm_swap.
Qed.

Lemma sort_by_perm le l : Permutation (sort_by le l) l.
Proof. induction l as [|x l IH]; simpl; auto. rewrite insert_by_perm. now constructor. Qed.

Section Order.
Variable cnt : list N.
Let le := before cnt.

Lemma before_total a b : le a b = true \/ le b a = true.
Proof. unfold le, before. destruct (N.ltb_spec (cnt_of cnt b) (cnt_of cnt a)), (N.ltb_spec (cnt_of cnt a) (cnt_of cnt b)),
  (N.eqb_spec (cnt_of cnt a) (cnt_of cnt b)), (N.eqb_spec (cnt_of cnt b) (cnt_of cnt a)), (N.leb_spec a b), (N.leb_spec b a); simpl; auto; lia. Qed.

Lemma before_trans a b c : le a b = true -> le b c = true -> le a c = true.
Proof. unfold le, before. destruct (N.ltb_spec (cnt_of cnt b) (cnt_of cnt a)), (N.ltb_spec (cnt_of cnt c) (cnt_of cnt b)),
  (N.ltb_spec (cnt_of cnt c) (cnt_of cnt a)),
  (N.eqb_spec (cnt_of cnt a) (cnt_of cnt b)), (N.eqb_spec (cnt_of cnt b) (cnt_of cnt c)), (N.eqb_spec (cnt_of cnt a) (cnt_of cnt c)),
  (N.leb_spec a b), (N.leb_spec b c), (N.leb_spec a c); simpl; auto; try lia; try discriminate. Qed.

Lemma insert_by_sorted x l : StronglySorted (fun a b => le a b = true) l ->
  StronglySorted (fun a b => le a b = true) (insert_by le x l).
Proof.
  induction 1 as [|y t Ht IH Hy]; simpl; [repeat constructor|].
  destruct (le x y) eqn:E.
  - constructor; [constructor; auto|]. constructor; [exact E|].
    rewrite Forall_forall in *. intros z Hz. eapply before_trans; eauto.
  - constructor; [exact IH|]. apply Forall_forall. intros z Hz.
    apply (Permutation_in _ (insert_by_perm le x t)) in Hz. destruct Hz as [<-|Hz].
    + destruct (before_total x y) as [H|H]; [congruence|exact H].
    + rewrite Forall_forall in Hy. auto.
Qed.

Lemma sort_by_sorted l : StronglySorted (fun a b => le a b = true) (sort_by le l).
Proof. induction l as [|x l IH]; simpl; [constructor|apply insert_by_sorted; exact IH]. Qed.
End Order.

Theorem probs_order_perm cnt : Permutation (probs_order cnt) (ids_from1 (length cnt)).
Proof. apply sort_by_perm. Qed.

Theorem probs_order_sorted cnt : StronglySorted (fun a b => before cnt a b = true) (probs_order cnt).
Proof. apply sort_by_sorted. Qed.

(** the statistics are always an acceptable mapping *)
Theorem probs_order_accepted cnt : N.of_nat (length cnt) <= 65535 -> exists t, mapper_parse (probs_order cnt) = Ok t.
Proof.
  intros Hn.
  assert (El : length (probs_order cnt) = (length cnt - 1)%nat).
  { rewrite (Permutation_length (probs_order_perm cnt)). unfold ids_from1. now rewrite map_length, seq_length. }
  apply mapper_parse_accepts_iff; [lia|]. rewrite El. apply probs_order_perm.
Qed.
