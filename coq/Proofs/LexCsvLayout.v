(** C11, all layouts: feature cells quoted or plain, rows ended by LF, CR, CRLF followed by any
    number of blank lines, a last row without terminator, blank lines in front. *)
From Vib Require Import Model.Base Model.Text Model.LexCsv Proofs.LexCsvProofs.
From Coq Require Import Arith.
Local Open Scope N_scope.

Definition crlf (b : N) : Prop := b = 10 \/ b = 13.
(** a row terminator: a non-empty sequence of CR / LF bytes (LF, CR, CRLF, and blank lines after it) *)
Definition eol (t : list N) : Prop := t <> [] /\ Forall crlf t.

Lemma skip_blank_crlf t rest : Forall crlf t -> skip_blank (t ++ rest) = skip_blank rest.
Proof.
  induction 1 as [|b t Hb _ IH]; [reflexivity|]. cbn [app skip_blank].
  destruct Hb as [-> | ->]; cbn [N.eqb Pos.eqb orb]; exact IH.
Qed.

(** what is left after the end of a field at a terminator [t] (or at the end of the input) *)
Definition after (r1 rest : list N) : Prop := skip_blank r1 = skip_blank rest.

Lemma take_plain_eol c t rest : plain c -> eol t ->
  exists r1, take_plain (c ++ t ++ rest) = (c, c, FEol, r1) /\ after r1 rest.
Proof.
  intros Hp [Hne Ht]. induction c as [|x c IH]; cbn [app take_plain].
  - destruct t as [|b t']; [congruence|]. inversion Ht as [|? ? Hb Ht']; subst. cbn [app].
    destruct Hb as [-> | ->]; cbn [N.eqb Pos.eqb].
    + eexists. split; [reflexivity|]. now apply skip_blank_crlf.
    + destruct t' as [|b2 t2]; cbn [app].
      * destruct rest as [|y rest']; [eexists; split; [reflexivity|reflexivity]|].
        destruct (N.eqb_spec y 10) as [->|Hy].
        -- eexists. split; [reflexivity|]. unfold after. cbn [skip_blank N.eqb Pos.eqb orb]. reflexivity.
        -- eexists. split; [destruct y as [|p]; [reflexivity|]; do 4 (destruct p as [p|p|]; try reflexivity); congruence|reflexivity].
      * inversion Ht' as [|? ? Hb2 Ht2]; subst. destruct Hb2 as [-> | ->].
        -- eexists. split; [reflexivity|]. now apply skip_blank_crlf.
        -- eexists. split; [reflexivity|]. unfold after. change (13 :: t2 ++ rest) with ((13 :: t2) ++ rest).
           apply skip_blank_crlf. constructor; [now right|assumption].
  - destruct (Hp x (or_introl eq_refl)) as (H1 & H2 & H3 & _).
    destruct (N.eqb_spec x 44); [congruence|]. destruct (N.eqb_spec x 10); [congruence|]. destruct (N.eqb_spec x 13); [congruence|].
    destruct (IH ltac:(intros y Hy; apply Hp; now right)) as (r1 & E & Ha). rewrite E. eauto.
Qed.

Lemma take_plain_eof c : plain c -> take_plain c = (c, c, FEof, []).
Proof.
  intros Hp. induction c as [|x c IH]; cbn [take_plain]; [reflexivity|].
  destruct (Hp x (or_introl eq_refl)) as (H1 & H2 & H3 & _).
  destruct (N.eqb_spec x 44); [congruence|]. destruct (N.eqb_spec x 10); [congruence|]. destruct (N.eqb_spec x 13); [congruence|].
  rewrite IH by (intros y Hy; apply Hp; now right). reflexivity.
Qed.

Lemma take_field_is_plain x t : x <> 34 -> take_field (x :: t) = take_plain (x :: t).
Proof.
  intros H. unfold take_field. destruct x as [|p]; [reflexivity|]. do 6 (destruct p as [p|p|]; try reflexivity). congruence.
Qed.

Lemma take_field_plain_gen c tail : plain c -> (forall y tl, tail = y :: tl -> y <> 34) ->
  take_field (c ++ tail) = take_plain (c ++ tail).
Proof.
  intros Hp Ht. destruct c as [|x c]; cbn [app].
  - destruct tail as [|y tl]; [reflexivity|]. apply take_field_is_plain. eapply Ht; reflexivity.
  - apply take_field_is_plain. now destruct (Hp x (or_introl eq_refl)) as (_ & _ & _ & H4).
Qed.

(** quoted cells, with the raw bytes *)
Lemma take_quoted_raw s tail c2 raw2 e r : take_plain tail = (c2, raw2, e, r) ->
  (forall y tl, tail = y :: tl -> y <> 34) ->
  take_quoted (dbl_quotes s ++ 34 :: tail) = (s ++ c2, dbl_quotes s ++ 34 :: raw2, e, r).
Proof.
  intros Ht Hy. induction s as [|x s IH]; cbn [dbl_quotes app].
  - cbn [take_quoted N.eqb Pos.eqb]. destruct tail as [|y tl]; [rewrite Ht; reflexivity|].
    destruct (N.eqb_spec y 34) as [->|Hne]; [exfalso; eapply Hy; reflexivity|].
    assert (E : forall A (k1 k2 : A), match y :: tl with 34 :: t' => k1 | _ => k2 end = k2).
    { intros. destruct y as [|p]; [reflexivity|]. do 6 (destruct p as [p|p|]; try reflexivity). congruence. }
    rewrite E, Ht. reflexivity.
  - destruct (N.eqb_spec x 34) as [->|Hne].
    + cbn [app take_quoted N.eqb Pos.eqb]. rewrite IH. reflexivity.
    + cbn [app take_quoted]. destruct (N.eqb_spec x 34); [congruence|]. rewrite IH. reflexivity.
Qed.

(** ** feature cells *)
Inductive fcell := FP (c : list N) | FQ (s : list N).
Definition cell_ok (c : fcell) : Prop := match c with FP c => plain c | FQ _ => True end.
Definition raw_of (c : fcell) : list N := match c with FP c => c | FQ s => 34 :: dbl_quotes s ++ [34] end.

(** one feature cell followed by a comma *)
Lemma take_field_cell_comma c rest : cell_ok c -> exists v, take_field (raw_of c ++ 44 :: rest) = (v, raw_of c, FComma, rest).
Proof.
  destruct c as [c|s]; intros Hc; cbn [raw_of].
  - exists c. apply (take_field_plain c rest 44 Hc). now left.
  - exists s. cbn [app take_field]. rewrite <- app_assoc. cbn [app].
    rewrite (take_quoted_raw s (44 :: rest) [] [] FComma rest eq_refl) by (intros y tl E; inversion E; subst; discriminate).
    now rewrite app_nil_r.
Qed.

(** the last feature cell followed by a row terminator *)
Lemma take_field_cell_eol c t rest : cell_ok c -> eol t ->
  exists v r1, take_field (raw_of c ++ t ++ rest) = (v, raw_of c, FEol, r1) /\ after r1 rest.
Proof.
  intros Hc Ht. assert (Hy : forall y tl, t ++ rest = y :: tl -> y <> 34).
  { destruct Ht as [Hne F]. destruct t as [|b t']; [congruence|]. intros y tl E. inversion E; subst. inversion F as [|? ? Hb _]; subst. destruct Hb; subst; discriminate. }
  destruct c as [c|s]; cbn [raw_of].
  - rewrite (take_field_plain_gen c (t ++ rest) Hc Hy). destruct (take_plain_eol c t rest Hc Ht) as (r1 & E & Ha). eauto.
  - cbn [app take_field]. rewrite <- app_assoc. cbn [app].
    destruct (take_plain_eol [] t rest ltac:(intros b []) Ht) as (r1 & E & Ha). cbn [app] in E.
    rewrite (take_quoted_raw s (t ++ rest) [] [] FEol r1 E Hy). rewrite app_nil_r. eauto.
Qed.

(** ... or by the end of the input *)
Lemma take_field_cell_eof c : cell_ok c -> exists v, take_field (raw_of c) = (v, raw_of c, FEof, []).
Proof.
  destruct c as [c|s]; intros Hc; cbn [raw_of].
  - exists c. rewrite <- (app_nil_r c) at 1. rewrite (take_field_plain_gen c [] Hc) by (intros; discriminate). rewrite app_nil_r. now apply take_plain_eof.
  - exists s. cbn [take_field].
    rewrite (take_quoted_raw s [] [] [] FEof [] eq_refl) by (intros; discriminate). now rewrite app_nil_r.
Qed.

Definition feature_of (cells : list fcell) : list N := join (map raw_of cells).

Lemma take_rest_cells cells : cells <> [] -> Forall cell_ok cells -> forall fuel t rest, (length cells <= fuel)%nat -> eol t ->
  exists r1, take_rest fuel (feature_of cells ++ t ++ rest) = (feature_of cells, r1) /\ after r1 rest.
Proof.
  unfold feature_of. induction cells as [|c cells IH]; intros Hne F fuel t rest Hf Ht; [congruence|].
  inversion F as [|? ? Hc F']; subst. destruct fuel as [|f]; [simpl in Hf; lia|].
  destruct cells as [|c2 cells'].
  - cbn [map join take_rest]. destruct (take_field_cell_eol c t rest Hc Ht) as (v & r1 & E & Ha). rewrite E. eauto.
  - cbn [map]. rewrite join_cons2. rewrite <- app_assoc. cbn [app take_rest].
    destruct (take_field_cell_comma c (join (map raw_of (c2 :: cells')) ++ t ++ rest) Hc) as [v E]. cbn [map] in E. rewrite E.
    destruct (IH ltac:(discriminate) F' f t rest ltac:(simpl in *; lia) Ht) as (r1 & E1 & Ha). cbn [map] in E1. rewrite E1. eauto.
Qed.

Lemma take_rest_cells_eof cells : cells <> [] -> Forall cell_ok cells -> forall fuel, (length cells <= fuel)%nat ->
  take_rest fuel (feature_of cells) = (feature_of cells, []).
Proof.
  unfold feature_of. induction cells as [|c cells IH]; intros Hne F fuel Hf; [congruence|].
  inversion F as [|? ? Hc F']; subst. destruct fuel as [|f]; [simpl in Hf; lia|].
  destruct cells as [|c2 cells'].
  - cbn [map join take_rest]. destruct (take_field_cell_eof c Hc) as [v E]. rewrite E. reflexivity.
  - cbn [map]. rewrite join_cons2. cbn [take_rest].
    destruct (take_field_cell_comma c (join (map raw_of (c2 :: cells'))) Hc) as [v E]. cbn [map] in E. rewrite E.
    pose proof (IH ltac:(discriminate) F' f ltac:(simpl in *; lia)) as E1. cbn [map] in E1. rewrite E1. reflexivity.
Qed.

(** ** rows with layout *)
Record lrow := { l_head : srow; l_cells : list fcell; l_term : list N }.
Definition lrow_ok (r : lrow) : Prop :=
  plain (s_ltxt (l_head r)) /\ plain (s_rtxt (l_head r)) /\ plain (s_ctxt (l_head r)) /\
  parse_unsigned (s_ltxt (l_head r)) 65535 = Some (s_lid (l_head r)) /\
  parse_unsigned (s_rtxt (l_head r)) 65535 = Some (s_rid (l_head r)) /\
  parse_i16 (s_ctxt (l_head r)) = Some (s_cost (l_head r)) /\
  l_cells r <> [] /\ Forall cell_ok (l_cells r).

Definition render_head (h : srow) : list N :=
  render_cell (s_quote h) (s_surface h) ++ 44 :: s_ltxt h ++ 44 :: s_rtxt h ++ 44 :: s_ctxt h ++ [44].
Definition render_lrow (r : lrow) : list N := render_head (l_head r) ++ feature_of (l_cells r) ++ l_term r.
Definition lentry (r : lrow) : lexent :=
  {| le_surface := s_surface (l_head r); le_lid := s_lid (l_head r); le_rid := s_rid (l_head r);
     le_cost := s_cost (l_head r); le_feature := feature_of (l_cells r) |}.
Definition lkeep (r : lrow) : bool := match s_surface (l_head r) with [] => false | _ => true end.

Lemma parse_records_skip f bs acc : parse_records (S f) bs acc = parse_records (S f) (skip_blank bs) acc.
Proof. cbn [parse_records]. now rewrite skip_blank_idem. Qed.

Lemma parse_records_after f r1 rest acc : after r1 rest -> parse_records (S f) r1 acc = parse_records (S f) rest acc.
Proof. intros H. rewrite parse_records_skip, H, <- parse_records_skip. reflexivity. Qed.

Lemma feature_len cells : (length cells <= S (length (feature_of cells)))%nat.
Proof.
  unfold feature_of. induction cells as [|c cs IH]; [simpl; lia|]. destruct cs as [|c2 cs']; [simpl; lia|].
  cbn [map]. rewrite join_cons2, app_length. cbn [length map] in *. lia.
Qed.

(** the four leading fields of a row *)
Lemma parse_head h tail fuel acc : 
  plain (s_ltxt h) -> plain (s_rtxt h) -> plain (s_ctxt h) ->
  parse_unsigned (s_ltxt h) 65535 = Some (s_lid h) -> parse_unsigned (s_rtxt h) 65535 = Some (s_rid h) -> parse_i16 (s_ctxt h) = Some (s_cost h) ->
  parse_records (S fuel) (render_head h ++ tail) acc =
  let '(feat, rest) := take_rest (S (length tail)) tail in
  parse_records fuel rest (match s_surface h with [] => acc | _ => {| le_surface := s_surface h; le_lid := s_lid h; le_rid := s_rid h; le_cost := s_cost h; le_feature := feat |} :: acc end).
Proof.
  intros Hl Hr Hc Pl Pr Pc. unfold render_head. rewrite !app_cons_assoc. cbn [app].
  cbn [parse_records]. rewrite render_cell_head.
  destruct (render_cell (s_quote h) (s_surface h) ++ _) eqn:E0.
  { exfalso. unfold render_cell in E0. destruct (_ || _); [discriminate|]. destruct (s_surface h); discriminate. }
  rewrite <- E0. clear E0.
  destruct (take_field_cell (s_quote h) (s_surface h) (s_ltxt h ++ 44 :: s_rtxt h ++ 44 :: s_ctxt h ++ 44 :: tail)) as [raw0 H0].
  rewrite H0.
  rewrite (take_field_plain (s_ltxt h) _ 44 Hl) by now left. cbn [N.eqb Pos.eqb].
  rewrite (take_field_plain (s_rtxt h) _ 44 Hr) by now left. cbn [N.eqb Pos.eqb].
  rewrite (take_field_plain (s_ctxt h) _ 44 Hc) by now left. cbn [N.eqb Pos.eqb].
  rewrite Pl, Pr, Pc. reflexivity.
Qed.

Lemma parse_one_lrow r rest fuel acc : lrow_ok r -> eol (l_term r) ->
  parse_records (S (S fuel)) (render_lrow r ++ rest) acc =
  parse_records (S fuel) rest (if lkeep r then lentry r :: acc else acc).
Proof.
  intros (Hl & Hr & Hc & Pl & Pr & Pc & Hne & Hcells) Ht. unfold render_lrow. rewrite <- !app_assoc.
  rewrite (parse_head (l_head r) _ (S fuel) acc Hl Hr Hc Pl Pr Pc).
  destruct (take_rest_cells (l_cells r) Hne Hcells (S (length (feature_of (l_cells r) ++ l_term r ++ rest))) (l_term r) rest) as (r1 & E & Ha); [|exact Ht|].
  { rewrite app_length. pose proof (feature_len (l_cells r)). lia. }
  rewrite E. rewrite (parse_records_after fuel r1 rest _ Ha). unfold lkeep, lentry. destruct (s_surface (l_head r)); reflexivity.
Qed.

Lemma parse_last_lrow r fuel acc : lrow_ok r -> l_term r = [] ->
  parse_records (S (S fuel)) (render_lrow r) acc = Ok (rev (if lkeep r then lentry r :: acc else acc)).
Proof.
  intros (Hl & Hr & Hc & Pl & Pr & Pc & Hne & Hcells) Ht. unfold render_lrow. rewrite Ht, app_nil_r.
  rewrite (parse_head (l_head r) _ (S fuel) acc Hl Hr Hc Pl Pr Pc).
  rewrite (take_rest_cells_eof (l_cells r) Hne Hcells) by (pose proof (feature_len (l_cells r)); lia).
  cbn [parse_records skip_blank]. unfold lkeep, lentry. destruct (s_surface (l_head r)); reflexivity.
Qed.

Lemma parse_lrows rows : Forall (fun r => lrow_ok r /\ eol (l_term r)) rows -> forall tail fuel acc, (length rows <= fuel)%nat ->
  parse_records (S fuel) (concat (map render_lrow rows) ++ tail) acc =
  parse_records (S (fuel - length rows)) tail (rev (map lentry (filter lkeep rows)) ++ acc).
Proof.
  induction 1 as [|r rows [Hr Ht] _ IH]; intros tail fuel acc Hf.
  - cbn. now rewrite Nat.sub_0_r.
  - destruct fuel as [|f]; [simpl in Hf; lia|]. cbn [map concat]. rewrite <- app_assoc.
    rewrite (parse_one_lrow r _ f acc Hr Ht). rewrite IH by (simpl in Hf; lia).
    cbn [length Nat.sub filter]. destruct (lkeep r); cbn [map rev]; [now rewrite <- app_assoc|reflexivity].
Qed.

Lemma render_lrow_nonempty r : (1 <= length (render_lrow r))%nat.
Proof. unfold render_lrow, render_head. rewrite !app_length. cbn [length]. lia. Qed.

Lemma concat_len rows : (length rows <= length (concat (map render_lrow rows)))%nat.
Proof. induction rows as [|r rows IH]; [simpl; lia|]. cbn [map concat]. rewrite app_length. pose proof (render_lrow_nonempty r). simpl. lia. Qed.

(** THE LAYOUT THEOREM: blank lines in front, every row ended by LF / CR / CRLF and any blank
    lines, optionally a last row that ends with the input *)
Theorem parse_render_layout pre rows last :
  Forall crlf pre -> Forall (fun r => lrow_ok r /\ eol (l_term r)) rows ->
  match last with Some r => lrow_ok r /\ l_term r = [] | None => True end ->
  parse_lex_csv (pre ++ concat (map render_lrow rows) ++ match last with Some r => render_lrow r | None => [] end)
  = Ok (map lentry (filter lkeep (rows ++ match last with Some r => [r] | None => [] end))).
Proof.
  intros Hpre Hrows Hlast. unfold parse_lex_csv.
  rewrite parse_records_skip, (skip_blank_crlf pre _ Hpre), <- parse_records_skip.
  set (tail := match last with Some r => render_lrow r | None => [] end).
  rewrite (parse_lrows rows Hrows tail).
  2:{ rewrite !app_length. pose proof (concat_len rows). lia. }
  rewrite filter_app, map_app. rewrite app_nil_r.
  destruct last as [r|]; subst tail.
  - destruct Hlast as [Hr Ht].
    assert (Hfuel : exists f, (length (pre ++ concat (map render_lrow rows) ++ render_lrow r) - length rows = S f)%nat).
    { rewrite !app_length. pose proof (concat_len rows). pose proof (render_lrow_nonempty r). exists (length pre + length (concat (map render_lrow rows)) + length (render_lrow r) - length rows - 1)%nat. lia. }
    destruct Hfuel as [f ->]. rewrite (parse_last_lrow r f _ Hr Ht).
    cbn [filter]. destruct (lkeep r); cbn [map rev app]; rewrite ?rev_app_distr, ?rev_involutive; cbn [rev app]; [reflexivity|now rewrite app_nil_r].
  - cbn [parse_records skip_blank filter map]. now rewrite rev_involutive, app_nil_r.
Qed.
