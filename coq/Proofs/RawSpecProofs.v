(** C07: the model of the raw connector computes the defining feature-pair sum on STRINGS:
    [raw_cost rc r l = spec_cost right left lines r l]. *)
From Vib Require Import Model.Base Model.Scorer Proofs.ScorerProofs.
From Coq Require Import Arith.
Local Open Scope N_scope.

(** ** interning *)
Lemma index_of_str_bound s : forall tbl i k, index_of_str s tbl i = Some k -> i <= k < i + N.of_nat (length tbl).
Proof.
  induction tbl as [|x tbl IH]; intros i k H; cbn [index_of_str] in H; [discriminate|].
  destruct (str_eqb x s); [inversion H; subst; cbn [length]; lia|]. specialize (IH _ _ H). cbn [length]. lia.
Qed.

Lemma index_of_str_app_l s tbl ext : forall i k, index_of_str s tbl i = Some k -> index_of_str s (tbl ++ ext) i = Some k.
Proof. induction tbl as [|x tbl IH]; intros i k H; cbn in *; [discriminate|]. destruct (str_eqb x s); auto. Qed.

Lemma str_eqb_refl s : str_eqb s s = true.
Proof. now apply str_eqb_eq. Qed.

Lemma str_eqb_neq a b : a <> b -> str_eqb a b = false.
Proof. intros H. destruct (str_eqb a b) eqn:E; [apply str_eqb_eq in E; congruence|reflexivity]. Qed.

Lemma index_of_str_app_new s tbl : forall i, index_of_str s tbl i = None ->
  index_of_str s (tbl ++ [s]) i = Some (i + N.of_nat (length tbl)).
Proof.
  induction tbl as [|x tbl IH]; intros i H; cbn [app index_of_str length] in *.
  - rewrite str_eqb_refl. f_equal. lia.
  - destruct (str_eqb x s); [discriminate|]. rewrite IH by exact H. f_equal. lia.
Qed.

Lemma index_of_str_app_other s t tbl : forall i, t <> s -> index_of_str s tbl i = None -> index_of_str s (tbl ++ [t]) i = None.
Proof.
  induction tbl as [|x tbl IH]; intros i Hne H; cbn [app index_of_str] in *.
  - now rewrite (str_eqb_neq t s Hne).
  - destruct (str_eqb x s); [discriminate|]. now apply IH.
Qed.

Lemma index_of_str_inj tbl a b : forall i k, index_of_str a tbl i = Some k -> index_of_str b tbl i = Some k -> a = b.
Proof.
  induction tbl as [|x tbl IH]; intros i k Ha Hb; cbn [index_of_str] in *; [discriminate|].
  destruct (str_eqb x a) eqn:Ea, (str_eqb x b) eqn:Eb.
  - apply str_eqb_eq in Ea, Eb. congruence.
  - inversion Ha; subst. apply index_of_str_bound in Hb. lia.
  - inversion Hb; subst. apply index_of_str_bound in Ha. lia.
  - eauto.
Qed.

Definition id_of (tbl : list str) (s : str) : option N := index_of_str s tbl 0.

Lemma str_dec (a b : str) : {a = b} + {a <> b}.
Proof. destruct (str_eqb a b) eqn:E; [left; now apply str_eqb_eq|right; intros ->; rewrite str_eqb_refl in E; discriminate]. Qed.

Lemma intern_id tbl s tbl' i : intern tbl s = (tbl', i) ->
  id_of tbl' s = Some i /\
  (forall t k, id_of tbl t = Some k -> id_of tbl' t = Some k) /\
  (forall t k, id_of tbl' t = Some k -> t <> s -> id_of tbl t = Some k) /\
  (length tbl' <= S (length tbl))%nat.
Proof.
  unfold intern, id_of. destruct (index_of_str s tbl 0) as [k|] eqn:E; intros H; inversion H; subst tbl' i; clear H.
  - repeat split; auto.
  - split; [rewrite (index_of_str_app_new s tbl 0 E); f_equal; lia|].
    split; [intros t k Hk; now apply index_of_str_app_l|]. split.
    + intros t k Hk Hne. destruct (index_of_str t tbl 0) as [k0|] eqn:E0.
      * rewrite (index_of_str_app_l t tbl [s] 0 k0 E0) in Hk. exact Hk.
      * rewrite (index_of_str_app_other t s tbl 0 (fun e => Hne (eq_sym e)) E0) in Hk. discriminate.
    + rewrite app_length. cbn. lia.
Qed.

(** ** lookups in the trie *)
Lemma table_get_snoc lines a b x y c : forall acc,
  table_get (lines ++ [(x, y, c)]) a b acc = if str_eqb x a && str_eqb y b then Some c else table_get lines a b acc.
Proof. induction lines as [|[[x0 y0] c0] lines IH]; intros acc; cbn [app table_get]; [reflexivity|]. apply IH. Qed.

Lemma smap_get_set k c m k' : smap_get k' (smap_set k c m) = if k' =? k then Some c else smap_get k' m.
Proof.
  induction m as [|[k0 c0] m IH]; cbn [smap_set smap_get].
  - destruct (k' =? k); reflexivity.
  - destruct (N.eqb_spec k k0) as [->|Hne]; cbn [smap_get].
    + destruct (N.eqb_spec k' k0); reflexivity.
    + destruct (N.eqb_spec k' k0) as [->|Hne'].
      * destruct (N.eqb_spec k0 k); [congruence|reflexivity].
      * exact IH.
Qed.

Lemma nth_N_nat {A} (l : list A) : forall i, nth_N l i = nth_error l (N.to_nat i).
Proof.
  induction l as [|x l IH]; intros i; cbn [nth_N]; [destruct (N.to_nat i); reflexivity|].
  destruct (N.eqb_spec i 0) as [->|Hne]; [reflexivity|].
  rewrite IH. replace (N.to_nat i) with (S (N.to_nat (N.pred i))) by lia. reflexivity.
Qed.

Lemma trie_get_insert k1 k2 c j : forall T n,
  match nth_error (trie_insert T k1 k2 c) n with Some m => smap_get j m | None => None end =
  if (n =? k1)%nat && (j =? k2) then Some c else match nth_error T n with Some m => smap_get j m | None => None end.
Proof.
  induction k1 as [|k1 IH]; intros T n.
  - destruct T as [|m T]; cbn [trie_insert]; destruct n as [|n]; cbn [nth_error Nat.eqb andb];
      try rewrite smap_get_set; cbn [smap_get]; try reflexivity; destruct n; reflexivity.
  - destruct T as [|m T]; cbn [trie_insert]; destruct n as [|n]; cbn [nth_error Nat.eqb andb]; try reflexivity.
    + rewrite IH. destruct n; reflexivity.
    + apply IH.
Qed.

Lemma trie_get_insert' T k1 k2 c i j :
  trie_get (trie_insert T (N.to_nat k1) k2 c) i j = if (i =? k1) && (j =? k2) then Some c else trie_get T i j.
Proof.
  unfold trie_get. rewrite !nth_N_nat, trie_get_insert.
  destruct (N.eqb_spec i k1) as [->|Hne]; [now rewrite Nat.eqb_refl|].
  destruct (Nat.eqb_spec (N.to_nat i) (N.to_nat k1)); [lia|reflexivity].
Qed.

(** ** the trie after reading bigram.cost: lookups by ids = last listing by strings *)
Record RInv (lines : list (str * str * Z)) (rt lt : list str) (T : list smap) : Prop := {
  ri_get : forall a b ia ib, id_of rt a = Some ia -> id_of lt b = Some ib -> trie_get T ia ib = table_get lines a b None;
  ri_dom : forall i j c, trie_get T i j = Some c -> exists a b, id_of rt a = Some i /\ id_of lt b = Some j;
  ri_listed : forall a b, table_get lines a b None <> None -> id_of rt a <> None /\ id_of lt b <> None;
  ri_len : (length rt <= S (length lines) /\ length lt <= S (length lines))%nat;
  ri_empty : id_of rt [] = Some 0 /\ id_of lt [] = Some 0 }.

Lemma read_costs_inv rest : forall done rt lt T, RInv done rt lt T ->
  let '(rt', lt', T') := read_costs rest rt lt T in RInv (done ++ rest) rt' lt' T'.
Proof.
  induction rest as [|[[a b] c] rest IH]; intros done rt lt T I; cbn [read_costs].
  - now rewrite app_nil_r.
  - destruct (intern rt a) as [rt1 ia] eqn:Ea. destruct (intern lt b) as [lt1 ib] eqn:Eb.
    destruct (intern_id _ _ _ _ Ea) as (Ha1 & Ha3 & Ha4 & Ha5).
    destruct (intern_id _ _ _ _ Eb) as (Hb1 & Hb3 & Hb4 & Hb5).
    specialize (IH (done ++ [(a, b, c)]) rt1 lt1 (trie_insert T (N.to_nat ia) ib c)).
    rewrite <- app_assoc in IH. cbn [app] in IH. apply IH. clear IH.
    assert (Dom : forall i j c0, trie_get T i j = Some c0 -> exists a' b', id_of rt1 a' = Some i /\ id_of lt1 b' = Some j).
    { intros i j c0 H. destruct (ri_dom _ _ _ _ I _ _ _ H) as (a' & b' & H1 & H2). exists a', b'. auto. }
    constructor.
    + intros x y ix iy Hx Hy. rewrite trie_get_insert', table_get_snoc.
      destruct (N.eqb_spec ix ia) as [->|Hix]; [destruct (N.eqb_spec iy ib) as [->|Hiy]|]; cbn [andb].
      * assert (x = a) by (eapply index_of_str_inj; [exact Hx|exact Ha1]).
        assert (y = b) by (eapply index_of_str_inj; [exact Hy|exact Hb1]). subst x y.
        now rewrite !str_eqb_refl.
      * assert (Hyb : y <> b) by (intros ->; unfold id_of in *; congruence).
        rewrite (str_eqb_neq b y (fun e => Hyb (eq_sym e))), andb_false_r.
        pose proof (Hb4 _ _ Hy Hyb) as Hy0.
        destruct (id_of rt x) as [ix0|] eqn:Ex0.
        -- pose proof (Ha3 _ _ Ex0) as E. rewrite Hx in E. inversion E; subst ix0. now apply (ri_get _ _ _ _ I).
        -- destruct (trie_get T ia iy) as [c0|] eqn:Et.
           ++ exfalso. destruct (ri_dom _ _ _ _ I _ _ _ Et) as (a' & b' & H1 & _).
              apply Ha3 in H1. assert (a' = x) by (eapply index_of_str_inj; [exact H1|exact Hx]). subst a'.
              destruct (str_dec x a) as [->|Hne]; [|rewrite (Ha4 _ _ Hx Hne) in Ex0; discriminate].
              destruct (ri_dom _ _ _ _ I _ _ _ Et) as (a'' & _ & H1' & _). pose proof (Ha3 _ _ H1') as H1''.
              assert (a'' = a) by (eapply index_of_str_inj; [exact H1''|exact Ha1]). subst a''. congruence.
           ++ destruct (table_get done x y None) eqn:Eg; [|reflexivity].
              exfalso. destruct (ri_listed _ _ _ _ I x y) as [H _]; [congruence|]. congruence.
      * assert (Hxa : x <> a) by (intros ->; unfold id_of in *; congruence).
        rewrite (str_eqb_neq a x (fun e => Hxa (eq_sym e))). cbn [andb].
        pose proof (Ha4 _ _ Hx Hxa) as Hx0.
        destruct (id_of lt y) as [iy0|] eqn:Ey0.
        -- pose proof (Hb3 _ _ Ey0) as E. rewrite Hy in E. inversion E; subst iy0. now apply (ri_get _ _ _ _ I).
        -- destruct (trie_get T ix iy) as [c0|] eqn:Et.
           ++ exfalso. destruct (ri_dom _ _ _ _ I _ _ _ Et) as (_ & b' & _ & H2). pose proof (Hb3 _ _ H2) as H2'.
              assert (b' = y) by (eapply index_of_str_inj; [exact H2'|exact Hy]). subst b'. congruence.
           ++ destruct (table_get done x y None) eqn:Eg; [|reflexivity].
              exfalso. destruct (ri_listed _ _ _ _ I x y) as [_ H]; [congruence|]. congruence.
    + intros i j c0. rewrite trie_get_insert'.
      destruct (N.eqb_spec i ia) as [->|Hi]; [destruct (N.eqb_spec j ib) as [->|Hj]|]; cbn [andb]; intros H.
      * exists a, b. auto.
      * eapply Dom; eauto.
      * eapply Dom; eauto.
    + intros x y. rewrite table_get_snoc.
      destruct (str_eqb a x) eqn:Eax; [destruct (str_eqb b y) eqn:Eby|]; cbn [andb]; intros H.
      * apply str_eqb_eq in Eax, Eby. subst. rewrite Ha1, Hb1. split; discriminate.
      * destruct (ri_listed _ _ _ _ I x y H) as [H1 H2]. split.
        -- destruct (id_of rt x) eqn:E; [|congruence]. rewrite (Ha3 _ _ E). discriminate.
        -- destruct (id_of lt y) eqn:E; [|congruence]. rewrite (Hb3 _ _ E). discriminate.
      * destruct (ri_listed _ _ _ _ I x y H) as [H1 H2]. split.
        -- destruct (id_of rt x) eqn:E; [|congruence]. rewrite (Ha3 _ _ E). discriminate.
        -- destruct (id_of lt y) eqn:E; [|congruence]. rewrite (Hb3 _ _ E). discriminate.
    + destruct (ri_len _ _ _ _ I). rewrite app_length. cbn [length]. lia.
    + destruct (ri_empty _ _ _ _ I). split; auto.
Qed.

Lemma rinv_init : RInv [] [[]] [[]] [].
Proof.
  constructor.
  - intros a b ia ib _ _. unfold trie_get. cbn. reflexivity.
  - intros i j c H. unfold trie_get in H. cbn in H. discriminate.
  - intros a b H. cbn in H. congruence.
  - cbn. lia.
  - split; reflexivity.
Qed.

(** ** lanes *)
Definition tv (T : list smap) (a b : N) : Z := match trie_get T a b with Some w => w | None => 0%Z end.

Lemma lane_sum_nth T : forall n l1 l2, length l1 = n -> length l2 = n ->
  lane_sum T l1 l2 = fold_right Z.add 0%Z (map (fun p => tv T (nth p l1 INVALID) (nth p l2 INVALID)) (seq 0 n)).
Proof.
  induction n as [|n IH]; intros l1 l2 H1 H2.
  - destruct l1; [|discriminate]. reflexivity.
  - destruct l1 as [|a l1]; [discriminate|]. destruct l2 as [|b l2]; [discriminate|].
    cbn [lane_sum seq map fold_right nth]. fold (tv T a b). f_equal.
    rewrite <- seq_shift, map_map. apply IH; cbn in *; lia.
Qed.

Lemma nth_pad l n p : nth p (pad_to n l) INVALID = nth p l INVALID.
Proof.
  unfold pad_to. destruct (Nat.lt_ge_cases p (length l)) as [H|H].
  - now rewrite app_nth1.
  - rewrite app_nth2 by exact H. rewrite (nth_overflow l) by exact H.
    generalize (n - length l)%nat (p - length l)%nat. intros m q. revert q. induction m; intros [|q]; cbn; auto.
Qed.

Lemma pad_length l n : (length l <= n)%nat -> length (pad_to n l) = n.
Proof. intros H. unfold pad_to. rewrite app_length, repeat_length. lia. Qed.

Lemma ceil8_ge k : (k <= ceil8 k)%nat.
Proof.
  unfold ceil8. destruct k as [|k]; [lia|].
  pose proof (Nat.div_mod (S k - 1) 8 ltac:(lia)). pose proof (Nat.mod_upper_bound (S k - 1) 8 ltac:(lia)). lia.
Qed.

Lemma max_bound (rows : list (list str)) row : In row rows -> (length row <= fold_right Nat.max 0 (map (@length _) rows))%nat.
Proof. induction rows as [|r rows IH]; intros H; [destruct H|]. cbn. destruct H as [->|H]; [lia|specialize (IH H); lia]. Qed.

Lemma sum_zero (f : nat -> Z) l : (forall p, In p l -> f p = 0%Z) -> fold_right Z.add 0%Z (map f l) = 0%Z.
Proof. induction l as [|x l IH]; intros H; cbn; [reflexivity|]. rewrite H by now left. rewrite IH; [reflexivity|]. intros; apply H; now right. Qed.

Lemma sum_ext (f g : nat -> Z) l : (forall p, In p l -> f p = g p) -> fold_right Z.add 0%Z (map f l) = fold_right Z.add 0%Z (map g l).
Proof. induction l as [|x l IH]; intros H; cbn; [reflexivity|]. rewrite H by now left. rewrite IH; [reflexivity|]. intros; apply H; now right. Qed.

(** the id stored in lane [p] of connection id [id]'s row, against the feature string of the specification *)
Definition lane_id (tbl : list str) (f : option str) : N :=
  match f with Some a => match id_of tbl a with Some i => i | None => INVALID end | None => INVALID end.

Lemma nth_feat_ids tbl row p : nth p (feat_ids tbl row) INVALID = lane_id tbl (nth_error row p).
Proof.
  unfold feat_ids. revert p. induction row as [|f row IH]; intros [|p]; cbn [map nth nth_error]; try reflexivity. apply IH.
Qed.

Lemma nth_repeat0 k p : (p < k)%nat -> nth p (repeat 0 k) INVALID = 0.
Proof. revert p. induction k as [|k IH]; intros [|p] H; cbn; try lia; auto. apply IH. lia. Qed.

Lemma row_lane tbl rows k k8 id p : id_of tbl [] = Some 0 -> (p < k)%nat ->
  nth p (nth (N.to_nat id) (pad_to k8 (repeat 0 k) :: map (fun r => pad_to k8 (feat_ids tbl r)) rows) []) INVALID
  = lane_id tbl (feature_at rows id p k).
Proof.
  intros He Hp. unfold feature_at. destruct (N.eqb_spec id 0) as [->|Hne].
  - cbn [N.to_nat nth]. rewrite nth_pad, nth_repeat0 by exact Hp.
    apply Nat.ltb_lt in Hp. rewrite Hp. cbn [lane_id]. now rewrite He.
  - replace (N.to_nat id) with (S (N.to_nat id - 1)) at 1 by lia. cbn [nth].
    destruct (nth_error rows (N.to_nat id - 1)) as [row|] eqn:E.
    + rewrite (nth_indep _ [] (pad_to k8 (feat_ids tbl [])) ) by (rewrite map_length; apply nth_error_Some; congruence).
      rewrite (map_nth (fun r => pad_to k8 (feat_ids tbl r))).
      apply nth_error_nth with (d := []) in E. rewrite E. rewrite nth_pad. apply nth_feat_ids.
    + rewrite (nth_overflow (map _ rows)) by (rewrite map_length; now apply nth_error_None). destruct p; reflexivity.
Qed.

Lemma row_length tbl (rows : list (list str)) k k8 id : (k <= k8)%nat -> (forall row, In row rows -> length row <= k)%nat ->
  (N.to_nat id <= length rows)%nat ->
  length (nth (N.to_nat id) (pad_to k8 (repeat 0 k) :: map (fun r => pad_to k8 (feat_ids tbl r)) rows) []) = k8.
Proof.
  intros Hk Hrows Hid. destruct (N.to_nat id) as [|n] eqn:E; cbn [nth].
  - apply pad_length. now rewrite repeat_length.
  - rewrite (nth_indep _ [] (pad_to k8 (feat_ids tbl []))) by (rewrite map_length; lia).
    rewrite (map_nth (fun r => pad_to k8 (feat_ids tbl r))). apply pad_length. unfold feat_ids. rewrite map_length.
    etransitivity; [|exact Hk]. apply Hrows. apply nth_In. lia.
Qed.

(** ** the lanes of two rows (padded to any width [k8] >= the number of templates) against the
    defining sum on strings *)
Lemma lane_sum_spec lines rt lt T right left k8 :
  RInv lines rt lt T -> N.of_nat (length lines) + 1 < INVALID ->
  let k := fold_right Nat.max 0%nat (map (@length _) (right ++ left)) in
  (k <= k8)%nat ->
  forall r l, (N.to_nat r <= length right)%nat -> (N.to_nat l <= length left)%nat ->
  lane_sum T (nth (N.to_nat r) (pad_to k8 (repeat 0 k) :: map (fun x => pad_to k8 (feat_ids rt x)) right) [])
             (nth (N.to_nat l) (pad_to k8 (repeat 0 k) :: map (fun x => pad_to k8 (feat_ids lt x)) left) [])
  = spec_cost right left lines r l.
Proof.
  intros I Hsmall k Hk r l Hr Hl.
  assert (HR : forall row, In row right -> (length row <= k)%nat) by (intros row H; apply max_bound, in_or_app; now left).
  assert (HL : forall row, In row left -> (length row <= k)%nat) by (intros row H; apply max_bound, in_or_app; now right).
  destruct (ri_empty _ _ _ _ I) as [Er El]. destruct (ri_len _ _ _ _ I) as [Lr Ll].
  rewrite (lane_sum_nth T k8) by (apply row_length; assumption).
  unfold spec_cost. fold k.
  replace k8 with (k + (k8 - k))%nat at 1 by lia. rewrite seq_app, map_app, fold_right_app.
  rewrite (sum_zero _ (seq (0 + k) (k8 - k))).
  2:{ intros p Hp. apply in_seq in Hp.
      assert (Hinv : forall tbl rows id, (forall row, In row rows -> length row <= k)%nat -> (N.to_nat id <= length rows)%nat ->
        nth p (nth (N.to_nat id) (pad_to k8 (repeat 0 k) :: map (fun r0 => pad_to k8 (feat_ids tbl r0)) rows) []) INVALID = INVALID).
      { intros tbl rows id Hrows Hid. destruct (N.to_nat id) as [|n] eqn:En; cbn [nth].
        - rewrite nth_pad. apply nth_overflow. rewrite repeat_length. lia.
        - rewrite (nth_indep _ [] (pad_to k8 (feat_ids tbl []))) by (rewrite map_length; lia).
          rewrite (map_nth (fun r0 => pad_to k8 (feat_ids tbl r0))), nth_pad. apply nth_overflow.
          unfold feat_ids. rewrite map_length. specialize (Hrows (nth n rows [])). specialize (Hrows ltac:(apply nth_In; lia)). lia. }
      rewrite (Hinv rt right r HR Hr). unfold tv.
      destruct (trie_get T INVALID _) as [c|] eqn:Et; [|reflexivity].
      destruct (ri_dom _ _ _ _ I _ _ _ Et) as (a & _ & H1 & _). apply index_of_str_bound in H1. unfold INVALID in *. lia. }
  cbn [fold_right]. apply sum_ext. intros p Hp. apply in_seq in Hp.
  rewrite (row_lane rt right k k8 r p Er) by lia. rewrite (row_lane lt left k k8 l p El) by lia.
  unfold tv, lane_id.
  assert (NoR : forall j, trie_get T INVALID j = None).
  { intros j. destruct (trie_get T INVALID j) as [c|] eqn:Et; [|reflexivity].
    destruct (ri_dom _ _ _ _ I _ _ _ Et) as (a & _ & H1 & _). apply index_of_str_bound in H1. unfold INVALID in *. lia. }
  assert (NoL : forall i, trie_get T i INVALID = None).
  { intros i. destruct (trie_get T i INVALID) as [c|] eqn:Et; [|reflexivity].
    destruct (ri_dom _ _ _ _ I _ _ _ Et) as (_ & b & _ & H2). apply index_of_str_bound in H2. unfold INVALID in *. lia. }
  destruct (feature_at right r p k) as [a|]; [|now rewrite NoR].
  destruct (feature_at left l p k) as [b|]; [|now rewrite NoL].
  destruct (id_of rt a) as [ia|] eqn:Ea.
  - destruct (id_of lt b) as [ib|] eqn:Eb.
    + now rewrite (ri_get _ _ _ _ I a b ia ib Ea Eb).
    + rewrite NoL. destruct (table_get lines a b None) eqn:Eg; [|reflexivity].
      destruct (ri_listed _ _ _ _ I a b) as [_ H]; congruence.
  - rewrite NoR. destruct (table_get lines a b None) eqn:Eg; [|reflexivity].
    destruct (ri_listed _ _ _ _ I a b) as [H _]; congruence.
Qed.

(** ** the theorem *)
Theorem raw_cost_spec fuel right left lines rc :
  build_raw fuel right left lines = Some rc -> N.of_nat (length lines) + 1 < INVALID ->
  forall r l, (N.to_nat r <= length right)%nat -> (N.to_nat l <= length left)%nat ->
  raw_cost rc r l = spec_cost right left lines r l.
Proof.
  intros Hb Hsmall r l Hr Hl. rewrite (raw_cost_lane_sum fuel right left lines rc Hb). cbn zeta.
  pose proof (read_costs_inv lines [] [[]] [[]] [] rinv_init) as I. cbn [app] in I.
  unfold build_raw in Hb. destruct (read_costs lines [[]] [[]] []) as [[rt lt] T] eqn:E. cbn [snd].
  destruct (build fuel T) as [sc|]; [|discriminate]. inversion Hb; subst rc; clear Hb. cbn [rc_right rc_left].
  apply (lane_sum_spec lines rt lt T right left _ I Hsmall (ceil8_ge _)); assumption.
Qed.
