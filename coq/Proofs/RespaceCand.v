(** C12: what the candidate words at a position depend on -- the remaining text up to the next
    space, the character info and the grouping run of the first character, and the position only
    as an offset. *)
From Vib Require Import Model.Base Model.Lattice Model.Tokenizer Spec.CandSpec Proofs.Viterbi Proofs.TokenizerProofs
  Proofs.CountProofs Proofs.ScanInd Proofs.CandProofs Proofs.PartitionProofs Proofs.SpaceProofs.
From Coq Require Import Arith.

(** the candidates as a function of (remaining text, first character's info, its run, position) *)
Definition cands_of (d : dict) (o : options) (suffix : list N) (ci : cinfo) (g : nat) (sw : nat) : list cand :=
  let u := match d_user d with Some rows => lex_matches 1%N rows sw suffix | None => [] end in
  let m := lex_matches 0%N (d_sys d) sw suffix in
  let has := match u ++ m with [] => false | _ => true end in
  u ++ m ++ flat_map (fun k => scan_entries (d_unk d) sw (sw + k) (ci_base ci)) (unk_lens_spec ci g has (o_mgl o)).

Lemma candidates_form d o ct cs sw : (sw < length cs)%nat ->
  candidates d o (compile ct cs) sw =
  cands_of d o (skipn sw cs) (s_ci (compile ct cs) sw) (s_grp (compile ct cs) sw) sw.
Proof.
  intros H. unfold candidates, cands_of. cbn [compile s_chars].
  rewrite (gen_unk_words_spec (d_unk d) ct cs sw _ (o_mgl o) H). reflexivity.
Qed.

(** ** matches never extend over a space character *)
Lemma flat_map_nil {A B} (f : A -> list B) l : (forall x, In x l -> f x = []) -> flat_map f l = [].
Proof. induction l as [|x l IH]; intros H; cbn; [reflexivity|]. rewrite H by now left. apply IH. intros; apply H; now right. Qed.

Lemma in_index_from {A} (l : list A) : forall k i x, In (i, x) (index_from k l) -> In x l.
Proof. induction l as [|y l IH]; intros k i x H; cbn in *; [destruct H|]. destruct H as [H|H]; [inversion H; now left|right; eauto]. Qed.

Lemma lex_matches_cut lex rows sw X y Y :
  (forall r, In r rows -> ~ In y (lr_surface r)) ->
  lex_matches lex rows sw (X ++ y :: Y) = lex_matches lex rows sw X.
Proof.
  intros Hfree. unfold lex_matches. rewrite app_length. cbn [length].
  rewrite seq_app, flat_map_app.
  rewrite (flat_map_nil _ (seq (1 + length X) (S (length Y)))).
  - rewrite app_nil_r. apply flat_map_ext_in. intros k Hk. apply in_seq in Hk.
    rewrite firstn_app. replace (k - length X)%nat with 0%nat by lia. cbn [firstn]. now rewrite app_nil_r.
  - intros k Hk. apply in_seq in Hk. apply flat_map_nil. intros [i row] Hir. cbn [fst snd].
    destruct (str_eqb (lr_surface row) (firstn k (X ++ y :: Y))) eqn:E; [|reflexivity].
    exfalso. apply str_eqb_eq in E. apply (Hfree row (in_index_from _ _ _ _ Hir)). rewrite E.
    rewrite firstn_app. apply in_or_app. right. destruct (k - length X)%nat eqn:Ek; [lia|]. now left.
Qed.

Lemma cands_of_cut d o X y Y ci g sw :
  (forall r, In r (d_sys d) \/ (exists u, d_user d = Some u /\ In r u) -> ~ In y (lr_surface r)) ->
  cands_of d o (X ++ y :: Y) ci g sw = cands_of d o X ci g sw.
Proof.
  intros Hfree. unfold cands_of.
  rewrite (lex_matches_cut 0%N (d_sys d) sw X y Y) by (intros; apply Hfree; now left).
  destruct (d_user d) as [u|] eqn:Eu; [|reflexivity].
  rewrite (lex_matches_cut 1%N u sw X y Y) by (intros; apply Hfree; right; eauto). reflexivity.
Qed.

(** ** the position is only an offset *)
Definition shift_c (k1 k2 : nat) (c : cand) : cand :=
  {| c_sw := c_sw c - k1 + k2; c_end := c_end c - k1 + k2; c_lex := c_lex c; c_wid := c_wid c;
     c_lid := c_lid c; c_rid := c_rid c; c_wc := c_wc c |}.

Lemma map_flat_map {A B C} (f : B -> C) (g : A -> list B) l : map f (flat_map g l) = flat_map (fun x => map f (g x)) l.
Proof. induction l as [|x l IH]; cbn; [reflexivity|]. now rewrite map_app, IH. Qed.

Lemma lex_matches_shift lex rows sw k1 k2 suffix : (k1 <= sw)%nat ->
  lex_matches lex rows (sw - k1 + k2) suffix = map (shift_c k1 k2) (lex_matches lex rows sw suffix).
Proof.
  intros H. unfold lex_matches. rewrite map_flat_map. apply flat_map_ext_in. intros k _.
  rewrite map_flat_map. apply flat_map_ext_in. intros [i row] _. cbn [fst snd].
  destruct (str_eqb _ _); [|reflexivity]. cbn [map shift_c c_sw c_end c_lex c_wid c_lid c_rid c_wc].
  f_equal. unfold shift_c; cbn [c_sw c_end c_lex c_wid c_lid c_rid c_wc]. f_equal; lia.
Qed.

Lemma scan_entries_shift unk sw e base k1 k2 :
  scan_entries unk (sw - k1 + k2) (e - k1 + k2) base = map (shift_c k1 k2) (scan_entries unk sw e base).
Proof.
  unfold scan_entries. rewrite map_flat_map. apply flat_map_ext_in. intros [i row] _. cbn [fst snd].
  destruct (_ =? _)%N; reflexivity.
Qed.

Lemma cands_of_shift d o suffix ci g sw k1 k2 : (k1 <= sw)%nat ->
  cands_of d o suffix ci g (sw - k1 + k2) = map (shift_c k1 k2) (cands_of d o suffix ci g sw).
Proof.
  intros H. unfold cands_of. rewrite !map_app.
  rewrite (lex_matches_shift 0%N (d_sys d) sw k1 k2 suffix H).
  assert (Eu : match d_user d with Some rows => lex_matches 1%N rows (sw - k1 + k2) suffix | None => [] end =
               map (shift_c k1 k2) match d_user d with Some rows => lex_matches 1%N rows sw suffix | None => [] end).
  { destruct (d_user d); [now apply lex_matches_shift|reflexivity]. }
  rewrite Eu. f_equal. f_equal.
  rewrite <- map_app.
  assert (Eh : match map (shift_c k1 k2) (match d_user d with Some rows => lex_matches 1%N rows sw suffix | None => [] end ++ lex_matches 0%N (d_sys d) sw suffix) with [] => false | _ => true end =
               match (match d_user d with Some rows => lex_matches 1%N rows sw suffix | None => [] end ++ lex_matches 0%N (d_sys d) sw suffix) with [] => false | _ => true end).
  { destruct (_ ++ _); reflexivity. }
  rewrite Eh. rewrite map_flat_map. apply flat_map_ext_in. intros k _.
  rewrite <- scan_entries_shift. f_equal. lia.
Qed.

(** ** the grouping run does not see beyond a character it shares no category with *)
Lemma run_at_app X Y : X <> [] ->
  (forall y Y0, Y = y :: Y0 -> share (last X dummy_ci) y = false) ->
  run_at (X ++ Y) = run_at X.
Proof.
  induction X as [|x X IH]; intros Hne HY; [congruence|].
  destruct X as [|x' X'].
  - cbn [app]. destruct Y as [|y Y0]; [reflexivity|]. cbn [run_at]. cbn [last] in HY. now rewrite (HY y Y0 eq_refl).
  - cbn [app]. rewrite !run_at_cons2. change (x' :: X' ++ Y) with ((x' :: X') ++ Y).
    rewrite IH; [reflexivity|discriminate|exact HY].
Qed.

Lemma count_while_lt (f : cinfo -> bool) l : l <> [] -> f (last l dummy_ci) = false -> (count_while f l < length l)%nat.
Proof.
  induction l as [|x l IH]; intros Hne Hl; [congruence|]. cbn [count_while length].
  destruct (f x) eqn:E; [|lia]. destruct l as [|x' l']; [cbn in Hl; congruence|].
  specialize (IH ltac:(discriminate) Hl). lia.
Qed.
