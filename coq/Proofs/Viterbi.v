(** The Viterbi invariant of the lattice (C02), for an arbitrary connection-cost function and
    an arbitrary ordered sequence of insertions. *)
From Vib Require Import Model.Base Model.Lattice.
From Coq Require Import Arith.
Local Open Scope Z_scope.

Section V.
Variable conn : N -> N -> Z.

(** ** [search_min] returns a minimum over the predecessor list, with a valid index *)
Lemma smin_aux_spec lid prevs : forall i0 best r,
  smin_aux conn lid prevs i0 best = Some r ->
  (forall q, In q prevs -> snd r <= n_mc q + conn (n_rid q) lid) /\
  (match best with Some b => snd r <= snd b | None => True end) /\
  ((exists p, (i0 <= fst r)%nat /\ nth_error prevs (fst r - i0) = Some p /\
              snd r = n_mc p + conn (n_rid p) lid) \/ best = Some r).
Proof.
  induction prevs as [|p ps IH]; intros i0 best r H; simpl in H.
  - subst best. split; [intros q []|]. split; [lia|]. now right.
  - set (c := n_mc p + conn (n_rid p) lid) in *.
    assert (Hshift : forall r', (exists p', (S i0 <= fst r')%nat /\ nth_error ps (fst r' - S i0) = Some p' /\
                        snd r' = n_mc p' + conn (n_rid p') lid) ->
                      exists p', (i0 <= fst r')%nat /\ nth_error (p :: ps) (fst r' - i0) = Some p' /\
                        snd r' = n_mc p' + conn (n_rid p') lid).
    { intros r' (p' & Hle & Hn & E). exists p'. split; [lia|]. split; [|exact E].
      replace (fst r' - i0)%nat with (S (fst r' - S i0)) by lia. exact Hn. }
    assert (Hhere : exists p', (i0 <= fst (i0, c))%nat /\ nth_error (p :: ps) (fst (i0, c) - i0) = Some p' /\
                        snd (i0, c) = n_mc p' + conn (n_rid p') lid).
    { exists p. simpl. rewrite Nat.sub_diag. auto. }
    destruct best as [[bi b]|].
    + destruct (Z.leb_spec c b) as [Hle|Hgt].
      * destruct (IH _ _ _ H) as (A & B & C). simpl in B.
        split; [intros q [<-|Hq]; [fold c; lia|auto]|]. split; [simpl; lia|].
        destruct C as [C|C]; [left; auto|]. left. inversion C; subst r. exact Hhere.
      * destruct (IH _ _ _ H) as (A & B & C). simpl in B.
        split; [intros q [<-|Hq]; [fold c; lia|auto]|]. split; [simpl; lia|].
        destruct C as [C|C]; [left; auto|now right].
    + destruct (IH _ _ _ H) as (A & B & C). simpl in B.
      split; [intros q [<-|Hq]; [fold c; lia|auto]|]. split; [exact I|].
      destruct C as [C|C]; [left; auto|]. left. inversion C; subst r. exact Hhere.
Qed.

Lemma search_min_spec L sn lid i c : search_min conn L sn lid = Some (i, c) ->
  (forall q, In q (at_ L sn) -> c <= n_mc q + conn (n_rid q) lid) /\
  (exists p, nth_error (at_ L sn) i = Some p /\ c = n_mc p + conn (n_rid p) lid).
Proof.
  intros H. destruct (smin_aux_spec _ _ _ _ _ H) as (A & _ & C). split; [exact A|].
  destruct C as [(p & _ & Hn & E)|C]; [|discriminate].
  exists p. simpl in *. rewrite Nat.sub_0_r in Hn. auto.
Qed.

Lemma search_min_none L sn lid : search_min conn L sn lid = None -> at_ L sn = [].
Proof.
  unfold search_min. destruct (at_ L sn) as [|p ps]; [reflexivity|]. simpl.
  assert (G : forall ps i b, smin_aux conn lid ps i (Some b) <> None).
  { induction ps0 as [|q qs IH]; intros i b; simpl; [discriminate|].
    destruct b as [bi bc]. destruct (_ <=? _); apply IH. }
  intros H. exfalso. exact (G _ _ _ H).
Qed.

(** ** Chains: every BOS-rooted sequence of lattice nodes, with its cost *)
Inductive chain (L : lattice) : node -> Z -> Prop :=
| ch_bos : chain L bos 0
| ch_step p c n : chain L p c -> (n_sn n < n_end n)%nat ->
    In p (at_ L (n_sn n)) -> In n (at_ L (n_end n)) ->
    chain L n (c + conn (n_rid p) (n_lid n) + n_wc n).

Definition stored (L : lattice) (n : node) := In n (at_ L (n_end n)).

(** invariant with frontier [s]: every stored node has start_node <= s *)
Record Inv (L : lattice) (s : nat) : Prop := {
  inv_bos  : at_ L 0 = [bos];
  inv_idx  : forall e n, In n (at_ L e) -> n_end n = e;
  inv_ord  : forall e n, In n (at_ L e) -> n <> bos ->
               (n_sn n <= n_sw n < n_end n)%nat /\ (n_sn n <= s)%nat;
  inv_ach  : forall e n, In n (at_ L e) -> chain L n (n_mc n);
  inv_min  : forall e n c, In n (at_ L e) -> chain L n c -> n_mc n <= c;
  inv_bp   : forall e n, In n (at_ L e) -> n <> bos ->
               exists p, nth_error (at_ L (n_sn n)) (n_midx n) = Some p /\
                         n_mc n = n_mc p + conn (n_rid p) (n_lid n) + n_wc n }.

Lemma nth_nil_node (e : nat) : nth e (@nil (list node)) [] = [].
Proof. destruct e; reflexivity. Qed.
Lemma at_push_same L e n : at_ (push L e n) e = at_ L e ++ [n].
Proof. unfold at_. revert L; induction e as [|e IH]; intros [|l t]; simpl; auto.
  rewrite IH, nth_nil_node. reflexivity. Qed.
Lemma at_push_other L e n j : j <> e -> at_ (push L e n) j = at_ L j.
Proof. unfold at_. revert L j; induction e as [|e IH]; intros [|l t] [|j] H; simpl; try congruence; auto.
  - destruct j; reflexivity.
  - rewrite IH by congruence. rewrite nth_nil_node. reflexivity.
Qed.

Lemma in_push L e m j x : In x (at_ L j) -> In x (at_ (push L e m) j).
Proof. intros H. destruct (Nat.eq_dec j e) as [E|Hne].
  - subst j. rewrite at_push_same. apply in_or_app. now left.
  - rewrite at_push_other by exact Hne. exact H. Qed.
Lemma chain_mono L e m n c : chain L n c -> chain (push L e m) n c.
Proof. induction 1; [constructor|]. apply ch_step; auto using in_push. Qed.

Lemma chain_inv L n c : chain L n c ->
  (n = bos /\ c = 0) \/
  exists p c1, chain L p c1 /\ (n_sn n < n_end n)%nat /\ In p (at_ L (n_sn n)) /\ In n (at_ L (n_end n))
               /\ c = c1 + conn (n_rid p) (n_lid n) + n_wc n.
Proof. destruct 1 as [|p c1 n Hc Hlt Hp Hn]; [now left|right; exists p, c1; auto]. Qed.

Lemma node_eq_dec (a b : node) : {a = b} + {a <> b}.
Proof. decide equality; try apply Z.eq_dec; try apply N.eq_dec; apply Nat.eq_dec. Qed.

(** chains into old nodes do not use a node inserted beyond the frontier *)
Lemma chain_old L s e m : Inv L s -> (s < e)%nat ->
  forall n c, chain (push L e m) n c -> (n = bos \/ stored L n) -> chain L n c.
Proof.
  intros I Hse n c H. induction H as [|p c n Hc IH Hlt Hp Hn]; intros Hold; [constructor|].
  assert (Hnb : n <> bos) by (intros ->; simpl in Hlt; lia).
  destruct Hold as [->|Hst]; [congruence|].
  destruct (inv_ord _ _ I _ _ Hst Hnb) as [_ Hle].
  rewrite at_push_other in Hp by lia.
  apply ch_step; auto. apply IH. right. unfold stored.
  now rewrite (inv_idx _ _ I _ _ Hp).
Qed.

(** ** One insertion preserves the invariant *)
Lemma insert_inv L s sn sw e lex wid lid rid wc L' :
  Inv L s -> (s <= sn)%nat -> (sn <= sw < e)%nat ->
  insert_node conn L sn sw e lex wid lid rid wc = Some L' -> Inv L' sn.
Proof.
  intros I Hs He H. unfold insert_node in H.
  destruct (search_min conn L sn lid) as [[i c]|] eqn:Hm; [|discriminate].
  destruct (scan_ok conn L sn lid && in_i32 (c + wc)); [|discriminate].
  inversion H; subst L'; clear H.
  set (m := mk_node sn sw e lex wid lid rid wc i c).
  destruct (search_min_spec _ _ _ _ _ Hm) as [Hmin [p [Hp Ec]]].
  assert (Hpin : In p (at_ L sn)) by (eapply nth_error_In; eauto).
  assert (Hin : forall j n, In n (at_ (push L e m) j) -> (In n (at_ L j)) \/ (j = e /\ n = m)).
  { intros j n Hn. destruct (Nat.eq_dec j e) as [->|Hne].
    - rewrite at_push_same in Hn. apply in_app_or in Hn. destruct Hn as [Hn|[<-|[]]]; auto.
    - rewrite at_push_other in Hn by auto. auto. }
  assert (Hmb : m <> bos) by (intros E; apply (f_equal n_end) in E; simpl in E; lia).
  constructor.
  - rewrite at_push_other by lia. apply (inv_bos _ _ I).
  - intros j n Hn. destruct (Hin _ _ Hn) as [Ho|[-> ->]]; [apply (inv_idx _ _ I _ _ Ho)|reflexivity].
  - intros j n Hn Hnb. destruct (Hin _ _ Hn) as [Ho|[-> ->]].
    + destruct (inv_ord _ _ I _ _ Ho Hnb). split; lia.
    + simpl. split; lia.
  - intros j n Hn. destruct (Hin _ _ Hn) as [Ho|[-> ->]].
    + apply chain_mono. apply (inv_ach _ _ I _ _ Ho).
    + subst c. replace (n_mc m) with (n_mc p + conn (n_rid p) (n_lid m) + n_wc m) by reflexivity.
      apply ch_step; simpl.
      * apply chain_mono. apply (inv_ach _ _ I _ _ Hpin).
      * lia.
      * rewrite at_push_other by lia. exact Hpin.
      * rewrite at_push_same. apply in_or_app. right. now left.
  - intros j n c0 Hn Hc. destruct (node_eq_dec n m) as [->|Hnm].
    + destruct (chain_inv _ _ _ Hc) as [[E _]|(q & c1 & Hq & Hlt & Hqin & Hnin & ->)]; [exfalso; exact (Hmb E)|].
      simpl in *. rewrite at_push_other in Hqin by lia.
      assert (chain L q c1) as Hq'.
      { apply (chain_old L s e m I ltac:(lia) q c1 Hq). right. unfold stored. now rewrite (inv_idx _ _ I _ _ Hqin). }
      pose proof (inv_min _ _ I _ _ _ Hqin Hq'). pose proof (Hmin _ Hqin). lia.
    + destruct (Hin _ _ Hn) as [Ho|[-> ->]]; [|congruence].
      apply (inv_min _ _ I _ _ _ Ho). apply (chain_old L s e m I ltac:(lia) n c0 Hc).
      right. unfold stored. now rewrite (inv_idx _ _ I _ _ Ho).
  - intros j n Hn Hnb. destruct (Hin _ _ Hn) as [Ho|[-> ->]].
    + destruct (inv_bp _ _ I _ _ Ho Hnb) as (q & Hq & E).
      destruct (inv_ord _ _ I _ _ Ho Hnb) as [_ Hle].
      exists q. rewrite at_push_other by lia. auto.
    + exists p. simpl. rewrite at_push_other by lia. split; [exact Hp|]. subst c. reflexivity.
Qed.

(** ** The initial lattice *)
Lemma inv_init L : at_ L 0 = [bos] -> (forall e, e <> 0%nat -> at_ L e = []) -> Inv L 0.
Proof.
  intros H0 Hr.
  assert (Hall : forall e n, In n (at_ L e) -> n = bos /\ e = 0%nat).
  { intros e n Hn. destruct (Nat.eq_dec e 0) as [->|Hne].
    - rewrite H0 in Hn. destruct Hn as [<-|[]]. auto.
    - rewrite Hr in Hn by exact Hne. destruct Hn. }
  constructor; auto.
  - intros e n Hn. destruct (Hall _ _ Hn) as [-> ->]. reflexivity.
  - intros e n Hn Hnb. destruct (Hall _ _ Hn) as [-> _]. congruence.
  - intros e n Hn. destruct (Hall _ _ Hn) as [-> _]. constructor.
  - intros e n c Hn Hc. destruct (Hall _ _ Hn) as [-> _].
    destruct (chain_inv _ _ _ Hc) as [[_ ->]|(q & c1 & _ & Hlt & _)]; [simpl; lia|simpl in Hlt; lia].
  - intros e n Hn Hnb. destruct (Hall _ _ Hn) as [-> _]. congruence.
Qed.

(** ** The back-pointer walk *)

(** reading-order description of a path ending at boundary [e] with accumulated cost [c]
    and right id [r] of its last node *)
Inductive good_path (L : lattice) : nat -> Z -> N -> list (nat * node) -> Prop :=
| gp_nil : good_path L 0 0 0%N []
| gp_snoc e c r p e' n : good_path L e c r p ->
    n_sn n = e -> n_end n = e' -> In n (at_ L e') -> (e <= n_sw n < e')%nat ->
    n_mc n = c + conn r (n_lid n) + n_wc n ->
    good_path L e' (n_mc n) (n_rid n) (p ++ [(e', n)]).

Lemma walk_good L s : Inv L s -> forall fuel e i path n,
  nth_error (at_ L e) i = Some n ->
  walk L fuel e i = Some path ->
  good_path L e (n_mc n) (n_rid n) (rev path).
Proof.
  intros I. induction fuel as [|f IH]; intros e i path n Hn H.
  - destruct e; simpl in H; [|discriminate]. inversion H; subst path. simpl.
    rewrite (inv_bos _ _ I) in Hn. destruct i as [|[|i]]; simpl in Hn; inversion Hn; subst n. constructor.
  - destruct e as [|e'].
    + simpl in H. inversion H; subst path. simpl.
      rewrite (inv_bos _ _ I) in Hn. destruct i as [|[|i]]; simpl in Hn; inversion Hn; subst n. constructor.
    + cbn [walk] in H. rewrite Hn in H.
      destruct (walk L f (n_sn n) (n_midx n)) as [rest|] eqn:Hw; [|discriminate].
      inversion H; subst path; clear H. cbn [rev].
      assert (Hin : In n (at_ L (S e'))) by (eapply nth_error_In; eauto).
      assert (Hnb : n <> bos).
      { intros ->. pose proof (inv_idx _ _ I _ _ Hin) as E. simpl in E. lia. }
      destruct (inv_bp _ _ I _ _ Hin Hnb) as (p & Hp & E).
      destruct (inv_ord _ _ I _ _ Hin Hnb) as [Ho _].
      pose proof (inv_idx _ _ I _ _ Hin) as Ee.
      rewrite E.
      replace (n_mc p + conn (n_rid p) (n_lid n) + n_wc n) with (n_mc n) by lia.
      eapply gp_snoc; eauto.
      lia.
Qed.

(** the walk succeeds with fuel [e + 1] (boundaries strictly decrease) *)
Lemma walk_total L s : Inv L s -> forall fuel e i n,
  nth_error (at_ L e) i = Some n -> (e < fuel)%nat -> exists path, walk L fuel e i = Some path.
Proof.
  intros I. induction fuel as [|f IH]; intros e i n Hn Hlt; [lia|].
  destruct e as [|e']; [exists []; reflexivity|].
  cbn [walk]. rewrite Hn.
  assert (Hin : In n (at_ L (S e'))) by (eapply nth_error_In; eauto).
  assert (Hnb : n <> bos).
  { intros ->. pose proof (inv_idx _ _ I _ _ Hin) as E. simpl in E. lia. }
  destruct (inv_bp _ _ I _ _ Hin Hnb) as (p & Hp & _).
  destruct (inv_ord _ _ I _ _ Hin Hnb) as [Ho _].
  pose proof (inv_idx _ _ I _ _ Hin) as Ee.
  destruct (IH (n_sn n) (n_midx n) p Hp ltac:(lia)) as [rest Hr].
  rewrite Hr. eauto.
Qed.

(** ** EOS: the reported total is the minimum over all chains to EOS *)
Theorem eos_optimal L s sn len eos :
  Inv L s -> insert_eos conn L sn len = Some eos ->
  (exists p, nth_error (at_ L sn) (n_midx eos) = Some p /\
             n_mc eos = n_mc p + conn (n_rid p) 0%N /\ chain L p (n_mc p)) /\
  (forall q c, In q (at_ L sn) -> chain L q c -> n_mc eos <= c + conn (n_rid q) 0%N).
Proof.
  intros I H. unfold insert_eos in H.
  destruct (search_min conn L sn 0%N) as [[i c]|] eqn:Hm; [|discriminate].
  destruct (scan_ok conn L sn 0%N); [|discriminate].
  inversion H; subst eos; clear H. simpl.
  destruct (search_min_spec _ _ _ _ _ Hm) as [Hmin [p [Hp Ec]]].
  assert (Hpin : In p (at_ L sn)) by (eapply nth_error_In; eauto).
  split.
  - exists p. split; [exact Hp|]. split; [exact Ec|]. apply (inv_ach _ _ I _ _ Hpin).
  - intros q c0 Hq Hc. pose proof (Hmin _ Hq). pose proof (inv_min _ _ I _ _ _ Hq Hc). lia.
Qed.

End V.
