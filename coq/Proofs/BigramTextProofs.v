(** C10: the text-level reader of the three bigram files is total -- a result or an error, never a panic. *)
From Vib Require Import Model.Base Model.Text Model.LexCsv Model.DefText Model.BigramText.
Local Open Scope N_scope.

Lemma parse_feature_line_total line : parse_feature_line line <> Panic.
Proof.
  unfold parse_feature_line. destruct (split_on ch_tab line) as [|a [|b [|c t]]]; try discriminate.
  destruct (parse_usize_dec a); discriminate.
Qed.

Lemma parse_feature_lines_total : forall ls i, parse_feature_lines ls i <> Panic.
Proof.
  induction ls as [|l ls IH]; intros i; cbn [parse_feature_lines]; [discriminate|].
  pose proof (parse_feature_line_total l) as H. destruct (parse_feature_line l) as [[id cells]| |]; try discriminate; [|congruence].
  destruct (id =? i); [|discriminate]. specialize (IH (N.succ i)). destruct (parse_feature_lines ls (N.succ i)); congruence || discriminate.
Qed.

Lemma parse_cost_line_total line : parse_cost_line line <> Panic.
Proof.
  unfold parse_cost_line. destruct (split_on ch_tab line) as [|a [|b [|c t]]]; try discriminate.
  destruct (parse_i32 b) as [cz|]; [|discriminate]. destruct (split_on ch_slash a) as [|x [|y [|w t]]]; discriminate.
Qed.

Lemma parse_cost_lines_total : forall ls, parse_cost_lines ls <> Panic.
Proof.
  induction ls as [|l ls IH]; cbn [parse_cost_lines]; [discriminate|].
  pose proof (parse_cost_line_total l) as H. destruct (parse_cost_line l); destruct (parse_cost_lines ls); congruence || discriminate.
Qed.

Theorem parse_bigram_texts_total r l c : parse_bigram_texts r l c <> Panic.
Proof.
  unfold parse_bigram_texts.
  pose proof (parse_cost_lines_total (lines c)) as Hc. pose proof (parse_feature_lines_total (lines r) 1) as Hr.
  pose proof (parse_feature_lines_total (lines l) 1) as Hl.
  destruct (parse_cost_lines (lines c)); destruct (parse_feature_lines (lines r) 1) as [rr| |]; destruct (parse_feature_lines (lines l) 1) as [ll| |];
    try congruence; try discriminate.
  destruct rr, ll; discriminate.
Qed.

Theorem bigram_build_code_total r l c maxl maxr : bigram_build_code r l c maxl maxr <> 2.
Proof.
  unfold bigram_build_code. pose proof (parse_bigram_texts_total r l c) as H.
  destruct (parse_bigram_texts r l c) as [[[rr ll] cc]| |]; [|discriminate|congruence].
  destruct (_ && _); discriminate.
Qed.
