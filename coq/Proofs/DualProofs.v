(** C07: the dual connector (matrix part + raw part) returns the defining sum, for EVERY split of
    the template positions, whenever the pre-summed matrix part fits 16 bits. *)
From Vib Require Import Model.Base Model.Scorer Model.Dual Proofs.ScorerProofs Proofs.RawSpecProofs.
From Coq Require Import Arith.
Local Open Scope N_scope.

(** ** splitting the lanes by a mask *)
Lemma sel_cons keep m mt x rt : sel keep (m :: mt) (x :: rt) = if Bool.eqb m keep then x :: sel keep mt rt else sel keep mt rt.
Proof. reflexivity. Qed.

Lemma lane_sum_split T mask : forall l1 l2, length l1 = length mask -> length l2 = length mask ->
  lane_sum T l1 l2 = (lane_sum T (sel true mask l1) (sel true mask l2) + lane_sum T (sel false mask l1) (sel false mask l2))%Z.
Proof.
  induction mask as [|m mt IH]; intros l1 l2 H1 H2.
  - destruct l1; [|discriminate]. reflexivity.
  - destruct l1 as [|a l1]; [discriminate|]. destruct l2 as [|b l2]; [discriminate|].
    rewrite !sel_cons. cbn [lane_sum]. rewrite (IH l1 l2) by (cbn in *; lia).
    destruct m; cbn [Bool.eqb lane_sum]; lia.
Qed.

Lemma sel_in keep mask : forall row x, In x (sel keep mask row) -> In x row \/ x = INVALID.
Proof.
  induction mask as [|m mt IH]; intros row x H; [destruct H|]. cbn [sel] in H.
  destruct (Bool.eqb m keep).
  - destruct H as [H|H].
    + destruct row; [now right|left; now left].
    + destruct (IH _ _ H) as [H'|H']; [|now right]. destruct row; [destruct H'|left; now right].
  - destruct (IH _ _ H) as [H'|H']; [|now right]. destruct row; [destruct H'|left; now right].
Qed.

(** ** the pruned trie answers like the full one on the features the raw part uses *)
Lemma mem_N_In x l : mem_N x l = true <-> In x l.
Proof.
  unfold mem_N. rewrite existsb_exists. split.
  - intros (y & Hy & E). apply N.eqb_eq in E. now subst.
  - intros H. exists x. split; [exact H|apply N.eqb_refl].
Qed.

Lemma smap_get_filter (f : N * Z -> bool) m k : (forall c, f (k, c) = true) -> smap_get k (filter f m) = smap_get k m.
Proof.
  intros Hf. induction m as [|[k' c] m IH]; [reflexivity|]. cbn [filter].
  destruct (f (k', c)) eqn:E; cbn [smap_get].
  - destruct (k =? k'); [reflexivity|exact IH].
  - destruct (N.eqb_spec k k') as [->|Hne]; [rewrite Hf in E; discriminate|exact IH].
Qed.

Lemma nth_N_prune T uR uL : forall i j, nth_N (prune_from T i uR uL) j =
  option_map (fun m => if mem_N (i + j) uR then filter (fun kc => mem_N (fst kc) uL) m else []) (nth_N T j).
Proof.
  induction T as [|m T IH]; intros i j; cbn [prune_from nth_N]; [reflexivity|].
  destruct (N.eqb_spec j 0) as [->|Hne].
  - rewrite N.add_0_r. reflexivity.
  - rewrite IH. replace (N.succ i + N.pred j) with (i + j) by lia. reflexivity.
Qed.

Lemma trie_get_prune T uR uL a b : In a uR -> In b uL -> trie_get (prune T uR uL) a b = trie_get T a b.
Proof.
  intros Ha Hb. unfold trie_get, prune. rewrite nth_N_prune. cbn [N.add].
  destruct (nth_N T a) as [m|]; [|reflexivity]. cbn [option_map].
  apply mem_N_In in Ha. rewrite Ha. apply smap_get_filter. intros c. cbn [fst]. now apply mem_N_In.
Qed.

Lemma filter_keys_nodup (f : N * Z -> bool) m : NoDup (keys m) -> NoDup (keys (filter f m)).
Proof.
  unfold keys. induction m as [|[k c] m IH]; intros H; [constructor|]. cbn [map fst] in H. inversion H as [|? ? Hk Hm]; subst.
  cbn [filter]. destruct (f (k, c)); [|now apply IH]. cbn [map fst]. constructor; [|now apply IH].
  intros Hin. apply Hk. apply in_map_iff in Hin. destruct Hin as ([k' c'] & E & Hin). apply filter_In in Hin.
  apply in_map_iff. exists (k', c'). tauto.
Qed.

Lemma prune_nodup T uR uL : Forall (fun m => NoDup (keys m)) T -> Forall (fun m => NoDup (keys m)) (prune T uR uL).
Proof.
  unfold prune. generalize 0. induction T as [|m T IH]; intros i F; cbn [prune_from]; [constructor|].
  inversion F; subst. constructor; [|now apply IH].
  destruct (mem_N i uR); [now apply filter_keys_nodup|constructor].
Qed.

Lemma lane_sum_agree T T' : forall l1 l2, (forall a b, In a l1 -> In b l2 -> trie_get T' a b = trie_get T a b) ->
  lane_sum T' l1 l2 = lane_sum T l1 l2.
Proof.
  induction l1 as [|a l1 IH]; intros [|b l2] H; cbn [lane_sum]; try reflexivity.
  rewrite (H a b) by now left. rewrite IH; [reflexivity|]. intros; apply H; now right.
Qed.

(** ** the theorem *)
Theorem dual_cost_spec fuel mask right left lines dc :
  build_dual fuel mask right left lines = Some dc -> N.of_nat (length lines) + 1 < INVALID ->
  length mask = fold_right Nat.max 0%nat (map (@length _) (right ++ left)) ->
  forall r l, (N.to_nat r <= length right)%nat -> (N.to_nat l <= length left)%nat ->
  (-32768 <= matrix_part dc r l <= 32767)%Z ->
  dual_cost dc r l = spec_cost right left lines r l.
Proof.
  intros Hb Hsmall Hmask r l Hr Hl Hfit.
  pose proof (read_costs_inv lines [] [[]] [[]] [] rinv_init) as I. cbn [app] in I.
  pose proof (read_costs_nodup lines [[]] [[]] [] ltac:(constructor)) as F.
  unfold build_dual in Hb. destruct (read_costs lines [[]] [[]] []) as [[rt lt] T] eqn:E. cbn [snd] in F.
  set (k := fold_right Nat.max 0%nat (map (@length _) (right ++ left))) in *.
  set (rowsR := pad_to k (repeat 0 k) :: map (fun x => pad_to k (feat_ids rt x)) right) in *.
  set (rowsL := pad_to k (repeat 0 k) :: map (fun x => pad_to k (feat_ids lt x)) left) in *.
  set (uR := flat_map (sel false mask) rowsR) in *. set (uL := flat_map (sel false mask) rowsL) in *.
  destruct (build fuel T) as [full|] eqn:Ef; [|discriminate].
  destruct (build fuel (prune T uR uL)) as [raw|] eqn:Er; [|discriminate].
  inversion Hb; subst dc; clear Hb.
  unfold dual_cost, matrix_part in *. cbn [dc_mask dc_right dc_left dc_full dc_raw] in *.
  rewrite (accumulate_lane_sum fuel T full F Ef) in *.
  rewrite (accumulate_lane_sum fuel _ raw (prune_nodup T uR uL F) Er).
  set (rowR := nth (N.to_nat r) rowsR []) in *. set (rowL := nth (N.to_nat l) rowsL []) in *.
  assert (HR : forall row, In row right -> (length row <= k)%nat) by (intros row H; apply max_bound, in_or_app; now left).
  assert (HL : forall row, In row left -> (length row <= k)%nat) by (intros row H; apply max_bound, in_or_app; now right).
  assert (LR : length rowR = k) by (apply row_length; auto).
  assert (LL : length rowL = k) by (apply row_length; auto).
  assert (InR : In rowR rowsR) by (apply nth_In; subst rowsR; cbn [length]; rewrite map_length; lia).
  assert (InL : In rowL rowsL) by (apply nth_In; subst rowsL; cbn [length]; rewrite map_length; lia).
  rewrite (lane_sum_agree T (prune T uR uL)).
  2:{ intros a b Ha Hb'. apply trie_get_prune.
      - subst uR. apply in_flat_map. exists rowR. split; [exact InR|exact Ha].
      - subst uL. apply in_flat_map. exists rowL. split; [exact InL|exact Hb']. }
  unfold clamp16. rewrite Z.min_r by lia. rewrite Z.max_r by lia.
  rewrite <- (lane_sum_split T mask rowR rowL) by congruence.
  apply (lane_sum_spec lines rt lt T right left k I Hsmall (le_n _)); assumption.
Qed.
