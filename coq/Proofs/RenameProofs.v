(** C06: renaming connection ids consistently (entries through [fl]/[fr], connector so that
    [conn' (fr r) (fl l) = conn r l]) does not change tokenization: same lattice up to the ids
    stored in the nodes, same back pointers, same costs, same tokens up to ids. *)
From Vib Require Import Model.Base Model.Lattice Model.Tokenizer Proofs.Viterbi Proofs.TokenizerProofs Proofs.WorkerProofs Proofs.CountProofs.
From Coq Require Import Arith.

Section Ren.
Variables fl fr : N -> N.

Definition ren_row (r : lexrow) : lexrow :=
  {| lr_surface := lr_surface r; lr_lid := fl (lr_lid r); lr_rid := fr (lr_rid r); lr_cost := lr_cost r; lr_feature := lr_feature r |}.
Definition ren_unk (u : unkrow) : unkrow :=
  {| ur_cate := ur_cate u; ur_lid := fl (ur_lid u); ur_rid := fr (ur_rid u); ur_cost := ur_cost u; ur_feature := ur_feature u |}.
Definition ren_cand (c : cand) : cand :=
  {| c_sw := c_sw c; c_end := c_end c; c_lex := c_lex c; c_wid := c_wid c; c_lid := fl (c_lid c); c_rid := fr (c_rid c); c_wc := c_wc c |}.

Record renamed (d d' : dict) : Prop := {
  rn_chars : d_chars d' = d_chars d;
  rn_sys : d_sys d' = map ren_row (d_sys d);
  rn_user : d_user d' = option_map (map ren_row) (d_user d);
  rn_unk : d_unk d' = map ren_unk (d_unk d);
  rn_conn : forall r l, conn_of d' (fr r) (fl l) = conn_of d r l }.

(** nodes: everything equal but the ids; BOS (the only node ending at 0) keeps its ids *)
Definition node_rel (n n' : node) : Prop :=
  n_sn n' = n_sn n /\ n_sw n' = n_sw n /\ n_end n' = n_end n /\ n_lex n' = n_lex n /\ n_wid n' = n_wid n /\
  n_wc n' = n_wc n /\ n_midx n' = n_midx n /\ n_mc n' = n_mc n /\ n_rid n' = fr (n_rid n) /\
  (n_lid n' = fl (n_lid n) \/ (n = bos /\ n' = bos)).
Definition lat_rel (L L' : lattice) : Prop := forall e, Forall2 node_rel (at_ L e) (at_ L' e).

Hypothesis fr0 : fr 0%N = 0%N.
Hypothesis fl0 : fl 0%N = 0%N.

Lemma bos_rel : node_rel bos bos.
Proof. unfold node_rel. cbn. rewrite fr0. repeat split; auto. Qed.

Variables d d' : dict.
Hypothesis R : renamed d d'.

Lemma smin_rel lid ps ps' : Forall2 node_rel ps ps' -> forall i best,
  smin_aux (conn_of d') (fl lid) ps' i best = smin_aux (conn_of d) lid ps i best.
Proof.
  induction 1 as [|p p' ps ps' Hp _ IH]; intros i best; simpl; [reflexivity|].
  destruct Hp as (_ & _ & _ & _ & _ & _ & _ & Hmc & Hrid & _).
  rewrite Hmc, Hrid, (rn_conn _ _ R). apply IH.
Qed.

Lemma scan_ok_rel L L' sn lid : lat_rel L L' -> scan_ok (conn_of d') L' sn (fl lid) = scan_ok (conn_of d) L sn lid.
Proof.
  intros H. unfold scan_ok. specialize (H sn). induction H as [|p p' ps ps' Hp _ IH]; simpl; [reflexivity|].
  destruct Hp as (_ & _ & _ & _ & _ & _ & _ & Hmc & Hrid & _).
  now rewrite Hmc, Hrid, (rn_conn _ _ R), IH.
Qed.

Lemma push_rel L L' e n n' : lat_rel L L' -> node_rel n n' -> lat_rel (push L e n) (push L' e n').
Proof.
  intros H Hn j. destruct (Nat.eq_dec j e) as [->|Hne].
  - rewrite !at_push_same. apply Forall2_app; [apply H|constructor; [exact Hn|constructor]].
  - rewrite !at_push_other by exact Hne. apply H.
Qed.

Lemma insert_node_rel L L' sn sw e lex wid lid rid wc : lat_rel L L' ->
  optrel lat_rel (insert_node (conn_of d) L sn sw e lex wid lid rid wc)
                 (insert_node (conn_of d') L' sn sw e lex wid (fl lid) (fr rid) wc).
Proof.
  intros H. unfold insert_node, search_min. rewrite (smin_rel lid _ _ (H sn)), (scan_ok_rel L L' sn lid H).
  destruct (smin_aux (conn_of d) lid (at_ L sn) 0 None) as [[i c]|]; simpl; [|exact I].
  destruct (scan_ok (conn_of d) L sn lid && in_i32 (c + wc)); simpl; [|exact I].
  apply push_rel; [exact H|]. unfold node_rel, mk_node; cbn. repeat split; auto.
Qed.

Lemma insert_all_rel cs : forall L L' sn, lat_rel L L' ->
  optrel lat_rel (insert_all (conn_of d) L sn cs) (insert_all (conn_of d') L' sn (map ren_cand cs)).
Proof.
  induction cs as [|c cs IH]; intros L L' sn H; simpl; [exact H|].
  pose proof (insert_node_rel L L' sn (c_sw c) (c_end c) (c_lex c) (c_wid c) (c_lid c) (c_rid c) (c_wc c) H) as Hi.
  destruct (insert_node (conn_of d) L _ _ _ _ _ _ _ _) as [L1|],
           (insert_node (conn_of d') L' _ _ _ _ _ _ _ _) as [L1'|]; simpl in Hi; try contradiction; simpl; auto.
Qed.

(** candidates of the renamed dictionary *)
Lemma index_from_map {A B} (f : A -> B) (l : list A) : forall k, index_from k (map f l) = map (fun ir => (fst ir, f (snd ir))) (index_from k l).
Proof. induction l as [|x l IH]; intros k; simpl; [reflexivity|]. now rewrite IH. Qed.

Lemma flat_map_map {A B C} (f : A -> B) (g : B -> list C) l : flat_map g (map f l) = flat_map (fun x => g (f x)) l.
Proof. induction l as [|x l IH]; simpl; [reflexivity|]. now rewrite IH. Qed.
Lemma map_flat_map' {A B C} (h : B -> C) (f : A -> list B) l : map h (flat_map f l) = flat_map (fun x => map h (f x)) l.
Proof. induction l as [|x l IH]; simpl; [reflexivity|]. now rewrite map_app, IH. Qed.

Lemma lex_matches_ren lex rows sw suffix :
  lex_matches lex (map ren_row rows) sw suffix = map ren_cand (lex_matches lex rows sw suffix).
Proof.
  unfold lex_matches. rewrite map_flat_map'. apply flat_map_ext. intros k.
  rewrite index_from_map, flat_map_map, map_flat_map'. apply flat_map_ext. intros [j r]. cbn [fst snd ren_row lr_surface].
  destruct (str_eqb (lr_surface r) (firstn k suffix)); reflexivity.
Qed.

Lemma scan_entries_ren unk sw e base :
  scan_entries (map ren_unk unk) sw e base = map ren_cand (scan_entries unk sw e base).
Proof.
  unfold scan_entries. rewrite index_from_map, flat_map_map, map_flat_map'. apply flat_map_ext. intros [j u].
  cbn [fst snd ren_unk ur_cate]. destruct (ur_cate u =? base)%N; reflexivity.
Qed.

Lemma gen_unk_ren unk s sw hm mgl :
  gen_unk_words (map ren_unk unk) s sw hm mgl = map ren_cand (gen_unk_words unk s sw hm mgl).
Proof.
  unfold gen_unk_words. destruct (hm && negb (ci_invoke (s_ci s sw))); [reflexivity|].
  rewrite !map_app. f_equal; [|f_equal].
  - match goal with |- (if ?b then _ else _) = _ => destruct b end; [apply scan_entries_ren|reflexivity].
  - rewrite map_flat_map'. apply flat_map_ext. intros i. apply scan_entries_ren.
  - match goal with |- (if ?b then _ else _) = _ => destruct b end; [reflexivity|apply scan_entries_ren].
Qed.

Lemma candidates_ren o s sw : candidates d' o s sw = map ren_cand (candidates d o s sw).
Proof.
  unfold candidates. rewrite (rn_sys _ _ R), (rn_user _ _ R), (rn_unk _ _ R).
  rewrite !map_app, lex_matches_ren, gen_unk_ren.
  destruct (d_user d) as [u|]; cbn [option_map]; [rewrite lex_matches_ren|].
  - f_equal. f_equal. f_equal. rewrite <- map_app. destruct (lex_matches 1%N u sw _ ++ lex_matches 0%N (d_sys d) sw _); reflexivity.
  - cbn [map app]. f_equal. f_equal. destruct (lex_matches 0%N (d_sys d) sw _); reflexivity.
Qed.

Lemma has_prev_rel L L' i : lat_rel L L' -> has_prev L' i = has_prev L i.
Proof. intros H. unfold has_prev. destruct (H i); reflexivity. Qed.

Definition scan_rel' (a b : lattice * nat) : Prop := lat_rel (fst a) (fst b) /\ snd a = snd b.

Lemma scan_ren o s : forall fuel sn sw L L', lat_rel L L' ->
  orel scan_rel' (scan d o s fuel sn sw L) (scan d' o s fuel sn sw L').
Proof.
  induction fuel as [|f IH]; intros sn sw L L' H; cbn [scan]; [exact I|].
  destruct (Nat.leb (s_len s) sw); [split; simpl; auto|].
  rewrite (has_prev_rel _ _ sn H).
  destruct (negb (has_prev L sn)); [now apply IH|].
  match goal with |- context [Nat.eqb ?x (s_len s)] => set (sw' := x) end.
  destruct (Nat.eqb sw' (s_len s)); [split; simpl; auto|].
  destruct (Nat.ltb (s_len s) sw'); [exact I|].
  rewrite candidates_ren.
  pose proof (insert_all_rel (candidates d o s sw') L L' sn H) as Hi.
  destruct (insert_all (conn_of d) L sn _) as [L1|], (insert_all (conn_of d') L' sn _) as [L1'|]; simpl in Hi; try contradiction; [|exact I].
  now apply IH.
Qed.

Lemma reset_rel L0 len : lat_rel (reset L0 len) (reset L0 len).
Proof.
  intros e. destruct (Nat.eq_dec e 0) as [->|Hne].
  - rewrite reset_at0. constructor; [apply bos_rel|constructor].
  - rewrite reset_at_other by exact Hne. constructor.
Qed.

Definition eos_rel (n n' : node) : Prop :=
  n_sn n' = n_sn n /\ n_midx n' = n_midx n /\ n_mc n' = n_mc n.
Definition bl_rel' (a b : lattice * node) : Prop := lat_rel (fst a) (fst b) /\ eos_rel (snd a) (snd b).

Lemma build_lattice_ren o s L0 :
  orel bl_rel' (build_lattice d o s L0) (build_lattice d' o s L0).
Proof.
  unfold build_lattice.
  pose proof (scan_ren o s (S (s_len s)) 0 0 _ _ (reset_rel L0 (s_len s))) as Hs.
  destruct (scan d o s _ 0 0 _) as [[La sa]| |], (scan d' o s _ 0 0 _) as [[Lb sb]| |]; simpl in Hs; try contradiction; try exact I.
  destruct Hs as [Hl Hsn]; simpl in Hl, Hsn; subst sb.
  unfold insert_eos, search_min.
  pose proof (smin_rel 0%N _ _ (Hl sa) 0%nat None) as E1. rewrite fl0 in E1. rewrite E1.
  pose proof (scan_ok_rel La Lb sa 0%N Hl) as E2. rewrite fl0 in E2. rewrite E2.
  destruct (smin_aux (conn_of d) 0%N (at_ La sa) 0 None) as [[i c]|]; [|exact I].
  destruct (scan_ok (conn_of d) La sa 0%N); [|exact I].
  split; [exact Hl|]. unfold eos_rel; cbn. auto.
Qed.

(** the back-pointer walks visit corresponding nodes *)
Lemma walk_ren L L' : lat_rel L L' -> forall fuel e i,
  optrel (Forall2 (fun a b => fst b = fst a /\ node_rel (snd a) (snd b))) (walk L fuel e i) (walk L' fuel e i).
Proof.
  intros H. induction fuel as [|f IH]; intros e i; destruct e; simpl; try exact I; try constructor.
  assert (Hn : optrel node_rel (nth_error (at_ L (S e)) i) (nth_error (at_ L' (S e)) i)).
  { specialize (H (S e)). revert i. induction H as [|x y l l' Hxy _ IHl]; intros [|i]; simpl; auto. }
  destruct (nth_error (at_ L (S e)) i) as [n|], (nth_error (at_ L' (S e)) i) as [n'|]; simpl in Hn; try contradiction; [|exact I].
  destruct Hn as (Hsn & Hrest). destruct Hrest as (? & ? & ? & ? & ? & Hmi & ?).
  rewrite Hsn, Hmi. specialize (IH (n_sn n) (n_midx n)).
  destruct (walk L f (n_sn n) (n_midx n)) as [r|], (walk L' f (n_sn n) (n_midx n)) as [r'|]; simpl in IH; try contradiction; [|exact I].
  simpl. constructor; [split; [reflexivity|]|exact IH]. unfold node_rel. repeat split; auto; try tauto.
Qed.
End Ren.

(** ** tokens *)
Definition ren_tok (fl fr : N -> N) (t : token) : token :=
  {| t_cs := t_cs t; t_ce := t_ce t; t_bs := t_bs t; t_be := t_be t; t_surface := t_surface t; t_lex := t_lex t;
     t_wid := t_wid t; t_feature := t_feature t; t_lid := fl (t_lid t); t_rid := fr (t_rid t);
     t_wcost := t_wcost t; t_total := t_total t |}.

Lemma walk_in L : forall fuel e i path, walk L fuel e i = Some path ->
  Forall (fun en => fst en <> 0%nat /\ In (snd en) (at_ L (fst en))) path.
Proof.
  induction fuel as [|f IH]; intros e i path H; destruct e; simpl in H; try discriminate; try (inversion H; constructor).
  destruct (nth_error (at_ L (S e)) i) as [n|] eqn:En; [|discriminate].
  destruct (walk L f (n_sn n) (n_midx n)) as [r|] eqn:Ew; [|discriminate]. inversion H; subst.
  constructor; [split; [discriminate|eapply nth_error_In; eauto]|eapply IH; eauto].
Qed.

Section Tok.
Variables fl fr : N -> N.
Hypothesis fr0 : fr 0%N = 0%N.
Hypothesis fl0 : fl 0%N = 0%N.
Variables d d' : dict.
Hypothesis R : renamed fl fr d d'.

Lemma word_info_ren lex wid : word_info d' lex wid = word_info d lex wid.
Proof.
  unfold word_info. rewrite (rn_sys _ _ _ _ R), (rn_user _ _ _ _ R), (rn_unk _ _ _ _ R).
  destruct (lex =? 0)%N; [rewrite nth_error_map; destruct (nth_error (d_sys d) _); reflexivity|].
  destruct (lex =? 1)%N.
  - destruct (d_user d) as [u|]; cbn [option_map]; [|reflexivity].
    rewrite nth_error_map; destruct (nth_error u _); reflexivity.
  - rewrite nth_error_map; destruct (nth_error (d_unk d) _); reflexivity.
Qed.

Lemma token_of_ren s e n n' : node_rel fl fr n n' -> n <> bos ->
  token_of d' s (e, n') = option_map (ren_tok fl fr) (token_of d s (e, n)).
Proof.
  intros (H1 & H2 & H3 & H4 & H5 & H6 & H7 & H8 & H9 & H10) Hnb. unfold token_of. cbn beta iota.
  rewrite H4, H5, word_info_ren. destruct (word_info d (n_lex n) (n_wid n)) as [[wc feat]|]; [|reflexivity].
  cbn [option_map]. unfold ren_tok; cbn. destruct H10 as [H10|[Hb _]]; [|congruence].
  now rewrite H2, H8, H9, H10.
Qed.

Lemma tokens_ren s (top top' : list (nat * node)) :
  Forall2 (fun a b => fst b = fst a /\ node_rel fl fr (snd a) (snd b)) top top' ->
  Forall (fun en => snd en <> bos) top ->
  all_some (map (token_of d' s) top') = option_map (map (ren_tok fl fr)) (all_some (map (token_of d s) top)).
Proof.
  induction 1 as [|[e n] [e' n'] t t' [He Hn] _ IH]; intros F; [reflexivity|].
  inversion F as [|? ? Hnb F']; subst. cbn [fst snd] in *. subst e'. cbn [map all_some].
  rewrite (token_of_ren s e n n' Hn Hnb), (IH F').
  destruct (token_of d s (e, n)); cbn; [|reflexivity]. destruct (all_some (map (token_of d s) t)); reflexivity.
Qed.

Definition out_rel (a b : outcome (list token * lattice * option node)) : Prop :=
  match a, b with
  | Done (ts, _, _), Done (ts', _, _) => ts' = map (ren_tok fl fr) ts
  | Panicked, Panicked => True
  | OutOfFuel, OutOfFuel => True
  | _, _ => False
  end.

(** tokenization with the renamed dictionary: same outcome, same tokens up to the ids *)
Theorem tokenize_renamed o cs : out_rel (tokenize_fresh d o cs) (tokenize_fresh d' o cs).
Proof.
  unfold tokenize_fresh, tokenize. cbn [reset_sentence w_sent w_lat new_worker]. rewrite (rn_chars _ _ _ _ R).
  destruct cs as [|c0 cs']; [cbn; reflexivity|].
  set (s := compile (d_chars d) (c0 :: cs')). assert (Es : s_chars s = c0 :: cs') by reflexivity. rewrite Es.
  pose proof (build_lattice_ren fl fr fr0 fl0 d d' R o s []) as Hb.
  destruct (build_lattice d o s []) as [[L eos]| |] eqn:Eb, (build_lattice d' o s []) as [[L' eos']| |]; simpl in Hb; try contradiction; try exact I.
  destruct Hb as [Hl (Hsn & Hmi & _)]; simpl in Hl, Hsn, Hmi. rewrite Hsn, Hmi.
  pose proof (walk_ren fl fr L L' Hl (S (s_len s)) (n_sn eos) (n_midx eos)) as Hw.
  destruct (walk L _ _ _) as [top|] eqn:Ew, (walk L' _ _ _) as [top'|]; simpl in Hw; try contradiction; [|exact I].
  unfold tokens. cbn [w_sent w_top w_lat w_eos].
  destruct (build_lattice_optimal _ _ _ _ _ _ _ Eb) as (s0 & Inv0 & _).
  assert (Hnb : Forall (fun en : nat * node => snd en <> bos) (rev top)).
  { apply Forall_rev. eapply Forall_impl; [|exact (walk_in _ _ _ _ _ Ew)].
    intros [e n] [He Hin] Hb. cbn [fst snd] in *. subst n. pose proof (inv_idx _ _ _ Inv0 _ _ Hin) as E. cbn in E. congruence. }
  assert (Hrev : Forall2 (fun a b => fst b = fst a /\ node_rel fl fr (snd a) (snd b)) (rev top) (rev top')).
  { clear -Hw. induction Hw; cbn; [constructor|]. apply Forall2_app; [assumption|constructor; [assumption|constructor]]. }
  rewrite (tokens_ren s _ _ Hrev Hnb).
  destruct (all_some (map (token_of d s) (rev top))); cbn; reflexivity.
Qed.
End Tok.

(** ** histories: renamings compose, and a user lexicon given in the original ids is translated
    by the composed tables *)
Lemma renamed_refl d : renamed (fun x => x) (fun x => x) d d.
Proof.
  constructor; auto.
  - rewrite <- (map_id (d_sys d)) at 1. apply map_ext. intros []; reflexivity.
  - destruct (d_user d) as [u|]; cbn; [|reflexivity]. f_equal. rewrite <- (map_id u) at 1. apply map_ext. intros []; reflexivity.
  - rewrite <- (map_id (d_unk d)) at 1. apply map_ext. intros []; reflexivity.
Qed.

Lemma renamed_compose f g f' g' d d1 d2 :
  renamed f g d d1 -> renamed f' g' d1 d2 -> renamed (fun x => f' (f x)) (fun x => g' (g x)) d d2.
Proof.
  intros A B. constructor.
  - now rewrite (rn_chars _ _ _ _ B), (rn_chars _ _ _ _ A).
  - rewrite (rn_sys _ _ _ _ B), (rn_sys _ _ _ _ A), map_map. reflexivity.
  - rewrite (rn_user _ _ _ _ B), (rn_user _ _ _ _ A). destruct (d_user d); cbn; [now rewrite map_map|reflexivity].
  - rewrite (rn_unk _ _ _ _ B), (rn_unk _ _ _ _ A), map_map. reflexivity.
  - intros r l. now rewrite (rn_conn _ _ _ _ B), (rn_conn _ _ _ _ A).
Qed.

Definition set_user (d : dict) (u : option (list lexrow)) : dict :=
  {| d_chars := d_chars d; d_sys := d_sys d; d_user := u; d_unk := d_unk d; d_conn := d_conn d |}.

Lemma renamed_set_user f g d d' u :
  renamed f g d d' -> renamed f g (set_user d u) (set_user d' (option_map (map (ren_row f g)) u)).
Proof. intros A. constructor; cbn; try apply A. reflexivity. Qed.

(** every dictionary reachable by {map, load/clear user lexicon} from [d0] is a renaming of the
    base dictionary carrying the same user lexicon, by the composition of the applied mappings *)
Inductive reach : dict -> (N -> N) -> (N -> N) -> dict -> Prop :=
| reach_init d0 : reach d0 (fun x => x) (fun x => x) d0
| reach_map d0 f g d f' g' d' : reach d0 f g d -> renamed f' g' d d' -> reach d0 (fun x => f' (f x)) (fun x => g' (g x)) d'
| reach_user d0 f g d u : reach d0 f g d -> reach (set_user d0 u) f g (set_user d (option_map (map (ren_row f g)) u)).

Theorem reach_renamed d0 f g d : reach d0 f g d -> renamed f g d0 d.
Proof.
  induction 1 as [d0|d0 f g d f' g' d' _ IH Hr|d0 f g d u _ IH].
  - apply renamed_refl.
  - eapply renamed_compose; eauto.
  - now apply renamed_set_user.
Qed.
