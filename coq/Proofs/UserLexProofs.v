(** C08: a user lexicon adds exactly its rows as candidates; load / replace / clear. *)
From Vib Require Import Model.Base Model.Lattice Model.Tokenizer Proofs.Viterbi Proofs.TokenizerProofs Proofs.CountProofs.
From Coq Require Import Arith Permutation.

(** a candidate without the labels that tell lexicons apart *)
Definition strip (c : cand) : nat * nat * N * N * Z := (c_sw c, c_end c, c_lid c, c_rid c, c_wc c).

Definition row_cands (lex : N) (sw k : nat) (pre : list N) (irs : list (N * lexrow)) : list cand :=
  flat_map (fun ir => if str_eqb (lr_surface (snd ir)) pre
                      then [{| c_sw := sw; c_end := sw + k; c_lex := lex; c_wid := fst ir;
                               c_lid := lr_lid (snd ir); c_rid := lr_rid (snd ir); c_wc := lr_cost (snd ir) |}]
                      else []) irs.

Lemma lex_matches_unfold lex rows sw suffix :
  lex_matches lex rows sw suffix = flat_map (fun k => row_cands lex sw k (firstn k suffix) (index_from 0 rows)) (seq 1 (length suffix)).
Proof. reflexivity. Qed.

Lemma index_from_app {A} (l1 l2 : list A) : forall k, index_from k (l1 ++ l2) = index_from k l1 ++ index_from (k + N.of_nat (length l1)) l2.
Proof.
  induction l1 as [|x l1 IH]; intros k; [simpl; now rewrite N.add_0_r|].
  cbn [app index_from length]. rewrite IH. do 2 f_equal. f_equal. rewrite Nat2N.inj_succ. lia.
Qed.

Lemma row_cands_strip_shift lex1 lex2 sw k pre (rows : list lexrow) : forall a b,
  map strip (row_cands lex1 sw k pre (index_from a rows)) = map strip (row_cands lex2 sw k pre (index_from b rows)).
Proof.
  induction rows as [|r rows IH]; intros a b; simpl; [reflexivity|].
  unfold row_cands in *. simpl. destruct (str_eqb (lr_surface r) pre); simpl; [f_equal|]; apply IH.
Qed.

Lemma flat_map_app_perm {A B} (f g : A -> list B) l :
  Permutation (flat_map (fun x => f x ++ g x) l) (flat_map f l ++ flat_map g l).
Proof.
  induction l as [|x l IH]; simpl; [constructor|].
  rewrite IH. rewrite <- !app_assoc. apply Permutation_app_head.
  rewrite !app_assoc. apply Permutation_app_tail. apply Permutation_app_comm.
Qed.

Lemma map_flat_map {A B C} (h : B -> C) (f : A -> list B) l : map h (flat_map f l) = flat_map (fun x => map h (f x)) l.
Proof. induction l as [|x l IH]; simpl; [reflexivity|]. now rewrite map_app, IH. Qed.

(** matches in [sys ++ user] = matches in [user] and matches in [sys], up to order and labels *)
Lemma lex_matches_app_strip lexm lexu lexs sys user sw suffix :
  Permutation (map strip (lex_matches lexm (sys ++ user) sw suffix))
              (map strip (lex_matches lexu user sw suffix) ++ map strip (lex_matches lexs sys sw suffix)).
Proof.
  rewrite !lex_matches_unfold, !map_flat_map.
  eapply perm_trans; [|apply Permutation_app_comm].
  eapply perm_trans; [|apply flat_map_app_perm].
  apply Permutation_refl'. apply flat_map_ext. intros k.
  rewrite index_from_app. unfold row_cands at 1. rewrite flat_map_app, map_app.
  f_equal; [apply (row_cands_strip_shift lexm lexs)|apply (row_cands_strip_shift lexm lexu)].
Qed.

Definition merged (d : dict) (u : list lexrow) : dict :=
  {| d_chars := d_chars d; d_sys := d_sys d ++ u; d_user := None; d_unk := d_unk d; d_conn := d_conn d |}.
Definition with_user (d : dict) (u : option (list lexrow)) : dict :=
  {| d_chars := d_chars d; d_sys := d_sys d; d_user := u; d_unk := d_unk d; d_conn := d_conn d |}.

(** the candidates with a user lexicon are those of the system lexicon extended by the same
    rows (same start, end, ids and costs), user rows first *)
Theorem candidates_user_merged d u o s sw :
  Permutation (map strip (candidates (with_user d (Some u)) o s sw)) (map strip (candidates (merged d u) o s sw)).
Proof.
  unfold candidates. cbn [with_user merged d_user d_sys d_unk]. cbn [app].
  set (suffix := skipn sw (s_chars s)).
  set (U := lex_matches 1%N u sw suffix). set (M := lex_matches 0%N (d_sys d) sw suffix).
  set (MM := lex_matches 0%N (d_sys d ++ u) sw suffix).
  pose proof (lex_matches_app_strip 0%N 1%N 0%N (d_sys d) u sw suffix) as P. fold U M MM in P.
  assert (Hm : match U ++ M with [] => false | _ => true end = match MM with [] => false | _ => true end).
  { apply Permutation_length in P. rewrite <- map_app, !map_length in P.
    destruct (U ++ M), MM; simpl in P; try reflexivity; discriminate. }
  rewrite Hm. rewrite !map_app. rewrite app_assoc. apply Permutation_app_tail.
  rewrite <- map_app in P. rewrite <- map_app. now apply Permutation_sym.
Qed.

(** user words are reported with the user lexicon type and their row index *)
Theorem user_cands_labelled u sw suffix c : In c (lex_matches 1%N u sw suffix) ->
  c_lex c = 1%N /\ exists r, nth_error u (N.to_nat (c_wid c)) = Some r /\ c_lid c = lr_lid r /\ c_rid c = lr_rid r /\ c_wc c = lr_cost r.
Proof.
  intros Hc. unfold lex_matches in Hc. apply in_flat_map in Hc. destruct Hc as (k & _ & Hc).
  apply in_flat_map in Hc. destruct Hc as ([j r] & Hjr & Hc). cbn [fst snd] in Hc.
  destruct (str_eqb _ _); [|destruct Hc]. destruct Hc as [<-|[]]. cbn. split; [reflexivity|].
  apply index_from_nth_error in Hjr. destruct Hjr as [Hjr _]. rewrite Nat.sub_0_r in Hjr. eauto.
Qed.

(** system words remain available *)
Theorem system_cands_kept d u o s sw c : In c (lex_matches 0%N (d_sys d) sw (skipn sw (s_chars s))) ->
  In c (candidates (with_user d u) o s sw).
Proof. intros H. unfold candidates. cbn [with_user d_user d_sys]. apply in_or_app. right. apply in_or_app. now left. Qed.

(** ** load / replace / clear as a state machine on the dictionary *)
Definition conn_dims (conn : list (list Z)) : N * N := (N.of_nat (length conn), N.of_nat (length (hd [] conn))).
Definition rows_in_range (conn : list (list Z)) (rows : list lexrow) : bool :=
  let '(nr, nl) := conn_dims conn in forallb (fun r => (lr_lid r <? nl)%N && (lr_rid r <? nr)%N) rows.
Definition rows_nonempty_clean (rows : list lexrow) : bool :=
  match rows with [] => false | _ => forallb (fun r => negb (existsb (N.eqb 0) (lr_surface r))) rows end.

(** [reset_user_lexicon_from_reader] on parsed rows: [None] clears; a lexicon that is empty or
    names an id outside the connector is rejected and the dictionary is consumed *)
Definition reset_user (d : dict) (u : option (list lexrow)) : result dict :=
  match u with
  | None => Ok (with_user d None)
  | Some rows => if rows_nonempty_clean rows && rows_in_range (d_conn d) rows then Ok (with_user d (Some rows)) else Err
  end.

Theorem reset_user_replaces d u1 u2 d1 : reset_user d (Some u1) = Ok d1 -> reset_user d1 u2 = reset_user d u2.
Proof.
  unfold reset_user. destruct (_ && _); [|discriminate]. intros H; inversion H; subst d1.
  destruct u2 as [rows|]; reflexivity.
Qed.

Theorem reset_user_none_restores d : d_user d = None -> reset_user d None = Ok d.
Proof. intros H. unfold reset_user, with_user. rewrite <- H. destruct d; reflexivity. Qed.

Theorem reset_user_clear_after_load d u d1 : d_user d = None -> reset_user d (Some u) = Ok d1 -> reset_user d1 None = Ok d.
Proof.
  intros H0 H. rewrite (reset_user_replaces d u None d1 H). now apply reset_user_none_restores.
Qed.

(** an accepted user lexicon names only ids inside the connector: the connection-cost lookups
    for its words are real matrix entries, never the out-of-range default *)
Theorem reset_user_accept_in_range d rows d1 : reset_user d (Some rows) = Ok d1 ->
  d_user d1 = Some rows /\
  forall r, In r rows -> (N.to_nat (lr_rid r) < length (d_conn d1))%nat /\ (N.to_nat (lr_lid r) < length (hd [] (d_conn d1)))%nat.
Proof.
  unfold reset_user. destruct (rows_nonempty_clean rows); [|discriminate]. cbn [andb].
  destruct (rows_in_range (d_conn d) rows) eqn:E; [|discriminate]. intros H; inversion H; subst d1. cbn.
  split; [reflexivity|]. intros r Hr. unfold rows_in_range, conn_dims in E. rewrite forallb_forall in E.
  specialize (E r Hr). apply andb_true_iff in E. destruct E as [E1 E2]. apply N.ltb_lt in E1, E2. lia.
Qed.
