(** C06: the three remapping loops satisfy the contract the simulation theorem needs:
    after the call, the cost of (new right id, new left id) is the old cost of (right id, left id). *)
From Vib Require Import Model.Base Model.Remap.
From Coq Require Import Arith.

(** ** scattering *)
Lemma set_at_length {A} (l : list A) i v : length (set_at l i v) = length l.
Proof. revert i; induction l as [|x l IH]; intros [|i]; cbn; auto. Qed.

Lemma nth_set_at_same {A} (l : list A) i v d : (i < length l)%nat -> nth i (set_at l i v) d = v.
Proof. revert i; induction l as [|x l IH]; intros [|i] H; cbn in *; try lia; auto. apply IH. lia. Qed.

Lemma nth_set_at_other {A} (l : list A) i j v d : i <> j -> nth j (set_at l i v) d = nth j l d.
Proof. revert i j; induction l as [|x l IH]; intros [|i] [|j] H; cbn; auto; try congruence. Qed.

Lemma scatter_length {A} (moves : list (nat * A)) : forall init, length (scatter init moves) = length init.
Proof. unfold scatter. induction moves as [|m moves IH]; intros init; cbn [fold_left]; [reflexivity|]. rewrite IH. apply set_at_length. Qed.

Lemma scatter_other {A} (moves : list (nat * A)) d j : forall init, ~ In j (map fst moves) -> nth j (scatter init moves) d = nth j init d.
Proof.
  unfold scatter. induction moves as [|m moves IH]; intros init H; cbn [fold_left]; [reflexivity|].
  rewrite IH by (intros Hin; apply H; now right). apply nth_set_at_other. intros E. apply H. left. exact E.
Qed.

Lemma scatter_spec {A} (moves : list (nat * A)) d : forall init, NoDup (map fst moves) ->
  (forall m, In m moves -> (fst m < length init)%nat) ->
  forall m, In m moves -> nth (fst m) (scatter init moves) d = snd m.
Proof.
  induction moves as [|m0 moves IH]; intros init Hnd Hb m Hin; [destruct Hin|].
  cbn [map] in Hnd. inversion Hnd as [|? ? Hnotin Hnd']; subst. unfold scatter. cbn [fold_left].
  destruct Hin as [<-|Hin].
  - fold (scatter (set_at init (fst m0) (snd m0)) moves). rewrite scatter_other by exact Hnotin.
    apply nth_set_at_same. apply Hb. now left.
  - apply (IH (set_at init (fst m0) (snd m0)) Hnd'); [|exact Hin]. intros m' Hm'. rewrite set_at_length. apply Hb. now right.
Qed.

(** permutations of [0, n) *)
Definition perm (p : nat -> nat) (n : nat) : Prop :=
  (forall i, (i < n)%nat -> (p i < n)%nat) /\ (forall i j, (i < n)%nat -> (j < n)%nat -> p i = p j -> i = j).

Lemma nodup_map_inj {A B} (f : A -> B) l : NoDup l -> (forall x y, In x l -> In y l -> f x = f y -> x = y) -> NoDup (map f l).
Proof.
  induction 1 as [|x l Hx Hnd IH]; intros Hinj; cbn; [constructor|]. constructor.
  - intros Hin. apply in_map_iff in Hin. destruct Hin as (y & E & Hy). apply Hx. rewrite (Hinj x y); auto; [now left|now right].
  - apply IH. intros; apply Hinj; auto; now right.
Qed.

Lemma NoDup_app_intro {A} (l1 l2 : list A) : NoDup l1 -> NoDup l2 -> (forall x, In x l1 -> In x l2 -> False) -> NoDup (l1 ++ l2).
Proof.
  induction 1 as [|x l1 Hx Hnd IH]; intros H2 Hd; cbn; [exact H2|]. constructor.
  - intros Hin. apply in_app_or in Hin. destruct Hin as [Hin|Hin]; [contradiction|]. apply (Hd x); [now left|exact Hin].
  - apply IH; [exact H2|]. intros y Hy1 Hy2. apply (Hd y); [now right|exact Hy2].
Qed.

(** ** raw connector rows *)
Theorem map_rows_spec {A} (d : A) rows p i : perm p (length rows) -> (i < length rows)%nat ->
  nth (p i) (map_rows d rows p) d = nth i rows d.
Proof.
  intros [Hb Hinj] Hi. unfold map_rows.
  set (moves := map (fun i => (p i, nth i rows d)) (seq 0 (length rows))).
  change (nth i rows d) with (snd (p i, nth i rows d)). change (p i) with (fst (p i, nth i rows d)) at 1.
  apply scatter_spec.
  - subst moves. rewrite map_map. cbn [fst]. apply nodup_map_inj; [apply seq_NoDup|].
    intros x y Hx Hy. apply in_seq in Hx, Hy. apply Hinj; lia.
  - intros m Hm. subst moves. apply in_map_iff in Hm. destruct Hm as (j & <- & Hj). apply in_seq in Hj. cbn [fst].
    rewrite repeat_length. apply Hb. lia.
  - subst moves. apply in_map_iff. exists i. split; [reflexivity|apply in_seq; lia].
Qed.

Lemma map_rows_length {A} (d : A) rows p : length (map_rows d rows p) = length rows.
Proof. unfold map_rows. now rewrite scatter_length, repeat_length. Qed.

(** ** matrix connector *)
Lemma mat_index_inj nr r l r' l' : (r < nr)%nat -> (r' < nr)%nat -> mat_index nr r l = mat_index nr r' l' -> r = r' /\ l = l'.
Proof.
  unfold mat_index. intros Hr Hr' E.
  assert (l = l').
  { destruct (Nat.lt_trichotomy l l') as [H|[H|H]]; [exfalso|exact H|exfalso].
    - assert (l * nr + nr <= l' * nr)%nat by (replace (l * nr + nr)%nat with ((S l) * nr)%nat by lia; apply Nat.mul_le_mono_r; lia). lia.
    - assert (l' * nr + nr <= l * nr)%nat by (replace (l' * nr + nr)%nat with ((S l') * nr)%nat by lia; apply Nat.mul_le_mono_r; lia). lia. }
  subst. split; [lia|reflexivity].
Qed.

Lemma mat_index_lt nr nl r l : (r < nr)%nat -> (l < nl)%nat -> (mat_index nr r l < nr * nl)%nat.
Proof.
  unfold mat_index. intros Hr Hl.
  assert (l * nr + nr <= nl * nr)%nat by (replace (l * nr + nr)%nat with ((S l) * nr)%nat by lia; apply Nat.mul_le_mono_r; lia). lia.
Qed.

Theorem map_matrix_spec data nr nl pr pl r l : perm pr nr -> perm pl nl -> length data = (nr * nl)%nat ->
  (r < nr)%nat -> (l < nl)%nat ->
  mat_cost (map_matrix data nr nl pr pl) nr (pr r) (pl l) = mat_cost data nr r l.
Proof.
  intros [Hbr Hir] [Hbl Hil] Hlen Hr Hl. unfold mat_cost, map_matrix.
  set (moves := flat_map (fun r0 => map (fun l0 => (mat_index nr (pr r0) (pl l0), nth (mat_index nr r0 l0) data 0%Z)) (seq 0 nl)) (seq 0 nr)).
  change (nth (mat_index nr r l) data 0%Z) with (snd (mat_index nr (pr r) (pl l), nth (mat_index nr r l) data 0%Z)).
  change (mat_index nr (pr r) (pl l)) with (fst (mat_index nr (pr r) (pl l), nth (mat_index nr r l) data 0%Z)) at 1.
  assert (Hmoves : forall m, In m moves <-> exists r0 l0, (r0 < nr)%nat /\ (l0 < nl)%nat /\ m = (mat_index nr (pr r0) (pl l0), nth (mat_index nr r0 l0) data 0%Z)).
  { intros m. subst moves. rewrite in_flat_map. split.
    - intros (r0 & Hr0 & Hm). apply in_map_iff in Hm. destruct Hm as (l0 & <- & Hl0). apply in_seq in Hr0, Hl0. exists r0, l0. repeat split; lia.
    - intros (r0 & l0 & Hr0 & Hl0 & ->). exists r0. split; [apply in_seq; lia|]. apply in_map_iff. exists l0. split; [reflexivity|apply in_seq; lia]. }
  apply scatter_spec.
  - (* destinations are pairwise distinct *)
    subst moves. clear Hmoves.
    assert (G : forall rs, NoDup rs -> (forall x, In x rs -> (x < nr)%nat) ->
              NoDup (map fst (flat_map (fun r0 => map (fun l0 => (mat_index nr (pr r0) (pl l0), nth (mat_index nr r0 l0) data 0%Z)) (seq 0 nl)) rs))).
    { induction 1 as [|x rs Hx Hnd IH]; intros Hb; cbn [flat_map map]; [constructor|].
      rewrite map_app. apply NoDup_app_intro.
      - rewrite map_map. cbn [fst]. apply nodup_map_inj; [apply seq_NoDup|].
        intros a b Ha Hb0 E. apply in_seq in Ha, Hb0.
        destruct (mat_index_inj nr (pr x) (pl a) (pr x) (pl b)) as [_ E2]; [apply Hbr, Hb; now left|apply Hbr, Hb; now left|exact E|]. apply Hil; lia.
      - apply IH. intros; apply Hb; now right.
      - intros d Hd1 Hd2. rewrite map_map in Hd1. cbn [fst] in Hd1. apply in_map_iff in Hd1. destruct Hd1 as (a & <- & Ha). apply in_seq in Ha.
        apply in_map_iff in Hd2. destruct Hd2 as (m & Em & Hm). apply in_flat_map in Hm. destruct Hm as (x' & Hx' & Hm).
        apply in_map_iff in Hm. destruct Hm as (b & <- & Hb0). cbn [fst] in Em. apply in_seq in Hb0.
        destruct (mat_index_inj nr (pr x') (pl b) (pr x) (pl a)) as [E1 _]; [apply Hbr, Hb; now right|apply Hbr, Hb; now left|exact Em|].
        apply Hir in E1; [subst x'; contradiction|apply Hb; now right|apply Hb; now left]. }
    apply G; [apply seq_NoDup|]. intros x Hx. apply in_seq in Hx. lia.
  - intros m Hm. apply Hmoves in Hm. destruct Hm as (r0 & l0 & Hr0 & Hl0 & ->). cbn [fst]. rewrite repeat_length, Hlen.
    apply mat_index_lt; [apply Hbr|apply Hbl]; assumption.
  - apply Hmoves. exists r, l. auto.
Qed.

(** an injective map of [0, n) into itself is onto *)
Lemma perm_surj p n k : perm p n -> (k < n)%nat -> exists j, (j < n)%nat /\ p j = k.
Proof.
  intros [Hb Hinj] Hk.
  assert (Hnd : NoDup (map p (seq 0 n))).
  { apply nodup_map_inj; [apply seq_NoDup|]. intros x y Hx Hy. apply in_seq in Hx, Hy. apply Hinj; lia. }
  assert (Hincl : incl (map p (seq 0 n)) (seq 0 n)).
  { intros y Hy. apply in_map_iff in Hy. destruct Hy as (x & <- & Hx). apply in_seq in Hx. apply in_seq. specialize (Hb x ltac:(lia)). lia. }
  assert (Hlen : (length (seq 0 n) <= length (map p (seq 0 n)))%nat) by (rewrite map_length; lia).
  pose proof (NoDup_length_incl Hnd Hlen Hincl) as Hrev.
  specialize (Hrev k ltac:(apply in_seq; lia)). apply in_map_iff in Hrev. destruct Hrev as (j & E & Hj). apply in_seq in Hj. exists j. split; [lia|exact E].
Qed.

(** ** dual connector: renumbering of the matrix rows by first appearance *)
Record TInv (tbl : list (nat * nat)) (next : nat) : Prop := {
  ti_keys : NoDup (map fst tbl);
  ti_vals : forall e, In e tbl -> (snd e < next)%nat;
  ti_inj : forall e1 e2, In e1 tbl -> In e2 tbl -> snd e1 = snd e2 -> e1 = e2;
  ti_len : length tbl = next }.

Lemma find_key_in (tbl : list (nat * nat)) i e : find (fun e => Nat.eqb (fst e) i) tbl = Some e -> In e tbl /\ fst e = i.
Proof. intros H. apply find_some in H. destruct H as [H1 H2]. apply Nat.eqb_eq in H2. auto. Qed.

Lemma find_key_none (tbl : list (nat * nat)) i : find (fun e => Nat.eqb (fst e) i) tbl = None -> ~ In i (map fst tbl).
Proof.
  intros H Hin. apply in_map_iff in Hin. destruct Hin as (e & <- & He).
  pose proof (find_none _ _ H e He) as Hf. cbn in Hf. now rewrite Nat.eqb_refl in Hf.
Qed.

Lemma tbl_get_in tbl k v : NoDup (map fst tbl) -> In (k, v) tbl -> tbl_get tbl k = v.
Proof.
  intros Hnd Hin. unfold tbl_get. destruct (find (fun e => Nat.eqb (fst e) k) tbl) as [e|] eqn:E.
  - destruct (find_key_in _ _ _ E) as [He Hk]. destruct e as [k' v']. cbn in *. subst k'.
    clear E. induction tbl as [|[a b] tbl IH]; [destruct Hin|]. cbn [map fst] in Hnd. inversion Hnd; subst.
    destruct Hin as [Hin|Hin]; destruct He as [He|He]; try congruence.
    + inversion Hin; subst. exfalso. apply H1. apply in_map_iff. exists (k, v'). auto.
    + inversion He; subst. exfalso. apply H1. apply in_map_iff. exists (k, v). auto.
    + auto.
  - exfalso. apply (find_key_none _ _ E). apply in_map_iff. exists (k, v). auto.
Qed.

Lemma renumber_spec ids : forall tbl next res tbl', TInv tbl next -> renumber ids tbl next = (res, tbl') ->
  exists next', TInv tbl' next' /\ (forall e, In e tbl -> In e tbl') /\ length res = length ids /\
    (forall k, (k < length ids)%nat -> In (nth k ids 0%nat, nth k res 0%nat) tbl') /\
    (forall e, In e tbl' -> In e tbl \/ In (fst e) ids).
Proof.
  induction ids as [|i ids IH]; intros tbl next res tbl' I H; cbn [renumber] in H.
  - inversion H; subst. exists next. split; [exact I|]. split; [auto|]. split; [reflexivity|]. split; [intros k Hk; cbn in Hk; lia|]. intros e He; now left.
  - destruct (find (fun e => Nat.eqb (fst e) i) tbl) as [e|] eqn:Ef.
    + destruct (renumber ids tbl next) as [r t'] eqn:Er. inversion H; subst res tbl'; clear H.
      destruct (IH _ _ _ _ I Er) as (n' & I' & Hext & Hlen & Hnth & Hsrc).
      destruct (find_key_in _ _ _ Ef) as [He Hk].
      exists n'. split; [exact I'|]. split; [exact Hext|]. split; [cbn; now rewrite Hlen|]. split.
      * intros [|k] Hk'; cbn [nth]; [destruct e as [a b]; cbn in *; subst a; now apply Hext|apply Hnth; cbn in Hk'; lia].
      * intros e' He'. destruct (Hsrc e' He') as [H|H]; [now left|right; now right].
    + destruct (renumber ids ((i, next) :: tbl) (S next)) as [r t'] eqn:Er. inversion H; subst res tbl'; clear H.
      assert (I1 : TInv ((i, next) :: tbl) (S next)).
      { constructor.
        - cbn [map fst]. constructor; [now apply find_key_none|exact (ti_keys _ _ I)].
        - intros e [<-|He]; cbn; [lia|]. pose proof (ti_vals _ _ I e He). lia.
        - intros e1 e2 [<-|H1] [<-|H2] E; cbn in *; auto.
          + pose proof (ti_vals _ _ I e2 H2). lia.
          + pose proof (ti_vals _ _ I e1 H1). lia.
          + now apply (ti_inj _ _ I).
        - cbn. now rewrite (ti_len _ _ I). }
      destruct (IH _ _ _ _ I1 Er) as (n' & I' & Hext & Hlen & Hnth & Hsrc).
      exists n'. split; [exact I'|]. split; [intros e He; apply Hext; now right|]. split; [cbn; now rewrite Hlen|]. split.
      * intros [|k] Hk'; cbn [nth]; [apply Hext; now left|apply Hnth; cbn in Hk'; lia].
      * intros e' He'. destruct (Hsrc e' He') as [[<-|H]|H]; [right; now left|now left|right; now right].
Qed.

Lemma tinv_nil : TInv [] 0.
Proof. constructor; cbn; [constructor|intros e []|intros e1 e2 []|reflexivity]. Qed.

(** the renumbering is a permutation of the rows when every row number below [m] occurs *)
Lemma renumber_perm ids m res tbl' : renumber ids [] 0 = (res, tbl') ->
  (forall k, (k < length ids)%nat -> (nth k ids 0 < m)%nat) -> (forall a, (a < m)%nat -> In a ids) ->
  perm (tbl_get tbl') m /\ forall k, (k < length ids)%nat -> nth k res 0%nat = tbl_get tbl' (nth k ids 0%nat).
Proof.
  intros H Hb Hall. destruct (renumber_spec ids [] 0 res tbl' tinv_nil H) as (n' & I' & _ & Hlen & Hnth & Hsrc).
  assert (Hget : forall k, (k < length ids)%nat -> nth k res 0%nat = tbl_get tbl' (nth k ids 0%nat)).
  { intros k Hk. symmetry. apply tbl_get_in; [exact (ti_keys _ _ I')|now apply Hnth]. }
  split; [|exact Hget].
  assert (Hkeys : forall a, (a < m)%nat -> exists v, In (a, v) tbl').
  { intros a Ha. destruct (In_nth _ _ 0%nat (Hall a Ha)) as (k & Hk & E). exists (nth k res 0%nat). rewrite <- E. now apply Hnth. }
  assert (Hn' : (n' <= m)%nat).
  { rewrite <- (ti_len _ _ I'). rewrite <- (map_length fst). rewrite <- (seq_length m 0).
    apply NoDup_incl_length; [exact (ti_keys _ _ I')|]. intros a Ha. apply in_map_iff in Ha. destruct Ha as (e & <- & He).
    destruct (Hsrc e He) as [[]|Hin]. destruct (In_nth _ _ 0%nat Hin) as (k & Hk & <-). apply in_seq. specialize (Hb k Hk). lia. }
  split.
  - intros a Ha. destruct (Hkeys a Ha) as [v Hv]. rewrite (tbl_get_in tbl' a v (ti_keys _ _ I') Hv).
    pose proof (ti_vals _ _ I' _ Hv). cbn in *. lia.
  - intros a b Ha Hb' E. destruct (Hkeys a Ha) as [va Hva]. destruct (Hkeys b Hb') as [vb Hvb].
    rewrite (tbl_get_in tbl' a va (ti_keys _ _ I') Hva), (tbl_get_in tbl' b vb (ti_keys _ _ I') Hvb) in E. subst vb.
    pose proof (ti_inj _ _ I' _ _ Hva Hvb eq_refl) as E2. now inversion E2.
Qed.

Theorem map_dual_spec dm pr pl r l :
  perm pr (length (dm_rmap dm)) -> perm pl (length (dm_lmap dm)) ->
  length (dm_rfeat dm) = length (dm_rmap dm) -> length (dm_lfeat dm) = length (dm_lmap dm) ->
  (forall k, (k < length (dm_rmap dm))%nat -> (nth k (dm_rmap dm) 0 < dm_mr dm)%nat) -> (forall a, (a < dm_mr dm)%nat -> In a (dm_rmap dm)) ->
  (forall k, (k < length (dm_lmap dm))%nat -> (nth k (dm_lmap dm) 0 < dm_ml dm)%nat) -> (forall a, (a < dm_ml dm)%nat -> In a (dm_lmap dm)) ->
  length (dm_matrix dm) = (dm_mr dm * dm_ml dm)%nat ->
  (r < length (dm_rmap dm))%nat -> (l < length (dm_lmap dm))%nat ->
  dual_view (map_dual dm pr pl) (pr r) (pl l) = dual_view dm r l.
Proof.
  intros Ppr Ppl LFr LFl Br Ur Bl Ul Lm Hr Hl. unfold map_dual.
  destruct (renumber (map_rows 0%nat (dm_rmap dm) pr) [] 0) as [rmap2 tr] eqn:Er.
  destruct (renumber (map_rows 0%nat (dm_lmap dm) pl) [] 0) as [lmap2 tl] eqn:El.
  (* every row still occurs after the scattering, entries stay in range *)
  assert (Scat : forall (ids : list nat) p m, perm p (length ids) ->
            (forall k, (k < length ids)%nat -> (nth k ids 0 < m)%nat) -> (forall a, (a < m)%nat -> In a ids) ->
            (forall k, (k < length (map_rows 0%nat ids p))%nat -> (nth k (map_rows 0%nat ids p) 0 < m)%nat) /\
            (forall a, (a < m)%nat -> In a (map_rows 0%nat ids p))).
  { intros ids p m Pp Bb Uu. split.
    - intros k Hk. rewrite map_rows_length in Hk.
      destruct (perm_surj p (length ids) k Pp Hk) as (j & Hj & <-). rewrite (map_rows_spec 0%nat ids p j Pp Hj). now apply Bb.
    - intros a Ha. destruct (In_nth _ _ 0%nat (Uu a Ha)) as (j & Hj & <-). rewrite <- (map_rows_spec 0%nat ids p j Pp Hj).
      apply nth_In. rewrite map_rows_length. now apply (proj1 Pp). }
  destruct (Scat (dm_rmap dm) pr (dm_mr dm) Ppr Br Ur) as [Br1 Ur1]. destruct (Scat (dm_lmap dm) pl (dm_ml dm) Ppl Bl Ul) as [Bl1 Ul1].
  destruct (renumber_perm _ (dm_mr dm) _ _ Er Br1 Ur1) as [Psr Gr]. destruct (renumber_perm _ (dm_ml dm) _ _ El Bl1 Ul1) as [Psl Gl].
  unfold dual_view. cbn [dm_rmap dm_lmap dm_rfeat dm_lfeat dm_matrix dm_mr dm_ml].
  rewrite Gr by (rewrite map_rows_length; now apply (proj1 Ppr)). rewrite Gl by (rewrite map_rows_length; now apply (proj1 Ppl)).
  rewrite (map_rows_spec 0%nat (dm_rmap dm) pr r Ppr Hr), (map_rows_spec 0%nat (dm_lmap dm) pl l Ppl Hl).
  rewrite (map_matrix_spec (dm_matrix dm) (dm_mr dm) (dm_ml dm) _ _ _ _ Psr Psl Lm (Br r Hr) (Bl l Hl)).
  rewrite <- LFr in Ppr, Hr. rewrite <- LFl in Ppl, Hl.
  now rewrite (map_rows_spec [] (dm_rfeat dm) pr r Ppr Hr), (map_rows_spec [] (dm_lfeat dm) pl l Ppl Hl).
Qed.
