(** A generic induction principle over the [while] loop of [build_lattice_inner] for
    properties of the stored nodes, and its instances used by C01 / C03 / C08 / C12. *)
From Vib Require Import Model.Base Model.Lattice Model.Tokenizer Proofs.Viterbi Proofs.TokenizerProofs Proofs.CountProofs.
From Coq Require Import Arith.

Definition all_nodes (L : lattice) (phi : node -> Prop) : Prop := forall e n, In n (at_ L e) -> phi n.

Lemma insert_node_nodes conn L sn sw e lex wid lid rid wc L' (phi : node -> Prop) :
  all_nodes L phi -> (forall i c, phi (mk_node sn sw e lex wid lid rid wc i c)) ->
  insert_node conn L sn sw e lex wid lid rid wc = Some L' -> all_nodes L' phi.
Proof.
  intros HL Hn H. unfold insert_node in H.
  destruct (search_min conn L sn lid) as [[i c]|]; [|discriminate].
  destruct (_ && _); [|discriminate]. inversion H; subst L'. intros j n Hin.
  destruct (Nat.eq_dec j e) as [->|Hne].
  - rewrite at_push_same in Hin. apply in_app_or in Hin. destruct Hin as [Hin|[<-|[]]]; [eauto|apply Hn].
  - rewrite at_push_other in Hin by exact Hne. eauto.
Qed.

Lemma insert_all_nodes conn (phi : node -> Prop) cs : forall L sn L',
  all_nodes L phi ->
  (forall c, In c cs -> forall i mc, phi (mk_node sn (c_sw c) (c_end c) (c_lex c) (c_wid c) (c_lid c) (c_rid c) (c_wc c) i mc)) ->
  insert_all conn L sn cs = Some L' -> all_nodes L' phi.
Proof.
  induction cs as [|c cs IH]; intros L sn L' HL Hc H; simpl in H; [inversion H; subst; exact HL|].
  destruct (insert_node conn L sn (c_sw c) (c_end c) (c_lex c) (c_wid c) (c_lid c) (c_rid c) (c_wc c)) as [L1|] eqn:E; [|discriminate].
  eapply IH; [|intros c' Hc'; apply Hc; now right|exact H].
  eapply insert_node_nodes; [exact HL| |exact E]. apply Hc. now left.
Qed.

(** where a word may start relative to the boundary [sn] it connects to *)
Definition word_start (o : options) (s : sentence) (sn sw : nat) : Prop :=
  (is_space o (s_ci s sn) = false /\ sw = sn) \/ (is_space o (s_ci s sn) = true /\ sw = (sn + s_grp s sn)%nat).

Lemma scan_nodes d o s (phi : node -> Prop) :
  (forall sn sw c, (sn <= sw < s_len s)%nat -> word_start o s sn sw -> In c (candidates d o s sw) ->
     forall i mc, phi (mk_node sn (c_sw c) (c_end c) (c_lex c) (c_wid c) (c_lid c) (c_rid c) (c_wc c) i mc)) ->
  forall fuel sn sw L L' sn', sn = sw -> all_nodes L phi ->
  scan d o s fuel sn sw L = Done (L', sn') -> all_nodes L' phi.
Proof.
  intros Hphi. induction fuel as [|f IH]; intros sn sw L L' sn' Eq HL H; cbn [scan] in H; [discriminate|]. subst sw.
  destruct (Nat.leb (s_len s) sn) eqn:E1; [inversion H; subst; exact HL|]. apply Nat.leb_gt in E1.
  destruct (negb (has_prev L sn)); [eapply (IH (S sn) (S sn)); eauto|].
  set (sw' := if is_space o (s_ci s sn) then (sn + s_grp s sn)%nat else sn) in *.
  assert (Hws : word_start o s sn sw').
  { subst sw'. unfold word_start. destruct (is_space o (s_ci s sn)); auto. }
  assert (Hle : (sn <= sw')%nat) by (destruct Hws as [[_ ->]|[_ ->]]; lia).
  destruct (Nat.eqb sw' (s_len s)) eqn:E2; [inversion H; subst; exact HL|]. apply Nat.eqb_neq in E2.
  destruct (Nat.ltb (s_len s) sw') eqn:E3; [discriminate|]. apply Nat.ltb_ge in E3.
  destruct (insert_all (conn_of d) L sn (candidates d o s sw')) as [L1|] eqn:E; [|discriminate].
  eapply (IH (S sw') (S sw') L1); eauto.
  eapply insert_all_nodes; [exact HL| |exact E].
  intros c Hc. apply (Hphi sn sw'); auto. lia.
Qed.

Lemma reset_nodes L len (phi : node -> Prop) : phi bos -> all_nodes (reset L len) phi.
Proof.
  intros Hb e n Hn. destruct (Nat.eq_dec e 0) as [->|Hne].
  - rewrite reset_at0 in Hn. destruct Hn as [<-|[]]. exact Hb.
  - rewrite reset_at_other in Hn by exact Hne. destruct Hn.
Qed.

(** where the scan stops: at the end of the sentence, or at a boundary whose following
    characters up to the end are one skipped space run *)
Lemma scan_stop d o s : forall fuel sn sw L L' sn', sn = sw -> (sn <= s_len s)%nat ->
  scan d o s fuel sn sw L = Done (L', sn') ->
  sn' = s_len s \/ ((sn' < s_len s)%nat /\ has_prev L' sn' = true /\ is_space o (s_ci s sn') = true
                      /\ (sn' + s_grp s sn')%nat = s_len s).
Proof.
  induction fuel as [|f IH]; intros sn sw L L' sn' Eq Hb H; cbn [scan] in H; [discriminate|]. subst sw.
  destruct (Nat.leb (s_len s) sn) eqn:E1; [inversion H; subst; apply Nat.leb_le in E1; left; lia|]. apply Nat.leb_gt in E1.
  destruct (negb (has_prev L sn)) eqn:Ehp; [eapply (IH (S sn) (S sn)); eauto|].
  destruct (is_space o (s_ci s sn)) eqn:Esp.
  - destruct (Nat.eqb (sn + s_grp s sn) (s_len s)) eqn:E2.
    + inversion H; subst. apply Nat.eqb_eq in E2. right. apply negb_false_iff in Ehp. auto.
    + destruct (Nat.ltb (s_len s) (sn + s_grp s sn)) eqn:E3; [discriminate|]. apply Nat.ltb_ge in E3. apply Nat.eqb_neq in E2.
      destruct (insert_all _ _ _ _) as [L1|]; [|discriminate].
      eapply (IH (S (sn + s_grp s sn)) (S (sn + s_grp s sn)) L1); eauto. lia.
  - destruct (Nat.eqb sn (s_len s)) eqn:E2; [apply Nat.eqb_eq in E2; lia|].
    destruct (Nat.ltb (s_len s) sn); [discriminate|].
    destruct (insert_all _ _ _ _) as [L1|]; [|discriminate].
    eapply (IH (S sn) (S sn) L1); eauto.
Qed.

(** the loop never runs out of the fuel [build_lattice] gives it *)
Lemma scan_fuel d o s : forall fuel sn sw L, (s_len s < fuel + sw)%nat -> (sw <= s_len s)%nat ->
  scan d o s fuel sn sw L <> OutOfFuel.
Proof.
  induction fuel as [|f IH]; intros sn sw L Hf Hb; cbn [scan]; [lia|].
  destruct (Nat.leb (s_len s) sw) eqn:E1; [discriminate|]. apply Nat.leb_gt in E1.
  destruct (negb (has_prev L sn)); [apply IH; lia|].
  match goal with |- context [Nat.eqb ?x (s_len s)] => set (sw' := x) end.
  assert (sw <= sw')%nat by (subst sw'; destruct (is_space _ _); lia).
  destruct (Nat.eqb sw' (s_len s)) eqn:E2; [discriminate|]. apply Nat.eqb_neq in E2.
  destruct (Nat.ltb (s_len s) sw') eqn:E3; [discriminate|]. apply Nat.ltb_ge in E3.
  destruct (insert_all _ _ _ _); [apply IH; lia|discriminate].
Qed.
