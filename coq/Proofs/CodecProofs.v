(** Laws of the codec combinators: decoding an encoding followed by anything returns the value
    and the rest (round trip), and NO STRICT PREFIX of an encoding decodes (truncation). *)
From Vib Require Import Model.Base Model.Codec.
From Coq Require Import Arith.
Local Open Scope N_scope.

Definition strict_prefix (p l : bytes) : Prop := exists s, s <> [] /\ l = p ++ s.

(** values a codec is meant for, and its two laws *)
Record laws {A} (c : codec A) (dom : A -> Prop) : Prop := {
  law_rt : forall a r, dom a -> dec c (enc c a ++ r) = Some (a, r);
  law_cut : forall a p, dom a -> strict_prefix p (enc c a) -> dec c p = None }.

(** ** integers *)
Lemma rd_wr_le w : forall x r, x < 256 ^ N.of_nat w -> rd_le w (wr_le w x ++ r) = Some (x, r).
Proof.
  induction w as [|w IH]; intros x r Hx.
  - cbn in *. assert (x = 0) by lia. subst. reflexivity.
  - cbn [wr_le rd_le app]. rewrite IH.
    + f_equal. f_equal. rewrite (N.div_mod x 256) at 3 by lia. lia.
    + rewrite Nat2N.inj_succ, N.pow_succ_r' in Hx. apply N.div_lt_upper_bound; lia.
Qed.

Lemma wr_le_length w x : length (wr_le w x) = w.
Proof. revert x; induction w; intros x; simpl; auto. Qed.

Lemma rd_le_short w : forall p, (length p < w)%nat -> rd_le w p = None.
Proof.
  induction w as [|w IH]; intros p H; [lia|]. destruct p as [|b t]; [reflexivity|].
  cbn [rd_le]. rewrite IH by (simpl in H; lia). reflexivity.
Qed.

Lemma strict_prefix_length p l : strict_prefix p l -> (length p < length l)%nat.
Proof. intros (s & Hs & ->). rewrite app_length. destruct s; [congruence|simpl; lia]. Qed.

Lemma uint_laws w : laws (uint w) (fun x => x < 256 ^ N.of_nat w).
Proof.
  constructor; cbn.
  - intros a r H. now apply rd_wr_le.
  - intros a p _ H. apply rd_le_short. apply strict_prefix_length in H. now rewrite wr_le_length in H.
Qed.

(** ** a strict prefix of [x ++ y] is a strict prefix of [x], or [x] followed by a strict prefix of [y] *)
Lemma prefix_split p x y : strict_prefix p (x ++ y) ->
  strict_prefix p x \/ exists q, p = x ++ q /\ strict_prefix q y.
Proof.
  revert p. induction x as [|a x IH]; intros p (s & Hs & E).
  - right. exists p. split; [reflexivity|]. exists s. auto.
  - destruct p as [|b p].
    + left. exists (a :: x). split; [discriminate|reflexivity].
    + cbn in E. inversion E; subst b. destruct (IH p) as [(s' & Hs' & E')|(q & -> & Hq)].
      * exists s. auto.
      * left. exists s'. split; [exact Hs'|]. cbn. now rewrite E'.
      * right. exists q. auto.
Qed.

Lemma pair_laws {A B} (ca : codec A) (cb : codec B) da db : laws ca da -> laws cb db ->
  laws (pair_c ca cb) (fun ab => da (fst ab) /\ db (snd ab)).
Proof.
  intros La Lb. constructor; cbn.
  - intros [a b] r [Ha Hb]. cbn. rewrite <- app_assoc, (law_rt _ _ La), (law_rt _ _ Lb); auto.
  - intros [a b] p [Ha Hb] H. cbn in *. destruct (prefix_split _ _ _ H) as [H1|(q & -> & Hq)].
    + now rewrite (law_cut _ _ La a p Ha H1).
    + rewrite (law_rt _ _ La a q Ha), (law_cut _ _ Lb b q Hb Hq). reflexivity.
Qed.

Lemma enc_list_cons {A} (ca : codec A) a l : enc_list ca (a :: l) = enc ca a ++ enc_list ca l.
Proof. reflexivity. Qed.

Lemma dec_n_rt {A} (ca : codec A) da : laws ca da -> forall l r, Forall da l ->
  dec_n ca (length l) (enc_list ca l ++ r) = Some (l, r).
Proof.
  intros La. induction l as [|a l IH]; intros r F; [reflexivity|].
  inversion F; subst. cbn [length dec_n]. rewrite enc_list_cons. rewrite <- app_assoc.
  rewrite (law_rt _ _ La) by assumption. now rewrite IH.
Qed.

Lemma dec_n_cut {A} (ca : codec A) da : laws ca da -> forall l p, Forall da l ->
  strict_prefix p (enc_list ca l) -> dec_n ca (length l) p = None.
Proof.
  intros La. induction l as [|a l IH]; intros p F H.
  - destruct H as (s & Hs & E). destruct p; [destruct s; [congruence|discriminate]|discriminate].
  - inversion F; subst. cbn [length dec_n]. rewrite enc_list_cons in H.
    destruct (prefix_split _ _ _ H) as [H1|(q & -> & Hq)].
    + now rewrite (law_cut _ _ La a p).
    + rewrite (law_rt _ _ La a q) by assumption. now rewrite (IH q).
Qed.

Lemma vec_laws {A} (ca : codec A) da : laws ca da ->
  laws (vec_c ca) (fun l => Forall da l /\ N.of_nat (length l) < 256 ^ 8).
Proof.
  intros La. constructor; cbn [enc dec vec_c].
  - intros l r [F Hn]. rewrite <- app_assoc, rd_wr_le by exact Hn. rewrite Nat2N.id. now apply (dec_n_rt ca da).
  - intros l p [F Hn] H. destruct (prefix_split _ _ _ H) as [H1|(q & -> & Hq)].
    + apply strict_prefix_length in H1. rewrite wr_le_length in H1. now rewrite rd_le_short.
    + rewrite rd_wr_le by exact Hn. rewrite Nat2N.id. now apply (dec_n_cut ca da).
Qed.

Lemma option_laws {A} (ca : codec A) da : laws ca da ->
  laws (option_c ca) (fun o => match o with Some a => da a | None => True end).
Proof.
  intros La. constructor; cbn.
  - intros [a|] r H; cbn; [now rewrite (law_rt _ _ La)|reflexivity].
  - intros [a|] p H (s & Hs & E); cbn in E.
    + destruct p as [|b p]; [reflexivity|]. inversion E; subst b. rewrite (law_cut _ _ La a p H); [reflexivity|].
      exists s. auto.
    + destruct p as [|b p]; [reflexivity|]. inversion E as [[E1 E2]]. destruct p; [destruct s; [congruence|discriminate]|discriminate].
Qed.

Lemma guard_laws {A} (ca : codec A) da (ok : A -> bool) : laws ca da ->
  laws (guard_c ca ok) (fun a => da a /\ ok a = true).
Proof.
  intros La. constructor; cbn.
  - intros a r [Ha Hok]. now rewrite (law_rt _ _ La), Hok.
  - intros a p [Ha _] H. now rewrite (law_cut _ _ La a p).
Qed.

Lemma iso_laws {A B} (ca : codec A) da (f : A -> B) (g : B -> A) : laws ca da -> (forall b, f (g b) = b) ->
  laws (iso_c ca f g) (fun b => da (g b)).
Proof.
  intros La Hfg. constructor; cbn.
  - intros b r H. rewrite (law_rt _ _ La) by exact H. now rewrite Hfg.
  - intros b p H Hp. now rewrite (law_cut _ _ La (g b) p).
Qed.

Lemma sum3_laws {A B C} (ca : codec A) (cb : codec B) (cc : codec C) da db dc :
  laws ca da -> laws cb db -> laws cc dc ->
  laws (sum3_c ca cb cc) (fun s => match s with In1 a => da a | In2 b => db b | In3 c => dc c end).
Proof.
  intros La Lb Lc. constructor; cbn [enc dec sum3_c].
  - intros [a|b|c] r H; rewrite <- app_assoc, rd_wr_le by (cbn; lia); cbn [N.eqb Pos.eqb];
      [now rewrite (law_rt _ _ La)|now rewrite (law_rt _ _ Lb)|now rewrite (law_rt _ _ Lc)].
  - intros [a|b|c] p H Hp; destruct (prefix_split _ _ _ Hp) as [H1|(q & -> & Hq)];
      try (apply strict_prefix_length in H1; rewrite wr_le_length in H1; now rewrite rd_le_short);
      rewrite rd_wr_le by (cbn; lia); cbn [N.eqb Pos.eqb];
      [now rewrite (law_cut _ _ La a q)|now rewrite (law_cut _ _ Lb b q)|now rewrite (law_cut _ _ Lc c q)].
Qed.

Lemma laws_weaken {A} (c : codec A) (d d' : A -> Prop) : laws c d -> (forall a, d' a -> d a) -> laws c d'.
Proof. intros L H. constructor; intros; [apply (law_rt _ _ L)|apply (law_cut _ _ L a p)]; auto. Qed.

Lemma array_laws {A} (ca : codec A) da n : laws ca da ->
  laws (array_c ca n) (fun l => Forall da l /\ length l = n).
Proof.
  intros La. constructor; cbn [enc dec array_c].
  - intros l r [F <-]. now apply (dec_n_rt ca da).
  - intros l p [F <-] H. now apply (dec_n_cut ca da).
Qed.
