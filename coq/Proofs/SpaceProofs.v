(** C12 (partial): with ignore_space and the property's precondition, whole space runs are
    skipped, no token contains a space character, and a sentence of spaces yields no token. *)
From Vib Require Import Model.Base Model.Lattice Model.Tokenizer Spec.CandSpec Proofs.Viterbi Proofs.TokenizerProofs
  Proofs.CountProofs Proofs.ScanInd Proofs.CandProofs Proofs.PartitionProofs.
From Coq Require Import Arith.

Section Pre.
Variable o : options.
Local Notation sp := (is_space o).

(** the property's precondition on the character infos of a sentence: space characters share a
    category with one another and with nobody else *)
Definition space_sep (cis : list cinfo) : Prop :=
  forall a b, In a cis -> In b cis ->
    (sp a = true -> sp b = true -> share a b = true) /\
    (sp a = true -> sp b = false -> share a b = false /\ share b a = false).

Fixpoint count_while (f : cinfo -> bool) (l : list cinfo) : nat :=
  match l with [] => 0 | x :: t => if f x then S (count_while f t) else 0 end.

Lemma space_sep_tl c t : space_sep (c :: t) -> space_sep t.
Proof. intros H a b Ha Hb. apply H; now right. Qed.

(** a space run is grouped as a whole and nothing else joins it *)
Lemma run_at_space cis : space_sep cis -> forall c t, cis = c :: t -> sp c = true ->
  run_at cis = count_while sp cis.
Proof.
  induction cis as [|c0 t0 IH]; intros Hs c t E Hc; [discriminate|]. inversion E; subst c0 t0; clear E.
  destruct t as [|c' t']; [cbn; now rewrite Hc|].
  rewrite run_at_cons2. cbn [count_while]. rewrite Hc.
  destruct (sp c') eqn:Ec'; destruct (Hs c c' ltac:(now left) ltac:(right; now left)) as [H1 H2].
  - rewrite (H1 Hc Ec'). f_equal. rewrite (IH (space_sep_tl _ _ Hs) c' t' eq_refl Ec'). cbn [count_while]. now rewrite Ec'.
  - destruct (H2 Hc Ec') as [-> _]. reflexivity.
Qed.

(** the run of a non-space character stays inside its space-free segment *)
Lemma run_at_nonspace cis : space_sep cis -> forall c t, cis = c :: t -> sp c = false ->
  (run_at cis <= count_while (fun x => negb (sp x)) cis)%nat.
Proof.
  induction cis as [|c0 t0 IH]; intros Hs c t E Hc; [discriminate|]. inversion E; subst c0 t0; clear E.
  destruct t as [|c' t']; [cbn; rewrite Hc; cbn; lia|].
  rewrite run_at_cons2. cbn [count_while]. rewrite Hc. cbn [negb].
  destruct (sp c') eqn:Ec'; destruct (Hs c' c ltac:(right; now left) ltac:(now left)) as [_ H2].
  - destruct (H2 Ec' Hc) as [_ ->]. lia.
  - cbn [negb]. specialize (IH (space_sep_tl _ _ Hs) c' t' eq_refl Ec').
    cbn [count_while] in IH. rewrite Ec' in IH. cbn [negb] in IH.
    destruct (share c c'); lia.
Qed.

Lemma count_while_all f l k : (k < count_while f l)%nat -> f (nth k l dummy_ci) = true.
Proof.
  revert k; induction l as [|x l IH]; intros k H; simpl in H; [lia|].
  destruct (f x) eqn:E; [|lia]. destruct k; simpl; [exact E|apply IH; lia].
Qed.

Lemma count_while_stop f l : (count_while f l < length l)%nat -> f (nth (count_while f l) l dummy_ci) = false.
Proof.
  induction l as [|x l IH]; intros H; simpl in *; [lia|].
  destruct (f x) eqn:E; simpl; [apply IH; lia|exact E].
Qed.
End Pre.

(** ** consequences for the tokenizer *)
Definition sent_space_sep (o : options) (s : sentence) : Prop := space_sep o (s_cinfos s).
(** no lexicon surface contains a space character *)
Definition lex_space_free (d : dict) (o : options) : Prop :=
  forall r, In r (d_sys d) \/ (exists u, d_user d = Some u /\ In r u) ->
  forall c, In c (lr_surface r) -> is_space o (char_info (d_chars d) c) = false.

Lemma s_ci_skipn (s : sentence) i : (i < length (s_cinfos s))%nat ->
  exists t, skipn i (s_cinfos s) = s_ci s i :: t.
Proof.
  intros H. unfold s_ci. revert i H. induction (s_cinfos s) as [|x l IH]; intros i H; simpl in H; [lia|].
  destruct i; simpl; [eauto|]. apply IH. lia.
Qed.

Lemma in_skipn {A} (x : A) l : forall i, In x (skipn i l) -> In x l.
Proof. induction l as [|y l IH]; intros [|i] H; simpl in *; auto. right. eapply IH; eauto. Qed.

Lemma space_sep_skipn o cis i : space_sep o cis -> space_sep o (skipn i cis).
Proof.
  intros H a b Ha Hb. apply H; eapply in_skipn; eauto.
Qed.

Lemma nth_skipn_ci (l : list cinfo) i k : nth k (skipn i l) dummy_ci = nth (i + k) l dummy_ci.
Proof.
  revert i; induction l as [|x l IH]; intros i; destruct i; simpl; auto; destruct k; auto.
Qed.

(** words start at a non-space character, right after the skipped run *)
Lemma word_start_nonspace o ct cs sn sw : sent_space_sep o (compile ct cs) -> (sw < length cs)%nat ->
  word_start o (compile ct cs) sn sw -> is_space o (s_ci (compile ct cs) sw) = false.
Proof.
  intros Hs Hsw [[Hsp ->]|[Hsp ->]]; [exact Hsp|].
  set (s := compile ct cs) in *.
  assert (Hl : length (s_cinfos s) = length cs) by (unfold s, compile; cbn; apply map_length).
  assert (Hsn : (sn < length cs)%nat) by (pose proof (s_grp_ge1 ct cs sn) as H; fold s in H; lia).
  destruct (s_ci_skipn s sn ltac:(lia)) as [t Et].
  pose proof (s_grp_run ct cs sn Hsn) as Eg. change (map (char_info ct) cs) with (s_cinfos s) in Eg. fold s in Eg.
  rewrite (run_at_space o _ (space_sep_skipn o _ sn Hs) _ _ Et Hsp) in Eg. rewrite Eg in Hsw |- *.
  unfold s_ci at 1. rewrite <- nth_skipn_ci. apply count_while_stop. rewrite skipn_length. lia.
Qed.

(** unknown words never reach beyond the run of their first character *)
Lemma gen_unk_end_le unk s sw hm mgl c : In c (gen_unk_words unk s sw hm mgl) -> (1 <= s_grp s sw)%nat ->
  c_sw c = sw /\ (c_end c <= sw + s_grp s sw)%nat.
Proof.
  intros Hc Hg. unfold gen_unk_words in Hc.
  assert (Hse : forall e base, In c (scan_entries unk sw e base) -> c_sw c = sw /\ c_end c = e).
  { intros e base H. unfold scan_entries in H. apply in_flat_map in H. destruct H as (ir & _ & H).
    destruct (ur_cate (snd ir) =? base)%N; [|destruct H]. destruct H as [<-|[]]. auto. }
  destruct (_ && negb (ci_invoke _)); [destruct Hc|].
  apply in_app_or in Hc. destruct Hc as [Hc|Hc].
  - match type of Hc with In _ (if ?b then _ else _) => destruct b end; [|destruct Hc].
    destruct (Hse _ _ Hc) as [-> ->]. split; [reflexivity|lia].
  - apply in_app_or in Hc. destruct Hc as [Hc|Hc].
    + apply in_flat_map in Hc. destruct Hc as (k & Hk & Hc).
      apply take_while_incl in Hk. apply filter_In in Hk. destruct Hk as [Hk _]. apply in_seq in Hk.
      destruct (Hse _ _ Hc) as [-> ->]. split; [reflexivity|lia].
    + match type of Hc with In _ (if ?b then _ else _) => destruct b end; [destruct Hc|].
      destruct (Hse _ _ Hc) as [-> ->]. split; [reflexivity|lia].
Qed.

Definition no_space_inside (o : options) (s : sentence) (n : node) : Prop :=
  n = bos \/ forall i, (n_sw n <= i < n_end n)%nat -> is_space o (s_ci s i) = false.

Lemma s_ci_compile ct cs i : (i < length cs)%nat -> s_ci (compile ct cs) i = char_info ct (nth i cs 0%N).
Proof.
  intros H. unfold s_ci, compile; cbn [s_cinfos].
  rewrite (nth_indep _ dummy_ci (char_info ct 0%N)) by (rewrite map_length; exact H). apply map_nth.
Qed.

Lemma nth_in_firstn {A} (l : list A) d : forall i e, (i < e)%nat -> (e <= length l)%nat -> In (nth i l d) (firstn e l).
Proof.
  induction l as [|x l IH]; intros i e Hi He; simpl in He; [lia|].
  destruct e as [|e]; [lia|]. destruct i as [|i]; simpl; [now left|right; apply IH; lia].
Qed.

Lemma slice_nth {A} (l : list A) d : forall s e i, (s <= i < e)%nat -> (e <= length l)%nat -> In (nth i l d) (slice l s e).
Proof.
  unfold slice. induction l as [|x l IH]; intros s e i Hi He; simpl in He; [lia|].
  destruct s as [|s].
  - rewrite Nat.sub_0_r. cbn [skipn]. apply nth_in_firstn; simpl; lia.
  - destruct e as [|e]; [lia|]. destruct i as [|i]; [lia|]. cbn [skipn nth]. replace (S e - S s)%nat with (e - s)%nat by lia.
    apply IH; lia.
Qed.

(** no stored word contains a space character *)
Theorem nodes_no_space d o cs L0 L eos :
  sent_space_sep o (compile (d_chars d) cs) -> lex_space_free d o ->
  build_lattice d o (compile (d_chars d) cs) L0 = Done (L, eos) ->
  all_nodes L (no_space_inside o (compile (d_chars d) cs)).
Proof.
  intros Hs Hlex H. unfold build_lattice in H. set (s := compile (d_chars d) cs) in *.
  destruct (scan d o s _ 0 0 _) as [[L1 sn]| |] eqn:Es; try discriminate.
  destruct (insert_eos _ _ _ _); [|discriminate]. inversion H; subst L1; clear H.
  eapply (scan_nodes d o s (no_space_inside o s)); [|reflexivity|apply reset_nodes; now left|exact Es].
  intros sn0 sw c Hsw Hws Hc i mc. right. cbn [n_sw n_end mk_node]. intros j Hj.
  assert (Hlen : s_len s = length cs) by reflexivity. rewrite Hlen in Hsw.
  pose proof (candidates_in d o (d_chars d) cs sw ltac:(lia)) as F. rewrite Forall_forall in F. fold s in F.
  destruct (F c Hc) as [Ecs Ece]. rewrite Ecs in Hj.
  pose proof (word_start_nonspace o (d_chars d) cs sn0 sw Hs ltac:(lia) Hws) as Hns. fold s in Hns.
  unfold candidates in Hc.
  assert (Hlexc : forall lex rows, (forall r, In r rows -> forall ch, In ch (lr_surface r) -> is_space o (char_info (d_chars d) ch) = false) ->
            In c (lex_matches lex rows sw (skipn sw (s_chars s))) -> is_space o (s_ci s j) = false).
  { intros lex rows Hrows Hin.
    pose proof (lex_matches_entry lex rows s sn0 sw c 0%nat 0%Z Hin) as [_ (r & Hr & _ & _ & _ & Hsf)].
    cbn [n_sw n_end mk_node] in Hsf. unfold s. rewrite s_ci_compile by lia.
    apply (Hrows r (nth_error_In _ _ Hr)). rewrite Hsf. rewrite Ecs. cbn [s_chars compile s].
    apply slice_nth; lia. }
  apply in_app_or in Hc. destruct Hc as [Hc|Hc].
  - destruct (d_user d) as [u|] eqn:Eu; [|destruct Hc].
    apply (Hlexc 1%N u); [|exact Hc]. intros r Hr. apply Hlex. right. eauto.
  - apply in_app_or in Hc. destruct Hc as [Hc|Hc].
    + apply (Hlexc 0%N (d_sys d)); [|exact Hc]. intros r Hr. apply Hlex. now left.
    + pose proof (s_grp_ge1 (d_chars d) cs sw) as Hg1. fold s in Hg1.
      destruct (gen_unk_end_le _ _ _ _ _ _ Hc Hg1) as [_ Hend].
      assert (Hl : length (s_cinfos s) = length cs) by (unfold s, compile; cbn; apply map_length).
      destruct (s_ci_skipn s sw ltac:(lia)) as [t Et].
      pose proof (s_grp_run (d_chars d) cs sw ltac:(lia)) as Eg. change (map (char_info (d_chars d)) cs) with (s_cinfos s) in Eg. fold s in Eg.
      pose proof (run_at_nonspace o _ (space_sep_skipn o _ sw Hs) _ _ Et Hns) as Hrun. rewrite <- Eg in Hrun.
      replace j with (sw + (j - sw))%nat by lia. unfold s_ci. rewrite <- nth_skipn_ci.
      apply negb_true_iff. apply (count_while_all (fun x => negb (is_space o x))). lia.
Qed.

(** a sentence consisting of space characters only yields no tokens *)
Theorem spaces_only_no_tokens d o cs : cs <> [] ->
  sent_space_sep o (compile (d_chars d) cs) ->
  (forall i, (i < length cs)%nat -> is_space o (s_ci (compile (d_chars d) cs) i) = true) ->
  in_i32 (conn_of d 0%N 0%N) = true ->
  exists L eos, tokenize_fresh d o cs = Done ([], L, eos).
Proof.
  intros Hne Hs Hall Hc. destruct cs as [|c0 cs']; [congruence|]. set (cs := c0 :: cs') in *.
  set (s := compile (d_chars d) cs) in *.
  assert (Hl : length (s_cinfos s) = length cs) by (unfold s, compile; cbn [s_cinfos]; apply map_length).
  assert (Hg : s_grp s 0 = length cs).
  { unfold s. rewrite (s_grp_run (d_chars d) cs 0) by (cbn; lia). change (map (char_info (d_chars d)) cs) with (s_cinfos s).
    destruct (s_ci_skipn s 0 ltac:(rewrite Hl; cbn; lia)) as [t Et]. cbn [skipn] in Et |- *.
    rewrite (run_at_space o _ Hs _ _ Et (Hall 0%nat ltac:(cbn; lia))).
    assert (Hcw : forall l, (forall x, In x l -> is_space o x = true) -> count_while (is_space o) l = length l).
    { induction l as [|x l IH]; intros Hx; [reflexivity|]. cbn. rewrite (Hx x ltac:(now left)). f_equal. apply IH. intros y Hy. apply Hx. now right. }
    rewrite Hcw; [exact Hl|]. intros x Hx. apply In_nth with (d := dummy_ci) in Hx. destruct Hx as (i & Hi & <-).
    apply (Hall i). lia. }
  unfold tokenize_fresh, tokenize. cbn [reset_sentence w_sent w_lat new_worker].
  change (match cs with [] => empty_sentence | _ :: _ => compile (d_chars d) cs end) with s.
  assert (Es : s_chars s = c0 :: cs') by reflexivity. rewrite Es.
  assert (Eb : exists eos0, build_lattice d o s [] = Done (reset [] (length cs), eos0) /\ n_sn eos0 = 0%nat).
  { unfold build_lattice. change (s_len s) with (length cs).
    assert (E1 : scan d o s (S (length cs)) 0 0 (reset [] (length cs)) = Done (reset [] (length cs), 0%nat)).
    { cbn [scan]. change (s_len s) with (length cs).
      replace (Nat.leb (length cs) 0) with false by reflexivity.
      replace (has_prev (reset [] (length cs)) 0) with true by (unfold has_prev; now rewrite reset_at0).
      cbn [negb]. rewrite (Hall 0%nat ltac:(cbn; lia)). rewrite Hg. cbn [Nat.add]. now rewrite Nat.eqb_refl. }
    rewrite E1. unfold insert_eos, search_min, scan_ok. rewrite reset_at0. cbn [smin_aux bos n_mc n_rid forallb].
    rewrite Z.add_0_l, Hc. cbn [andb]. eexists. split; [reflexivity|reflexivity]. }
  destruct Eb as (eos0 & Eb & Esn). rewrite Eb, Esn. cbn [walk].
  unfold tokens. cbn [w_top w_sent rev map all_some w_lat w_eos]. eauto.
Qed.
