(** C12: facts about ONE sentence of the shape P ++ W ++ Q, where W is a maximal run of space
    characters (possibly empty at the two ends of the sentence). *)
From Vib Require Import Model.Base Model.Lattice Model.Tokenizer Spec.CandSpec Proofs.Viterbi Proofs.TokenizerProofs
  Proofs.CountProofs Proofs.ScanInd Proofs.CandProofs Proofs.PartitionProofs Proofs.SpaceProofs
  Proofs.RespaceBase Proofs.RespaceCand.
From Coq Require Import Arith.

Lemma skipn_app_l {A} (X Y : list A) i : (i <= length X)%nat -> skipn i (X ++ Y) = skipn i X ++ Y.
Proof. intros H. rewrite skipn_app. replace (i - length X)%nat with 0%nat by lia. reflexivity. Qed.

Lemma skipn_app_r {A} (X Y : list A) j : skipn (length X + j) (X ++ Y) = skipn j Y.
Proof. rewrite skipn_app, skipn_all2 by lia. replace (length X + j - length X)%nat with j by lia. reflexivity. Qed.

Lemma last_skipn {A} (l : list A) d i : (i < length l)%nat -> last (skipn i l) d = last l d.
Proof.
  revert i. induction l as [|x l IH]; intros i H; [cbn in H; lia|]. destruct i; [reflexivity|].
  cbn [skipn]. rewrite IH by (cbn in H; lia). destruct l; [cbn in H; lia|reflexivity].
Qed.

Lemma last_map {A B} (f : A -> B) l d : last (map f l) (f d) = f (last l d).
Proof. induction l as [|x l IH]; [reflexivity|]. cbn [map]. destruct l; [reflexivity|]. exact IH. Qed.

Lemma last_snoc_inv {A} (l : list A) d : l <> [] -> exists l0, l = l0 ++ [last l d].
Proof. intros H. exists (removelast l). now apply app_removelast_last. Qed.

Lemma count_while_run (f : cinfo -> bool) X Y : (forall x, In x X -> f x = true) ->
  (forall y Y0, Y = y :: Y0 -> f y = false) -> count_while f (X ++ Y) = length X.
Proof.
  intros HX HY. induction X as [|x X IH]; cbn [app length count_while].
  - destruct Y as [|y Y0]; [reflexivity|]. cbn [count_while]. now rewrite (HY y Y0 eq_refl).
  - rewrite (HX x ltac:(now left)). f_equal. apply IH. intros; apply HX; now right.
Qed.

Section One.
Variables (d : dict) (o : options) (P W Q : list N).
Local Notation ct := (d_chars d).
Local Notation ci := (char_info (d_chars d)).
Local Notation spc := (fun c => is_space o (char_info (d_chars d) c)).
Local Notation cs := (P ++ W ++ Q).
Local Notation sW := (compile (d_chars d) (P ++ W ++ Q)).
Local Notation a := (length P).
Local Notation w := (length W).

Hypothesis Hsep : space_sep o (map ci cs).
Hypothesis HW : forall c, In c W -> spc c = true.
Hypothesis HP : forall P0 c, P = P0 ++ [c] -> spc c = false.
Hypothesis HQ : forall c Q0, Q = c :: Q0 -> spc c = false.
Hypothesis Hint : P <> [] -> Q <> [] -> W <> [].
Hypothesis Hlex : lex_space_free d o.

Lemma len_W : s_len sW = (a + w + length Q)%nat.
Proof. unfold s_len. cbn [compile s_chars]. rewrite !app_length. lia. Qed.

Lemma cis_W : s_cinfos sW = map ci P ++ map ci W ++ map ci Q.
Proof. cbn [compile s_cinfos]. now rewrite !map_app. Qed.

Lemma ci_P i : (i < a)%nat -> s_ci sW i = ci (nth i P 0%N).
Proof. intros H. rewrite s_ci_compile by (rewrite !app_length; lia). now rewrite app_nth1. Qed.

Lemma ci_Q j : (j < length Q)%nat -> s_ci sW (a + w + j) = ci (nth j Q 0%N).
Proof.
  intros H. rewrite s_ci_compile by (rewrite !app_length; lia).
  rewrite app_nth2 by lia. rewrite app_nth2 by lia. f_equal. f_equal. lia.
Qed.

Lemma ci_Wpos i : (a <= i < a + w)%nat -> is_space o (s_ci sW i) = true.
Proof.
  intros H. rewrite s_ci_compile by (rewrite !app_length; lia).
  rewrite app_nth2 by lia. rewrite app_nth1 by lia. apply HW. apply nth_In. lia.
Qed.

(** the character after P (if any) shares no category with the last character of P *)
Lemma P_boundary y Y0 : P <> [] -> map ci W ++ map ci Q = y :: Y0 -> share (last (map ci P) dummy_ci) y = false.
Proof.
  intros HPne E. destruct (last_snoc_inv P 0%N HPne) as [P0 EP].
  assert (HlastP : spc (last P 0%N) = false) by (eapply HP; exact EP).
  assert (Elast : last (map ci P) dummy_ci = ci (last P 0%N)).
  { rewrite EP at 1. rewrite map_app. cbn [map]. now rewrite last_last. }
  rewrite Elast.
  assert (InP : In (ci (last P 0%N)) (map ci cs)).
  { apply in_map. apply in_or_app. left. rewrite EP at 2. apply in_or_app. right. now left. }
  pose proof HW as HW'. pose proof Hsep as Hs. pose proof Hint as Hi. unfold space_sep in Hs.
  destruct W as [|c W0].
  - cbn [map app] in E. destruct Q as [|q Q0]; [discriminate|].
    exfalso. apply (Hi HPne); [discriminate|reflexivity].
  - cbn [map app] in E. inversion E; subst y.
    assert (Hc : spc c = true) by (apply HW'; now left).
    assert (Inc : In (ci c) (map ci (P ++ (c :: W0) ++ Q))).
    { apply in_map. apply in_or_app. right. apply in_or_app. left. now left. }
    destruct (Hs (ci c) (ci (last P 0%N)) Inc InP) as [_ H2]. now destruct (H2 Hc HlastP).
Qed.

Lemma grp_P i : (i < a)%nat -> s_grp sW i = run_at (skipn i (map ci P)).
Proof.
  intros H. rewrite s_grp_run by (rewrite !app_length; lia).
  rewrite !map_app. rewrite skipn_app_l by (rewrite map_length; lia).
  apply run_at_app.
  - intros E. apply (f_equal (@length _)) in E. rewrite skipn_length, map_length in E. cbn in E. lia.
  - intros y Y0 E. rewrite last_skipn by (rewrite map_length; lia). apply (P_boundary y Y0); [|exact E].
    intros ->. cbn in H. lia.
Qed.

Lemma grp_Q j : (j < length Q)%nat -> s_grp sW (a + w + j) = run_at (skipn j (map ci Q)).
Proof.
  intros H. rewrite s_grp_run by (rewrite !app_length; lia).
  rewrite !map_app. rewrite app_assoc. rewrite <- (map_length ci P), <- (map_length ci W), <- app_length.
  now rewrite skipn_app_r.
Qed.

Lemma count_while_spaces : count_while (is_space o) (map ci W ++ map ci Q) = w.
Proof.
  rewrite <- (map_length ci W). apply count_while_run.
  - intros x Hx. apply in_map_iff in Hx. destruct Hx as (c & <- & Hc). now apply HW.
  - intros y Y0 E. pose proof HQ as HQ'. destruct Q as [|q Q0]; [discriminate|]. cbn [map] in E. inversion E; subst. apply (HQ' q Q0 eq_refl).
Qed.

Lemma skipn_a_cis : skipn a (map ci cs) = map ci W ++ map ci Q.
Proof. rewrite !map_app. rewrite <- (map_length ci P) at 1. rewrite <- (Nat.add_0_r (length (map ci P))), skipn_app_r. reflexivity. Qed.

Lemma grp_W : (0 < w)%nat -> s_grp sW a = w.
Proof.
  intros H. rewrite s_grp_run by (rewrite !app_length; lia).
  pose proof (space_sep_skipn o _ a Hsep) as Hs. rewrite skipn_a_cis in *.
  pose proof HW as HW'. pose proof count_while_spaces as Hcw.
  destruct W as [|c W0]; [cbn in H; lia|]. cbn [map app] in *.
  rewrite (run_at_space o _ Hs (ci c) _ eq_refl (HW' c ltac:(now left))). exact Hcw.
Qed.

(** the candidates of a position inside P / inside Q *)
Definition skipX (X : list N) (i : nat) : nat :=
  if is_space o (ci (nth i X 0%N)) then (i + run_at (skipn i (map ci X)))%nat else i.
Definition candX (X : list N) (j sw : nat) : list cand :=
  cands_of d o (skipn j X) (ci (nth j X 0%N)) (run_at (skipn j (map ci X))) sw.

Lemma space_not_in_lex y : is_space o (ci y) = true ->
  forall r, In r (d_sys d) \/ (exists u, d_user d = Some u /\ In r u) -> ~ In y (lr_surface r).
Proof. intros Hy r Hr Hin. pose proof (Hlex r Hr y Hin) as H. cbn in *. congruence. Qed.

Lemma cand_P sw : (sw < a)%nat -> candidates d o sW sw = candX P sw sw.
Proof.
  intros H. rewrite candidates_form by (rewrite !app_length; lia). rewrite ci_P, grp_P by exact H. unfold candX.
  rewrite skipn_app_l by lia.
  pose proof HW as HW'. pose proof Hint as Hi.
  destruct W as [|c W0].
  - destruct Q as [|q Q0]; [now rewrite app_nil_r|]. exfalso. apply Hi; [intros ->; cbn in H; lia|discriminate|reflexivity].
  - cbn [app]. apply cands_of_cut. apply space_not_in_lex. apply HW'. now left.
Qed.

Lemma cand_Q j : (j < length Q)%nat -> candidates d o sW (a + w + j) = candX Q j (a + w + j).
Proof.
  intros H. rewrite candidates_form by (rewrite !app_length; lia). rewrite ci_Q, grp_Q by exact H. unfold candX.
  f_equal. rewrite app_assoc, <- app_length. apply skipn_app_r.
Qed.

Lemma candX_P_in sw c : (sw < a)%nat -> In c (candX P sw sw) -> c_sw c = sw /\ (sw < c_end c <= a)%nat.
Proof.
  intros H Hc. pose proof (candidates_in d o ct P sw H) as F. rewrite Forall_forall in F. apply F.
  rewrite candidates_form by exact H. rewrite s_ci_compile by exact H. rewrite s_grp_run by exact H. exact Hc.
Qed.

Lemma candX_Q_in j c : (j < length Q)%nat -> In c (candX Q j (a + w + j)) -> c_sw c = (a + w + j)%nat /\ (a + w + j < c_end c)%nat.
Proof.
  intros H Hc. rewrite <- cand_Q in Hc by exact H.
  pose proof (candidates_wf d o ct cs (a + w + j)) as F. rewrite Forall_forall in F. apply (F c Hc).
Qed.

Lemma sep_P : space_sep o (map ci P).
Proof. intros x y Hx Hy. apply Hsep; rewrite map_app; apply in_or_app; now left. Qed.

Lemma skip_P i : (i < a)%nat -> skip o sW i = skipX P i /\ (skipX P i < a)%nat.
Proof.
  intros H. unfold skip, skipX. rewrite ci_P, grp_P by exact H. split; [reflexivity|].
  destruct (is_space o (ci (nth i P 0%N))) eqn:Es; [|exact H].
  assert (Hl : (i < length (map ci P))%nat) by (rewrite map_length; exact H).
  assert (Esk : exists t, skipn i (map ci P) = ci (nth i P 0%N) :: t).
  { clear -Hl. revert i Hl. induction P as [|x X IH]; intros i Hl; [cbn in Hl; lia|]. destruct i; cbn; [eauto|]. apply IH. cbn in Hl. lia. }
  destruct Esk as [t Et].
  rewrite (run_at_space o _ (space_sep_skipn o _ i sep_P) _ _ Et Es).
  assert (Hne : P <> []) by (intros E; rewrite E in H; cbn in H; lia).
  destruct (last_snoc_inv P 0%N Hne) as [P0 EP].
  pose proof (count_while_lt (is_space o) (skipn i (map ci P))) as Hlt.
  rewrite skipn_length, map_length in Hlt.
  assert (skipn i (map ci P) <> []) by (rewrite Et; discriminate).
  assert (is_space o (last (skipn i (map ci P)) dummy_ci) = false).
  { rewrite last_skipn by exact Hl. rewrite EP at 1. rewrite map_app. cbn [map]. rewrite last_last. eapply HP. exact EP. }
  specialize (Hlt ltac:(assumption) ltac:(assumption)). lia.
Qed.

Lemma skip_a : (a < s_len sW)%nat -> skip o sW a = (a + w)%nat.
Proof.
  intros H. rewrite len_W in H. unfold skip. destruct (Nat.eq_dec w 0) as [E0|Hne].
  - pose proof (ci_Q 0 ltac:(lia)) as Hc. rewrite E0 in *. rewrite !Nat.add_0_r in Hc. rewrite Hc.
    pose proof HQ as HQ'. destruct Q as [|q Q0]; [cbn in H; lia|]. cbn [nth]. rewrite (HQ' q Q0 eq_refl). lia.
  - rewrite (ci_Wpos a) by lia. rewrite grp_W by lia. reflexivity.
Qed.

Lemma skip_Q j : (j < length Q)%nat -> skip o sW (a + w + j) = (a + w + skipX Q j)%nat.
Proof.
  intros H. unfold skip, skipX. rewrite ci_Q, grp_Q by exact H. destruct (is_space _ _); lia.
Qed.
End One.
