(** C07: the XOR double array built by [ScorerBuilder::build] answers every lookup exactly like
    the two-level trie it was built from. *)
From Vib Require Import Model.Base Model.Scorer.
From Coq Require Import Arith.
Local Open Scope N_scope.

Lemma lxor_cancel a b c : N.lxor a b = N.lxor a c -> b = c.
Proof.
  intros H. apply (f_equal (N.lxor a)) in H. rewrite <- !N.lxor_assoc, N.lxor_nilpotent, !N.lxor_0_l in H. exact H.
Qed.

Definition keys (m : smap) : list N := map fst m.

Lemma smap_get_in m k c : NoDup (keys m) -> (smap_get k m = Some c <-> In (k, c) m).
Proof.
  induction m as [|[k' c'] m IH]; intros ND; simpl; [split; [discriminate|tauto]|].
  inversion ND as [|? ? Hni ND']; subst. destruct (N.eqb_spec k k') as [->|Hne].
  - split; [intros H; inversion H; now left|].
    intros [H|H]; [now inversion H|]. exfalso. apply Hni. apply in_map_iff. exists (k', c). auto.
  - rewrite (IH ND'). split; [now right|]. intros [H|H]; [inversion H; congruence|exact H].
Qed.

Lemma smap_get_none m k : smap_get k m = None <-> ~ In k (keys m).
Proof.
  induction m as [|[k' c'] m IH]; simpl; [tauto|].
  destruct (N.eqb_spec k k') as [->|Hne]; [split; [discriminate|intros H; exfalso; apply H; now left]|].
  rewrite IH. split; [intros H [E|E]; [congruence|tauto]|tauto].
Qed.

(** [place] sets exactly the positions [base xor key2] *)
Lemma place_spec b k1 m : NoDup (keys m) -> forall s pos,
  place b k1 m s pos =
  match find (fun kc => N.lxor b (fst kc) =? pos) m with
  | Some kc => Some (k1, snd kc)
  | None => s pos
  end.
Proof.
  induction m as [|[k2 c] m IH]; intros ND s pos; simpl; [reflexivity|].
  inversion ND as [|? ? Hni ND']; subst. rewrite (IH ND'). unfold upd.
  destruct (N.eqb_spec (N.lxor b k2) pos) as [E|Hne].
  - destruct (find (fun kc => N.lxor b (fst kc) =? pos) m) as [[k2' c']|] eqn:Ef.
    + exfalso. apply find_some in Ef. destruct Ef as [Hin Hp]. apply N.eqb_eq in Hp. cbn in Hp.
      rewrite <- E in Hp. apply lxor_cancel in Hp. subst k2'. apply Hni. apply in_map_iff. exists (k2, c'). auto.
    + rewrite <- E, N.eqb_refl. reflexivity.
  - destruct (find _ m); [reflexivity|]. destruct (N.eqb_spec pos (N.lxor b k2)); [congruence|reflexivity].
Qed.

Lemma check_base_free b m s : check_base b m s = true -> forall k c, In (k, c) m -> s (N.lxor b k) = None.
Proof.
  unfold check_base. rewrite forallb_forall. intros H k c Hin. specialize (H _ Hin). cbn in H.
  destruct (s (N.lxor b k)); [discriminate|reflexivity].
Qed.

Lemma find_base_ok fuel : forall base m s b, find_base fuel base m s = Some b -> check_base b m s = true.
Proof.
  induction fuel as [|f IH]; intros base m s b H; simpl in H; [discriminate|].
  destruct (check_base base m s) eqn:E; [inversion H; subst; exact E|eauto].
Qed.

(** the trie so far ([T], all second levels with distinct keys), its bases and slots *)
Record SInv (T : list smap) (bases : list N) (s : slots) : Prop := {
  si_len : length bases = length T;
  si_sound : forall pos k1 c, s pos = Some (k1, c) ->
               exists m b k2, nth_N T k1 = Some m /\ nth_N bases k1 = Some b /\ In (k2, c) m /\ pos = N.lxor b k2;
  si_complete : forall k1 m b k2 c, nth_N T k1 = Some m -> nth_N bases k1 = Some b -> In (k2, c) m ->
               s (N.lxor b k2) = Some (k1, c) }.

Lemma nth_N_app_l {A} (l l' : list A) : forall i x, nth_N l i = Some x -> nth_N (l ++ l') i = Some x.
Proof. induction l as [|y l IH]; intros i x H; simpl in *; [discriminate|]. destruct (i =? 0); auto. Qed.

Lemma nth_N_last {A} (l : list A) x : nth_N (l ++ [x]) (N.of_nat (length l)) = Some x.
Proof.
  induction l as [|y l IH]; [reflexivity|].
  cbn [app length nth_N]. rewrite Nat2N.inj_succ.
  destruct (N.eqb_spec (N.succ (N.of_nat (length l))) 0); [lia|]. now rewrite N.pred_succ.
Qed.

Lemma nth_N_app_cases {A} (l : list A) x : forall i y, nth_N (l ++ [x]) i = Some y ->
  nth_N l i = Some y \/ (i = N.of_nat (length l) /\ y = x).
Proof.
  induction l as [|z l IH]; intros i y H; simpl in *.
  - destruct (N.eqb_spec i 0); [inversion H; subst; right; auto|discriminate].
  - destruct (N.eqb_spec i 0) as [->|Hne]; [now left|].
    destruct (IH _ _ H) as [H1|[H1 H2]]; [now left|right]. split; [lia|exact H2].
Qed.

Lemma nth_N_lt {A} (l : list A) : forall i x, nth_N l i = Some x -> i < N.of_nat (length l).
Proof.
  induction l as [|y l IH]; intros i x H; simpl in *; [discriminate|].
  destruct (N.eqb_spec i 0) as [->|Hne]; [lia|]. specialize (IH _ _ H). lia.
Qed.

Lemma step_inv T bases s m b : SInv T bases s -> NoDup (keys m) -> check_base b m s = true ->
  SInv (T ++ [m]) (bases ++ [b]) (place b (N.of_nat (length T)) m s).
Proof.
  intros I ND Hcb. pose proof (check_base_free b m s Hcb) as Hfree.
  constructor.
  - rewrite !app_length, (si_len _ _ _ I). reflexivity.
  - intros pos k1 c H. rewrite (place_spec b _ m ND) in H.
    destruct (find (fun kc => N.lxor b (fst kc) =? pos) m) as [[k2 c']|] eqn:Ef.
    + inversion H; subst k1 c'; clear H. apply find_some in Ef. destruct Ef as [Hin Hp]. apply N.eqb_eq in Hp. cbn in Hp.
      exists m, b, k2. split; [apply nth_N_last|]. split; [rewrite <- (si_len _ _ _ I); apply nth_N_last|auto].
    + destruct (si_sound _ _ _ I _ _ _ H) as (m0 & b0 & k2 & H1 & H2 & H3 & H4).
      exists m0, b0, k2. split; [now apply nth_N_app_l|]. split; [now apply nth_N_app_l|auto].
  - intros k1 m0 b0 k2 c Hm Hb Hin. rewrite (place_spec b _ m ND).
    destruct (nth_N_app_cases _ _ _ _ Hm) as [Hm'|[E1 E2]].
    + (* an earlier key1: its slot is untouched, because the new base passed check_base *)
      assert (Hb' : nth_N bases k1 = Some b0).
      { destruct (nth_N_app_cases _ _ _ _ Hb) as [H|[E _]]; [exact H|].
        apply nth_N_lt in Hm'. rewrite (si_len _ _ _ I) in E. lia. }
      pose proof (si_complete _ _ _ I _ _ _ _ _ Hm' Hb' Hin) as Hs.
      destruct (find (fun kc => N.lxor b (fst kc) =? N.lxor b0 k2) m) as [[k2' c']|] eqn:Ef; [|exact Hs].
      apply find_some in Ef. destruct Ef as [Hin' Hp]. apply N.eqb_eq in Hp. cbn in Hp.
      rewrite <- Hp, (Hfree _ _ Hin') in Hs. discriminate.
    + subst k1 m0.
      assert (b0 = b) as ->.
      { destruct (nth_N_app_cases _ _ _ _ Hb) as [H|[_ E]]; [|exact E].
        apply nth_N_lt in H. rewrite (si_len _ _ _ I) in H. lia. }
      destruct (find (fun kc => N.lxor b (fst kc) =? N.lxor b k2) m) as [[k2' c']|] eqn:Ef.
      * apply find_some in Ef. destruct Ef as [Hin' Hp]. apply N.eqb_eq in Hp. cbn in Hp. apply lxor_cancel in Hp. subst k2'.
        cbn [snd]. f_equal. f_equal. apply (proj2 (smap_get_in m k2 c ND)) in Hin. apply (proj2 (smap_get_in m k2 c' ND)) in Hin'. congruence.
      * exfalso. apply (find_none _ _ Ef) in Hin. cbn in Hin. rewrite N.eqb_refl in Hin. discriminate.
Qed.

Lemma build_from_inv fuel : forall rest T bases s sc,
  SInv T bases s -> Forall (fun m => NoDup (keys m)) rest ->
  build_from fuel rest (N.of_nat (length T)) bases s = Some sc ->
  SInv (T ++ rest) (sc_bases sc) (sc_slots sc).
Proof.
  induction rest as [|m rest IH]; intros T bases s sc I F H; simpl in H.
  - inversion H; subst. rewrite app_nil_r. exact I.
  - destruct (find_base fuel 0 m s) as [b|] eqn:Eb; [|discriminate].
    inversion F as [|? ? ND F']; subst.
    pose proof (step_inv T bases s m b I ND (find_base_ok _ _ _ _ _ Eb)) as I'.
    replace (T ++ m :: rest) with ((T ++ [m]) ++ rest) by (rewrite <- app_assoc; reflexivity).
    apply (IH (T ++ [m]) _ _ sc I' F').
    rewrite app_length. cbn [length]. replace (N.of_nat (length T + 1)) with (N.succ (N.of_nat (length T))) by lia. exact H.
Qed.

(** every lookup, for every pair of keys (listed or not, including the invalid id) *)
Theorem scorer_correct fuel T sc : Forall (fun m => NoDup (keys m)) T -> build fuel T = Some sc ->
  forall k1 k2, retrieve sc k1 k2 = trie_get T k1 k2.
Proof.
  intros F H k1 k2. unfold build in H.
  assert (I0 : SInv [] [] (fun _ => None)) by (constructor; [reflexivity|discriminate|intros; discriminate]).
  pose proof (build_from_inv fuel T [] [] _ sc I0 F H) as I. cbn [app] in I.
  unfold retrieve, trie_get.
  destruct (nth_N (sc_bases sc) k1) as [b|] eqn:Eb.
  - destruct (nth_N T k1) as [m|] eqn:Em.
    2:{ apply nth_N_lt in Eb. rewrite (si_len _ _ _ I) in Eb.
        assert (Hx : forall (l : list smap) i, i < N.of_nat (length l) -> nth_N l i <> None).
        { induction l as [|y l IHl]; intros i Hi; simpl in *; [lia|]. destruct (N.eqb_spec i 0); [discriminate|]. apply IHl. lia. }
        exfalso. exact (Hx T k1 Eb Em). }
    assert (ND : NoDup (keys m)).
    { rewrite Forall_forall in F. apply F. clear -Em. revert k1 Em. induction T as [|y T IHT]; intros k1 Em; simpl in Em; [discriminate|].
      destruct (k1 =? 0); [inversion Em; now left|right; eauto]. }
    destruct (sc_slots sc (N.lxor b k2)) as [[chk c]|] eqn:Es.
    + destruct (N.eqb_spec chk k1) as [->|Hne].
      * destruct (si_sound _ _ _ I _ _ _ Es) as (m0 & b0 & k2' & H1 & H2 & H3 & H4).
        rewrite Em in H1. inversion H1; subst m0. rewrite Eb in H2. inversion H2; subst b0.
        apply lxor_cancel in H4. subst k2'. symmetry. now apply smap_get_in.
      * destruct (smap_get k2 m) as [c'|] eqn:Eg; [|reflexivity].
        apply (smap_get_in m k2 c' ND) in Eg. rewrite (si_complete _ _ _ I _ _ _ _ _ Em Eb Eg) in Es. inversion Es. congruence.
    + destruct (smap_get k2 m) as [c'|] eqn:Eg; [|reflexivity].
      apply (smap_get_in m k2 c' ND) in Eg. rewrite (si_complete _ _ _ I _ _ _ _ _ Em Eb Eg) in Es. discriminate.
  - destruct (nth_N T k1) as [m|] eqn:Em; [|reflexivity].
    apply nth_N_lt in Em. rewrite <- (si_len _ _ _ I) in Em.
    assert (Hx : forall (l : list N) i, i < N.of_nat (length l) -> nth_N l i <> None).
    { induction l as [|y l IHl]; intros i Hi; simpl in *; [lia|]. destruct (N.eqb_spec i 0); [discriminate|]. apply IHl. lia. }
    exfalso. exact (Hx _ k1 Em Eb).
Qed.

(** the tries built by [trie_insert] have distinct second-level keys *)
Lemma smap_set_keys k c m : NoDup (keys m) -> NoDup (keys (smap_set k c m)) /\ (forall x, In x (keys (smap_set k c m)) <-> In x (k :: keys m)).
Proof.
  induction m as [|[k' c'] m IH]; intros ND.
  - cbn. split; [apply NoDup_cons; [intros []|apply NoDup_nil]|intros x; reflexivity].
  - inversion ND as [|? ? Hni ND']; subst. cbn [smap_set]. destruct (N.eqb_spec k k') as [->|Hne].
    + split; [exact ND|]. intros x. cbn. tauto.
    + destruct (IH ND') as [H1 H2]. cbn [keys map fst] in *. split.
      * constructor; [|exact H1]. rewrite H2. intros [E|E]; [congruence|contradiction].
      * intros x. cbn [In]. rewrite H2. cbn [In]. tauto.
Qed.

Lemma trie_insert_nodup T : forall k1 k2 c, Forall (fun m => NoDup (keys m)) T -> Forall (fun m => NoDup (keys m)) (trie_insert T k1 k2 c).
Proof.
  induction T as [|m T IH]; intros k1 k2 c F.
  - revert k2 c. induction k1 as [|k1 IHk]; intros k2 c; simpl; [repeat constructor; auto|].
    constructor; [constructor|apply IHk].
  - inversion F as [|? ? ND F']; subst. destruct k1; simpl.
    + constructor; [apply smap_set_keys; exact ND|exact F'].
    + constructor; [exact ND|apply IH; exact F'].
Qed.

Lemma read_costs_nodup lines : forall rt lt T, Forall (fun m => NoDup (keys m)) T ->
  Forall (fun m => NoDup (keys m)) (snd (read_costs lines rt lt T)).
Proof.
  induction lines as [|[[a b] c] lines IH]; intros rt lt T F; simpl; [exact F|].
  destruct (intern rt a) as [rt' ia]. destruct (intern lt b) as [lt' ib]. apply IH. now apply trie_insert_nodup.
Qed.

(** the raw connector's cost is the sum, lane by lane, of the trie entries of the feature ids *)
Fixpoint lane_sum (T : list smap) (ks1 ks2 : list N) : Z :=
  match ks1, ks2 with
  | a :: t1, b :: t2 => (match trie_get T a b with Some w => w | None => 0 end + lane_sum T t1 t2)%Z
  | _, _ => 0%Z
  end.

Lemma accumulate_lane_sum fuel T sc : Forall (fun m => NoDup (keys m)) T -> build fuel T = Some sc ->
  forall ks1 ks2, accumulate sc ks1 ks2 = lane_sum T ks1 ks2.
Proof.
  intros F H. induction ks1 as [|a t1 IH]; intros [|b t2]; simpl; try reflexivity.
  now rewrite (scorer_correct fuel T sc F H), IH.
Qed.

Theorem raw_cost_lane_sum fuel right left lines rc : build_raw fuel right left lines = Some rc ->
  let T := snd (read_costs lines [[]] [[]] []) in
  forall r l, raw_cost rc r l = lane_sum T (nth (N.to_nat r) (rc_right rc) []) (nth (N.to_nat l) (rc_left rc) []).
Proof.
  unfold build_raw. destruct (read_costs lines [[]] [[]] []) as [[rt lt] T] eqn:E. cbn [snd].
  destruct (build fuel T) as [sc|] eqn:Eb; [|discriminate]. intros H; inversion H; subst rc; clear H. intros r l.
  unfold raw_cost. cbn [rc_scorer rc_right rc_left].
  apply (accumulate_lane_sum fuel T sc); [|exact Eb].
  pose proof (read_costs_nodup lines [[]] [[]] [] ltac:(constructor)) as F. rewrite E in F. exact F.
Qed.
