From Vib Require Import Model.Base Model.Text Model.Rewriter Spec.RewriterSpec.

Definition orelse {A} (a b : option A) : option A := match a with Some x => Some x | None => b end.

Lemma mem_str_In s l : mem_str s l = true <-> In s l.
Proof.
  unfold mem_str. rewrite existsb_exists. split.
  - intros (x & Hx & E). apply str_eqb_eq in E. now subst.
  - intros H. exists s. split; [exact H|]. now apply str_eqb_eq.
Qed.

Lemma subset_str_spec a b : subset_str a b = true <-> (forall s, In s a -> In s b).
Proof.
  unfold subset_str. rewrite forallb_forall. split; intros H s Hs.
  - apply mem_str_In. auto.
  - apply mem_str_In. auto.
Qed.

(** equal patterns (in the sense of the derived [PartialEq]) match the same features *)
Lemma pat_eqb_pmatch p q f : pat_eqb p q = true -> pmatch p f = pmatch q f.
Proof.
  destruct p as [|s|a], q as [|s'|b]; simpl; try discriminate; auto.
  - intros H. apply str_eqb_eq in H. now subst.
  - intros H. apply andb_true_iff in H as [H1 H2].
    rewrite subset_str_spec in H1, H2.
    destruct (mem_str f a) eqn:Ea, (mem_str f b) eqn:Eb; auto.
    + apply mem_str_In in Ea. apply H1 in Ea. apply mem_str_In in Ea. congruence.
    + apply mem_str_In in Eb. apply H2 in Eb. apply mem_str_In in Eb. congruence.
Qed.

Lemma search_path fs ps r rem :
  search fs (path ps r) rem = if matches ps rem then Some (apply_rw r fs) else None.
Proof.
  revert rem; induction ps as [|p ps IH]; intros rem; simpl.
  - reflexivity.
  - destruct rem as [|f rem']; [reflexivity|].
    destruct (pmatch p f); simpl; [|reflexivity].
    rewrite IH. destruct (matches ps rem'); reflexivity.
Qed.

Lemma search_snoc_rew fs t r rem :
  search fs (snoc_rew t r) rem = orelse (search fs t rem) (Some (apply_rw r fs)).
Proof.
  induction t as [|p c IHc rest IHrest|r' rest IH]; simpl.
  - reflexivity.
  - destruct rem as [|f rem']; [exact IHrest|].
    destruct (pmatch p f); [|exact IHrest].
    destruct (search fs c rem'); [reflexivity|exact IHrest].
  - reflexivity.
Qed.

(** Adding a rule appends it to the search order: everything found before is still found
    first, otherwise the new rule is tried. *)
Lemma search_add fs r : forall ps t rem,
  search fs (add ps r t) rem =
  orelse (search fs t rem) (if matches ps rem then Some (apply_rw r fs) else None).
Proof.
  induction ps as [|p ps IH]; intros t rem.
  - simpl. apply search_snoc_rew.
  - cbn [add].
    induction t as [|p' c _ rest IHrest|r' rest IHrest].
    + cbn [search orelse]. destruct rem as [|f rem'].
      * reflexivity.
      * cbn [matches]. destruct (pmatch p f); cbn [andb]; [|reflexivity].
        rewrite search_path. destruct (matches ps rem'); reflexivity.
    + destruct rest as [|p2 c2 rest2|r2 rest2].
      * destruct (pat_eqb p p') eqn:E.
        -- cbn [search]. destruct rem as [|f rem']; [reflexivity|].
           cbn [matches]. rewrite (pat_eqb_pmatch _ _ f E).
           destruct (pmatch p' f); cbn [andb]; [|reflexivity].
           rewrite IH. destruct (search fs c rem'); cbn [orelse]; [reflexivity|].
           destruct (matches ps rem'); reflexivity.
        -- cbn [search]. destruct rem as [|f rem']; [reflexivity|].
           cbn [matches].
           destruct (pmatch p' f).
           ++ destruct (search fs c rem'); cbn [orelse]; [reflexivity|].
              destruct (pmatch p f); cbn [andb]; [|reflexivity].
              rewrite search_path. destruct (matches ps rem'); reflexivity.
           ++ cbn [orelse]. destruct (pmatch p f); cbn [andb]; [|reflexivity].
              rewrite search_path. destruct (matches ps rem'); reflexivity.
      * cbn [search] in *. destruct rem as [|f rem'].
        -- exact IHrest.
        -- destruct (pmatch p' f); [|exact IHrest].
           destruct (search fs c rem'); [reflexivity|exact IHrest].
      * cbn [search] in *. destruct rem as [|f rem'].
        -- exact IHrest.
        -- destruct (pmatch p' f); [|exact IHrest].
           destruct (search fs c rem'); [reflexivity|exact IHrest].
    + cbn [search orelse]. reflexivity.
Qed.

Lemma search_fold fs rules : forall t,
  search fs (fold_left (fun t ru => add (fst ru) (snd ru) t) rules t) fs =
  orelse (search fs t fs) (first_match rules fs).
Proof.
  induction rules as [|[ps r] rules IH]; intros t; cbn [fold_left first_match].
  - destruct (search fs t fs); reflexivity.
  - rewrite IH. cbn [fst snd]. rewrite search_add.
    destruct (search fs t fs); cbn [orelse]; [reflexivity|].
    destruct (matches ps fs); reflexivity.
Qed.

Theorem rewrite_build_first_match rules fs :
  rewrite (build rules) fs = first_match rules fs.
Proof.
  unfold rewrite, build. rewrite search_fold. reflexivity.
Qed.

Corollary rewrite_or_id_spec rules fs :
  rewrite_or_id (build rules) fs = rewrite_spec rules fs.
Proof. unfold rewrite_or_id, rewrite_spec. now rewrite rewrite_build_first_match. Qed.

(** The text-level statement: whatever rewrite.def says, each of the three rule sets behaves
    as "first matching rule in file order", independently of the others. *)
Theorem run_rewrite_def_spec text fss obs counts :
  run_rewrite_def text fss = Ok (obs, counts) ->
  exists rs, parse_rewrite_def text = Ok rs /\
    obs = map (fun fs => [first_match (rs_uni rs) fs; first_match (rs_left rs) fs;
                          first_match (rs_right rs) fs]) fss.
Proof.
  unfold run_rewrite_def. destruct (parse_rewrite_def text) as [rs| |]; simpl; try discriminate.
  intros H. inversion H; subst. exists rs. split; [reflexivity|].
  apply map_ext. intros fs. now rewrite !rewrite_build_first_match.
Qed.

(** the oracle accepts exactly the specified observation *)
Lemma oracle_c17_sound text fs obs rs :
  parse_rewrite_def text = Ok rs ->
  oracle_c17 text fs obs = true ->
  obs = [first_match (rs_uni rs) fs; first_match (rs_left rs) fs; first_match (rs_right rs) fs].
Proof.
  unfold oracle_c17. intros ->. 
  assert (L : forall a b : list str, list_eqb str_eqb a b = true -> a = b).
  { induction a as [|x a IH]; intros [|y b]; simpl; try discriminate; auto.
    intros H. apply andb_true_iff in H as [H1 H2]. apply str_eqb_eq in H1. f_equal; auto. }
  assert (O : forall a b : option (list str), option_eqb (list_eqb str_eqb) a b = true -> a = b).
  { intros [a|] [b|]; simpl; try discriminate; auto. intros H. f_equal. auto. }
  generalize [first_match (rs_uni rs) fs; first_match (rs_left rs) fs; first_match (rs_right rs) fs].
  induction obs as [|x obs IH]; intros [|y l]; simpl; try discriminate; auto.
  intros H. apply andb_true_iff in H as [H1 H2]. f_equal; auto.
Qed.
