(** C04: the result of [tokenize] depends only on dictionary, options and sentence.
    The only component of a worker that survives [reset_sentence] is the lattice vector, and
    [reset] erases everything observable of it: two lattices are [lat_eq] when every boundary
    holds the same node list (the vectors may differ in length, as in Rust where [ends] keeps
    its capacity). Every operation of the model respects [lat_eq]. *)
From Vib Require Import Model.Base Model.Lattice Model.Tokenizer Proofs.Viterbi Proofs.TokenizerProofs.
From Coq Require Import Arith.

Definition lat_eq (L1 L2 : lattice) : Prop := forall e, at_ L1 e = at_ L2 e.

Lemma lat_eq_refl L : lat_eq L L. Proof. intros e; reflexivity. Qed.
Lemma lat_eq_sym L1 L2 : lat_eq L1 L2 -> lat_eq L2 L1. Proof. intros H e; symmetry; apply H. Qed.
Lemma lat_eq_trans L1 L2 L3 : lat_eq L1 L2 -> lat_eq L2 L3 -> lat_eq L1 L3.
Proof. intros H1 H2 e. now rewrite H1. Qed.

Lemma reset_lat_eq L1 L2 len : lat_eq (reset L1 len) (reset L2 len).
Proof. intros e. apply reset_at_indep. Qed.

Definition orel {A B} (R : A -> B -> Prop) (x : outcome A) (y : outcome B) : Prop :=
  match x, y with
  | Done a, Done b => R a b
  | Panicked, Panicked => True
  | OutOfFuel, OutOfFuel => True
  | _, _ => False
  end.

Definition optrel {A B} (R : A -> B -> Prop) (x : option A) (y : option B) : Prop :=
  match x, y with
  | Some a, Some b => R a b
  | None, None => True
  | _, _ => False
  end.

Section Resp.
Variable conn : N -> N -> Z.

Lemma search_min_eq L1 L2 sn lid : lat_eq L1 L2 -> search_min conn L1 sn lid = search_min conn L2 sn lid.
Proof. intros H. unfold search_min. now rewrite H. Qed.

Lemma scan_ok_eq L1 L2 sn lid : lat_eq L1 L2 -> scan_ok conn L1 sn lid = scan_ok conn L2 sn lid.
Proof. intros H. unfold scan_ok. now rewrite H. Qed.

Lemma push_eq L1 L2 e n : lat_eq L1 L2 -> lat_eq (push L1 e n) (push L2 e n).
Proof.
  intros H j. destruct (Nat.eq_dec j e) as [->|Hne].
  - now rewrite !at_push_same, H.
  - now rewrite !at_push_other by exact Hne.
Qed.

Lemma insert_node_eq L1 L2 sn sw e lex wid lid rid wc : lat_eq L1 L2 ->
  optrel lat_eq (insert_node conn L1 sn sw e lex wid lid rid wc) (insert_node conn L2 sn sw e lex wid lid rid wc).
Proof.
  intros H. unfold insert_node. rewrite (search_min_eq _ _ _ _ H), (scan_ok_eq _ _ _ _ H).
  destruct (search_min conn L2 sn lid) as [[i c]|]; simpl; [|exact I].
  destruct (scan_ok conn L2 sn lid && in_i32 (c + wc)); simpl; [|exact I].
  now apply push_eq.
Qed.

Lemma insert_all_eq cs : forall L1 L2 sn, lat_eq L1 L2 ->
  optrel lat_eq (insert_all conn L1 sn cs) (insert_all conn L2 sn cs).
Proof.
  induction cs as [|c cs IH]; intros L1 L2 sn H; simpl; [exact H|].
  pose proof (insert_node_eq L1 L2 sn (c_sw c) (c_end c) (c_lex c) (c_wid c) (c_lid c) (c_rid c) (c_wc c) H) as Hi.
  destruct (insert_node conn L1 _ _ _ _ _ _ _ _) as [L1'|], (insert_node conn L2 _ _ _ _ _ _ _ _) as [L2'|]; simpl in Hi; try contradiction; simpl; auto.
Qed.

Lemma insert_eos_eq L1 L2 sn len : lat_eq L1 L2 -> insert_eos conn L1 sn len = insert_eos conn L2 sn len.
Proof. intros H. unfold insert_eos. now rewrite (search_min_eq _ _ _ _ H), (scan_ok_eq _ _ _ _ H). Qed.
End Resp.

Lemma has_prev_eq L1 L2 i : lat_eq L1 L2 -> has_prev L1 i = has_prev L2 i.
Proof. intros H. unfold has_prev. now rewrite H. Qed.

Lemma walk_eq L1 L2 : lat_eq L1 L2 -> forall fuel e i, walk L1 fuel e i = walk L2 fuel e i.
Proof.
  intros H. induction fuel as [|f IH]; intros e i; destruct e; simpl; auto.
  rewrite H. destruct (nth_error (at_ L2 (S e)) i) as [n|]; auto. now rewrite IH.
Qed.

Definition scan_rel (a b : lattice * nat) : Prop := lat_eq (fst a) (fst b) /\ snd a = snd b.

Lemma scan_eq d o s : forall fuel sn sw L1 L2, lat_eq L1 L2 ->
  orel scan_rel (scan d o s fuel sn sw L1) (scan d o s fuel sn sw L2).
Proof.
  induction fuel as [|f IH]; intros sn sw L1 L2 H; cbn [scan]; [exact I|].
  destruct (Nat.leb (s_len s) sw); [split; simpl; auto|].
  rewrite (has_prev_eq _ _ sn H).
  destruct (negb (has_prev L2 sn)); [now apply IH|].
  match goal with |- context [Nat.eqb ?x (s_len s)] => set (sw' := x) end.
  destruct (Nat.eqb sw' (s_len s)); [split; simpl; auto|].
  destruct (Nat.ltb (s_len s) sw'); [exact I|].
  pose proof (insert_all_eq (conn_of d) (candidates d o s sw') L1 L2 sn H) as Hi.
  destruct (insert_all (conn_of d) L1 sn _) as [L1'|], (insert_all (conn_of d) L2 sn _) as [L2'|]; simpl in Hi; try contradiction; [|exact I].
  now apply IH.
Qed.

Definition bl_rel (a b : lattice * node) : Prop := lat_eq (fst a) (fst b) /\ snd a = snd b.

Lemma build_lattice_eq d o s L1 L2 :
  orel bl_rel (build_lattice d o s L1) (build_lattice d o s L2).
Proof.
  unfold build_lattice.
  pose proof (scan_eq d o s (S (s_len s)) 0 0 _ _ (reset_lat_eq L1 L2 (s_len s))) as Hs.
  destruct (scan d o s _ 0 0 (reset L1 _)) as [[La sa]| |], (scan d o s _ 0 0 (reset L2 _)) as [[Lb sb]| |];
    simpl in Hs; try contradiction; try exact I.
  destruct Hs as [Hl Hsn]; simpl in Hl, Hsn; subst sb.
  rewrite (insert_eos_eq (conn_of d) La Lb sa (s_len s) Hl).
  destruct (insert_eos (conn_of d) Lb sa (s_len s)); simpl; [split; simpl; auto|exact I].
Qed.

(** The empty sentence leaves [w_eos]/[w_lat] of the old worker in place (they are never read
    through the token accessors), so the observation relation for the general theorem is the
    pair (sentence, token nodes). *)
Definition tok_rel (a b : worker) : Prop := w_sent a = w_sent b /\ w_top a = w_top b.

Theorem tokenize_reset_indep d o w1 w2 cs :
  orel tok_rel (tokenize d o (reset_sentence d w1 cs)) (tokenize d o (reset_sentence d w2 cs)).
Proof.
  unfold tokenize. cbn [reset_sentence w_sent w_lat].
  set (s := match cs with [] => empty_sentence | _ :: _ => compile (d_chars d) cs end).
  destruct (s_chars s) eqn:Es.
  - simpl. split; reflexivity.
  - pose proof (build_lattice_eq d o s (w_lat w1) (w_lat w2)) as Hb.
    destruct (build_lattice d o s (w_lat w1)) as [[La ea]| |], (build_lattice d o s (w_lat w2)) as [[Lb eb]| |];
      simpl in Hb; try contradiction; try exact I.
    destruct Hb as [Hl He]; simpl in Hl, He; subst eb.
    rewrite (walk_eq La Lb Hl).
    destruct (walk Lb _ _ _); simpl; [split; reflexivity|exact I].
Qed.

(** a second [tokenize] for the same sentence reports the same tokens *)
Theorem tokenize_twice d o w w' :
  tokenize d o w = Done w' -> exists w'', tokenize d o w' = Done w'' /\ tok_rel w' w''.
Proof.
  intros H. unfold tokenize in *.
  destruct (s_chars (w_sent w)) eqn:Es.
  - inversion H; subst w'. rewrite Es. eexists; split; [reflexivity|split; reflexivity].
  - destruct (build_lattice d o (w_sent w) (w_lat w)) as [[L eos]| |] eqn:Eb; try discriminate.
    destruct (walk L _ (n_sn eos) (n_midx eos)) as [top|] eqn:Ew; [|discriminate].
    inversion H; subst w'; clear H. cbn [w_sent w_lat]. rewrite Es.
    pose proof (build_lattice_eq d o (w_sent w) L (w_lat w)) as Hb. rewrite Eb in Hb.
    destruct (build_lattice d o (w_sent w) L) as [[L2 e2]| |]; simpl in Hb; try contradiction.
    destruct Hb as [Hl He]; simpl in Hl, He; subst e2.
    rewrite (walk_eq L2 L Hl), Ew. eexists; split; [reflexivity|split; reflexivity].
Qed.

(** ** Histories of operations *)
Inductive wop := OReset (cs : list N) | OTokenize.

Definition wstep (d : dict) (o : options) (w : outcome worker) (op : wop) : outcome worker :=
  match w with
  | Done w => match op with OReset cs => Done (reset_sentence d w cs) | OTokenize => tokenize d o w end
  | Panicked => Panicked
  | OutOfFuel => OutOfFuel
  end.
Definition wrun d o (w : outcome worker) (ops : list wop) : outcome worker := fold_left (wstep d o) ops w.

Definition out_tokens (d : dict) (w : outcome worker) : outcome (option (list token)) :=
  match w with Done w => Done (tokens d w) | Panicked => Panicked | OutOfFuel => OutOfFuel end.

Lemma tok_rel_tokens d a b : tok_rel a b -> tokens d a = tokens d b.
Proof. intros [H1 H2]. unfold tokens. now rewrite H1, H2. Qed.

Lemma orel_out_tokens d a b : orel tok_rel a b -> out_tokens d a = out_tokens d b.
Proof.
  destruct a, b; simpl; try contradiction; auto. intros H. now rewrite (tok_rel_tokens d _ _ H).
Qed.

Lemma wrun_tokenize_repeat d o k : forall w w', tokenize d o w = Done w' ->
  exists w'', wrun d o (Done w') (repeat OTokenize k) = Done w'' /\ tok_rel w' w''.
Proof.
  induction k as [|k IH]; intros w w' H; simpl.
  - eexists; split; [reflexivity|split; reflexivity].
  - destruct (tokenize_twice d o w w' H) as (w2 & H2 & R2). rewrite H2.
    destruct (IH w' w2 H2) as (w3 & H3 & R3). exists w3. split; [exact H3|].
    destruct R2, R3. split; congruence.
Qed.

Lemma wrun_not_done d o ops : wrun d o Panicked ops = Panicked /\ wrun d o OutOfFuel ops = OutOfFuel.
Proof. induction ops; simpl; auto. Qed.

(** Whatever the worker processed before (any history [h] that did not panic), resetting it to
    [cs] and calling [tokenize] once or several times gives the tokens of a fresh worker. *)
Theorem history_independent d o h wh cs k :
  wrun d o (Done new_worker) h = Done wh ->
  out_tokens d (wrun d o (Done wh) (OReset cs :: repeat OTokenize (S k)))
  = out_tokens d (tokenize d o (reset_sentence d new_worker cs)).
Proof.
  intros _. cbn [wrun fold_left wstep repeat].
  pose proof (tokenize_reset_indep d o wh new_worker cs) as R.
  destruct (tokenize d o (reset_sentence d wh cs)) as [wa| |] eqn:Ea.
  - destruct (wrun_tokenize_repeat d o k _ _ Ea) as (wb & Hb & Rb).
    fold (wrun d o (Done wa) (repeat OTokenize k)). rewrite Hb.
    rewrite <- (orel_out_tokens d (Done wa) _ R). simpl. now rewrite (tok_rel_tokens d _ _ Rb).
  - fold (wrun d o (@Panicked worker) (repeat OTokenize k)).
    rewrite (proj1 (wrun_not_done d o _)). now rewrite <- (orel_out_tokens d Panicked _ R).
  - fold (wrun d o (@OutOfFuel worker) (repeat OTokenize k)).
    rewrite (proj2 (wrun_not_done d o _)). now rewrite <- (orel_out_tokens d OutOfFuel _ R).
Qed.

(** ** Independent workers over one immutable tokenizer: any interleaving of their operation
    lists leaves each worker in the state its own list produces. *)
Definition pool := nat -> outcome worker.
Definition pstep d o (P : pool) (iop : nat * wop) : pool :=
  fun j => if Nat.eqb j (fst iop) then wstep d o (P j) (snd iop) else P j.

Theorem interleave_projection d o sched : forall (P : pool) i,
  fold_left (pstep d o) sched P i
  = wrun d o (P i) (map snd (filter (fun x => Nat.eqb i (fst x)) sched)).
Proof.
  induction sched as [|[j op] sched IH]; intros P i; simpl; [reflexivity|].
  rewrite IH. unfold pstep. cbn [fst snd]. destruct (Nat.eqb i j); reflexivity.
Qed.
