(** C18 / C20: first-occurrence interning gives equal ids to equal strings and different ids to
    different strings; ids are dense; expansion facts. *)
From Vib Require Import Model.Base Model.Text Model.Scorer Model.Template Model.Mecab.
From Coq Require Import Arith Permutation.
Local Open Scope N_scope.

Lemma index_of_str_spec s : forall tbl i k, index_of_str s tbl i = Some k ->
  i <= k /\ nth_error tbl (N.to_nat (k - i)) = Some s /\
  forall j, (j < N.to_nat (k - i))%nat -> nth_error tbl j <> Some s.
Proof.
  induction tbl as [|x tbl IH]; intros i k H; simpl in H; [discriminate|].
  destruct (str_eqb x s) eqn:E.
  - inversion H; subst k. apply str_eqb_eq in E. subst x. rewrite N.sub_diag. cbn. split; [lia|]. split; [reflexivity|]. intros j Hj; lia.
  - destruct (IH _ _ H) as (H1 & H2 & H3). split; [lia|].
    replace (N.to_nat (k - i)) with (S (N.to_nat (k - N.succ i))) by lia. split; [exact H2|].
    intros [|j] Hj; cbn.
    + intros E'. inversion E'; subst x. assert (str_eqb s s = true) by now apply str_eqb_eq. congruence.
    + apply H3. lia.
Qed.

Lemma index_of_str_none s : forall tbl i, index_of_str s tbl i = None -> ~ In s tbl.
Proof.
  induction tbl as [|x tbl IH]; intros i H; simpl in *; [tauto|].
  destruct (str_eqb x s) eqn:E; [discriminate|]. intros [->|Hin]; [|exact (IH _ H Hin)].
  assert (str_eqb s s = true) by now apply str_eqb_eq. congruence.
Qed.

Lemma index_of_str_some_in s : forall tbl i, In s tbl -> exists k, index_of_str s tbl i = Some k.
Proof.
  induction tbl as [|x tbl IH]; intros i H; [destruct H|]. simpl. destruct (str_eqb x s) eqn:E; [eauto|].
  destruct H as [->|H]; [|eauto]. assert (str_eqb s s = true) by now apply str_eqb_eq. congruence.
Qed.

(** interning keeps the table duplicate-free and only ever appends *)
Lemma intern_spec tbl s tbl' i : NoDup tbl -> intern tbl s = (tbl', i) ->
  NoDup tbl' /\ nth_error tbl' (N.to_nat i) = Some s /\ (exists ext, tbl' = tbl ++ ext) /\ i < N.of_nat (length tbl').
Proof.
  intros ND H. unfold intern in H. destruct (index_of_str s tbl 0) as [k|] eqn:E.
  - inversion H; subst tbl' i. destruct (index_of_str_spec _ _ _ _ E) as (_ & H2 & _). rewrite N.sub_0_r in H2.
    split; [exact ND|]. split; [exact H2|]. split; [exists []; now rewrite app_nil_r|].
    assert (N.to_nat k < length tbl)%nat by (apply nth_error_Some; congruence). lia.
  - inversion H; subst tbl' i. split.
    + apply (Permutation_NoDup (l := s :: tbl)); [apply Permutation_cons_append|].
      constructor; [exact (index_of_str_none _ _ _ E)|exact ND].
    + split; [rewrite Nat2N.id, nth_error_app2 by lia; now rewrite Nat.sub_diag|].
      split; [eauto|]. rewrite app_length. cbn. lia.
Qed.

(** in a duplicate-free table, ids and strings determine each other *)
Theorem ids_injective (tbl : list str) a b i : NoDup tbl ->
  nth_error tbl i = Some a -> nth_error tbl i = Some b -> a = b.
Proof. intros _ H1 H2. congruence. Qed.

Theorem ids_functional (tbl : list str) a i j : NoDup tbl ->
  nth_error tbl i = Some a -> nth_error tbl j = Some a -> i = j.
Proof. intros ND H1 H2. eapply NoDup_nth_error; eauto. apply nth_error_Some. congruence. congruence. Qed.

(** interning twice: the same string gets the same id, a different string a different id *)
Theorem intern_same_id tbl s tbl1 i tbl2 j : NoDup tbl ->
  intern tbl s = (tbl1, i) -> intern tbl1 s = (tbl2, j) -> i = j /\ tbl2 = tbl1.
Proof.
  intros ND H1 H2. destruct (intern_spec _ _ _ _ ND H1) as (ND1 & Hn & _ & _).
  unfold intern in H2. destruct (index_of_str s tbl1 0) as [k|] eqn:E.
  - inversion H2; subst. destruct (index_of_str_spec _ _ _ _ E) as (_ & Hk & _). rewrite N.sub_0_r in Hk.
    split; [|reflexivity]. apply N2Nat.inj. eapply ids_functional; eauto.
  - exfalso. apply (index_of_str_none _ _ _ E). eapply nth_error_In; eauto.
Qed.

Theorem intern_diff_id tbl a b tbl1 i tbl2 j : NoDup tbl -> a <> b ->
  intern tbl a = (tbl1, i) -> intern tbl1 b = (tbl2, j) -> i <> j.
Proof.
  intros ND Hab H1 H2. destruct (intern_spec _ _ _ _ ND H1) as (ND1 & Hn1 & _ & _).
  destruct (intern_spec _ _ _ _ ND1 H2) as (ND2 & Hn2 & (ext & ->) & _).
  intros ->. apply Hab. rewrite nth_error_app1 in Hn2 by (apply nth_error_Some; congruence). congruence.
Qed.

(** a template with a '?'-reference yields no feature exactly when that feature is '*' or absent *)
Theorem expand_none_iff ps feats cate :
  expand ps feats cate = None <-> exists n, In (TIdx n true) ps /\ feat_at feats n = STAR.
Proof.
  unfold expand. destruct (existsb _ ps) eqn:E.
  - split; [intros _|reflexivity]. apply existsb_exists in E. destruct E as (p & Hp & Hq).
    destruct p as [s|n [|]|]; try discriminate. exists n. split; [exact Hp|]. now apply str_eqb_eq.
  - split; [discriminate|]. intros (n & Hin & Hs). exfalso.
    assert (existsb (fun p => match p with TIdx n0 true => str_eqb (feat_at feats n0) STAR | _ => false end) ps = true).
    { apply existsb_exists. exists (TIdx n true). split; [exact Hin|]. now apply str_eqb_eq. }
    congruence.
Qed.

(** -(w * factor) truncated toward zero is the truncation of the negated product (the order of
    negation and cast in the Rust expression does not matter) *)
Theorem line_cost_neg num e f : line_cost num e f = Z.quot (- (num * f)) (10 ^ Z.of_N e).
Proof. unfold line_cost. now rewrite Z.quot_opp_l by (apply Z.pow_nonzero; lia). Qed.
