(** C12: the scans of two sentences P ++ R ++ Q and P ++ R' ++ Q (R, R' maximal runs of space
    characters) simulate each other; hence the same tokens up to character/byte ranges. *)
From Vib Require Import Model.Base Model.Lattice Model.Tokenizer Spec.CandSpec Proofs.Viterbi Proofs.TokenizerProofs
  Proofs.CountProofs Proofs.ScanInd Proofs.CandProofs Proofs.PartitionProofs Proofs.SpaceProofs
  Proofs.RespaceBase Proofs.RespaceCand Proofs.RespaceSent.
From Coq Require Import Arith.

(** ** one-shot tokenization of a non-empty sentence, unfolded *)
Lemma tokenize_fresh_eq d o cs : cs <> [] ->
  tokenize_fresh d o cs =
  match build_lattice d o (compile (d_chars d) cs) [] with
  | Done (L, eos) =>
      match walk L (S (length cs)) (n_sn eos) (n_midx eos) with
      | Some top => match all_some (map (token_of d (compile (d_chars d) cs)) (rev top)) with
                    | Some ts => Done (ts, L, Some eos)
                    | None => Panicked
                    end
      | None => Panicked
      end
  | Panicked => Panicked
  | OutOfFuel => OutOfFuel
  end.
Proof.
  intros Hne. destruct cs as [|c0 cs0]; [congruence|]. unfold tokenize_fresh, tokenize.
  cbn [reset_sentence new_worker w_sent w_lat s_chars compile].
  destruct (build_lattice _ _ _ _) as [[L eos]| |]; [|reflexivity|reflexivity].
  change (s_len (compile (d_chars d) (c0 :: cs0))) with (length (c0 :: cs0)).
  destruct (walk L _ _ _) as [top|]; [|reflexivity].
  unfold tokens. cbn [w_sent w_top w_lat w_eos]. reflexivity.
Qed.

(** what is compared: everything but the character and byte ranges *)
Definition strip (t : token) := (t_surface t, t_lex t, t_wid t, t_feature t, t_lid t, t_rid t, t_wcost t, t_total t).

Lemma all_some_map2 {A B} (f g : A -> option B) (R : B -> B -> Prop) l : forall ts,
  (forall x t, In x l -> f x = Some t -> exists t', g x = Some t' /\ R t t') ->
  all_some (map f l) = Some ts -> exists ts', all_some (map g l) = Some ts' /\ Forall2 R ts ts'.
Proof.
  induction l as [|x l IH]; intros ts H E; cbn in *.
  - inversion E; subst. exists []. split; [reflexivity|constructor].
  - destruct (f x) as [t|] eqn:Ef; [|discriminate]. destruct (all_some (map f l)) as [ts0|] eqn:E0; [|discriminate].
    inversion E; subst ts. destruct (H x t ltac:(now left) Ef) as (t' & Eg & Ht).
    destruct (IH ts0 ltac:(intros; eapply H; eauto) eq_refl) as (ts' & E' & F). rewrite Eg, E'. eexists. split; [reflexivity|]. now constructor.
Qed.

Lemma walk_in L : forall f e i top, walk L f e i = Some top -> forall e0 n, In (e0, n) top -> (0 < e0)%nat /\ In n (at_ L e0).
Proof.
  induction f as [|f IH]; intros e i top H e0 n Hin.
  - destruct e; cbn in H; [inversion H; subst; destruct Hin|discriminate].
  - destruct e as [|e1]; cbn [walk] in H; [inversion H; subst; destruct Hin|].
    destruct (nth_error (at_ L (S e1)) i) as [m|] eqn:Em; [|discriminate].
    destruct (walk L f (n_sn m) (n_midx m)) as [rest|] eqn:Er; [|discriminate]. inversion H; subst top.
    destruct Hin as [E|Hin]; [inversion E; subst; split; [lia|eapply nth_error_In; eauto]|eauto].
Qed.

Section Two.
Variables (d : dict) (o : options) (P R R' Q : list N).
Local Notation ci := (char_info (d_chars d)).
Local Notation spc := (fun c => is_space o (char_info (d_chars d) c)).
Local Notation s := (compile (d_chars d) (P ++ R ++ Q)).
Local Notation s' := (compile (d_chars d) (P ++ R' ++ Q)).
Local Notation a := (length P).
Local Notation r := (length R).
Local Notation r' := (length R').
Local Notation q := (length Q).
Local Notation FE := (fe (length P) (length R) (length R')).
Local Notation FW := (fw (length P) (length R) (length R')).
Local Notation SH := (sh (length P) (length R) (length R')).
Local Notation SHC := (shc (length P) (length R) (length R')).
Local Notation LIVE := (live (length P) (length R)).
Local Notation REL := (LR (length P) (length R) (length R')).

Hypothesis HsepR : space_sep o (map ci (P ++ R ++ Q)).
Hypothesis HsepR' : space_sep o (map ci (P ++ R' ++ Q)).
Hypothesis HR : forall c, In c R -> spc c = true.
Hypothesis HR' : forall c, In c R' -> spc c = true.
Hypothesis HP : forall P0 c, P = P0 ++ [c] -> spc c = false.
Hypothesis HQ : forall c Q0, Q = c :: Q0 -> spc c = false.
Hypothesis HintR : P <> [] -> Q <> [] -> R <> [].
Hypothesis HintR' : P <> [] -> Q <> [] -> R' <> [].
Hypothesis Hlex : lex_space_free d o.

Lemma len_s : s_len s = (a + r + q)%nat.   Proof. apply len_W. Qed.
Lemma len_s' : s_len s' = (a + r' + q)%nat. Proof. apply len_W. Qed.

Lemma skipP_R i : (i < a)%nat -> skip o s i = skipX d o P i /\ (skipX d o P i < a)%nat.
Proof. intros; eapply skip_P; eassumption. Qed.
Lemma skipP_R' i : (i < a)%nat -> skip o s' i = skipX d o P i /\ (skipX d o P i < a)%nat.
Proof. intros; eapply skip_P; eassumption. Qed.
Lemma skipa_R : (a < s_len s)%nat -> skip o s a = (a + r)%nat.
Proof. intros; eapply skip_a; eassumption. Qed.
Lemma skipa_R' : (a < s_len s')%nat -> skip o s' a = (a + r')%nat.
Proof. intros; eapply skip_a; eassumption. Qed.
Lemma candP_R sw : (sw < a)%nat -> candidates d o s sw = candX d o P sw sw.
Proof. intros; eapply cand_P; eassumption. Qed.
Lemma candP_R' sw : (sw < a)%nat -> candidates d o s' sw = candX d o P sw sw.
Proof. intros; eapply cand_P; eassumption. Qed.

(** ** positions *)
Lemma shc_P c : (c_sw c < a)%nat -> (c_end c <= a)%nat -> SHC c = c.
Proof.
  intros H1 H2. destruct c as [sw e lex wid lid rid wc]. unfold shc, fw, fe. cbn [c_sw c_end c_lex c_wid c_lid c_rid c_wc] in *.
  destruct (Nat.ltb_spec sw a); [|lia]. destruct (Nat.leb_spec e a); [|lia]. reflexivity.
Qed.

Lemma shc_Q c : (a + r <= c_sw c)%nat -> (a + r < c_end c)%nat -> shift_c (a + r) (a + r') c = SHC c.
Proof.
  intros H1 H2. destruct c as [sw e lex wid lid rid wc]. unfold shc, shift_c, fw, fe. cbn [c_sw c_end c_lex c_wid c_lid c_rid c_wc] in *.
  destruct (Nat.ltb_spec sw a); [lia|]. destruct (Nat.leb_spec e a); [lia|]. f_equal; lia.
Qed.

Lemma has_prev_sim L L' p : REL L L' -> LIVE p -> has_prev L' (FE p) = has_prev L p.
Proof. intros H Hp. unfold has_prev. rewrite (lr_map _ _ _ _ _ H p Hp). destruct (at_ L p); reflexivity. Qed.

Lemma fe_le p : (p <= a)%nat -> FE p = p.
Proof. intros H. unfold fe. destruct (Nat.leb_spec p a); [reflexivity|lia]. Qed.
Lemma fe_gt p : (a < p)%nat -> FE p = (p - r + r')%nat.
Proof. intros H. unfold fe. destruct (Nat.leb_spec p a); [lia|reflexivity]. Qed.

(** ** candidates correspond *)
Lemma cand_P_sim sw : (sw < a)%nat -> candidates d o s' sw = map SHC (candidates d o s sw).
Proof.
  intros H. rewrite (candP_R sw H), (candP_R' sw H).
  symmetry. rewrite <- (map_id (candX d o P sw sw)) at 2. apply map_ext_in. intros c Hc.
  destruct (candX_P_in d o P sw c H Hc) as [E1 E2]. apply shc_P; lia.
Qed.

Lemma cand_Q_sim j : (j < q)%nat -> candidates d o s' (a + r' + j) = map SHC (candidates d o s (a + r + j)).
Proof.
  intros H. rewrite (cand_Q d o P R Q j H), (cand_Q d o P R' Q j H). unfold candX.
  replace (a + r' + j)%nat with (a + r + j - (a + r) + (a + r'))%nat by lia.
  rewrite cands_of_shift by lia. apply map_ext_in. intros c Hc.
  destruct (candX_Q_in d o P R Q j c H Hc) as [E1 E2]. apply shc_Q; lia.
Qed.

(** ** one insertion step at corresponding positions *)
Lemma step_P L L' i L1 : REL L L' -> (i < a)%nat ->
  insert_all (conn_of d) L i (candidates d o s (skipX d o P i)) = Some L1 ->
  exists L1', insert_all (conn_of d) L' i (candidates d o s' (skipX d o P i)) = Some L1' /\ REL L1 L1'.
Proof.
  intros H Hi E. destruct (skipP_R i Hi) as [_ Hlt].
  rewrite (cand_P_sim _ Hlt).
  assert (Hall : forall c, In c (candidates d o s (skipX d o P i)) -> LIVE (c_end c) /\ (0 < c_end c)%nat /\
            forall k mc, good a r (mk_node i (c_sw c) (c_end c) (c_lex c) (c_wid c) (c_lid c) (c_rid c) (c_wc c) k mc)).
  2:{ destruct (insert_all_sim a r r' (conn_of d) _ L L' i L1 H ltac:(left; lia) Hall E) as (L1' & E' & H').
      rewrite fe_le in E' by lia. eauto. }
  intros c Hc. rewrite (candP_R _ Hlt) in Hc.
  destruct (candX_P_in d o P _ c Hlt Hc) as [E1 E2].
  assert (i <= skipX d o P i)%nat by (unfold skipX; destruct (is_space _ _); lia).
  split; [left; lia|]. split; [lia|]. intros k mc. split; [left; cbn; lia|]. right. cbn [mk_node n_sn n_sw n_end]. lia.
Qed.

Lemma step_Q L L' sn j L1 : REL L L' -> LIVE sn -> (sn <= a + r + j)%nat -> (j < q)%nat ->
  insert_all (conn_of d) L sn (candidates d o s (a + r + j)) = Some L1 ->
  exists L1', insert_all (conn_of d) L' (FE sn) (candidates d o s' (a + r' + j)) = Some L1' /\ REL L1 L1'.
Proof.
  intros H Hsn Hle Hj E. rewrite (cand_Q_sim j Hj).
  eapply insert_all_sim; [exact H|exact Hsn| |exact E].
  intros c Hc. rewrite (cand_Q d o P R Q j Hj) in Hc.
  destruct (candX_Q_in d o P R Q j c Hj Hc) as [E1 E2].
  split; [right; lia|]. split; [lia|]. intros k mc. split; [exact Hsn|]. right. cbn [mk_node n_sn n_sw n_end]. lia.
Qed.

(** ** the dead zone is crossed without effect *)
Lemma dead_run (W : list N) L : (forall p, (a < p <= a + length W)%nat -> at_ L p = []) ->
  forall k i, (a < i)%nat -> (i + k = a + length W)%nat ->
  scanF d o (compile (d_chars d) (P ++ W ++ Q)) i L =
  if Nat.ltb 0 q then scanF d o (compile (d_chars d) (P ++ W ++ Q)) (a + length W + 1) L
  else Done (L, (a + length W)%nat).
Proof.
  intros Hz. induction k as [|k IH]; intros i Hi Hk; rewrite scanF_eq, (len_W d P W Q).
  - assert (i = a + length W)%nat by lia. subst i.
    destruct (Nat.ltb_spec 0 q).
    + destruct (Nat.leb_spec (a + length W + q) (a + length W)); [lia|].
      unfold has_prev. rewrite Hz by lia. cbn [negb]. f_equal. lia.
    + destruct (Nat.leb_spec (a + length W + q) (a + length W)); [reflexivity|lia].
  - destruct (Nat.leb_spec (a + length W + q) i); [lia|].
    unfold has_prev. rewrite Hz by lia. cbn [negb]. apply IH; lia.
Qed.

Lemma after_a (W : list N) L : (forall p, (a < p <= a + length W)%nat -> at_ L p = []) ->
  scanF d o (compile (d_chars d) (P ++ W ++ Q)) (S a) L =
  if Nat.ltb 0 q then scanF d o (compile (d_chars d) (P ++ W ++ Q)) (a + length W + 1) L
  else (if Nat.eqb (length W) 0 then scanF d o (compile (d_chars d) (P ++ W ++ Q)) (S a) L else Done (L, (a + length W)%nat)).
Proof.
  intros Hz. destruct (Nat.eqb_spec (length W) 0) as [E|Hne].
  - rewrite E. destruct (Nat.ltb 0 q); [f_equal; lia|reflexivity].
  - rewrite (dead_run W L Hz (length W - 1) (S a)) by lia. reflexivity.
Qed.

(** ** the simulation of the two loops *)
Definition pos_rel (i i' : nat) : Prop := ((i <= a)%nat /\ i' = i) \/ ((a + r < i)%nat /\ i' = (i - r + r')%nat).
Definition res_rel (L1 : lattice) (sn : nat) (L1' : lattice) (sn' : nat) : Prop :=
  REL L1 L1' /\ ((LIVE sn /\ sn' = FE sn) \/ (at_ L1 sn = [] /\ at_ L1' sn' = [])).

Lemma has_prev_le L L' p : REL L L' -> (p <= a)%nat -> has_prev L' p = has_prev L p.
Proof. intros H Hp. rewrite <- (fe_le p Hp) at 1. apply has_prev_sim; [exact H|left; exact Hp]. Qed.

Lemma has_prev_false_nil L p : has_prev L p = false -> at_ L p = [].
Proof. unfold has_prev. destruct (at_ L p); [reflexivity|discriminate]. Qed.

Theorem scan_sim : forall n i i' L L' L1 sn, (s_len s - i = n)%nat -> pos_rel i i' -> REL L L' ->
  scanF d o s i L = Done (L1, sn) ->
  exists L1' sn', scanF d o s' i' L' = Done (L1', sn') /\ res_rel L1 sn L1' sn'.
Proof.
  induction n as [n IH] using lt_wf_ind. intros i i' L L' L1 sn Hn Hpos H Hs.
  rewrite len_s in Hn.
  destruct Hpos as [[Hi ->]|[Hi ->]].
  - destruct (Nat.eq_dec i a) as [->|Hne].
    + (* at the start of the run *)
      rewrite scanF_eq in Hs. rewrite scanF_eq. rewrite len_s in Hs. rewrite len_s'.
      rewrite (has_prev_le L L' a H (le_n _)).
      destruct (Nat.leb_spec (a + r + q) a) as [Hend|Hend].
      * (* the sentence ends here: r = 0, Q = [] *)
        inversion Hs; subst L1 sn; clear Hs.
        destruct (Nat.leb_spec (a + r' + q) a) as [Hend'|Hend'].
        -- exists L', a. split; [reflexivity|]. split; [exact H|]. left. split; [left; lia|]. now rewrite fe_le.
        -- destruct (has_prev L a) eqn:Ehp; cbn [negb].
           ++ rewrite skipa_R' by (rewrite len_s'; lia).
              destruct (Nat.eqb_spec (a + r') (a + r' + q)); [|lia].
              exists L', a. split; [reflexivity|]. split; [exact H|]. left. split; [left; lia|]. now rewrite fe_le.
           ++ rewrite (after_a R' L' (lr_dead' _ _ _ _ _ H)).
              destruct (Nat.ltb_spec 0 q); [lia|]. destruct (Nat.eqb_spec r' 0); [lia|].
              exists L', (a + r')%nat. split; [reflexivity|]. split; [exact H|]. right.
              split; [now apply has_prev_false_nil|]. apply (lr_dead' _ _ _ _ _ H). lia.
      * destruct (has_prev L a) eqn:Ehp; cbn [negb] in *.
        -- rewrite skipa_R in Hs by (rewrite len_s; lia).
           destruct (Nat.eqb_spec (a + r) (a + r + q)) as [Eq|Nq].
           ++ (* trailing run *)
              inversion Hs; subst L1 sn; clear Hs.
              assert (q = 0)%nat by lia.
              destruct (Nat.leb_spec (a + r' + q) a).
              ** exists L', a. split; [reflexivity|]. split; [exact H|]. left. split; [left; lia|]. now rewrite fe_le.
              ** rewrite skipa_R' by (rewrite len_s'; lia).
                 destruct (Nat.eqb_spec (a + r') (a + r' + q)); [|lia].
                 exists L', a. split; [reflexivity|]. split; [exact H|]. left. split; [left; lia|]. now rewrite fe_le.
           ++ destruct (Nat.ltb_spec (a + r + q) (a + r)); [lia|].
              destruct (Nat.leb_spec (a + r' + q) a); [lia|].
              rewrite skipa_R' by (rewrite len_s'; lia).
              destruct (Nat.eqb_spec (a + r') (a + r' + q)); [lia|].
              destruct (Nat.ltb_spec (a + r' + q) (a + r')); [lia|].
              destruct (insert_all (conn_of d) L a (candidates d o s (a + r))) as [L2|] eqn:Ei; [|discriminate].
              rewrite <- (Nat.add_0_r (a + r)) in Ei.
              destruct (step_Q L L' a 0 L2 H ltac:(left; lia) ltac:(lia) ltac:(lia) Ei) as (L2' & Ei' & HR2).
              rewrite fe_le, Nat.add_0_r in Ei' by lia. rewrite Ei'.
              eapply (fun Hm Hp => IH _ Hm _ _ _ _ _ _ eq_refl Hp HR2 Hs); [rewrite len_s; (lia)|right; split; lia].
        -- (* nothing ends at the run start: both loops walk through their runs *)
           rewrite (after_a R L (lr_dead _ _ _ _ _ H)) in Hs.
           destruct (Nat.leb_spec (a + r' + q) a) as [Hend'|Hend'].
           ++ (* s' ends at a: r' = 0, Q = [] *)
              destruct (Nat.ltb_spec 0 q); [lia|]. destruct (Nat.eqb_spec r 0); [lia|].
              inversion Hs; subst L1 sn; clear Hs.
              exists L', a. split; [reflexivity|]. split; [exact H|]. right.
              split; [apply (lr_dead _ _ _ _ _ H); lia|].
              apply has_prev_false_nil. now rewrite (has_prev_le L L' a H (le_n _)).
           ++ rewrite (after_a R' L' (lr_dead' _ _ _ _ _ H)).
              destruct (Nat.ltb_spec 0 q).
              ** eapply (fun Hm Hp => IH _ Hm _ _ _ _ _ _ eq_refl Hp H Hs); [rewrite len_s; (lia)|right; split; lia].
              ** destruct (Nat.eqb_spec r 0); [lia|]. destruct (Nat.eqb_spec r' 0); [lia|].
                 inversion Hs; subst L1 sn; clear Hs.
                 exists L', (a + r')%nat. split; [reflexivity|]. split; [exact H|]. right.
                 split; [apply (lr_dead _ _ _ _ _ H); lia|apply (lr_dead' _ _ _ _ _ H); lia].
    + (* inside P *)
      assert (Hlt : (i < a)%nat) by lia.
      rewrite scanF_eq in Hs. rewrite scanF_eq. rewrite len_s in Hs. rewrite len_s'.
      rewrite (has_prev_le L L' i H Hi).
      destruct (Nat.leb_spec (a + r + q) i); [lia|]. destruct (Nat.leb_spec (a + r' + q) i); [lia|].
      destruct (has_prev L i); cbn [negb] in *.
      * destruct (skipP_R i Hlt) as [E1 Hx]. destruct (skipP_R' i Hlt) as [E2 _]. rewrite E1 in Hs. rewrite E2.
        destruct (Nat.eqb_spec (skipX d o P i) (a + r + q)); [lia|]. destruct (Nat.eqb_spec (skipX d o P i) (a + r' + q)); [lia|].
        destruct (Nat.ltb_spec (a + r + q) (skipX d o P i)); [lia|]. destruct (Nat.ltb_spec (a + r' + q) (skipX d o P i)); [lia|].
        destruct (insert_all (conn_of d) L i (candidates d o s (skipX d o P i))) as [L2|] eqn:Ei; [|discriminate].
        destruct (step_P L L' i L2 H Hlt Ei) as (L2' & Ei' & HR2). rewrite Ei'.
        assert (i <= skipX d o P i)%nat by (unfold skipX; destruct (is_space _ _); lia).
        eapply (fun Hm Hp => IH _ Hm _ _ _ _ _ _ eq_refl Hp HR2 Hs); [rewrite len_s; (lia)|left; split; [lia|reflexivity]].
      * eapply (fun Hm Hp => IH _ Hm _ _ _ _ _ _ eq_refl Hp H Hs); [rewrite len_s; (lia)|left; split; [lia|reflexivity]].
  - (* after the run *)
    set (j := (i - a - r)%nat). assert (Ei : i = (a + r + j)%nat) by lia. assert (Ei' : (i - r + r')%nat = (a + r' + j)%nat) by lia.
    rewrite Ei'. rewrite Ei in Hs, Hn. clear Ei'. assert (Hj : (0 < j)%nat) by lia. clearbody j. subst i.
    assert (Hlive : LIVE (a + r + j)) by (right; lia).
    assert (Efe : FE (a + r + j) = (a + r' + j)%nat) by (rewrite fe_gt by lia; lia).
    rewrite scanF_eq in Hs. rewrite scanF_eq. rewrite len_s in Hs. rewrite len_s'.
    pose proof (has_prev_sim L L' _ H Hlive) as Ehp. rewrite Efe in Ehp. rewrite Ehp.
    destruct (Nat.leb_spec (a + r + q) (a + r + j)).
    + inversion Hs; subst L1 sn; clear Hs. destruct (Nat.leb_spec (a + r' + q) (a + r' + j)); [|lia].
      exists L', (a + r' + j)%nat. split; [reflexivity|]. split; [exact H|]. left. split; [exact Hlive|now rewrite Efe].
    + destruct (Nat.leb_spec (a + r' + q) (a + r' + j)); [lia|].
      destruct (has_prev L (a + r + j)); cbn [negb] in *.
      * rewrite (skip_Q d o P R Q j) in Hs by lia. rewrite (skip_Q d o P R' Q j) by lia.
        set (x := skipX d o Q j) in *.
        assert (Hjx : (j <= x)%nat) by (unfold x, skipX; destruct (is_space _ _); lia).
        destruct (Nat.eqb_spec (a + r + x) (a + r + q)).
        -- inversion Hs; subst L1 sn; clear Hs. destruct (Nat.eqb_spec (a + r' + x) (a + r' + q)); [|lia].
           exists L', (a + r' + j)%nat. split; [reflexivity|]. split; [exact H|]. left. split; [exact Hlive|now rewrite Efe].
        -- destruct (Nat.eqb_spec (a + r' + x) (a + r' + q)); [lia|].
           destruct (Nat.ltb_spec (a + r + q) (a + r + x)); [discriminate|].
           destruct (Nat.ltb_spec (a + r' + q) (a + r' + x)); [lia|].
           destruct (insert_all (conn_of d) L (a + r + j) (candidates d o s (a + r + x))) as [L2|] eqn:Ei; [|discriminate].
           destruct (step_Q L L' (a + r + j) x L2 H Hlive ltac:(lia) ltac:(lia) Ei) as (L2' & Ei' & HR2).
           rewrite Efe in Ei'. rewrite Ei'.
           eapply (fun Hm Hp => IH _ Hm _ _ _ _ _ _ eq_refl Hp HR2 Hs); [rewrite len_s; (lia)|right; split; lia].
      * eapply (fun Hm Hp => IH _ Hm _ _ _ _ _ _ eq_refl Hp H Hs); [rewrite len_s; (lia)|right; split; lia].
Qed.

(** ** from the loops to the tokens *)
Lemma init_rel : REL (reset [] (s_len s)) (reset [] (s_len s')).
Proof.
  constructor.
  - intros p Hp. destruct (Nat.eq_dec p 0) as [->|Hne].
    + rewrite fe_le by lia. now rewrite !reset_at0.
    + pose proof (fe_pos a r r' p Hp ltac:(lia)). rewrite !reset_at_other by lia. reflexivity.
  - intros p Hp. apply reset_at_other. lia.
  - intros p Hp. apply reset_at_other. lia.
  - apply reset_nodes. split; [left; cbn; lia|now left].
  - intros e n Hn. destruct (Nat.eq_dec e 0) as [->|Hne].
    + rewrite reset_at0 in Hn. destruct Hn as [<-|[]]. reflexivity.
    + rewrite reset_at_other in Hn by exact Hne. destruct Hn.
Qed.

Lemma slice_P sw e W : (sw < e <= a)%nat -> slice (P ++ W ++ Q) sw e = slice P sw e.
Proof.
  intros H. unfold slice. rewrite skipn_app_l by lia. rewrite firstn_app, skipn_length.
  replace (e - sw - (a - sw))%nat with 0%nat by lia. cbn [firstn]. now rewrite app_nil_r.
Qed.

Lemma slice_Q sw e W : (a + length W <= sw)%nat -> slice (P ++ W ++ Q) sw e = slice Q (sw - a - length W) (e - a - length W).
Proof.
  intros H. unfold slice. rewrite app_assoc. replace sw with (length (P ++ W) + (sw - a - length W))%nat at 2 by (rewrite app_length; lia).
  rewrite skipn_app_r. f_equal. lia.
Qed.

Lemma token_sim e n t : (0 < e)%nat -> n_end n = e -> good a r n ->
  token_of d s (e, n) = Some t ->
  exists t', token_of d s' (FE e, SH n) = Some t' /\ strip t = strip t'.
Proof.
  intros He Eend [_ [->|[Hord Hz]]] Ht; [cbn in Eend; lia|].
  rewrite (sh_pos a r r' n) by lia. unfold token_of in *. cbn [n_lex n_wid n_sw n_lid n_rid n_mc].
  destruct (word_info d (n_lex n) (n_wid n)) as [[wc feat]|]; [|discriminate]. inversion Ht; subst t; clear Ht.
  eexists. split; [reflexivity|]. unfold strip. cbn [t_surface t_lex t_wid t_feature t_lid t_rid t_wcost t_total compile s_chars].
  f_equal. f_equal. f_equal. f_equal. f_equal. f_equal. f_equal.
  destruct Hz as [Hz|Hz].
  - rewrite (slice_P (n_sw n) e R), (slice_P _ _ R'); unfold fw, fe.
    + destruct (Nat.ltb_spec (n_sw n) a); [|lia]. destruct (Nat.leb_spec e a); [|lia]. reflexivity.
    + destruct (Nat.ltb_spec (n_sw n) a); [|lia]. destruct (Nat.leb_spec e a); lia.
    + lia.
  - rewrite (slice_Q (n_sw n) e R) by lia. rewrite (slice_Q _ _ R'); unfold fw, fe.
    + destruct (Nat.ltb_spec (n_sw n) a); [lia|]. destruct (Nat.leb_spec e a); [lia|]. f_equal; lia.
    + destruct (Nat.ltb_spec (n_sw n) a); lia.
Qed.

Theorem respace_tokens ts L eos : P ++ R ++ Q <> [] -> P ++ R' ++ Q <> [] ->
  tokenize_fresh d o (P ++ R ++ Q) = Done (ts, L, eos) ->
  exists ts' L' eos', tokenize_fresh d o (P ++ R' ++ Q) = Done (ts', L', eos') /\ map strip ts' = map strip ts.
Proof.
  intros Hne Hne' Ht. rewrite tokenize_fresh_eq in Ht by exact Hne. rewrite tokenize_fresh_eq by exact Hne'.
  rewrite build_lattice_scanF in Ht. rewrite build_lattice_scanF.
  destruct (scanF d o s 0 (reset [] (s_len s))) as [[L1 sn]| |] eqn:Es; try discriminate.
  destruct (scan_sim _ 0 0 _ _ L1 sn eq_refl ltac:(left; split; [lia|reflexivity]) init_rel Es) as (L1' & sn' & Es' & Hrel & Hsn).
  rewrite Es'.
  destruct (insert_eos (conn_of d) L1 sn (s_len s)) as [e1|] eqn:Ee; [|discriminate].
  destruct Hsn as [[Hlive ->]|[Hnil _]].
  2:{ unfold insert_eos, search_min in Ee. rewrite Hnil in Ee. cbn in Ee. discriminate. }
  destruct (insert_eos_sim a r r' (conn_of d) L1 L1' sn (s_len s) (s_len s') e1 Hrel Hlive Ee) as (e1' & Ee' & Esn & Emidx & Emc).
  rewrite Ee'.
  assert (Esn1 : n_sn e1 = sn).
  { unfold insert_eos in Ee. destruct (search_min _ _ _ _) as [[i c]|]; [|discriminate]. destruct (scan_ok _ _ _ _); [|discriminate]. now inversion Ee. }
  destruct (walk L1 (S (length (P ++ R ++ Q))) (n_sn e1) (n_midx e1)) as [top|] eqn:Ew; [|discriminate].
  assert (Hsnle : (sn <= s_len s)%nat).
  { unfold scanF in Es. destruct (scan_stop d o s _ 0 0 _ _ _ eq_refl (Nat.le_0_l _) Es) as [->|[Hlt _]]; lia. }
  rewrite Esn, Emidx, Esn1 in *.
  rewrite (walk_sim a r r' L1 L1' Hrel _ (S (length (P ++ R' ++ Q))) sn (n_midx e1) top Hlive) by
    (try exact Ew; rewrite len_s in Hsnle; rewrite !app_length; unfold fe; destruct (Nat.leb_spec sn a); lia).
  destruct (all_some (map (token_of d s) (rev top))) as [ts0|] eqn:Ea; [|discriminate].
  inversion Ht; subst ts0 L eos; clear Ht.
  rewrite <- map_rev, map_map.
  destruct (all_some_map2 (token_of d s) (fun en => token_of d s' (FE (fst en), SH (snd en))) (fun t t' => strip t = strip t') (rev top) ts) as (ts' & Ea' & F).
  - intros [e n] t Hin Hto. apply in_rev in Hin. destruct (walk_in _ _ _ _ _ Ew e n Hin) as [He Hn]. cbn [fst snd].
    eapply token_sim; [exact He|exact (lr_end _ _ _ _ _ Hrel e n Hn)|exact (lr_good _ _ _ _ _ Hrel e n Hn)|exact Hto].
  - exact Ea.
  - rewrite Ea'. eexists; eexists; eexists. split; [reflexivity|].
    clear -F. induction F as [|t t' l l' E _ IH]; [reflexivity|]. cbn [map]. now rewrite E, IH.
Qed.
End Two.

(** ** the property-level statement *)
(** space characters share a category with one another and with no other character (they belong
    to SPACE alone and nobody else does) -- a condition on the dictionary's char.def *)
Definition dict_space_sep (d : dict) (o : options) : Prop :=
  forall c1 c2 : N,
    let x := char_info (d_chars d) c1 in let y := char_info (d_chars d) c2 in
    (is_space o x = true -> is_space o y = true -> share x y = true) /\
    (is_space o x = true -> is_space o y = false -> share x y = false /\ share y x = false).

Lemma dict_space_sep_sent d o cs : dict_space_sep d o -> space_sep o (map (char_info (d_chars d)) cs).
Proof.
  intros H x y Hx Hy. apply in_map_iff in Hx, Hy. destruct Hx as (c1 & <- & _). destruct Hy as (c2 & <- & _). apply H.
Qed.

(** one re-spacing step: the maximal space run R between P and Q is replaced by the run R';
    an interior run stays non-empty, a leading (P = []) or trailing (Q = []) run may appear or
    disappear; the sentences themselves are not empty *)
Definition respace_step (d : dict) (o : options) (cs cs' : list N) : Prop :=
  exists P R R' Q,
    cs = P ++ R ++ Q /\ cs' = P ++ R' ++ Q /\ cs <> [] /\ cs' <> [] /\
    (forall c, In c R -> is_space o (char_info (d_chars d) c) = true) /\
    (forall c, In c R' -> is_space o (char_info (d_chars d) c) = true) /\
    (forall P0 c, P = P0 ++ [c] -> is_space o (char_info (d_chars d) c) = false) /\
    (forall c Q0, Q = c :: Q0 -> is_space o (char_info (d_chars d) c) = false) /\
    (P <> [] -> Q <> [] -> R <> [] /\ R' <> []).

Lemma respace_step_sym d o cs cs' : respace_step d o cs cs' -> respace_step d o cs' cs.
Proof.
  intros (P & R & R' & Q & E1 & E2 & N1 & N2 & H1 & H2 & H3 & H4 & H5).
  exists P, R', R, Q. repeat split; auto; intros; destruct (H5 ltac:(assumption) ltac:(assumption)); assumption.
Qed.

(** any number of steps *)
Inductive respaced (d : dict) (o : options) : list N -> list N -> Prop :=
| rs_refl cs : respaced d o cs cs
| rs_step cs1 cs2 cs3 : respace_step d o cs1 cs2 -> respaced d o cs2 cs3 -> respaced d o cs1 cs3.

Definition same_tokens (d : dict) (o : options) (cs cs' : list N) : Prop :=
  forall ts L eos, tokenize_fresh d o cs = Done (ts, L, eos) ->
  exists ts' L' eos', tokenize_fresh d o cs' = Done (ts', L', eos') /\ map strip ts' = map strip ts.

Lemma step_same_tokens d o cs cs' : dict_space_sep d o -> lex_space_free d o ->
  respace_step d o cs cs' -> same_tokens d o cs cs'.
Proof.
  intros Hd Hlex (P & R & R' & Q & -> & -> & N1 & N2 & H1 & H2 & H3 & H4 & H5) ts L eos Ht.
  eapply (respace_tokens d o P R R' Q); eauto using dict_space_sep_sent.
  - intros; now destruct (H5 ltac:(assumption) ltac:(assumption)).
  - intros; now destruct (H5 ltac:(assumption) ltac:(assumption)).
Qed.

Theorem respaced_same_tokens d o cs cs' : dict_space_sep d o -> lex_space_free d o ->
  respaced d o cs cs' -> same_tokens d o cs cs' /\ same_tokens d o cs' cs.
Proof.
  intros Hd Hlex H. induction H as [cs|cs1 cs2 cs3 Hs _ [IH1 IH2]].
  - split; intros ts L eos Ht; eauto.
  - split; intros ts L eos Ht.
    + destruct (step_same_tokens d o cs1 cs2 Hd Hlex Hs ts L eos Ht) as (ts2 & L2 & e2 & Ht2 & E2).
      destruct (IH1 ts2 L2 e2 Ht2) as (ts3 & L3 & e3 & Ht3 & E3). exists ts3, L3, e3. split; [exact Ht3|congruence].
    + destruct (IH2 ts L eos Ht) as (ts2 & L2 & e2 & Ht2 & E2).
      destruct (step_same_tokens d o cs2 cs1 Hd Hlex (respace_step_sym _ _ _ _ Hs) ts2 L2 e2 Ht2) as (ts1 & L1 & e1 & Ht1 & E1).
      exists ts1, L1, e1. split; [exact Ht1|congruence].
Qed.

(** and when one of them panics (e.g. a character without unknown-word entry, known finding K1),
    so does the other *)
Corollary respaced_same_outcome d o cs cs' : dict_space_sep d o -> lex_space_free d o -> respaced d o cs cs' ->
  (tokenize_fresh d o cs = Panicked <-> tokenize_fresh d o cs' = Panicked).
Proof.
  intros Hd Hlex H. destruct (respaced_same_tokens d o cs cs' Hd Hlex H) as [H1 H2].
  split; intros Hp.
  - destruct (tokenize_fresh d o cs') as [[[ts L] e]| |] eqn:E; [|reflexivity|exfalso; eapply tokenize_fresh_fuel; eauto].
    destruct (H2 ts L e E) as (? & ? & ? & Hc & _). congruence.
  - destruct (tokenize_fresh d o cs) as [[[ts L] e]| |] eqn:E; [|reflexivity|exfalso; eapply tokenize_fresh_fuel; eauto].
    destruct (H1 ts L e E) as (? & ? & ? & Hc & _). congruence.
Qed.
