(** From the generic Viterbi invariant to [build_lattice] / [tokenize] of the model. *)
From Vib Require Import Model.Base Model.Lattice Model.Tokenizer Proofs.Viterbi.
From Coq Require Import Arith.
Local Open Scope Z_scope.

Lemma inv_weaken conn L s s' : Inv conn L s -> (s <= s')%nat -> Inv conn L s'.
Proof.
  intros I Hle. constructor; try apply I.
  intros e n Hn Hnb. destruct (inv_ord _ _ _ I _ _ Hn Hnb). split; lia.
Qed.

(** ** reset *)
Lemma nth_all_nil (l : list (list node)) e : Forall (fun x => x = []) l -> nth e l [] = [].
Proof.
  revert e; induction l as [|x l IH]; intros e H; destruct e; simpl; auto.
  - now inversion H.
  - inversion H; auto.
Qed.

Lemma reset_at0 L len : at_ (reset L len) 0 = [bos].
Proof. unfold reset, at_. destruct (_ ++ _); reflexivity. Qed.

Lemma reset_at_other L len e : e <> 0%nat -> at_ (reset L len) e = [].
Proof.
  intros He. unfold reset, at_. destruct e as [|e]; [congruence|].
  set (ext := map (fun _ => []) L ++ repeat [] (S len - length (map (fun _ : list node => []) L))).
  assert (F : Forall (fun x : list node => x = []) ext).
  { apply Forall_app. split.
    - apply Forall_forall. intros x Hx. apply in_map_iff in Hx. destruct Hx as (? & <- & _). reflexivity.
    - apply Forall_forall. intros x Hx. apply repeat_spec in Hx. exact Hx. }
  destruct ext as [|x t]; simpl; [destruct e; reflexivity|].
  apply nth_all_nil. now inversion F.
Qed.

Lemma reset_inv conn L len : Inv conn (reset L len) 0.
Proof. apply inv_init; [apply reset_at0|apply reset_at_other]. Qed.

(** the result of [reset] does not depend on the previous contents *)
Lemma reset_at_indep L1 L2 len e : at_ (reset L1 len) e = at_ (reset L2 len) e.
Proof.
  destruct (Nat.eq_dec e 0) as [->|Hne]; [now rewrite !reset_at0|now rewrite !reset_at_other].
Qed.

(** ** candidates are well-formed *)
Lemma groupable_ge1 cis : Forall (fun g => (1 <= g)%nat) (groupable_of cis).
Proof.
  induction cis as [|c t IH]; simpl; [constructor|].
  destruct t as [|c' t']; [repeat constructor|].
  destruct (groupable_of (c' :: t')) as [|g gs] eqn:E; [repeat constructor|].
  constructor; [destruct (share c c'); lia|exact IH].
Qed.

Lemma s_grp_ge1 ct cs i : (1 <= s_grp (compile ct cs) i)%nat.
Proof.
  unfold s_grp, compile; simpl.
  pose proof (groupable_ge1 (map (char_info ct) cs)) as F.
  destruct (Nat.lt_ge_cases i (length (groupable_of (map (char_info ct) cs)))) as [Hlt|Hge].
  - rewrite Forall_forall in F. apply F. apply nth_In. exact Hlt.
  - rewrite nth_overflow by exact Hge. lia.
Qed.

Definition cand_wf (sw : nat) (c : cand) : Prop := c_sw c = sw /\ (sw < c_end c)%nat.

Lemma scan_entries_wf unk sw e base : (sw < e)%nat -> Forall (cand_wf sw) (scan_entries unk sw e base).
Proof.
  intros He. unfold scan_entries. apply Forall_forall. intros c Hc.
  apply in_flat_map in Hc. destruct Hc as (ir & _ & Hc).
  destruct (ur_cate (snd ir) =? base)%N; [|destruct Hc].
  destruct Hc as [<-|[]]. split; simpl; auto.
Qed.

Lemma lex_matches_wf lex rows sw suffix : Forall (cand_wf sw) (lex_matches lex rows sw suffix).
Proof.
  unfold lex_matches. apply Forall_forall. intros c Hc.
  apply in_flat_map in Hc. destruct Hc as (k & Hk & Hc).
  apply in_seq in Hk.
  apply in_flat_map in Hc. destruct Hc as (ir & _ & Hc).
  destruct (str_eqb _ _); [|destruct Hc]. destruct Hc as [<-|[]]. split; simpl; lia.
Qed.

Lemma take_while_incl {A} (f : A -> bool) l x : In x (take_while f l) -> In x l.
Proof.
  induction l as [|y l IH]; simpl; [tauto|]. destruct (f y); [|intros []].
  intros [<-|H]; auto.
Qed.

Lemma gen_unk_words_wf unk s sw hm mgl :
  (1 <= s_grp s sw)%nat -> Forall (cand_wf sw) (gen_unk_words unk s sw hm mgl).
Proof.
  intros Hg. unfold gen_unk_words.
  destruct (hm && negb (ci_invoke (s_ci s sw))); [constructor|].
  apply Forall_app; split; [|apply Forall_app; split].
  - match goal with |- Forall _ (if ?b then _ else _) => destruct b end; [|constructor].
    apply scan_entries_wf. lia.
  - apply Forall_forall. intros c Hc. apply in_flat_map in Hc. destruct Hc as (i & Hi & Hc).
    apply take_while_incl in Hi. apply filter_In in Hi. destruct Hi as [Hi _]. apply in_seq in Hi.
    pose proof (scan_entries_wf unk sw (sw + i) (ci_base (s_ci s sw)) ltac:(lia)) as F.
    rewrite Forall_forall in F. auto.
  - match goal with |- Forall _ (if ?b then _ else _) => destruct b end; [constructor|].
    apply scan_entries_wf. lia.
Qed.

Lemma candidates_wf d o ct cs sw :
  Forall (cand_wf sw) (candidates d o (compile ct cs) sw).
Proof.
  unfold candidates. apply Forall_app; split; [|apply Forall_app; split].
  - destruct (d_user d); [apply lex_matches_wf|constructor].
  - apply lex_matches_wf.
  - apply gen_unk_words_wf. apply s_grp_ge1.
Qed.

(** ** insert_all and scan preserve the invariant *)
Lemma insert_all_inv conn cs : forall L s sn L',
  Inv conn L s -> (s <= sn)%nat ->
  Forall (fun c => (sn <= c_sw c < c_end c)%nat) cs ->
  insert_all conn L sn cs = Some L' -> Inv conn L' sn.
Proof.
  induction cs as [|c cs IH]; intros L s sn L' I Hs F H; simpl in H.
  - inversion H; subst. eapply inv_weaken; eauto.
  - destruct (insert_node conn L sn (c_sw c) (c_end c) (c_lex c) (c_wid c) (c_lid c) (c_rid c) (c_wc c)) as [L1|] eqn:E; [|discriminate].
    inversion F as [|? ? Hc F']; subst.
    pose proof (insert_inv conn _ _ _ _ _ _ _ _ _ _ _ I Hs Hc E) as I1.
    eapply IH; eauto.
Qed.

Lemma scan_inv d o ct cs : forall fuel sn sw L s L' sn',
  Inv (conn_of d) L s -> (s <= sn)%nat -> (sn <= sw)%nat ->
  scan d o (compile ct cs) fuel sn sw L = Done (L', sn') ->
  exists s', Inv (conn_of d) L' s'.
Proof.
  induction fuel as [|f IH]; intros sn sw L s L' sn' I Hs Hsw H; cbn [scan] in H; [discriminate|].
  destruct (Nat.leb (s_len (compile ct cs)) sw); [inversion H; subst; eauto|].
  destruct (negb (has_prev L sn)).
  - eapply (IH (S sw) (S sw) L s); eauto. lia.
  - set (sw' := if is_space o (s_ci (compile ct cs) sn) then (sw + s_grp (compile ct cs) sn)%nat else sw) in *.
    assert (Hsw' : (sw <= sw')%nat) by (subst sw'; destruct (is_space _ _); lia).
    destruct (Nat.eqb sw' (s_len (compile ct cs))); [inversion H; subst; eauto|].
    destruct (Nat.ltb (s_len (compile ct cs)) sw'); [discriminate|].
    destruct (insert_all (conn_of d) L sn (candidates d o (compile ct cs) sw')) as [L1|] eqn:E; [|discriminate].
    assert (I1 : Inv (conn_of d) L1 sn).
    { refine (insert_all_inv _ _ _ _ _ _ I Hs _ E).
      pose proof (candidates_wf d o ct cs sw') as F. rewrite Forall_forall in F.
      apply Forall_forall. intros c Hc. destruct (F c Hc) as [E1 E2]. lia. }
    eapply (IH (S sw') (S sw') L1 sn); eauto; lia.
Qed.

(** ** C02 for the model's tokenizer *)
Theorem build_lattice_optimal d o ct cs L0 L eos :
  build_lattice d o (compile ct cs) L0 = Done (L, eos) ->
  exists s, Inv (conn_of d) L s /\
  (exists p, nth_error (at_ L (n_sn eos)) (n_midx eos) = Some p /\
             n_mc eos = n_mc p + conn_of d (n_rid p) 0%N /\ chain (conn_of d) L p (n_mc p)) /\
  (forall q c, In q (at_ L (n_sn eos)) -> chain (conn_of d) L q c ->
               n_mc eos <= c + conn_of d (n_rid q) 0%N).
Proof.
  unfold build_lattice. intros H.
  destruct (scan d o (compile ct cs) (S (s_len (compile ct cs))) 0 0 (reset L0 (s_len (compile ct cs)))) as [[L1 sn]| |] eqn:Es; try discriminate.
  destruct (insert_eos (conn_of d) L1 sn (s_len (compile ct cs))) as [e|] eqn:Ee; [|discriminate].
  inversion H; subst L1 e; clear H.
  destruct (scan_inv d o ct cs _ _ _ _ 0%nat _ _ (reset_inv _ _ _) (le_n _) (le_n _) Es) as [s I].
  exists s. split; [exact I|].
  assert (n_sn eos = sn) as ->.
  { unfold insert_eos in Ee. destruct (search_min _ _ _ _) as [[i c]|]; [|discriminate].
    destruct (scan_ok _ _ _ _); [|discriminate]. inversion Ee; reflexivity. }
  eapply eos_optimal; eauto.
Qed.

(** tokens in reading order form a path whose accumulated costs are the tokens' total costs *)
Theorem tokenize_path d o ct cs w w' :
  w_sent w = compile ct cs -> cs <> [] ->
  tokenize d o w = Done w' ->
  exists L eos s p,
    w_lat w' = L /\ w_eos w' = Some eos /\ Inv (conn_of d) L s /\
    nth_error (at_ L (n_sn eos)) (n_midx eos) = Some p /\
    good_path (conn_of d) L (n_sn eos) (n_mc p) (n_rid p) (rev (w_top w')) /\
    n_mc eos = n_mc p + conn_of d (n_rid p) 0%N /\
    (forall q c, In q (at_ L (n_sn eos)) -> chain (conn_of d) L q c ->
                 n_mc eos <= c + conn_of d (n_rid q) 0%N).
Proof.
  intros Hs Hne H. unfold tokenize in H. rewrite Hs in H.
  assert (s_chars (compile ct cs) = cs) as Ec by reflexivity. rewrite Ec in H.
  destruct cs as [|c0 cs']; [congruence|].
  destruct (build_lattice d o (compile ct (c0 :: cs')) (w_lat w)) as [[L eos]| |] eqn:Eb; try discriminate.
  destruct (walk L _ (n_sn eos) (n_midx eos)) as [top|] eqn:Ew; [|discriminate].
  inversion H; subst w'; clear H. simpl.
  destruct (build_lattice_optimal _ _ _ _ _ _ _ Eb) as (s & I & (p & Hp & Em & Hc) & Hopt).
  exists L, eos, s, p.
  split; [reflexivity|]. split; [reflexivity|]. split; [exact I|]. split; [exact Hp|].
  split; [eapply walk_good; eauto|]. split; [exact Em|exact Hopt].
Qed.
