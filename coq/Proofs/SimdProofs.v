(** C07: the AVX2 path computes what the portable loop computes -- lane by lane, and for whole rows. *)
From Vib Require Import Model.Base Model.Scorer Model.Simd.
From Coq Require Import Arith.
Local Open Scope N_scope.

Definition small (x : N) : Prop := x < 2147483648.

Record wf (sc : ascorer) : Prop := {
  wf_blen : small (N.of_nat (length (as_bases sc)));
  wf_clen : small (N.of_nat (length (as_checks sc)));
  wf_same : length (as_checks sc) = length (as_costs sc);
  wf_bases : Forall small (as_bases sc);          (* bases below 2^31: base xor key stays non-negative as i32 *)
  wf_costs : Forall (fun c => c < W32) (as_costs sc) }.

Lemma s32_small x : small x -> s32 x = Z.of_N x.
Proof. unfold small, s32. intros H. destruct (N.ltb_spec x 2147483648); [reflexivity|lia]. Qed.

Lemma cmpgt_small a b : small a -> small b -> cmpgt a b = (b <? a).
Proof.
  intros Ha Hb. unfold cmpgt. rewrite !s32_small by assumption.
  destruct (N.ltb_spec b a), (Z.ltb_spec (Z.of_N b) (Z.of_N a)); try reflexivity; lia.
Qed.

Lemma log2_small x : x <> 0 -> small x -> N.log2 x < 31.
Proof. intros N0 H. apply N.log2_lt_pow2; [lia|exact H]. Qed.

Lemma lxor_small a b : small a -> small b -> small (N.lxor a b).
Proof.
  intros Ha Hb. destruct (N.eq_dec (N.lxor a b) 0) as [E|NE]; [rewrite E; reflexivity|].
  unfold small. change 2147483648 with (2 ^ 31). apply N.log2_lt_pow2; [lia|].
  eapply N.le_lt_trans; [apply N.log2_lxor|].
  destruct (N.eq_dec a 0) as [->|Na]; destruct (N.eq_dec b 0) as [->|Nb].
  - cbn. lia.
  - rewrite N.max_r by (cbn; lia). now apply log2_small.
  - rewrite N.max_l by (cbn; lia). now apply log2_small.
  - apply N.max_lub_lt; now apply log2_small.
Qed.

Lemma gather_on src mem idx v : small idx -> nth_error mem (N.to_nat idx) = Some v -> gather src mem idx true = Some v.
Proof.
  intros Hs H. unfold gather. rewrite s32_small by exact Hs.
  destruct (Z.ltb_spec (Z.of_N idx) 0); [lia|]. now rewrite <- N_nat_Z, Nat2Z.id.
Qed.

Theorem avx2_lane_correct sc k1 k2 : wf sc -> small k1 -> small k2 -> avx2_lane sc k1 k2 = Some (scalar_lane sc k1 k2).
Proof.
  intros [Hbl Hcl Hsame Hb Hc] H1 H2. unfold avx2_lane, scalar_lane.
  rewrite cmpgt_small by assumption.
  destruct (N.ltb_spec k1 (N.of_nat (length (as_bases sc)))) as [Hin|Hout].
  - (* key1 inside bases *)
    destruct (nth_error (as_bases sc) (N.to_nat k1)) as [base|] eqn:Eb.
    2:{ apply nth_error_None in Eb. lia. }
    rewrite (gather_on 0 _ k1 base H1 Eb).
    assert (Sb : small base) by (eapply Forall_forall; [exact Hb|eapply nth_error_In; exact Eb]).
    pose proof (lxor_small base k2 Sb H2) as Sp. set (pos := N.lxor base k2) in *.
    rewrite cmpgt_small by assumption. rewrite Bool.andb_true_r.
    destruct (N.ltb_spec pos (N.of_nat (length (as_checks sc)))) as [Pin|Pout].
    + destruct (nth_error (as_checks sc) (N.to_nat pos)) as [check|] eqn:Ec.
      2:{ apply nth_error_None in Ec. lia. }
      rewrite (gather_on _ _ pos check Sp Ec). rewrite Bool.andb_true_r.
      destruct (check =? k1).
      * destruct (nth_error (as_costs sc) (N.to_nat pos)) as [c|] eqn:Ek.
        2:{ apply nth_error_None in Ek. lia. }
        rewrite (gather_on 0 _ pos c Sp Ek). f_equal. symmetry. now apply nth_error_nth.
      * reflexivity.
    + cbn [gather]. assert (E : nth_error (as_checks sc) (N.to_nat pos) = None) by (apply nth_error_None; lia).
      rewrite E. replace (UNUSED_CHECK =? k1) with false; [reflexivity|].
      symmetry. apply N.eqb_neq. unfold small, UNUSED_CHECK in *. lia.
  - cbn [gather]. assert (E : nth_error (as_bases sc) (N.to_nat k1) = None) by (apply nth_error_None; lia).
    rewrite E. cbn [N.lxor]. rewrite Bool.andb_false_r. cbn [gather].
    replace (UNUSED_CHECK =? k1) with false; [reflexivity|].
    symmetry. apply N.eqb_neq. unfold small, UNUSED_CHECK in *. lia.
Qed.

(** ** whole rows: the wrapped lane sums add up to the portable total *)
Definition cong (p : N) (v : Z) : Prop := ((Z.of_N p - v) mod 4294967296 = 0)%Z.

Lemma cong_add32 p q v w : cong p v -> cong q w -> cong (add32 p q) (v + w).
Proof.
  unfold cong, add32, W32. intros Hp Hq. rewrite N2Z.inj_mod, N2Z.inj_add. change (Z.of_N 4294967296) with 4294967296%Z.
  apply Z.mod_divide in Hp; [|lia]. apply Z.mod_divide in Hq; [|lia]. apply Z.mod_divide; [lia|].
  destruct Hp as (a & Ha). destruct Hq as (b & Hb).
  pose proof (Z.div_mod (Z.of_N p + Z.of_N q) 4294967296 ltac:(lia)) as D.
  exists (a + b - (Z.of_N p + Z.of_N q) / 4294967296)%Z. lia.
Qed.

Lemma cong_s32 c : c < W32 -> cong c (s32 c).
Proof.
  unfold cong, s32, W32. intros H. destruct (c <? 2147483648).
  - now rewrite Z.sub_diag.
  - replace (Z.of_N c - (Z.of_N c - 4294967296))%Z with (1 * 4294967296)%Z by lia. apply Z.mod_mul. lia.
Qed.

Lemma scalar_lane_bound sc k1 k2 : wf sc -> scalar_lane sc k1 k2 < W32.
Proof.
  intros [_ _ Hsame _ Hc]. unfold scalar_lane, W32.
  destruct (nth_error (as_bases sc) (N.to_nat k1)); [|lia].
  destruct (nth_error (as_checks sc) _) as [chk|] eqn:E; [|lia].
  destruct (chk =? k1); [|lia].
  destruct (nth_in_or_default (N.to_nat (N.lxor n k2)) (as_costs sc) 0) as [Hin | ->]; [|lia].
  eapply Forall_forall in Hc; [exact Hc|exact Hin].
Qed.

(** sum of a list of lane patterns, as an integer *)
Definition tot (s : list N) : Z := fold_right (fun p acc => (Z.of_N p + acc)%Z) 0%Z s.

Lemma lanes_correct sc : wf sc -> forall a b s, Forall small a -> Forall small b ->
  exists s', lanes_avx2 sc a b s = Some s' /\ length s' = length s /\
             ((tot s' - (tot s + lanes_scalar sc (firstn (length s) a) (firstn (length s) b))) mod 4294967296 = 0)%Z.
Proof.
  intros W. induction a as [|x a IH]; intros b s Fa Fb.
  - exists s. cbn. rewrite firstn_nil. cbn. repeat split. replace (tot s - (tot s + 0))%Z with 0%Z by lia. reflexivity.
  - destruct b as [|y b].
    + exists s. cbn. rewrite firstn_nil. destruct (length s); cbn; repeat split; replace (tot s - (tot s + 0))%Z with 0%Z by lia; reflexivity.
    + destruct s as [|z s].
      * exists []. cbn. repeat split.
      * inversion Fa; subst. inversion Fb; subst. cbn [lanes_avx2].
        rewrite (avx2_lane_correct sc x y W) by assumption.
        destruct (IH b s) as (s' & E & L & C); try assumption. rewrite E.
        exists (add32 z (scalar_lane sc x y) :: s'). split; [reflexivity|]. split; [cbn; now rewrite L|].
        cbn [length firstn lanes_scalar tot fold_right].
        pose proof (cong_add32 z (scalar_lane sc x y) (Z.of_N z) (s32 (scalar_lane sc x y))) as A.
        unfold cong in A. specialize (A ltac:(now rewrite Z.sub_diag) (cong_s32 _ (scalar_lane_bound sc x y W))).
        fold (tot s'). fold (tot s).
        apply Z.mod_divide in A; [|lia]. apply Z.mod_divide in C; [|lia]. apply Z.mod_divide; [lia|].
        destruct A as (u & Hu). destruct C as (v & Hv). exists (u + v)%Z. lia.
Qed.

Definition row8 (r : list N) : Prop := length r = 8%nat /\ Forall small r.

Lemma rows_correct sc : wf sc -> forall rows1 rows2 s, Forall row8 rows1 -> Forall row8 rows2 -> length s = 8%nat ->
  exists s', avx2_rows sc rows1 rows2 s = Some s' /\ length s' = 8%nat /\
             ((tot s' - (tot s + scalar_rows sc rows1 rows2)) mod 4294967296 = 0)%Z.
Proof.
  intros W. induction rows1 as [|r1 t1 IH]; intros rows2 s F1 F2 Ls.
  - exists s. cbn. repeat split; [exact Ls|]. replace (tot s - (tot s + 0))%Z with 0%Z by lia. reflexivity.
  - destruct rows2 as [|r2 t2].
    + exists s. cbn. repeat split; [exact Ls|]. replace (tot s - (tot s + 0))%Z with 0%Z by lia. reflexivity.
    + inversion F1 as [|? ? [L1 S1] F1']; subst. inversion F2 as [|? ? [L2 S2] F2']; subst.
      destruct (lanes_correct sc W r1 r2 s S1 S2) as (s1 & E1 & Ls1 & C1).
      rewrite Ls, <- L1, firstn_all, L1, <- L2, firstn_all in C1.
      cbn [avx2_rows scalar_rows]. rewrite E1.
      destruct (IH t2 s1 F1' F2' ltac:(congruence)) as (s' & E & L' & C). exists s'. split; [exact E|]. split; [exact L'|].
      apply Z.mod_divide in C1; [|lia]. apply Z.mod_divide in C; [|lia]. apply Z.mod_divide; [lia|].
      destruct C1 as (u & Hu). destruct C as (v & Hv). exists (u + v)%Z. lia.
Qed.

Lemma fold_cong : forall s acc v, cong acc v -> cong (fold_left add32 s acc) (v + tot s).
Proof.
  induction s as [|p s IH]; intros acc v H; cbn [fold_left tot fold_right].
  - now rewrite Z.add_0_r.
  - fold (tot s). replace (v + (Z.of_N p + tot s))%Z with ((v + Z.of_N p) + tot s)%Z by lia. apply IH.
    apply cong_add32; [exact H|]. unfold cong. now rewrite Z.sub_diag.
Qed.

Lemma fold_bound : forall s acc, acc < W32 -> fold_left add32 s acc < W32.
Proof.
  induction s as [|p s IH]; intros acc H; cbn [fold_left]; [exact H|]. apply IH. unfold add32, W32. apply N.mod_lt. lia.
Qed.

Lemma cong_unique p v : p < W32 -> (-2147483648 <= v < 2147483648)%Z -> cong p v -> s32 p = v.
Proof.
  unfold cong, s32, W32. intros Hp Hv C. apply Z.mod_divide in C; [|lia]. destruct C as (k & Hk).
  destruct (N.ltb_spec p 2147483648); lia.
Qed.

(** the whole AVX2 accumulation returns the portable total (as long as that total is an i32 at all:
    the portable debug build would otherwise stop on the overflow) *)
Theorem avx2_accumulate_correct sc rows1 rows2 : wf sc -> Forall row8 rows1 -> Forall row8 rows2 ->
  (-2147483648 <= scalar_rows sc rows1 rows2 < 2147483648)%Z ->
  avx2_accumulate sc rows1 rows2 = Some (scalar_rows sc rows1 rows2).
Proof.
  intros W F1 F2 Hr. unfold avx2_accumulate.
  destruct (rows_correct sc W rows1 rows2 (repeat 0 8) F1 F2 eq_refl) as (s' & E & L & C). rewrite E. f_equal.
  apply cong_unique; [apply fold_bound; reflexivity|exact Hr|].
  pose proof (fold_cong s' 0 0%Z ltac:(reflexivity)) as H. unfold cong in *.
  change (tot (repeat 0 8)) with 0%Z in C.
  apply Z.mod_divide in C; [|lia]. apply Z.mod_divide in H; [|lia]. apply Z.mod_divide; [lia|].
  destruct C as (u & Hu). destruct H as (v & Hv). exists (u + v)%Z. lia.
Qed.

(** ** the arrays of a built scorer, and the portable lane on them = [retrieve] *)
From Vib Require Import Proofs.RawSpecProofs.

Definition enc32 (c : Z) : N := Z.to_N (c mod 4294967296).
Definition arr_of (sc : scorer) (len : nat) : ascorer :=
  {| as_bases := sc_bases sc;
     as_checks := map (fun p => match sc_slots sc (N.of_nat p) with Some (k, _) => k | None => UNUSED_CHECK end) (seq 0 len);
     as_costs := map (fun p => match sc_slots sc (N.of_nat p) with Some (_, c) => enc32 c | None => 0 end) (seq 0 len) |}.

Lemma s32_enc32 c : (-2147483648 <= c < 2147483648)%Z -> s32 (enc32 c) = c.
Proof.
  intros H. unfold s32, enc32. destruct (Z.ltb_spec c 0).
  - replace (c mod 4294967296)%Z with (c + 4294967296)%Z.
    + destruct (N.ltb_spec (Z.to_N (c + 4294967296)) 2147483648); lia.
    + apply Z.mod_unique with (-1)%Z; lia.
  - rewrite Z.mod_small by lia. destruct (N.ltb_spec (Z.to_N c) 2147483648); lia.
Qed.

Definition slots_ok (sc : scorer) (len : nat) : Prop :=
  forall p k c, sc_slots sc p = Some (k, c) -> p < N.of_nat len /\ small k /\ (-2147483648 <= c < 2147483648)%Z.

Lemma nth_error_map_seq {A} (f : nat -> A) len i : (i < len)%nat -> nth_error (map f (seq 0 len)) i = Some (f i).
Proof.
  intros H. rewrite nth_error_map, nth_error_nth' with (d := 0%nat) by (rewrite seq_length; lia).
  now rewrite seq_nth by lia.
Qed.
Lemma nth_error_map_seq_none {A} (f : nat -> A) len i : (len <= i)%nat -> nth_error (map f (seq 0 len)) i = None.
Proof. intros H. apply nth_error_None. now rewrite map_length, seq_length. Qed.

Theorem scalar_lane_is_retrieve sc len k1 k2 : slots_ok sc len -> small k1 ->
  s32 (scalar_lane (arr_of sc len) k1 k2) = match retrieve sc k1 k2 with Some c => c | None => 0%Z end.
Proof.
  intros Hs H1. unfold scalar_lane, retrieve, arr_of. cbn [as_bases as_checks as_costs].
  rewrite nth_N_nat. destruct (nth_error (sc_bases sc) (N.to_nat k1)) as [base|]; [|reflexivity].
  set (pos := N.lxor base k2).
  destruct (Nat.lt_ge_cases (N.to_nat pos) len) as [Hin|Hout].
  - rewrite nth_error_map_seq by exact Hin. rewrite N2Nat.id.
    destruct (sc_slots sc pos) as [[k c]|] eqn:E.
    + destruct (Hs pos k c E) as (Hp & Hk & Hc). destruct (k =? k1); [|reflexivity].
      erewrite nth_error_nth; [|apply nth_error_map_seq; exact Hin]. rewrite N2Nat.id, E. now apply s32_enc32.
    + replace (UNUSED_CHECK =? k1) with false; [reflexivity|]. symmetry. apply N.eqb_neq. unfold small, UNUSED_CHECK in *. lia.
  - rewrite nth_error_map_seq_none by exact Hout.
    destruct (sc_slots sc pos) as [[k c]|] eqn:E; [|reflexivity].
    destruct (Hs pos k c E) as (Hp & _). lia.
Qed.
