(** C10: the model of the char.def / unk.def builders never panics, and what it accepts is safe. *)
From Vib Require Import Model.Base Model.Lattice Model.Tokenizer Model.DictBuild Check.TokCheck.
Local Open Scope N_scope.

Lemma rbind_not_panic {A B} (r : result A) (f : A -> result B) :
  r <> Panic -> (forall a, f a <> Panic) -> rbind r f <> Panic.
Proof. intros Hr Hf. destruct r; cbn; [apply Hf|discriminate|congruence]. Qed.

Lemma mapM_r_not_panic {A B} (f : A -> result B) l : (forall a, f a <> Panic) -> mapM_r f l <> Panic.
Proof.
  intros H. induction l as [|x l IH]; cbn; [discriminate|].
  apply rbind_not_panic; [apply H|]. intros y. apply rbind_not_panic; [exact IH|discriminate].
Qed.

Lemma read_cats_not_panic ls : forall names infos, read_cats ls names infos <> Panic.
Proof.
  induction ls as [|l t IH]; intros names infos; cbn [read_cats]; [discriminate|].
  destruct (index_of (cl_name l) names 0) as [id|].
  - destruct (CATE_IDSET_BITS <=? id); [discriminate|]. destruct (pack 0 id _ _ _); [apply IH|discriminate].
  - destruct (CATE_IDSET_BITS <=? N.of_nat (length names)); [discriminate|]. destruct (pack 0 _ _ _ _); [apply IH|discriminate].
Qed.

(** every category id recorded by [read_cats] is below 18, so [1 << base_id] never overflows *)
Lemma read_cats_ids ls : forall names infos names' infos',
  (forall id w, In (id, w) infos -> N.land (N.shiftr w CATE_IDSET_BITS) BASE_ID_MASK < CATE_IDSET_BITS) ->
  read_cats ls names infos = Ok (names', infos') ->
  forall id w, In (id, w) infos' -> N.land (N.shiftr w CATE_IDSET_BITS) BASE_ID_MASK < CATE_IDSET_BITS.
Proof.
  assert (Hpack : forall id i g len w, id < CATE_IDSET_BITS -> pack 0 id i g len = Some w ->
            N.land (N.shiftr w CATE_IDSET_BITS) BASE_ID_MASK < CATE_IDSET_BITS).
  { intros id i g len w Hid Hp. unfold pack in Hp.
    destruct (negb (N.shiftr 0 CATE_IDSET_BITS =? 0)); [discriminate|].
    destruct (negb (N.shiftr id BASE_ID_BITS =? 0)); [discriminate|].
    destruct (negb (N.shiftr len LENGTH_BITS =? 0)) eqn:El; [discriminate|]. inversion Hp; subst w; clear Hp.
    apply negb_false_iff, N.eqb_eq in El.
    (* id < 18 and length < 16: a finite check over all field values *)
    assert (Hlen : len < 16).
    { destruct (N.ltb_spec len 16); [assumption|]. exfalso. rewrite N.shiftr_div_pow2 in El. unfold LENGTH_BITS in El.
      assert (1 <= len / 2 ^ 4) by (apply N.div_le_lower_bound; cbn; lia). lia. }
    unfold CATE_IDSET_BITS in Hid.
    assert (Hall : forallb (fun id => forallb (fun len => forallb (fun i => forallb (fun g =>
        N.land (N.shiftr (N.lor 0 (N.lor (N.shiftl id CATE_IDSET_BITS) (N.lor (N.shiftl (b2n i) (CATE_IDSET_BITS + BASE_ID_BITS))
          (N.lor (N.shiftl (b2n g) (CATE_IDSET_BITS + BASE_ID_BITS + 1)) (N.shiftl len (CATE_IDSET_BITS + BASE_ID_BITS + 2)))))) CATE_IDSET_BITS) BASE_ID_MASK <? CATE_IDSET_BITS)
        [true; false]) [true; false]) (map N.of_nat (seq 0 16))) (map N.of_nat (seq 0 18)) = true) by (vm_compute; reflexivity).
    rewrite forallb_forall in Hall. specialize (Hall id ltac:(apply in_map_iff; exists (N.to_nat id); split; [lia|apply in_seq; lia])).
    rewrite forallb_forall in Hall. specialize (Hall len ltac:(apply in_map_iff; exists (N.to_nat len); split; [lia|apply in_seq; lia])).
    rewrite forallb_forall in Hall. specialize (Hall i ltac:(destruct i; cbn; auto)).
    rewrite forallb_forall in Hall. specialize (Hall g ltac:(destruct g; cbn; auto)).
    now apply N.ltb_lt in Hall. }
  induction ls as [|l t IH]; intros names infos names' infos' Hinv H; cbn [read_cats] in H.
  - inversion H; subst. exact Hinv.
  - destruct (index_of (cl_name l) names 0) as [id|].
    + destruct (N.leb_spec CATE_IDSET_BITS id); [discriminate|].
      destruct (pack 0 id _ _ _) as [w|] eqn:Ep; [|discriminate].
      eapply IH; [|exact H]. intros id0 w0 [E|Hin]; [inversion E; subst; eapply Hpack; eauto|eauto].
    + destruct (N.leb_spec CATE_IDSET_BITS (N.of_nat (length names))); [discriminate|].
      destruct (pack 0 _ _ _ _) as [w|] eqn:Ep; [|discriminate].
      eapply IH; [|exact H]. intros id0 w0 [E|Hin]; [inversion E; subst; eapply Hpack; eauto|eauto].
Qed.

Lemma assoc_N_in {A} k (l : list (N * A)) v : assoc_N k l = Some v -> In (k, v) l \/ exists k', In (k', v) l.
Proof.
  induction l as [|[k' v'] l IH]; cbn; [discriminate|]. destruct (k =? k') eqn:E.
  - intros H; inversion H; subst. right. exists k'. now left.
  - intros H. destruct (IH H) as [Hin|(k2 & Hin)]; [left; now right|right; exists k2; now right].
Qed.

Lemma enc_go_not_panic names infos :
  (forall id w, In (id, w) infos -> N.land (N.shiftr w CATE_IDSET_BITS) BASE_ID_MASK < CATE_IDSET_BITS) ->
  forall ts acc, enc_go names infos ts acc <> Panic.
Proof.
  intros Hinv. induction ts as [|t ts IH]; intros acc; cbn [enc_go]; [discriminate|].
  destruct (index_of t names 0) as [id|]; [|discriminate].
  destruct (assoc_N id infos) as [w|] eqn:Ea; [|discriminate].
  assert (Hb : N.land (N.shiftr w CATE_IDSET_BITS) BASE_ID_MASK < CATE_IDSET_BITS).
  { destruct (assoc_N_in _ _ _ Ea) as [Hin|(k' & Hin)]; eauto. }
  destruct (N.leb_spec 32 (N.land (N.shiftr w CATE_IDSET_BITS) BASE_ID_MASK)) as [Hge|Hlt]; [|apply IH].
  exfalso. change CATE_IDSET_BITS with 18 in Hb at 2. lia.
Qed.

Lemma encode_not_panic names infos targets :
  (forall id w, In (id, w) infos -> N.land (N.shiftr w CATE_IDSET_BITS) BASE_ID_MASK < CATE_IDSET_BITS) ->
  encode_cate_info names infos targets <> Panic.
Proof.
  intros Hinv. unfold encode_cate_info. destruct targets as [|t0 ts]; [discriminate|].
  destruct (index_of t0 names 0) as [id0|]; [|discriminate].
  destruct (assoc_N id0 infos) as [base|]; [|discriminate].
  apply rbind_not_panic; [now apply enc_go_not_panic|discriminate].
Qed.

(** [CharProperty::from_reader] (on parsed lines): an error or a table, never a panic *)
Theorem compile_chardef_total cd : compile_chardef cd <> Panic.
Proof.
  unfold compile_chardef.
  destruct (read_cats (cd_cats cd) [DEFAULT_NAME] []) as [[names infos]| |] eqn:Er; cbn [rbind]; try discriminate.
  2:{ exfalso. exact (read_cats_not_panic _ _ _ Er). }
  assert (Hinv : forall id w, In (id, w) infos -> N.land (N.shiftr w CATE_IDSET_BITS) BASE_ID_MASK < CATE_IDSET_BITS).
  { eapply read_cats_ids; [|exact Er]. intros id w []. }
  apply rbind_not_panic; [now apply encode_not_panic|]. intros dflt.
  apply rbind_not_panic; [|discriminate].
  apply mapM_r_not_panic. intros r. apply rbind_not_panic; [now apply encode_not_panic|discriminate].
Qed.

(** at most 18 categories are ever accepted *)
Theorem compile_chardef_categories cd ct names : compile_chardef cd = Ok (ct, names) -> (length names <= 18)%nat.
Proof.
  unfold compile_chardef.
  destruct (read_cats (cd_cats cd) [DEFAULT_NAME] []) as [[names0 infos]| |] eqn:Er; cbn [rbind]; try discriminate.
  destruct (encode_cate_info names0 infos [DEFAULT_NAME]); cbn [rbind]; try discriminate.
  destruct (mapM_r _ (cd_ranges cd)); cbn [rbind]; try discriminate. intros H; inversion H; subst names0; clear H.
  assert (Hlen : forall ls names infos names' infos', (length names <= 18)%nat ->
            read_cats ls names infos = Ok (names', infos') -> (length names' <= 18)%nat).
  { induction ls as [|l t IH]; intros nm inf nm' inf' Hn H; cbn [read_cats] in H; [inversion H; subst; exact Hn|].
    destruct (index_of (cl_name l) nm 0) as [id|].
    - destruct (CATE_IDSET_BITS <=? id); [discriminate|]. destruct (pack 0 id _ _ _); [eapply IH; eauto|discriminate].
    - destruct (N.leb_spec CATE_IDSET_BITS (N.of_nat (length nm))); [discriminate|].
      destruct (pack 0 _ _ _ _); [|discriminate]. eapply IH; [|exact H]. rewrite app_length. cbn. unfold CATE_IDSET_BITS in *. lia. }
  eapply Hlen; [|exact Er]. cbn. lia.
Qed.

Theorem compile_unk_total names ls : compile_unk names ls <> Panic.
Proof.
  unfold compile_unk. apply rbind_not_panic; [|discriminate].
  apply mapM_r_not_panic. intros l. destruct (index_of (ul_cate l) names 0); discriminate.
Qed.

(** an accepted dictionary names only connection ids inside the connector *)
Theorem build_dict_ids_in_range c d names : build_dict c = Ok (d, names) ->
  rows_ok (d_conn d) (d_sys d) = true /\ unk_ok (d_conn d) (d_unk d) = true /\
  match d_user d with Some u => rows_ok (d_conn d) u = true | None => True end.
Proof.
  unfold build_dict. destruct (compile_chardef (tc_chardef c)) as [[ct nm]| |]; cbn [rbind]; try discriminate.
  destruct (compile_unk nm (tc_unk c)) as [unk| |]; cbn [rbind]; try discriminate.
  destruct (negb (lexicon_ok (tc_sys c))); [discriminate|].
  destruct (negb (match tc_user c with Some u => lexicon_ok u | None => true end)); [discriminate|].
  destruct (rows_ok (tc_conn c) (tc_sys c)) eqn:E1; cbn [negb]; [|discriminate].
  destruct (unk_ok (tc_conn c) unk) eqn:E2; cbn [negb]; [|discriminate].
  destruct (tc_user c) as [u|] eqn:Eu.
  - destruct (rows_ok (tc_conn c) u) eqn:E3; cbn [negb]; [|discriminate]. intros H; inversion H; subst; cbn. auto.
  - cbn [negb]. intros H; inversion H; subst; cbn. auto.
Qed.

Theorem build_dict_total c : build_dict c <> Panic.
Proof.
  unfold build_dict. apply rbind_not_panic; [apply compile_chardef_total|]. intros [ct nm].
  apply rbind_not_panic; [apply compile_unk_total|]. intros unk.
  repeat match goal with |- (if ?b then _ else _) <> _ => destruct b; try discriminate end.
Qed.
