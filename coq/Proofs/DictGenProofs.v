(** C14: the lex.csv that the model of write_dictionary emits, read back by the lexicon parser, gives
    one word per seed row, in order, with the seed's surface and feature and the merged model's
    connection ids and scaled cost. *)
From Vib Require Import Model.Base Model.Text Model.LexCsv Model.DefText Model.DictBuild Model.Template Model.Float Model.DictGen
  Proofs.LexCsvProofs Proofs.LexCsvLayout Proofs.MecabProofs Proofs.FloatProofs.
From Coq Require Import Arith ZArith.
Local Open Scope N_scope.

(** ** decimal numerals are plain text and parse back *)
Lemma dec_digits_digits : forall f n acc, Forall (fun c => is_digit c = true) acc -> Forall (fun c => is_digit c = true) (dec_digits f n acc).
Proof.
  induction f as [|f IH]; intros n acc H; cbn [dec_digits]; [exact H|].
  assert (D : is_digit (48 + n mod 10) = true) by (apply digit_ok, N.mod_lt; lia).
  destruct (n <? 10); [now constructor|]. apply IH. now constructor.
Qed.
Lemma show_N_digits n : Forall (fun c => is_digit c = true) (show_N n).
Proof. apply dec_digits_digits. constructor. Qed.

Lemma digits_plain s : Forall (fun c => is_digit c = true) s -> plain s.
Proof.
  intros F b Hb. rewrite Forall_forall in F. specialize (F b Hb). unfold is_digit in F.
  apply andb_prop in F. destruct F as [F1 F2]. apply N.leb_le in F1. apply N.leb_le in F2. repeat split; lia.
Qed.

Lemma show_N_first_digit n : match show_N n with c :: _ => is_digit c = true | [] => False end.
Proof.
  pose proof (show_N_digits n) as F. pose proof (show_N_not_nil n) as Hn.
  destruct (show_N n); [congruence|]. now inversion F.
Qed.

Lemma parse_unsigned_show n max : n <= max -> parse_unsigned (show_N n) max = Some n.
Proof.
  intros H. unfold parse_unsigned. pose proof (show_N_first_digit n) as D.
  destruct (show_N n) as [|c t] eqn:E; [destruct D|].
  assert (c <> 43) by (intros ->; discriminate).
  destruct (N.eq_dec c 43) as [->|_]; [congruence|].
  replace (match c :: t with 43 :: t0 => t0 | _ => c :: t end) with (c :: t) by (destruct c as [|p]; [reflexivity|]; do 6 (destruct p; try reflexivity); congruence).
  rewrite <- E, show_N_value. apply N.leb_le in H. now rewrite H.
Qed.

Lemma show_Z_plain z : plain (show_Z z).
Proof.
  unfold show_Z. destruct (z <? 0)%Z.
  - intros b [<-|Hb]; [repeat split; discriminate|]. exact (digits_plain _ (show_N_digits _) b Hb).
  - apply digits_plain, show_N_digits.
Qed.

Lemma parse_i16_show z : (-32768 <= z <= 32767)%Z -> parse_i16 (show_Z z) = Some z.
Proof.
  intros H. unfold show_Z. destruct (Z.ltb_spec z 0) as [Hn|Hp].
  - cbn [parse_i16]. rewrite show_N_value. destruct (N.leb_spec (Z.to_N (- z)) 32768); [|lia]. f_equal. lia.
  - unfold parse_i16. pose proof (show_N_first_digit (Z.to_N z)) as D.
    destruct (show_N (Z.to_N z)) as [|c t] eqn:E; [destruct D|].
    assert (c <> 45) by (intros ->; discriminate).
    replace (match c :: t with 45 :: t0 => _ | _ => match parse_unsigned (c :: t) 32767 with Some v => Some (Z.of_N v) | None => None end end)
      with (match parse_unsigned (c :: t) 32767 with Some v => Some (Z.of_N v) | None => None end).
    + rewrite <- E, parse_unsigned_show by lia. f_equal. lia.
    + destruct c as [|p]; [reflexivity|]. do 6 (destruct p; try reflexivity). congruence.
Qed.

(** ** the emitted lex.csv as rows of the CSV layout theorem *)
Definition newrow (sc : f64) (rp : lrow * (Z * N * N)) : lrow :=
  let '(row, (w, l, r)) := rp in
  let c := f64_cost sc (f64_of_bits w) in
  {| l_head := {| s_surface := s_surface (l_head row); s_quote := false;
                  s_ltxt := show_N l; s_rtxt := show_N r; s_ctxt := show_Z c;
                  s_lid := l; s_rid := r; s_cost := c; s_cells := [] |};
     l_cells := l_cells row; l_term := [10] |}.

Lemma gen_rows_render sc : forall rows sets txt,
  gen_rows sc (fun e => csv_cell (le_surface e)) (map lentry rows) sets = Ok txt ->
  txt = concat (map render_lrow (map (newrow sc) (combine rows sets))) /\ (length rows <= length sets)%nat.
Proof.
  induction rows as [|row rows IH]; intros sets txt H.
  - cbn in H. inversion H. split; [reflexivity|cbn; lia].
  - cbn [map gen_rows] in H. destruct sets as [|[[w l] r] sets]; [discriminate|].
    destruct (gen_rows sc _ (map lentry rows) sets) as [rest| |] eqn:E; cbn [rbind] in H; try discriminate.
    inversion H; subst txt. destruct (IH sets rest E) as [-> L]. split; [|cbn; lia].
    cbn [combine map concat newrow]. f_equal.
    unfold row5, render_lrow, render_head, csv_cell, lentry. cbn [l_head l_cells l_term s_surface s_quote s_ltxt s_rtxt s_ctxt le_surface le_feature].
    rewrite <- !app_assoc. cbn [app]. repeat (rewrite <- ?app_assoc; cbn [app]; f_equal).
Qed.

Definition seed_ok (r : lrow) : Prop := l_cells r <> [] /\ Forall cell_ok (l_cells r).
Definition ids_ok (p : Z * N * N) : Prop := snd (fst p) <= 65535 /\ snd p <= 65535.

Lemma newrow_ok sc row p : seed_ok row -> ids_ok p -> lrow_ok (newrow sc (row, p)) /\ eol (l_term (newrow sc (row, p))).
Proof.
  destruct p as [[w l] r]. intros [Hc1 Hc2] [Hl Hr]. cbn in Hl, Hr. split.
  - unfold lrow_ok, newrow. cbn [l_head l_cells s_ltxt s_rtxt s_ctxt s_lid s_rid s_cost].
    refine (conj _ (conj _ (conj _ (conj _ (conj _ (conj _ (conj Hc1 Hc2))))))).
    + apply digits_plain, show_N_digits.
    + apply digits_plain, show_N_digits.
    + apply show_Z_plain.
    + now apply parse_unsigned_show.
    + now apply parse_unsigned_show.
    + apply parse_i16_show. pose proof (f64_cost_i16 sc (f64_of_bits w)). lia.
  - cbn. split; [discriminate|]. constructor; [now left|constructor].
Qed.

(** the words the dictionary builder reads from the emitted lex.csv *)
Definition emitted_entry (sc : f64) (rp : lrow * (Z * N * N)) : lexent :=
  let '(row, (w, l, r)) := rp in
  {| le_surface := s_surface (l_head row); le_lid := l; le_rid := r;
     le_cost := f64_cost sc (f64_of_bits w); le_feature := feature_of (l_cells row) |}.

Theorem lex_roundtrip sc rows sets txt :
  Forall seed_ok rows -> Forall (fun r => s_surface (l_head r) <> []) rows -> Forall ids_ok sets ->
  gen_rows sc (fun e => csv_cell (le_surface e)) (map lentry rows) sets = Ok txt ->
  parse_lex_csv txt = Ok (map (emitted_entry sc) (combine rows sets)) /\ length (combine rows sets) = length rows.
Proof.
  intros Fs Fn Fi H. destruct (gen_rows_render sc rows sets txt H) as [-> L].
  split; [|rewrite combine_length; lia].
  pose proof (parse_render_layout [] (map (newrow sc) (combine rows sets)) None) as P. cbn [app] in P. rewrite app_nil_r in P.
  rewrite P; clear P.
  - f_equal. rewrite app_nil_r.
    assert (K : forall l, Forall (fun rp : lrow * (Z * N * N) => s_surface (l_head (fst rp)) <> []) l ->
              map lentry (filter lkeep (map (newrow sc) l)) = map (emitted_entry sc) l).
    { induction l as [|[row [[w l0] r]] l IHl]; intros F; [reflexivity|]. inversion F as [|? ? Hne F']; subst. cbn [fst] in Hne.
      cbn [map filter]. unfold lkeep at 1. cbn [newrow l_head s_surface].
      destruct (s_surface (l_head row)) eqn:Es; [congruence|]. cbn [map]. rewrite IHl by exact F'.
      f_equal. unfold lentry, emitted_entry. cbn. now rewrite Es. }
    apply K. clear -Fn. revert sets. induction Fn as [|row rows Hr _ IH]; intros sets; [constructor|].
    destruct sets as [|p sets]; [constructor|]. cbn [combine]. constructor; [exact Hr|apply IH].
  - constructor.
  - clear -Fs Fi. revert sets Fi. induction Fs as [|row rows Hr _ IH]; intros sets Fi; [constructor|].
    destruct sets as [|p sets]; [constructor|]. inversion Fi; subst. cbn [combine map]. constructor; [now apply newrow_ok|now apply IH].
  - exact I.
Qed.

(** the same, for the whole model of write_dictionary: whenever the seed lexicon text is read as the rows
    [rows] and the writer succeeds, the emitted lex.csv reads back as one word per seed row, in order *)
Theorem written_lexicon chardef lex unk user m f rows :
  parse_lex_csv lex = Ok (map lentry rows) ->
  Forall seed_ok rows -> Forall (fun r => s_surface (l_head r) <> []) rows -> Forall ids_ok (mg_sets m) ->
  write_dictionary chardef lex unk user m = Ok f ->
  parse_lex_csv (gf_lex f) = Ok (map (emitted_entry (mg_scale m)) (combine rows (mg_sets m)))
  /\ length (combine rows (mg_sets m)) = length rows.
Proof.
  intros Hl Fs Fn Fi H. unfold write_dictionary, rbind in H.
  destruct (parse_chardef_text chardef) as [cd| |]; try discriminate.
  destruct (compile_chardef cd) as [cn| |]; try discriminate.
  rewrite Hl in H.
  destruct (parse_lex_csv unk) as [unks| |]; try discriminate.
  destruct (parse_lex_csv user) as [users| |]; try discriminate.
  destruct (gen_rows (mg_scale m) _ (map lentry rows) (mg_sets m)) as [l| |] eqn:E; try discriminate.
  repeat match type of H with
         | match ?x with Ok _ => _ | Err => _ | Panic => _ end = Ok _ => destruct x; try discriminate
         end.
  inversion H as [Hf]. cbn [gf_lex]. now apply lex_roundtrip.
Qed.

(** ** user.csv: trained parameters exactly for the rows given as 0,0,0, the others copied unchanged *)
Lemma parse_unsigned_le s max v : parse_unsigned s max = Some v -> v <= max.
Proof.
  unfold parse_unsigned. destruct (dec_value _) as [x|]; [|discriminate]. destruct (N.leb_spec x max); [|discriminate].
  intros H0; inversion H0; subst; assumption.
Qed.
Lemma parse_i16_range s c : parse_i16 s = Some c -> (-32768 <= c <= 32767)%Z.
Proof.
  unfold parse_i16. destruct s as [|b t].
  - intros H0. destruct (parse_unsigned [] 32767) as [v|] eqn:E; [|discriminate]. apply parse_unsigned_le in E. inversion H0. lia.
  - destruct (N.eq_dec b 45) as [->|Hb].
    + destruct (dec_value t) as [v|]; [|discriminate]. destruct (N.leb_spec v 32768); [|discriminate]. intros H0; inversion H0. lia.
    + replace (match b :: t with 45 :: t0 => _ | _ => match parse_unsigned (b :: t) 32767 with Some v => Some (Z.of_N v) | None => None end end)
        with (match parse_unsigned (b :: t) 32767 with Some v => Some (Z.of_N v) | None => None end).
      * destruct (parse_unsigned (b :: t) 32767) as [v|] eqn:E; [|discriminate]. apply parse_unsigned_le in E. intros H0; inversion H0. lia.
      * destruct b as [|p]; [reflexivity|]. do 6 (destruct p; try reflexivity). congruence.
Qed.

Definition is_zero3 (e : lexent) : bool := (le_lid e =? 0) && (le_rid e =? 0) && (le_cost e =? 0)%Z.

(** the parameters a user row is written with *)
Definition user_params (sc : f64) (sets : list (Z * N * N)) (e : lexent) (lb : N) : option (N * N * Z) :=
  match nth_error sets (N.to_nat (lb - 1)) with
  | None => None
  | Some (w, l, r) => if is_zero3 e then Some (l, r, f64_cost sc (f64_of_bits w)) else Some (le_lid e, le_rid e, le_cost e)
  end.

Definition userrow (row : lrow) (p : N * N * Z) : lrow :=
  let '(l, r, c) := p in
  {| l_head := {| s_surface := s_surface (l_head row); s_quote := false;
                  s_ltxt := show_N l; s_rtxt := show_N r; s_ctxt := show_Z c;
                  s_lid := l; s_rid := r; s_cost := c; s_cells := [] |};
     l_cells := l_cells row; l_term := [10] |}.

Lemma gen_user_render sc sets : forall rows labels txt,
  gen_user sc sets (map lentry rows) labels = Ok txt ->
  exists ps, Forall2 (fun rl p => user_params sc sets (lentry (fst rl)) (snd rl) = Some p) (combine rows labels) ps /\
             length ps = length rows /\
             txt = concat (map render_lrow (map (fun rp => userrow (fst rp) (snd rp)) (combine rows ps))).
Proof.
  induction rows as [|row rows IH]; intros labels txt H.
  - cbn in H. inversion H. exists []. repeat split. constructor.
  - cbn [map gen_user] in H. destruct labels as [|lb labels]; [discriminate|].
    unfold rbind in H. destruct (gen_user sc sets (map lentry rows) labels) as [rest| |] eqn:E; try discriminate.
    destruct (IH labels rest E) as (ps & F & L & ->).
    destruct (nth_error sets (N.to_nat (lb - 1))) as [[[w l] r]|] eqn:En; [|discriminate].
    fold (is_zero3 (lentry row)) in H.
    assert (P : user_params sc sets (lentry row) lb = Some (if is_zero3 (lentry row) then (l, r, f64_cost sc (f64_of_bits w)) else (le_lid (lentry row), le_rid (lentry row), le_cost (lentry row)))).
    { unfold user_params. rewrite En. now destruct (is_zero3 (lentry row)). }
    eexists (_ :: ps). split; [cbn [combine]; constructor; [exact P|exact F]|]. split; [cbn; now rewrite L|].
    cbn [combine map concat fst snd]. destruct (is_zero3 (lentry row)); inversion H; subst txt; f_equal;
      unfold row5, render_lrow, render_head, csv_cell, lentry, userrow; cbn [l_head l_cells l_term s_surface s_quote s_ltxt s_rtxt s_ctxt le_surface le_feature le_lid le_rid le_cost];
      rewrite <- !app_assoc; cbn [app]; repeat (rewrite <- ?app_assoc; cbn [app]; f_equal).
Qed.

Definition user_entry (rp : lrow * (N * N * Z)) : lexent :=
  let '(row, (l, r, c)) := rp in
  {| le_surface := s_surface (l_head row); le_lid := l; le_rid := r; le_cost := c; le_feature := feature_of (l_cells row) |}.

Theorem user_roundtrip sc sets rows labels txt :
  Forall lrow_ok rows -> Forall (fun r => s_surface (l_head r) <> []) rows -> Forall ids_ok sets ->
  gen_user sc sets (map lentry rows) labels = Ok txt ->
  exists ps, Forall2 (fun rl p => user_params sc sets (lentry (fst rl)) (snd rl) = Some p) (combine rows labels) ps /\
             length ps = length rows /\
             parse_lex_csv txt = Ok (map user_entry (combine rows ps)).
Proof.
  intros Fo Fn Fi H. destruct (gen_user_render sc sets rows labels txt H) as (ps & F & L & ->).
  exists ps. split; [exact F|]. split; [exact L|].
  pose proof (parse_render_layout [] (map (fun rp => userrow (fst rp) (snd rp)) (combine rows ps)) None) as P. cbn [app] in P. rewrite app_nil_r in P.
  rewrite P; clear P.
  - f_equal. rewrite app_nil_r.
    assert (K : forall l, Forall (fun rp : lrow * (N * N * Z) => s_surface (l_head (fst rp)) <> []) l ->
              map lentry (filter lkeep (map (fun rp => userrow (fst rp) (snd rp)) l)) = map user_entry l).
    { induction l as [|[row [[l0 r] c]] l IHl]; intros F'; [reflexivity|]. inversion F' as [|? ? Hne F'']; subst. cbn [fst] in Hne.
      cbn [map filter fst snd]. unfold lkeep at 1. cbn [userrow l_head s_surface].
      destruct (s_surface (l_head row)) eqn:Es; [congruence|]. cbn [map]. rewrite IHl by exact F''.
      f_equal. unfold lentry, user_entry. cbn. now rewrite Es. }
    apply K. clear -Fn. revert ps. induction Fn as [|row rows Hr _ IH]; intros ps; [constructor|].
    destruct ps as [|p ps]; [constructor|]. cbn [combine]. constructor; [exact Hr|apply IH].
  - constructor.
  - (* every written row is well formed *)
    clear -Fo Fi F. revert labels ps F. induction Fo as [|row rows Hr _ IH]; intros labels ps F; [constructor|].
    destruct labels as [|lb labels]; [cbn in F; inversion F; constructor|].
    cbn [combine] in F. inversion F as [|? p ? ps' Hp F']; subst. cbn [combine map fst snd]. constructor; [|now apply (IH labels)].
    cbn [fst snd] in Hp. unfold user_params in Hp.
    destruct (nth_error sets (N.to_nat (lb - 1))) as [[[w l] r]|] eqn:En; [|discriminate].
    assert (Hin : ids_ok (w, l, r)) by (eapply Forall_forall; [exact Fi|eapply nth_error_In; exact En]).
    destruct Hin as [Hl Hr']. cbn in Hl, Hr'.
    destruct Hr as (_ & _ & _ & Pl & Pr & Pc & Hc1 & Hc2).
    apply parse_unsigned_le in Pl. apply parse_unsigned_le in Pr. apply parse_i16_range in Pc.
    destruct (is_zero3 (lentry row)); inversion Hp; subst p; (split; [|cbn; split; [discriminate|constructor; [now left|constructor]]]);
      unfold lrow_ok, userrow; cbn [l_head l_cells s_ltxt s_rtxt s_ctxt s_lid s_rid s_cost];
      refine (conj _ (conj _ (conj _ (conj _ (conj _ (conj _ (conj Hc1 Hc2)))))));
      try (apply digits_plain, show_N_digits); try apply show_Z_plain; try (now apply parse_unsigned_show).
    + apply parse_i16_show. pose proof (f64_cost_i16 sc (f64_of_bits w)). lia.
    + now apply parse_i16_show.
  - exact I.
Qed.

(** ** unk.def: category names are written as they are (no quoting); for names without comma, double quote, CR or LF
    this is the same text, so the rows come back like lexicon rows, in the stored (category) order *)
Lemma gen_rows_plain_names sc : forall es sets,
  Forall (fun e => needs_quote (le_surface e) = false) es ->
  gen_rows sc (fun e => le_surface e) es sets = gen_rows sc (fun e => csv_cell (le_surface e)) es sets.
Proof.
  induction es as [|e es IH]; intros sets F; [reflexivity|]. inversion F as [|? ? He F']; subst.
  cbn [gen_rows]. destruct sets as [|[[w l] r] sets]; [reflexivity|]. rewrite (IH sets F').
  unfold csv_cell, render_cell. rewrite He. reflexivity.
Qed.

Theorem unk_roundtrip sc rows sets txt :
  Forall seed_ok rows -> Forall (fun r => s_surface (l_head r) <> []) rows ->
  Forall (fun r => needs_quote (s_surface (l_head r)) = false) rows -> Forall ids_ok sets ->
  gen_rows sc (fun e => le_surface e) (map lentry rows) sets = Ok txt ->
  parse_lex_csv txt = Ok (map (emitted_entry sc) (combine rows sets)) /\ length (combine rows sets) = length rows.
Proof.
  intros Fs Fn Fq Fi H. rewrite gen_rows_plain_names in H.
  - now apply lex_roundtrip.
  - clear -Fq. induction Fq as [|r rows Hr _ IH]; [constructor|]. cbn [map]. constructor; [exact Hr|exact IH].
Qed.

(** ** matrix.def: the emitted text is accepted by the matrix reader and yields the scaled costs of the merged entries *)
From Vib Require Import Proofs.CorpusProofs.

Definition mline (sc : f64) (e : N * N * Z) : str :=
  show_N (fst (fst e)) ++ 32 :: show_N (snd (fst e)) ++ 32 :: show_Z (f64_cost sc (f64_of_bits (snd e))).
Definition set_cell (M : list (list Z)) (e : N * N * Z) (c : Z) : list (list Z) :=
  set_nth (N.to_nat (fst (fst e))) (set_nth (N.to_nat (snd (fst e))) c (nth (N.to_nat (fst (fst e))) M [])) M.
Definition apply_entries (sc : f64) (es : list (N * N * Z)) (M : list (list Z)) : list (list Z) :=
  fold_left (fun M e => set_cell M e (f64_cost sc (f64_of_bits (snd e)))) es M.

Lemma digits_no c s : Forall (fun x => is_digit x = true) s -> is_digit c = false -> ~ In c s.
Proof. intros F Hc Hin. rewrite Forall_forall in F. specialize (F c Hin). congruence. Qed.

Lemma show_Z_no c z : is_digit c = false -> c <> 45 -> ~ In c (show_Z z).
Proof.
  intros Hc H45. unfold show_Z. destruct (z <? 0)%Z.
  - intros [E|Hin]; [congruence|]. exact (digits_no c _ (show_N_digits _) Hc Hin).
  - apply digits_no; [apply show_N_digits|exact Hc].
Qed.

Lemma gen_matrix_lines sc m :
  gen_matrix sc m = concat (map (fun l => l ++ [10])
    ((show_N (fst (mg_dims m)) ++ 32 :: show_N (snd (mg_dims m))) :: map (mline sc) (fold_right insert_rl [] (mg_matrix m)))).
Proof.
  assert (E : forall L, flat_map (fun e => show_N (fst (fst e)) ++ 32 :: show_N (snd (fst e)) ++ 32 :: show_Z (f64_cost sc (f64_of_bits (snd e))) ++ [10]) L
                        = concat (map (fun l => l ++ [10]) (map (mline sc) L))).
  { intros L. rewrite flat_map_concat_map, map_map. f_equal. apply map_ext. intros e. unfold mline.
    repeat (rewrite <- app_assoc; cbn [app]). reflexivity. }
  unfold gen_matrix. rewrite E. cbn [map concat]. repeat (rewrite <- app_assoc; cbn [app]). reflexivity.
Qed.

Lemma mline_props sc e : no_char 10 (mline sc e) /\ no_trailing_cr (mline sc e).
Proof.
  unfold mline. split.
  - unfold no_char. rewrite in_app_iff. intros [H|[H|H]]; try discriminate.
    + exact (digits_no 10 _ (show_N_digits _) eq_refl H).
    + rewrite in_app_iff in H. destruct H as [H|[H|H]]; try discriminate.
      * exact (digits_no 10 _ (show_N_digits _) eq_refl H).
      * exact (show_Z_no 10 _ eq_refl ltac:(discriminate) H).
  - intros r Hr. match type of Hr with rev ?x = _ => assert (Hin : In 13 x) by (apply in_rev; rewrite Hr; now left) end.
    rewrite in_app_iff in Hin. destruct Hin as [H|[H|H]]; try discriminate.
    + exact (digits_no 13 _ (show_N_digits _) eq_refl H).
    + rewrite in_app_iff in H. destruct H as [H|[H|H]]; try discriminate.
      * exact (digits_no 13 _ (show_N_digits _) eq_refl H).
      * exact (show_Z_no 13 _ eq_refl ltac:(discriminate) H).
Qed.

Lemma split_mline sc e : split_on 32 (mline sc e) =
  [show_N (fst (fst e)); show_N (snd (fst e)); show_Z (f64_cost sc (f64_of_bits (snd e)))].
Proof.
  unfold mline. rewrite split_on_app by (apply digits_no; [apply show_N_digits|reflexivity]).
  rewrite split_on_app by (apply digits_no; [apply show_N_digits|reflexivity]).
  rewrite split_on_none by (apply show_Z_no; [reflexivity|discriminate]). reflexivity.
Qed.

Lemma matrix_body_entries sc nr nl : nr <= 65535 -> nl <= 65535 -> forall es M,
  Forall (fun e => fst (fst e) < nr /\ snd (fst e) < nl) es ->
  matrix_body (map (mline sc) es) nr nl M = Ok (apply_entries sc es M).
Proof.
  intros Hr Hl. induction es as [|e es IH]; intros M F; [reflexivity|]. inversion F as [|? ? [He1 He2] F']; subst.
  cbn [map matrix_body]. destruct (mline sc e) as [|c0 t0] eqn:El.
  - exfalso. unfold mline in El. pose proof (show_N_not_nil (fst (fst e))). destruct (show_N (fst (fst e))); [congruence|discriminate].
  - rewrite <- El, split_mline. unfold parse_usize_dec. rewrite !parse_unsigned_show by (unfold USIZE_MAX; lia).
    rewrite parse_i16_show by (pose proof (f64_cost_i16 sc (f64_of_bits (snd e))); lia).
    destruct (N.leb_spec nr (fst (fst e))); [lia|]. destruct (N.leb_spec nl (snd (fst e))); [lia|]. cbn [orb].
    rewrite IH by exact F'. reflexivity.
Qed.

Theorem matrix_roundtrip sc m :
  fst (mg_dims m) <= 65535 -> snd (mg_dims m) <= 65535 ->
  Forall (fun e => fst (fst e) < fst (mg_dims m) /\ snd (fst e) < snd (mg_dims m)) (mg_matrix m) ->
  parse_matrix_text (gen_matrix sc m) =
  Ok (apply_entries sc (fold_right insert_rl [] (mg_matrix m))
        (repeat (repeat 0%Z (N.to_nat (snd (mg_dims m)))) (N.to_nat (fst (mg_dims m))))).
Proof.
  intros Hr Hl F. rewrite gen_matrix_lines. unfold parse_matrix_text.
  rewrite lines_of_terminated.
  - rewrite split_on_app by (apply digits_no; [apply show_N_digits|reflexivity]).
    rewrite split_on_none by (apply digits_no; [apply show_N_digits|reflexivity]).
    rewrite !parse_unsigned_show by assumption.
    apply matrix_body_entries; try assumption.
    (* the sorted list holds the same entries *)
    clear -F. induction (mg_matrix m) as [|e es IH]; [constructor|]. inversion F as [|? ? He F']; subst. cbn [fold_right].
    specialize (IH F'). revert IH. generalize (fold_right insert_rl [] es). intros l Fl.
    induction l as [|y l IHl]; cbn [insert_rl]; [now constructor|].
    destruct (_ || _); [now constructor|]. inversion Fl; subst. constructor; [assumption|now apply IHl].
  - constructor.
    + unfold no_char. rewrite in_app_iff. intros [H|[H|H]]; try discriminate.
      * exact (digits_no 10 _ (show_N_digits _) eq_refl H).
      * exact (digits_no 10 _ (show_N_digits _) eq_refl H).
    + apply Forall_forall. intros l Hin. apply in_map_iff in Hin. destruct Hin as (e & <- & _). apply mline_props.
  - constructor.
    + intros r Hr'. assert (Hin : In 13 (show_N (fst (mg_dims m)) ++ 32 :: show_N (snd (mg_dims m)))) by (apply in_rev; rewrite Hr'; now left).
      rewrite in_app_iff in Hin. destruct Hin as [H|[H|H]]; try discriminate.
      * exact (digits_no 13 _ (show_N_digits _) eq_refl H).
      * exact (digits_no 13 _ (show_N_digits _) eq_refl H).
    + apply Forall_forall. intros l Hin. apply in_map_iff in Hin. destruct Hin as (e & <- & _). apply mline_props.
Qed.
