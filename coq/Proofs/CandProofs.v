(** C03: the code-shaped candidate generation equals the declarative specification. *)
From Vib Require Import Model.Base Model.Lattice Model.Tokenizer Spec.CandSpec Proofs.Viterbi Proofs.TokenizerProofs Proofs.CountProofs.
From Coq Require Import Arith.

(** ** char_info = last covering range, DEFAULT otherwise (code points below 2^16) *)
Lemma find_app {A} (f : A -> bool) l1 l2 :
  find f (l1 ++ l2) = match find f l1 with Some x => Some x | None => find f l2 end.
Proof. induction l1 as [|x l1 IH]; simpl; auto. destruct (f x); auto. Qed.

Lemma lookup_ranges_spec rs : forall acc c,
  lookup_ranges rs acc c = match find (covers c) (rev rs) with Some r => snd r | None => acc end.
Proof.
  induction rs as [|[[s e] ci] t IH]; intros acc c; simpl; [reflexivity|].
  rewrite IH, find_app. destruct (find (covers c) (rev t)); [reflexivity|].
  simpl. unfold covers. simpl. destruct ((s <=? c)%N && (c <? e)%N); reflexivity.
Qed.

Theorem char_info_spec ct c : (c < 65536)%N -> char_info ct c = cinfo_spec ct c.
Proof.
  intros H. unfold char_info, cinfo_spec. apply N.ltb_lt in H. rewrite H. apply lookup_ranges_spec.
Qed.

(** the pinned code reads entry 0 of the table for code points beyond it (known finding K2) *)
Theorem char_info_astral ct c : (65536 <= c)%N -> char_info ct c = cinfo_spec ct 0%N.
Proof.
  intros H. unfold char_info, cinfo_spec. apply N.ltb_ge in H. rewrite H. apply lookup_ranges_spec.
Qed.

(** ** groupable = maximal run *)
Lemma groupable_hd_run cis : hd_error (groupable_of cis) = match cis with [] => None | _ => Some (run_at cis) end.
Proof.
  induction cis as [|c t IH]; [reflexivity|]. rewrite groupable_cons.
  destruct t as [|c' t']; [reflexivity|].
  destruct (groupable_of (c' :: t')) as [|g gs] eqn:E; [discriminate|].
  cbn [hd_error] in *. inversion IH as [Eg]. cbn [run_at]. destruct (share c c'); reflexivity.
Qed.

Theorem s_grp_run ct cs i : (i < length cs)%nat ->
  s_grp (compile ct cs) i = run_at (skipn i (map (char_info ct) cs)).
Proof.
  intros Hi. unfold s_grp, compile; cbn [s_group].
  set (cis := map (char_info ct) cs).
  assert (Hl : length cis = length cs) by (subst cis; apply map_length).
  pose proof (nth_hd_skipn (groupable_of cis) i 1%nat ltac:(rewrite groupable_length; lia)) as H.
  rewrite groupable_skipn, groupable_hd_run in H.
  destruct (skipn i cis) eqn:E; [|now inversion H].
  apply (f_equal (@length _)) in E. rewrite skipn_length in E. simpl in E. lia.
Qed.

(** declarative reading of [run_at]: the first [run-1] adjacent pairs share a category and the
    run cannot be extended *)
Lemma run_at_cons2 c c' t' : run_at (c :: c' :: t') = if share c c' then S (run_at (c' :: t')) else 1%nat.
Proof. reflexivity. Qed.

Theorem run_at_maximal cis : cis <> [] ->
  let g := run_at cis in
  (1 <= g <= length cis)%nat /\
  (forall j, (S j < g)%nat -> share (nth j cis dummy_ci) (nth (S j) cis dummy_ci) = true) /\
  (g = length cis \/ share (nth (g - 1) cis dummy_ci) (nth g cis dummy_ci) = false).
Proof.
  induction cis as [|c t IH]; intros Hne; [congruence|].
  destruct t as [|c' t'].
  - cbn. split; [lia|]. split; [intros j Hj; lia|now left].
  - specialize (IH ltac:(discriminate)). rewrite run_at_cons2. destruct (share c c') eqn:Es.
    + cbn zeta in IH. remember (run_at (c' :: t')) as g' eqn:Eg'. destruct IH as (H1 & H2 & H3).
      cbn zeta. assert (Hl : length (c :: c' :: t') = S (length (c' :: t'))) by reflexivity.
      split; [rewrite Hl; lia|]. split.
      * intros [|j] Hj; [exact Es|]. apply (H2 j). lia.
      * destruct H3 as [H3|H3]; [left; rewrite Hl; lia|right].
        replace (S g' - 1)%nat with (S (g' - 1)) by lia. exact H3.
    + cbn zeta. split; [cbn [length]; lia|]. split; [intros j Hj; lia|right; exact Es].
Qed.

(** ** unknown words: the [break] on the sentence end never triggers and the code equals the
    declarative list of lengths *)
Lemma take_while_all_true {A} (f : A -> bool) l : Forall (fun x => f x = true) l -> take_while f l = l.
Proof. induction 1 as [|x l Hx _ IH]; simpl; [reflexivity|]. now rewrite Hx, IH. Qed.

Theorem gen_unk_words_spec unk ct cs sw hm mgl : (sw < length cs)%nat ->
  let s := compile ct cs in
  gen_unk_words unk s sw hm mgl =
  flat_map (fun k => scan_entries unk sw (sw + k) (ci_base (s_ci s sw)))
           (unk_lens_spec (s_ci s sw) (s_grp s sw) hm mgl).
Proof.
  intros Hsw s. unfold gen_unk_words, unk_lens_spec.
  destruct (hm && negb (ci_invoke (s_ci s sw))); [reflexivity|].
  pose proof (s_grp_bound ct cs sw Hsw) as Hg. pose proof (s_grp_ge1 ct cs sw) as Hg1. fold s in Hg, Hg1.
  set (g := s_grp s sw) in *. set (ci := s_ci s sw).
  assert (Efits : (match mgl with None => true | Some m => Nat.leb (g - 1) m end)
                = (match mgl with None => true | Some m => Nat.leb g (S m) end)).
  { destruct mgl as [m|]; [|reflexivity]. destruct (Nat.leb_spec (g - 1) m), (Nat.leb_spec g (S m)); auto; lia. }
  rewrite Efits. set (fits := match mgl with None => true | Some m => Nat.leb g (S m) end).
  set (B := filter (fun i => negb (ci_group ci && Nat.eqb i g)) (seq 1 (Nat.min (ci_length ci) g))).
  assert (EB : take_while (fun i => Nat.leb (sw + i) (s_len s)) B = B).
  { apply take_while_all_true. apply Forall_forall. intros i Hi. apply filter_In in Hi. destruct Hi as [Hi _].
    apply in_seq in Hi. apply Nat.leb_le. unfold s_len, s; cbn [compile s_chars]. lia. }
  rewrite EB. rewrite !flat_map_app.
  f_equal; [destruct (ci_group ci && fits); [cbn; now rewrite app_nil_r|reflexivity]|].
  f_equal.
  destruct (ci_group ci && fits) eqn:EA; cbn [app].
  - rewrite orb_true_r. reflexivity.
  - rewrite orb_false_r. destruct B as [|b B']; cbn [app].
    + rewrite orb_false_r. destruct hm; [reflexivity|cbn; now rewrite app_nil_r].
    + rewrite orb_true_r. reflexivity.
Qed.

(** ** lexicon lookup: exactly the rows whose surface is a non-empty prefix *)
Theorem lex_matches_iff lex rows sw suffix c :
  In c (lex_matches lex rows sw suffix) <->
  exists j r, nth_error rows j = Some r /\ lr_surface r <> [] /\ is_prefix_b (lr_surface r) suffix = true /\
    c = {| c_sw := sw; c_end := sw + length (lr_surface r); c_lex := lex; c_wid := N.of_nat j;
           c_lid := lr_lid r; c_rid := lr_rid r; c_wc := lr_cost r |}.
Proof.
  unfold lex_matches. split.
  - intros Hc. apply in_flat_map in Hc. destruct Hc as (k & Hk & Hc). apply in_seq in Hk.
    apply in_flat_map in Hc. destruct Hc as ([j r] & Hjr & Hc). cbn [fst snd] in Hc.
    destruct (str_eqb (lr_surface r) (firstn k suffix)) eqn:E; [|destruct Hc]. destruct Hc as [<-|[]].
    apply index_from_nth_error in Hjr. destruct Hjr as [Hjr _]. rewrite Nat.sub_0_r in Hjr. apply str_eqb_eq in E.
    assert (Hlen : length (lr_surface r) = k) by (rewrite E, firstn_length; lia).
    exists (N.to_nat j), r. split; [exact Hjr|]. split; [intros E0; rewrite E0 in Hlen; simpl in Hlen; lia|].
    split; [unfold is_prefix_b; rewrite Hlen; apply andb_true_intro; split; [now apply str_eqb_eq|apply Nat.leb_le; lia]|].
    rewrite Hlen, N2Nat.id. reflexivity.
  - intros (j & r & Hr & Hne & Hp & ->). unfold is_prefix_b in Hp. apply andb_true_iff in Hp. destruct Hp as [Hp Hl].
    apply Nat.leb_le in Hl.
    apply in_flat_map. exists (length (lr_surface r)). split.
    + apply in_seq. destruct (lr_surface r); [congruence|]. simpl in *. lia.
    + apply in_flat_map. exists (N.of_nat j, r). split; [apply (nth_error_index_from_gen rows 0%N j r Hr)|].
      cbn [fst snd]. rewrite Hp. now left.
Qed.
