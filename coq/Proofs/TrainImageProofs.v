(** C15: laws of the model-file codec (our part: TrainerConfig). *)
From Vib Require Import Model.Base Model.Codec Model.DictImage Model.TrainImage Proofs.CodecProofs Proofs.ImageProofs.
Local Open Scope N_scope.

Lemma unit_laws : laws unit_c (fun _ => True).
Proof.
  constructor; cbn.
  - now intros [] r _.
  - intros [] p _ (s & Hs & E). destruct p; [destruct s; [congruence|discriminate]|discriminate].
Qed.

Lemma sum2_laws {A B} (ca : codec A) (cb : codec B) da db : laws ca da -> laws cb db ->
  laws (sum2_c ca cb) (fun s => match s with inl a => da a | inr b => db b end).
Proof.
  intros La Lb. constructor; cbn [enc dec sum2_c].
  - intros [a|b] r H; rewrite <- app_assoc, rd_wr_le by (cbn; lia); cbn [N.eqb Pos.eqb];
      [now rewrite (law_rt _ _ La)|now rewrite (law_rt _ _ Lb)].
  - intros [a|b] p H Hp; destruct (prefix_split _ _ _ Hp) as [H1|(q & -> & Hq)];
      try (apply strict_prefix_length in H1; rewrite wr_le_length in H1; now rewrite rd_le_short);
      rewrite rd_wr_le by (cbn; lia); cbn [N.eqb Pos.eqb];
      [now rewrite (law_cut _ _ La a q)|now rewrite (law_cut _ _ Lb b q)].
Qed.

Definition nz32_dom (x : N) := fits 4 x /\ negb (x =? 0) = true.
Lemma nz32_laws : laws nz32 nz32_dom.
Proof. apply (guard_laws u32 (fits 4)). apply (uint_laws 4). Qed.

Definition ftype_dom (t : N + unit) := match t with inl i => fits 8 i | inr _ => True end.
Lemma ftype_laws : laws ftype_c ftype_dom.
Proof. apply (sum2_laws _ _ _ _ (uint_laws 8) unit_laws). Qed.

Definition capture_dom (c : (N * N) * (N + unit)) := (fits 8 (fst (fst c)) /\ fits 8 (snd (fst c))) /\ ftype_dom (snd c).
Lemma capture_laws : laws capture_c capture_dom.
Proof. apply (pair_laws _ _ _ _ (pair_laws _ _ _ _ (uint_laws 8) (uint_laws 8)) ftype_laws). Qed.

Definition ptemplate_dom (t : ptemplate) := string_dom (fst t) /\ vdom (fits 8) (fst (snd t)) /\ vdom capture_dom (snd (snd t)).
Lemma ptemplate_laws : laws ptemplate_c ptemplate_dom.
Proof. apply (pair_laws _ _ _ _ string_laws (pair_laws _ _ _ _ (vu 8) (vec_laws _ _ capture_laws))). Qed.

Definition identry_dom (e : list N * N) := string_dom (fst e) /\ nz32_dom (snd e).
Definition idtable_dom := vdom identry_dom.
Lemma idtable_laws : laws idtable_c idtable_dom.
Proof. apply (vec_laws _ _ (pair_laws _ _ _ _ string_laws nz32_laws)). Qed.

Definition extractor_dom (e : extractor) :=
  idtable_dom (fst e) /\ idtable_dom (fst (snd e)) /\ idtable_dom (fst (snd (snd e))) /\
  fits 4 (fst (snd (snd (snd e)))) /\ fits 4 (fst (snd (snd (snd (snd e))))) /\ fits 4 (fst (snd (snd (snd (snd (snd e)))))) /\
  vdom ptemplate_dom (fst (snd (snd (snd (snd (snd (snd e))))))) /\
  vdom ptemplate_dom (fst (snd (snd (snd (snd (snd (snd (snd e)))))))) /\
  vdom ptemplate_dom (snd (snd (snd (snd (snd (snd (snd (snd e)))))))).
Lemma extractor_laws : laws extractor_c extractor_dom.
Proof.
  lw; [apply (pair_laws _ _ _ _ idtable_laws (pair_laws _ _ _ _ idtable_laws (pair_laws _ _ _ _ idtable_laws
         (pair_laws _ _ _ _ (uint_laws 4) (pair_laws _ _ _ _ (uint_laws 4) (pair_laws _ _ _ _ (uint_laws 4)
           (pair_laws _ _ _ _ (vec_laws _ _ ptemplate_laws) (pair_laws _ _ _ _ (vec_laws _ _ ptemplate_laws) (vec_laws _ _ ptemplate_laws)))))))))|].
  intros e (H1 & H2 & H3 & H4 & H5 & H6 & H7 & H8 & H9). cbn. auto 12.
Qed.

Definition pattern_dom (p : pattern) := match p with In1 _ => True | In2 s => string_dom s | In3 l => vdom string_dom l end.
Lemma pattern_laws : laws pattern_c pattern_dom.
Proof. apply (sum3_laws _ _ _ _ _ _ unit_laws string_laws (vec_laws _ _ string_laws)). Qed.

Definition rewrite_dom (r : N + list N) := match r with inl i => fits 8 i | inr s => string_dom s end.
Lemma rewrite_laws : laws rewrite_c rewrite_dom.
Proof. apply (sum2_laws _ _ _ _ (uint_laws 8) string_laws). Qed.

Definition edge_dom (e : pattern * N) := pattern_dom (fst e) /\ fits 8 (snd e).
Lemma edge_laws : laws edge_c edge_dom.
Proof. apply (pair_laws _ _ _ _ pattern_laws (uint_laws 8)). Qed.

Definition action_dom (a : action) := match a with inl e => edge_dom e | inr l => vdom rewrite_dom l end.
Lemma action_laws : laws action_c action_dom.
Proof. apply (sum2_laws _ _ _ _ edge_laws (vec_laws _ _ rewrite_laws)). Qed.

Definition rewriter_dom : rewriter -> Prop := vdom (vdom action_dom).
Lemma rewriter_laws : laws rewriter_c rewriter_dom.
Proof. apply (vec_laws _ _ (vec_laws _ _ action_laws)). Qed.

Definition config_dom c :=
  extractor_dom (fst c) /\ rewriter_dom (fst (snd c)) /\ rewriter_dom (fst (snd (snd c))) /\ rewriter_dom (fst (snd (snd (snd c)))) /\
  inner_dom (fst (snd (snd (snd (snd c))))) /\ vdom string_dom (snd (snd (snd (snd (snd c))))).
Theorem config_laws : laws config_c config_dom.
Proof.
  lw; [apply (pair_laws _ _ _ _ extractor_laws (pair_laws _ _ _ _ rewriter_laws (pair_laws _ _ _ _ rewriter_laws
         (pair_laws _ _ _ _ rewriter_laws (pair_laws _ _ _ _ inner_laws (vec_laws _ _ string_laws))))))|].
  intros c (H1 & H2 & H3 & H4 & H5 & H6). cbn. auto 10.
Qed.

(** reading a written model returns the configuration and hands rucrf exactly the bytes rucrf wrote *)
Theorem model_read_write cfg raw : config_dom cfg -> read_model config_c (write_model config_c cfg raw) = Some (cfg, raw).
Proof. intros H. apply (law_rt _ _ config_laws cfg raw H). Qed.

(** a model file cut inside the configuration is rejected *)
Theorem model_truncated cfg p : config_dom cfg -> strict_prefix p (enc config_c cfg) -> read_model config_c p = None.
Proof. intros H Hp. apply (law_cut _ _ config_laws cfg p H Hp). Qed.

(** writing the configuration that was read back reproduces the bytes *)
Theorem model_rewrite_same cfg cfg' raw raw' : config_dom cfg ->
  read_model config_c (write_model config_c cfg raw) = Some (cfg', raw') -> write_model config_c cfg' raw' = write_model config_c cfg raw.
Proof. intros H E. rewrite (model_read_write cfg raw H) in E. now inversion E. Qed.
