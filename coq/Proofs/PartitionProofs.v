(** C01: the tokens reported by the model partition the sentence. *)
From Vib Require Import Model.Base Model.Lattice Model.Tokenizer Proofs.Viterbi Proofs.TokenizerProofs Proofs.CountProofs Proofs.ScanInd.
From Coq Require Import Arith Sorted.

(** ** byte offsets *)
Fixpoint byte_len (cs : list N) : nat := match cs with [] => 0 | c :: t => utf8_len c + byte_len t end.
Definition byte_off (cs : list N) (i : nat) : nat := byte_len (firstn i cs).

Lemma c2b_from_nth cs : forall b i, (i <= length cs)%nat -> nth i (c2b_from b cs) 0%nat = (b + byte_off cs i)%nat.
Proof.
  induction cs as [|c t IH]; intros b i Hi; simpl in *.
  - assert (i = 0)%nat as -> by lia. simpl. unfold byte_off. simpl. lia.
  - destruct i as [|i]; [unfold byte_off; simpl; lia|].
    rewrite IH by lia. unfold byte_off. simpl. lia.
Qed.
Lemma c2b_nth cs i : (i <= length cs)%nat -> nth i (c2b cs) 0%nat = byte_off cs i.
Proof. intros H. unfold c2b. now rewrite c2b_from_nth. Qed.

Lemma utf8_len_pos c : (1 <= utf8_len c)%nat.
Proof. unfold utf8_len. repeat match goal with |- context [if ?b then _ else _] => destruct b end; lia. Qed.

Lemma byte_off_mono cs i j : (i < j <= length cs)%nat -> (byte_off cs i < byte_off cs j)%nat.
Proof.
  revert i j; induction cs as [|c t IH]; intros i j H; simpl in H; [lia|].
  destruct j as [|j]; [lia|]. destruct i as [|i]; unfold byte_off in *; simpl.
  - pose proof (utf8_len_pos c). lia.
  - specialize (IH i j ltac:(lia)). lia.
Qed.

(** ** dictionary entries named by nodes *)
Definition lex_entry (rows : list lexrow) (s : sentence) (n : node) : Prop :=
  exists r, nth_error rows (N.to_nat (n_wid n)) = Some r /\ n_lid n = lr_lid r /\ n_rid n = lr_rid r /\
            n_wc n = lr_cost r /\ lr_surface r = slice (s_chars s) (n_sw n) (n_end n).

Definition entry_ok (d : dict) (s : sentence) (n : node) : Prop :=
  (n_lex n = 0%N /\ lex_entry (d_sys d) s n) \/
  (n_lex n = 1%N /\ exists rows, d_user d = Some rows /\ lex_entry rows s n) \/
  (n_lex n = 2%N /\ exists u, nth_error (d_unk d) (N.to_nat (n_wid n)) = Some u /\ n_lid n = ur_lid u /\
                              n_rid n = ur_rid u /\ n_wc n = ur_cost u /\ ur_cate u = ci_base (s_ci s (n_sw n))).

Lemma index_from_nth {A} (l : list A) : forall k i x, In (i, x) (index_from k l) ->
  (k <= i)%N /\ nth_error l (N.to_nat i - N.to_nat k) = Some x.
Proof.
  induction l as [|y l IH]; intros k i x H; simpl in H; [destruct H|].
  destruct H as [H|H].
  - inversion H; subst. split; [lia|]. now rewrite Nat.sub_diag.
  - destruct (IH _ _ _ H) as [H1 H2]. split; [lia|].
    replace (N.to_nat i - N.to_nat k)%nat with (S (N.to_nat i - N.to_nat (N.succ k))) by lia. exact H2.
Qed.

Lemma lex_matches_entry lex rows (s : sentence) sn sw c i mc :
  In c (lex_matches lex rows sw (skipn sw (s_chars s))) ->
  let n := mk_node sn (c_sw c) (c_end c) (c_lex c) (c_wid c) (c_lid c) (c_rid c) (c_wc c) i mc in
  n_lex n = lex /\ lex_entry rows s n.
Proof.
  intros Hc. unfold lex_matches in Hc.
  apply in_flat_map in Hc. destruct Hc as (k & Hk & Hc).
  apply in_flat_map in Hc. destruct Hc as ([j r] & Hjr & Hc). cbn [fst snd] in Hc.
  destruct (str_eqb (lr_surface r) (firstn k (skipn sw (s_chars s)))) eqn:E; [|destruct Hc].
  destruct Hc as [<-|[]]. cbn. split; [reflexivity|].
  apply index_from_nth in Hjr. destruct Hjr as [_ Hn]. rewrite Nat.sub_0_r in Hn.
  exists r. repeat split; auto. apply str_eqb_eq in E. rewrite E. unfold slice. cbn [n_end n_sw mk_node].
  replace (sw + k - sw)%nat with k by lia. reflexivity.
Qed.

Lemma scan_entries_entry (d : dict) (s : sentence) sn sw e c i mc :
  In c (scan_entries (d_unk d) sw e (ci_base (s_ci s sw))) ->
  entry_ok d s (mk_node sn (c_sw c) (c_end c) (c_lex c) (c_wid c) (c_lid c) (c_rid c) (c_wc c) i mc).
Proof.
  intros Hc. unfold scan_entries in Hc.
  apply in_flat_map in Hc. destruct Hc as ([j u] & Hju & Hc). cbn [fst snd] in Hc.
  destruct (ur_cate u =? ci_base (s_ci s sw))%N eqn:E; [|destruct Hc].
  destruct Hc as [<-|[]]. right; right. cbn. split; [reflexivity|].
  apply index_from_nth in Hju. destruct Hju as [_ Hn]. rewrite Nat.sub_0_r in Hn.
  exists u. repeat split; auto. now apply N.eqb_eq in E.
Qed.

Lemma candidates_entry d o (s : sentence) sn sw c i mc :
  In c (candidates d o s sw) ->
  entry_ok d s (mk_node sn (c_sw c) (c_end c) (c_lex c) (c_wid c) (c_lid c) (c_rid c) (c_wc c) i mc).
Proof.
  intros Hc. unfold candidates in Hc.
  apply in_app_or in Hc. destruct Hc as [Hc|Hc].
  - destruct (d_user d) as [rows|] eqn:Eu; [|destruct Hc].
    right; left. destruct (lex_matches_entry 1%N rows s sn sw c i mc Hc) as [H1 H2]. split; [exact H1|]. eauto.
  - apply in_app_or in Hc. destruct Hc as [Hc|Hc].
    + left. exact (lex_matches_entry 0%N (d_sys d) s sn sw c i mc Hc).
    + unfold gen_unk_words in Hc.
      destruct (_ && negb (ci_invoke _)); [destruct Hc|].
      apply in_app_or in Hc. destruct Hc as [Hc|Hc].
      * match type of Hc with In _ (if ?b then _ else _) => destruct b end; [|destruct Hc].
        eapply scan_entries_entry; eauto.
      * apply in_app_or in Hc. destruct Hc as [Hc|Hc].
        -- apply in_flat_map in Hc. destruct Hc as (k & _ & Hc). eapply scan_entries_entry; eauto.
        -- match type of Hc with In _ (if ?b then _ else _) => destruct b end; [destruct Hc|].
           eapply scan_entries_entry; eauto.
Qed.

(** what every stored node satisfies after the scan *)
Definition node_ok (d : dict) (o : options) (s : sentence) (n : node) : Prop :=
  n = bos \/ (entry_ok d s n /\ word_start o s (n_sn n) (n_sw n) /\ (n_sw n < n_end n <= s_len s)%nat).

Lemma build_lattice_nodes d o ct cs L0 L eos :
  build_lattice d o (compile ct cs) L0 = Done (L, eos) -> all_nodes L (node_ok d o (compile ct cs)).
Proof.
  unfold build_lattice. intros H.
  destruct (scan d o (compile ct cs) _ 0 0 _) as [[L1 sn]| |] eqn:Es; try discriminate.
  destruct (insert_eos _ _ _ _); [|discriminate]. inversion H; subst L1; clear H.
  eapply (scan_nodes d o (compile ct cs) (node_ok d o (compile ct cs))); [|reflexivity| |exact Es].
  - intros sn0 sw c Hsw Hws Hc i mc. right.
    pose proof (candidates_in d o ct cs sw ltac:(apply Hsw)) as F. rewrite Forall_forall in F.
    destruct (F c Hc) as [E1 E2]. split; [eapply candidates_entry; eauto|].
    cbn. rewrite E1. split; [exact Hws|]. exact E2.
  - apply reset_nodes. now left.
Qed.

(** ** token sequences *)
Definition tok_entry (d : dict) (t : token) : Prop :=
  (t_lex t = 0%N /\ exists r, nth_error (d_sys d) (N.to_nat (t_wid t)) = Some r /\ t_lid t = lr_lid r /\ t_rid t = lr_rid r
      /\ t_wcost t = lr_cost r /\ t_feature t = lr_feature r /\ lr_surface r = t_surface t) \/
  (t_lex t = 1%N /\ exists rows r, d_user d = Some rows /\ nth_error rows (N.to_nat (t_wid t)) = Some r /\ t_lid t = lr_lid r
      /\ t_rid t = lr_rid r /\ t_wcost t = lr_cost r /\ t_feature t = lr_feature r /\ lr_surface r = t_surface t) \/
  (t_lex t = 2%N /\ exists u, nth_error (d_unk d) (N.to_nat (t_wid t)) = Some u /\ t_lid t = ur_lid u /\ t_rid t = ur_rid u
      /\ t_wcost t = ur_cost u /\ t_feature t = ur_feature u).

Definition token_ok (d : dict) (s : sentence) (t : token) : Prop :=
  (t_cs t < t_ce t <= s_len s)%nat /\
  t_bs t = byte_off (s_chars s) (t_cs t) /\ t_be t = byte_off (s_chars s) (t_ce t) /\
  t_surface t = slice (s_chars s) (t_cs t) (t_ce t) /\ tok_entry d t.

(** tokens in reading order; the second index is the end of the last token *)
Inductive tok_seq (d : dict) (o : options) (s : sentence) : list token -> nat -> Prop :=
| ts_nil : tok_seq d o s [] 0
| ts_snoc ts p t : tok_seq d o s ts p -> word_start o s p (t_cs t) -> token_ok d s t ->
    tok_seq d o s (ts ++ [t]) (t_ce t).

Lemma all_some_app {A} (l1 l2 : list (option A)) :
  all_some (l1 ++ l2) = match all_some l1, all_some l2 with Some a, Some b => Some (a ++ b) | _, _ => None end.
Proof.
  induction l1 as [|[x|] l1 IH]; simpl.
  - destruct (all_some l2); reflexivity.
  - rewrite IH. destruct (all_some l1), (all_some l2); reflexivity.
  - reflexivity.
Qed.

Lemma token_of_ok d o s e n t : node_ok d o s n -> n <> bos -> n_end n = e ->
  token_of d s (e, n) = Some t ->
  token_ok d s t /\ t_cs t = n_sw n /\ t_ce t = e.
Proof.
  intros [->|(He & Hws & Hb)] Hnb Hend H; [congruence|]. unfold token_of in H.
  destruct (word_info d (n_lex n) (n_wid n)) as [[wc feat]|] eqn:Ew; [|discriminate].
  inversion H; subst t; clear H. unfold token_ok.
  cbn [t_cs t_ce t_bs t_be t_surface t_lex t_wid t_feature t_lid t_rid t_wcost t_total]. subst e. split; [|auto].
  split; [exact Hb|]. split; [apply c2b_nth; unfold s_len in Hb; lia|]. split; [apply c2b_nth; unfold s_len in Hb; lia|].
  split; [reflexivity|].
  unfold tok_entry; cbn [t_cs t_ce t_bs t_be t_surface t_lex t_wid t_feature t_lid t_rid t_wcost t_total]. unfold word_info in Ew.
  destruct He as [(El & r & Hr & H1 & H2 & H3 & H4)|[(El & rows & Hu & r & Hr & H1 & H2 & H3 & H4)|(El & u & Hu & H1 & H2 & H3 & H4)]];
    rewrite El in Ew; cbn in Ew.
  - left. split; [exact El|]. rewrite Hr in Ew. cbn in Ew. inversion Ew; subst. exists r. repeat split; auto.
  - right; left. split; [exact El|]. rewrite Hu, Hr in Ew. cbn in Ew. inversion Ew; subst. exists rows, r. repeat split; auto.
  - right; right. split; [exact El|]. rewrite Hu in Ew. cbn in Ew. inversion Ew; subst. exists u. repeat split; auto.
Qed.

Lemma good_path_tokens d o s conn L : all_nodes L (node_ok d o s) ->
  forall e c r path, good_path conn L e c r path ->
  forall ts, all_some (map (token_of d s) path) = Some ts -> tok_seq d o s ts e.
Proof.
  intros HL. induction 1 as [|e c r p e' n Hgp IH Hsn Hend Hin Hsw Hmc]; intros ts Hts.
  - simpl in Hts. inversion Hts. constructor.
  - rewrite map_app, all_some_app in Hts.
    destruct (all_some (map (token_of d s) p)) as [ts0|] eqn:E0; [|discriminate].
    cbn [map all_some] in Hts. destruct (token_of d s (e', n)) as [t|] eqn:Et; [|discriminate].
    inversion Hts; subst ts; clear Hts.
    assert (Hnb : n <> bos) by (intros ->; simpl in *; lia).
    destruct (token_of_ok d o s e' n t (HL _ _ Hin) Hnb Hend Et) as (Hok & Ecs & Ece).
    rewrite <- Ece. apply ts_snoc with (p := e); [apply IH; reflexivity| |exact Hok].
    rewrite Ecs. destruct (HL _ _ Hin) as [->|(_ & Hws & _)]; [congruence|]. now rewrite Hsn in Hws.
Qed.

(** trailing part of the sentence after the last token *)
Definition tail_ok (o : options) (s : sentence) (q : nat) : Prop :=
  q = s_len s \/ ((q < s_len s)%nat /\ is_space o (s_ci s q) = true /\ (q + s_grp s q)%nat = s_len s).

(** main statement for the model *)
Theorem tokens_partition d o cs ts L eos : cs <> [] ->
  tokenize_fresh d o cs = Done (ts, L, eos) ->
  exists q, tok_seq d o (compile (d_chars d) cs) ts q /\ tail_ok o (compile (d_chars d) cs) q.
Proof.
  intros Hne H. unfold tokenize_fresh in H.
  destruct (tokenize d o (reset_sentence d new_worker cs)) as [w| |] eqn:Et; try discriminate.
  destruct (tokens d w) as [ts'|] eqn:Ets; [|discriminate]. inversion H; subst ts' L eos; clear H.
  destruct cs as [|c0 cs']; [congruence|]. set (cs := c0 :: cs') in *.
  assert (Hs : w_sent (reset_sentence d new_worker cs) = compile (d_chars d) cs) by reflexivity.
  destruct (tokenize_path d o (d_chars d) cs _ w Hs Hne Et) as (L & eos & s0 & p & HL & He & I & Hp & Hgp & _).
  unfold tokenize in Et. rewrite Hs in Et. cbn [compile s_chars] in Et. unfold cs in Et at 1.
  destruct (build_lattice d o (compile (d_chars d) cs) (w_lat (reset_sentence d new_worker cs))) as [[L1 e1]| |] eqn:Eb; try discriminate.
  destruct (walk L1 _ _ _) as [top|] eqn:Ew; [|discriminate].
  inversion Et; subst w; clear Et. cbn in HL, He. subst L1. inversion He; subst e1; clear He.
  unfold tokens in Ets. cbn [w_sent w_top] in Ets.
  pose proof (build_lattice_nodes _ _ _ _ _ _ _ Eb) as HN.
  exists (n_sn eos). split; [eapply good_path_tokens; eauto|].
  (* where EOS connects *)
  unfold build_lattice in Eb.
  destruct (scan d o (compile (d_chars d) cs) _ 0 0 _) as [[L2 sn]| |] eqn:Es; try discriminate.
  destruct (insert_eos (conn_of d) L2 sn _) as [e2|] eqn:Ee; [|discriminate]. inversion Eb; subst L2 e2; clear Eb.
  assert (n_sn eos = sn) as ->.
  { unfold insert_eos in Ee. destruct (search_min _ _ _ _) as [[i c]|]; [|discriminate].
    destruct (scan_ok _ _ _ _); [|discriminate]. inversion Ee; reflexivity. }
  destruct (scan_stop d o _ _ _ _ _ _ _ eq_refl (Nat.le_0_l _) Es) as [->|(H1 & _ & H3 & H4)]; [now left|right; auto].
Qed.

(** without ignore_space the surfaces concatenate to the input *)
Lemma firstn_slice {A} (l : list A) : forall p q, (p <= q)%nat -> firstn p l ++ slice l p q = firstn q l.
Proof.
  unfold slice. induction l as [|x l IH]; intros p q H.
  - rewrite skipn_nil, !firstn_nil. reflexivity.
  - destruct p as [|p]; [cbn; now rewrite Nat.sub_0_r|].
    destruct q as [|q]; [lia|]. cbn. f_equal. apply IH. lia.
Qed.

Theorem tokens_cover d o s ts q : o_space o = None -> tok_seq d o s ts q ->
  concat (map t_surface ts) = firstn q (s_chars s).
Proof.
  intros Ho. induction 1 as [|ts p t Hts IH Hws (Hb & _ & _ & Hsf & _)]; [reflexivity|].
  rewrite map_app, concat_app, IH. cbn. rewrite app_nil_r, Hsf.
  destruct Hws as [[_ Hws]|[Hsp _]]; [rewrite Hws; apply firstn_slice; destruct Hb; rewrite <- Hws; apply Nat.lt_le_incl; assumption|].
  unfold is_space in Hsp. rewrite Ho in Hsp. discriminate.
Qed.

Theorem tokens_cover_all d o cs ts L eos : cs <> [] -> o_space o = None ->
  tokenize_fresh d o cs = Done (ts, L, eos) -> concat (map t_surface ts) = cs.
Proof.
  intros Hne Ho H. destruct (tokens_partition d o cs ts L eos Hne H) as (q & Hseq & Htail).
  rewrite (tokens_cover d o _ ts q Ho Hseq). cbn [compile s_chars].
  destruct Htail as [->|(_ & Hsp & _)]; [apply firstn_all|].
  unfold is_space in Hsp. rewrite Ho in Hsp. discriminate.
Qed.

(** tokens are in order and do not overlap: each starts at or after the end of the previous *)
Theorem tokens_ordered d o s ts q : tok_seq d o s ts q ->
  Forall (fun t => (t_cs t < t_ce t <= q)%nat) ts /\
  StronglySorted (fun a b => (t_ce a <= t_cs b)%nat) ts.
Proof.
  induction 1 as [|ts p t Hts [IH1 IH2] Hws (Hb & _)].
  - split; constructor.
  - assert (Hp : (p <= t_cs t)%nat) by (destruct Hws as [[_ ->]|[_ ->]]; lia).
    split.
    + apply Forall_app. split; [|repeat constructor; lia].
      eapply Forall_impl; [|exact IH1]. cbn. intros a Ha. lia.
    + clear Hts. induction ts as [|a ts IHts]; cbn; [repeat constructor|].
      inversion IH1 as [|? ? Ha IH1']; subst. inversion IH2 as [|? ? S1 S2]; subst.
      constructor; [apply IHts; auto|].
      apply Forall_app. split; [exact S2|]. repeat constructor. lia.
Qed.

(** termination: the fuel given to the loop always suffices *)
Theorem tokenize_fresh_fuel d o cs : tokenize_fresh d o cs <> OutOfFuel.
Proof.
  unfold tokenize_fresh, tokenize. intros H.
  destruct (s_chars (w_sent (reset_sentence d new_worker cs))) eqn:Es.
  - destruct (tokens d _); discriminate.
  - unfold build_lattice in H.
    set (s := w_sent (reset_sentence d new_worker cs)) in *.
    pose proof (scan_fuel d o s (S (s_len s)) 0 0 (reset (w_lat (reset_sentence d new_worker cs)) (s_len s)) ltac:(lia) ltac:(lia)) as Hf.
    destruct (scan d o s (S (s_len s)) 0 0 _) as [[L sn]| |]; try congruence; try discriminate.
    destruct (insert_eos _ _ _ _); [|discriminate].
    destruct (walk _ _ _ _); [|discriminate]. destruct (tokens d _); discriminate.
Qed.

Theorem tokenize_fresh_empty d o : exists L eos, tokenize_fresh d o [] = Done ([], L, eos).
Proof. eexists; eexists. reflexivity. Qed.
