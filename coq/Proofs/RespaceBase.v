(** C12: machinery for the re-spacing simulation -- fuel-free scan, and the relation between the
    lattices of two sentences that differ in the length of ONE space run. *)
From Vib Require Import Model.Base Model.Lattice Model.Tokenizer Proofs.Viterbi Proofs.TokenizerProofs Proofs.CountProofs Proofs.ScanInd.
From Coq Require Import Arith.

(** ** the loop does not depend on the fuel as long as it suffices *)
Lemma scan_fuel_irrel d o s : forall f f2 sn sw L, (s_len s < f + sw)%nat -> (s_len s < f2 + sw)%nat -> (sw <= s_len s)%nat ->
  scan d o s f sn sw L = scan d o s f2 sn sw L.
Proof.
  induction f as [|f IH]; intros f2 sn sw L H1 H2 H3; [lia|].
  - destruct f2 as [|f2]; [lia|].
    + cbn [scan]. destruct (Nat.leb_spec (s_len s) sw); [reflexivity|].
      destruct (negb (has_prev L sn)); [apply IH; lia|].
      match goal with |- context [Nat.eqb ?x (s_len s)] => set (sw' := x) end.
      assert (sw <= sw')%nat by (subst sw'; destruct (is_space _ _); lia).
      destruct (Nat.eqb_spec sw' (s_len s)); [reflexivity|].
      destruct (Nat.ltb_spec (s_len s) sw'); [reflexivity|].
      destruct (insert_all _ _ _ _); [apply IH; lia|reflexivity].
Qed.

(** the loop started at position [i] (start_node = start_word = i) with canonical fuel *)
Definition scanF (d : dict) (o : options) (s : sentence) (i : nat) (L : lattice) : outcome (lattice * nat) :=
  scan d o s (S (s_len s - i)) i i L.

Definition skip (o : options) (s : sentence) (i : nat) : nat :=
  if is_space o (s_ci s i) then (i + s_grp s i)%nat else i.

Lemma scanF_eq d o s i L :
  scanF d o s i L =
  if Nat.leb (s_len s) i then Done (L, i)
  else if negb (has_prev L i) then scanF d o s (S i) L
  else if Nat.eqb (skip o s i) (s_len s) then Done (L, i)
  else if Nat.ltb (s_len s) (skip o s i) then Panicked
  else match insert_all (conn_of d) L i (candidates d o s (skip o s i)) with
       | None => Panicked
       | Some L' => scanF d o s (S (skip o s i)) L'
       end.
Proof.
  unfold scanF at 1. cbn [scan]. fold (skip o s i).
  destruct (Nat.leb_spec (s_len s) i); [reflexivity|].
  destruct (negb (has_prev L i)); [apply scan_fuel_irrel; lia|].
  assert (i <= skip o s i)%nat by (unfold skip; destruct (is_space _ _); lia).
  destruct (Nat.eqb_spec (skip o s i) (s_len s)); [reflexivity|].
  destruct (Nat.ltb_spec (s_len s) (skip o s i)); [reflexivity|].
  destruct (insert_all _ _ _ _); [apply scan_fuel_irrel; lia|reflexivity].
Qed.

Lemma build_lattice_scanF d o s L0 :
  build_lattice d o s L0 =
  match scanF d o s 0 (reset L0 (s_len s)) with
  | Done (L, sn) => match insert_eos (conn_of d) L sn (s_len s) with Some eos => Done (L, eos) | None => Panicked end
  | Panicked => Panicked
  | OutOfFuel => OutOfFuel
  end.
Proof. unfold build_lattice, scanF. now rewrite Nat.sub_0_r. Qed.

(** ** the position maps of a re-spacing of the run [a, a+r) to [a, a+r') *)
Section Maps.
Variables a r r' : nat.

Definition fe (p : nat) : nat := if Nat.leb p a then p else (p - r + r')%nat.     (* boundaries: start_node, end *)
Definition fw (p : nat) : nat := if Nat.ltb p a then p else (p - r + r')%nat.     (* word starts *)
Definition live (p : nat) : Prop := (p <= a \/ a + r < p)%nat.

(** BOS (the only node ending at boundary 0) is left alone *)
Definition sh (n : node) : node :=
  if Nat.eqb (n_end n) 0 then n else
  {| n_sn := fe (n_sn n); n_sw := fw (n_sw n); n_end := fe (n_end n); n_lex := n_lex n; n_wid := n_wid n;
     n_lid := n_lid n; n_rid := n_rid n; n_wc := n_wc n; n_midx := n_midx n; n_mc := n_mc n |}.

Definition good (n : node) : Prop :=
  live (n_sn n) /\ (n = bos \/ ((n_sn n <= n_sw n < n_end n)%nat /\ (n_end n <= a \/ a + r <= n_sw n)%nat)).

Lemma sh_mc n : n_mc (sh n) = n_mc n.   Proof. unfold sh. destruct (Nat.eqb _ _); reflexivity. Qed.
Lemma sh_rid n : n_rid (sh n) = n_rid n. Proof. unfold sh. destruct (Nat.eqb _ _); reflexivity. Qed.
Lemma sh_pos n : (0 < n_end n)%nat -> sh n =
  {| n_sn := fe (n_sn n); n_sw := fw (n_sw n); n_end := fe (n_end n); n_lex := n_lex n; n_wid := n_wid n;
     n_lid := n_lid n; n_rid := n_rid n; n_wc := n_wc n; n_midx := n_midx n; n_mc := n_mc n |}.
Proof. intros H. unfold sh. destruct (Nat.eqb_spec (n_end n) 0); [lia|reflexivity]. Qed.

Record LR (L L' : lattice) : Prop := {
  lr_map : forall q, live q -> at_ L' (fe q) = map sh (at_ L q);
  lr_dead : forall q, (a < q <= a + r)%nat -> at_ L q = [];
  lr_dead' : forall q, (a < q <= a + r')%nat -> at_ L' q = [];
  lr_good : all_nodes L good;
  lr_end : forall e n, In n (at_ L e) -> n_end n = e }.

Lemma fe_inj p q : live p -> live q -> fe p = fe q -> p = q.
Proof. unfold fe, live. intros Hp Hq. destruct (Nat.leb_spec p a), (Nat.leb_spec q a); lia. Qed.

Lemma fe_not_dead p q : live p -> (a < q <= a + r')%nat -> fe p <> q.
Proof. unfold fe, live. intros Hp Hq. destruct (Nat.leb_spec p a); lia. Qed.

Lemma fe_mono p q : live p -> live q -> (p < q)%nat -> (fe p < fe q)%nat.
Proof. unfold fe, live. intros Hp Hq Hlt. destruct (Nat.leb_spec p a), (Nat.leb_spec q a); lia. Qed.

Section Conn.
Variable conn : N -> N -> Z.

Lemma smin_aux_sh lid l : forall i b, smin_aux conn lid (map sh l) i b = smin_aux conn lid l i b.
Proof. induction l as [|p l IH]; intros i b; cbn [map smin_aux]; [reflexivity|]. rewrite sh_mc, sh_rid. apply IH. Qed.

Lemma search_min_sim L L' sn lid : LR L L' -> live sn -> search_min conn L' (fe sn) lid = search_min conn L sn lid.
Proof. intros H Hl. unfold search_min. rewrite (lr_map _ _ H sn Hl). apply smin_aux_sh. Qed.

Lemma scan_ok_sim L L' sn lid : LR L L' -> live sn -> scan_ok conn L' (fe sn) lid = scan_ok conn L sn lid.
Proof.
  intros H Hl. unfold scan_ok. rewrite (lr_map _ _ H sn Hl). induction (at_ L sn) as [|p l IH]; [reflexivity|].
  cbn [map forallb]. now rewrite IH, sh_mc, sh_rid.
Qed.

Lemma insert_node_sim L L' sn sw e lex wid lid rid wc L1 :
  LR L L' -> live sn -> live e -> (0 < e)%nat -> (forall i c, good (mk_node sn sw e lex wid lid rid wc i c)) ->
  insert_node conn L sn sw e lex wid lid rid wc = Some L1 ->
  exists L1', insert_node conn L' (fe sn) (fw sw) (fe e) lex wid lid rid wc = Some L1' /\ LR L1 L1'.
Proof.
  intros H Hsn He He0 Hg Hi. pose proof Hi as Hi0. unfold insert_node in Hi |- *.
  rewrite (search_min_sim L L' sn lid H Hsn), (scan_ok_sim L L' sn lid H Hsn).
  destruct (search_min conn L sn lid) as [[i c]|]; [|discriminate].
  destruct (_ && _); [|discriminate]. inversion Hi; subst L1; clear Hi.
  eexists. split; [reflexivity|]. constructor.
  - intros q Hq. destruct (Nat.eq_dec q e) as [->|Hne].
    + rewrite !at_push_same, map_app, (lr_map _ _ H e He). cbn [map]. rewrite sh_pos by (cbn; exact He0). reflexivity.
    + rewrite !at_push_other; [now apply (lr_map _ _ H)|exact Hne|].
      intros E. apply Hne. now apply fe_inj.
  - intros q Hq. rewrite at_push_other; [now apply (lr_dead _ _ H)|]. unfold live in He. lia.
  - intros q Hq. rewrite at_push_other; [now apply (lr_dead' _ _ H)|]. intros E. symmetry in E. revert E. now apply fe_not_dead.
  - eapply insert_node_nodes; [exact (lr_good _ _ H)|exact Hg|exact Hi0].
  - intros j n Hn. destruct (Nat.eq_dec j e) as [->|Hne].
    + rewrite at_push_same in Hn. apply in_app_or in Hn. destruct Hn as [Hn|[<-|[]]]; [now apply (lr_end _ _ H)|reflexivity].
    + rewrite at_push_other in Hn by exact Hne. now apply (lr_end _ _ H).
Qed.

Definition shc (c : cand) : cand :=
  {| c_sw := fw (c_sw c); c_end := fe (c_end c); c_lex := c_lex c; c_wid := c_wid c; c_lid := c_lid c; c_rid := c_rid c; c_wc := c_wc c |}.

Lemma insert_all_sim cs : forall L L' sn L1,
  LR L L' -> live sn ->
  (forall c, In c cs -> live (c_end c) /\ (0 < c_end c)%nat /\ forall i mc, good (mk_node sn (c_sw c) (c_end c) (c_lex c) (c_wid c) (c_lid c) (c_rid c) (c_wc c) i mc)) ->
  insert_all conn L sn cs = Some L1 ->
  exists L1', insert_all conn L' (fe sn) (map shc cs) = Some L1' /\ LR L1 L1'.
Proof.
  induction cs as [|c cs IH]; intros L L' sn L1 H Hsn Hc Hi; cbn [insert_all map] in *.
  - inversion Hi; subst. eauto.
  - destruct (insert_node conn L sn (c_sw c) (c_end c) (c_lex c) (c_wid c) (c_lid c) (c_rid c) (c_wc c)) as [L2|] eqn:E; [|discriminate].
    destruct (Hc c ltac:(now left)) as (Hle & Hpos & Hg).
    destruct (insert_node_sim _ _ _ _ _ _ _ _ _ _ _ H Hsn Hle Hpos Hg E) as (L2' & E' & H2).
    cbn [shc c_sw c_end c_lex c_wid c_lid c_rid c_wc]. rewrite E'.
    eapply IH; eauto. intros c' Hc'. apply Hc. now right.
Qed.

Lemma insert_eos_sim L L' sn len len' eos : LR L L' -> live sn -> insert_eos conn L sn len = Some eos ->
  exists eos', insert_eos conn L' (fe sn) len' = Some eos' /\ n_sn eos' = fe (n_sn eos) /\ n_midx eos' = n_midx eos /\ n_mc eos' = n_mc eos.
Proof.
  intros H Hsn. unfold insert_eos. rewrite (search_min_sim L L' sn 0%N H Hsn), (scan_ok_sim L L' sn 0%N H Hsn).
  destruct (search_min conn L sn 0%N) as [[i c]|]; [|discriminate]. destruct (scan_ok conn L sn 0%N); [|discriminate].
  intros E; inversion E; subst eos. eexists. split; [reflexivity|]. cbn. auto.
Qed.
End Conn.

(** the back-pointer walks visit corresponding nodes *)
Lemma fe_pos p : live p -> (0 < p)%nat -> (0 < fe p)%nat.
Proof. unfold fe, live. intros Hp H0. destruct (Nat.leb_spec p a); lia. Qed.

Lemma walk_sim L L' : LR L L' -> forall f f' e i top, live e -> (fe e < f')%nat ->
  walk L f e i = Some top ->
  walk L' f' (fe e) i = Some (map (fun en => (fe (fst en), sh (snd en))) top).
Proof.
  intros H. induction f as [|f IH]; intros f' e i top He Hf Hw.
  - destruct e; [|discriminate]. cbn in Hw. inversion Hw; subst. unfold fe. cbn. destruct f'; reflexivity.
  - destruct e as [|e0].
    + cbn in Hw. inversion Hw; subst. unfold fe. cbn. destruct f'; reflexivity.
    + pose proof (fe_pos (S e0) He ltac:(lia)) as Hpos. destruct (fe (S e0)) as [|e1] eqn:Efe; [lia|].
      destruct f' as [|f']; [lia|]. cbn [walk] in Hw |- *. rewrite <- Efe.
      rewrite (lr_map _ _ H _ He). rewrite nth_error_map.
      destruct (nth_error (at_ L (S e0)) i) as [n|] eqn:En; [|discriminate]. cbn [option_map].
      destruct (walk L f (n_sn n) (n_midx n)) as [rest|] eqn:Er; [|discriminate].
      inversion Hw; subst top; clear Hw.
      assert (Hin : In n (at_ L (S e0))) by (eapply nth_error_In; eauto).
      pose proof (lr_end _ _ H _ _ Hin) as Eend.
      destruct (lr_good _ _ H _ _ Hin) as [Hlsn [->|[Hord _]]]; [cbn in Eend; lia|].
      rewrite (sh_pos n) by lia. cbn [n_sn n_midx].
      rewrite (IH f' (n_sn n) (n_midx n) rest Hlsn); [|pose proof (fe_mono (n_sn n) (S e0) Hlsn He ltac:(lia)); lia|exact Er].
      cbn [map fst snd]. rewrite (sh_pos n) by lia. reflexivity.
Qed.
End Maps.
