(** C13: what [add_connid_counts] counts over the finished lattice is, as a multiset, exactly
    the connection-cost evaluations performed while the lattice was built. *)
From Vib Require Import Model.Base Model.Lattice Model.Tokenizer Model.EvalLog Proofs.Viterbi Proofs.TokenizerProofs Proofs.WorkerProofs.
From Coq Require Import Arith Permutation.

(** ** ends stay inside the sentence *)
Lemma groupable_cons c t : groupable_of (c :: t) =
  match t, groupable_of t with
  | c' :: _, g :: _ => (if share c c' then S g else 1%nat) :: groupable_of t
  | _, _ => [1%nat]
  end.
Proof. destruct t; reflexivity. Qed.

Lemma groupable_length cis : length (groupable_of cis) = length cis.
Proof.
  induction cis as [|c t IH]; [reflexivity|]. rewrite groupable_cons.
  destruct t as [|c' t']; [reflexivity|].
  destruct (groupable_of (c' :: t')) as [|g gs] eqn:E; [simpl in IH; discriminate|].
  cbn [length] in *. now rewrite IH.
Qed.

Lemma groupable_tl c t : tl (groupable_of (c :: t)) = groupable_of t.
Proof.
  rewrite groupable_cons. destruct t as [|c' t']; [reflexivity|].
  destruct (groupable_of (c' :: t')) as [|g gs] eqn:E; [|reflexivity].
  pose proof (groupable_length (c' :: t')) as H. rewrite E in H. discriminate.
Qed.

Lemma groupable_hd_le cis : forall g, hd_error (groupable_of cis) = Some g -> (g <= length cis)%nat.
Proof.
  induction cis as [|c t IH]; intros g H; [discriminate|]. rewrite groupable_cons in H.
  destruct t as [|c' t']; [inversion H; simpl; lia|].
  destruct (groupable_of (c' :: t')) as [|g' gs] eqn:E; [inversion H; simpl; lia|].
  specialize (IH g' eq_refl). cbn [hd_error] in H. inversion H. cbn [length] in *. destruct (share c c'); lia.
Qed.

Lemma groupable_skipn cis : forall i, skipn i (groupable_of cis) = groupable_of (skipn i cis).
Proof.
  induction cis as [|c t IH]; intros [|i]; try reflexivity.
  cbn [skipn]. rewrite <- IH, <- (groupable_tl c t).
  destruct (groupable_of (c :: t)); [destruct i; reflexivity|reflexivity].
Qed.

Lemma nth_hd_skipn {A} (l : list A) i d : (i < length l)%nat -> hd_error (skipn i l) = Some (nth i l d).
Proof. revert i; induction l as [|x l IH]; intros [|i] H; simpl in *; try lia; auto. apply IH. lia. Qed.

Lemma s_grp_bound ct cs i : (i < length cs)%nat -> (i + s_grp (compile ct cs) i <= length cs)%nat.
Proof.
  intros Hi. unfold s_grp, compile; cbn [s_group].
  set (cis := map (char_info ct) cs).
  assert (Hl : length cis = length cs) by (subst cis; apply map_length).
  pose proof (nth_hd_skipn (groupable_of cis) i 1%nat ltac:(rewrite groupable_length; lia)) as H.
  rewrite groupable_skipn in H. apply groupable_hd_le in H. rewrite skipn_length in H. lia.
Qed.

Definition cand_in (len sw : nat) (c : cand) : Prop := c_sw c = sw /\ (sw < c_end c <= len)%nat.

Lemma scan_entries_in unk len sw e base : (sw < e <= len)%nat -> Forall (cand_in len sw) (scan_entries unk sw e base).
Proof.
  intros He. unfold scan_entries. apply Forall_forall. intros c Hc.
  apply in_flat_map in Hc. destruct Hc as (ir & _ & Hc).
  destruct (ur_cate (snd ir) =? base)%N; [|destruct Hc].
  destruct Hc as [<-|[]]. split; simpl; auto.
Qed.

Lemma take_while_all {A} (f : A -> bool) l x : In x (take_while f l) -> f x = true.
Proof.
  induction l as [|y l IH]; simpl; [tauto|]. destruct (f y) eqn:E; [|intros []].
  intros [<-|H]; auto.
Qed.

Lemma candidates_in d o ct cs sw : (sw < length cs)%nat ->
  Forall (cand_in (length cs) sw) (candidates d o (compile ct cs) sw).
Proof.
  intros Hsw. unfold candidates.
  assert (Hlex : forall lex rows, Forall (cand_in (length cs) sw) (lex_matches lex rows sw (skipn sw (s_chars (compile ct cs))))).
  { intros lex rows. unfold lex_matches. apply Forall_forall. intros c Hc.
    apply in_flat_map in Hc. destruct Hc as (k & Hk & Hc). apply in_seq in Hk.
    rewrite skipn_length in Hk. cbn [compile s_chars] in Hk.
    apply in_flat_map in Hc. destruct Hc as (ir & _ & Hc).
    destruct (str_eqb _ _); [|destruct Hc]. destruct Hc as [<-|[]]. split; simpl; lia. }
  apply Forall_app; split; [destruct (d_user d); [apply Hlex|constructor]|].
  apply Forall_app; split; [apply Hlex|].
  unfold gen_unk_words.
  destruct (_ && negb (ci_invoke _)); [constructor|].
  pose proof (s_grp_bound ct cs sw Hsw) as Hg. pose proof (s_grp_ge1 ct cs sw) as Hg1.
  apply Forall_app; split; [|apply Forall_app; split].
  - match goal with |- Forall _ (if ?b then _ else _) => destruct b end; [|constructor].
    apply scan_entries_in. lia.
  - apply Forall_forall. intros c Hc. apply in_flat_map in Hc. destruct Hc as (i & Hi & Hc).
    pose proof (take_while_all _ _ _ Hi) as Hle. apply Nat.leb_le in Hle.
    apply take_while_incl in Hi. apply filter_In in Hi. destruct Hi as [Hi _]. apply in_seq in Hi.
    unfold s_len in Hle; cbn [compile s_chars] in Hle.
    pose proof (scan_entries_in (d_unk d) (length cs) sw (sw + i) (ci_base (s_ci (compile ct cs) sw)) ltac:(lia)) as F.
    rewrite Forall_forall in F. auto.
  - match goal with |- Forall _ (if ?b then _ else _) => destruct b end; [constructor|].
    apply scan_entries_in. lia.
Qed.

(** ** the events counted over a lattice *)
Definition node_events (L : lattice) (r : node) : list (N * N) :=
  map (fun l => (n_lid r, n_rid l)) (at_ L (n_sn r)).
Definition all_events (L : lattice) (M : nat) : list (N * N) :=
  flat_map (fun e => flat_map (node_events L) (at_ L e)) (seq 1 M).

Lemma count_events_eq L len sn : count_events L len sn = all_events L len ++ evals_of_insert L sn 0%N.
Proof. reflexivity. Qed.

Lemma flat_map_ext_in {A B} (f g : A -> list B) l : (forall x, In x l -> f x = g x) -> flat_map f l = flat_map g l.
Proof. induction l as [|x l IH]; simpl; intros H; auto. rewrite H by now left. f_equal. apply IH. intros; apply H; now right. Qed.

Lemma seq_split3 e M : (1 <= e <= M)%nat -> seq 1 M = seq 1 (e - 1) ++ e :: seq (S e) (M - e).
Proof.
  intros H. replace M with ((e - 1) + S (M - e))%nat at 1 by lia. rewrite seq_app. f_equal.
  replace (1 + (e - 1))%nat with e by lia. reflexivity.
Qed.

Section Step.
Variable conn : N -> N -> Z.

Lemma all_events_insert L s sn sw e lex wid lid rid wc L' M :
  Inv conn L s -> (s <= sn)%nat -> (sn <= sw < e)%nat -> (e <= M)%nat ->
  insert_node conn L sn sw e lex wid lid rid wc = Some L' ->
  Permutation (all_events L' M) (all_events L M ++ evals_of_insert L sn lid).
Proof.
  intros I Hs Hsw HeM H. unfold insert_node in H.
  destruct (search_min conn L sn lid) as [[i c]|]; [|discriminate].
  destruct (_ && _); [|discriminate]. inversion H; subst L'; clear H.
  set (m := mk_node sn sw e lex wid lid rid wc i c).
  (* old nodes keep their events *)
  assert (Hold : forall j r, (1 <= j)%nat -> In r (at_ L j) -> node_events (push L e m) r = node_events L r).
  { intros j r Hj Hr. unfold node_events.
    assert (r <> bos) as Hnb by (intros ->; pose proof (inv_idx _ _ _ I _ _ Hr) as E; simpl in E; lia).
    destruct (inv_ord _ _ _ I _ _ Hr Hnb) as [_ Hle].
    now rewrite at_push_other by lia. }
  assert (Hm : node_events (push L e m) m = evals_of_insert L sn lid).
  { unfold node_events, evals_of_insert. simpl. now rewrite at_push_other by lia. }
  unfold all_events.
  rewrite (seq_split3 e M) by lia.
  change (e :: seq (S e) (M - e)) with ([e] ++ seq (S e) (M - e)).
  rewrite !flat_map_app. cbn [flat_map]. rewrite !app_nil_r.
  rewrite at_push_same, flat_map_app. cbn [flat_map]. rewrite app_nil_r, Hm.
  assert (E1 : flat_map (fun j => flat_map (node_events (push L e m)) (at_ (push L e m) j)) (seq 1 (e - 1))
             = flat_map (fun j => flat_map (node_events L) (at_ L j)) (seq 1 (e - 1))).
  { apply flat_map_ext_in. intros j Hj. apply in_seq in Hj. rewrite at_push_other by lia.
    apply flat_map_ext_in. intros r Hr. apply (Hold j); [lia|exact Hr]. }
  assert (E2 : flat_map (fun j => flat_map (node_events (push L e m)) (at_ (push L e m) j)) (seq (S e) (M - e))
             = flat_map (fun j => flat_map (node_events L) (at_ L j)) (seq (S e) (M - e))).
  { apply flat_map_ext_in. intros j Hj. apply in_seq in Hj. rewrite at_push_other by lia.
    apply flat_map_ext_in. intros r Hr. apply (Hold j); [lia|exact Hr]. }
  assert (E3 : flat_map (node_events (push L e m)) (at_ L e) = flat_map (node_events L) (at_ L e)).
  { apply flat_map_ext_in. intros r Hr. apply (Hold e); [lia|exact Hr]. }
  rewrite E1, E2, E3.
  rewrite <- !app_assoc. apply Permutation_app_head. apply Permutation_app_head.
  apply Permutation_app_comm.
Qed.

(** invariant carried through the scan: Viterbi invariant, ends bounded by [M], log = events *)
Definition K (M : nat) (L : lattice) (lg : list (N * N)) (s : nat) : Prop :=
  Inv conn L s /\ (forall e n, In n (at_ L e) -> (e <= M)%nat) /\ Permutation lg (all_events L M).

Lemma K_weaken M L lg s s' : K M L lg s -> (s <= s')%nat -> K M L lg s'.
Proof. intros (I & B & P) H. split; [eapply inv_weaken; eauto|auto]. Qed.

Lemma insert_all_K M cs : forall L lg s sn L',
  K M L lg s -> (s <= sn)%nat -> Forall (fun c => (sn <= c_sw c < c_end c)%nat /\ (c_end c <= M)%nat) cs ->
  insert_all conn L sn cs = Some L' -> K M L' (lg ++ insert_all_log conn L sn cs) sn.
Proof.
  induction cs as [|c cs IH]; intros L lg s sn L' HK Hs F H; simpl in *.
  - inversion H; subst. rewrite app_nil_r. eapply K_weaken; eauto.
  - destruct (insert_node conn L sn (c_sw c) (c_end c) (c_lex c) (c_wid c) (c_lid c) (c_rid c) (c_wc c)) as [L1|] eqn:E; [|discriminate].
    inversion F as [|? ? [Hc HcM] F']; subst.
    destruct HK as (I & B & P).
    assert (K M L1 (lg ++ evals_of_insert L sn (c_lid c)) sn) as K1.
    { split; [eapply insert_inv; eauto|]. split.
      - intros e n Hn. unfold insert_node in E.
        destruct (search_min conn L sn (c_lid c)) as [[i0 c0]|]; [|discriminate].
        destruct (_ && _); [|discriminate]. inversion E; subst L1.
        destruct (Nat.eq_dec e (c_end c)) as [->|Hne]; [exact HcM|].
        rewrite at_push_other in Hn by exact Hne. eauto.
      - rewrite (all_events_insert _ _ _ _ _ _ _ _ _ _ _ M I Hs Hc HcM E).
        now apply Permutation_app_tail. }
    rewrite app_assoc. eapply IH; eauto.
Qed.
End Step.

Lemma scan_K d o ct cs : forall fuel sn sw L lg s L' sn',
  K (conn_of d) (length cs) L lg s -> (s <= sn)%nat -> (sn <= sw)%nat ->
  scan d o (compile ct cs) fuel sn sw L = Done (L', sn') ->
  exists s', K (conn_of d) (length cs) L' (lg ++ scan_log d o (compile ct cs) fuel sn sw L) s'.
Proof.
  induction fuel as [|f IH]; intros sn sw L lg s L' sn' HK Hs Hsw H; cbn [scan scan_log] in *; [discriminate|].
  change (s_len (compile ct cs)) with (length cs) in *.
  destruct (Nat.leb (length cs) sw) eqn:E1; [inversion H; subst; rewrite app_nil_r; eauto|].
  apply Nat.leb_gt in E1.
  destruct (negb (has_prev L sn)).
  - eapply (IH (S sw) (S sw) L lg s); eauto. lia.
  - set (sw' := if is_space o (s_ci (compile ct cs) sn) then (sw + s_grp (compile ct cs) sn)%nat else sw) in *.
    assert (Hsw' : (sw <= sw')%nat) by (subst sw'; destruct (is_space _ _); lia).
    destruct (Nat.eqb sw' (length cs)) eqn:E2; [inversion H; subst; rewrite app_nil_r; eauto|].
    destruct (Nat.ltb (length cs) sw') eqn:E3; [discriminate|].
    apply Nat.eqb_neq in E2. apply Nat.ltb_ge in E3.
    destruct (insert_all (conn_of d) L sn (candidates d o (compile ct cs) sw')) as [L1|] eqn:E; [|discriminate].
    assert (K1 : K (conn_of d) (length cs) L1 (lg ++ insert_all_log (conn_of d) L sn (candidates d o (compile ct cs) sw')) sn).
    { eapply insert_all_K; eauto.
      pose proof (candidates_in d o ct cs sw' ltac:(lia)) as F. rewrite Forall_forall in F.
      apply Forall_forall. intros c Hc. destruct (F c Hc) as [Ea Eb]. lia. }
    rewrite app_assoc. eapply (IH (S sw') (S sw') L1 _ sn); eauto; lia.
Qed.

(** [add_connid_counts] over the finished lattice counts exactly the evaluations of the run *)
Theorem counts_are_evaluations d o ct cs L0 L eos :
  build_lattice d o (compile ct cs) L0 = Done (L, eos) ->
  Permutation (count_events L (length cs) (n_sn eos)) (build_log d o (compile ct cs) L0).
Proof.
  unfold build_lattice, build_log. intros H.
  change (s_len (compile ct cs)) with (length cs) in *.
  destruct (scan d o (compile ct cs) (S (length cs)) 0 0 (reset L0 (length cs))) as [[L1 sn]| |] eqn:Es; try discriminate.
  destruct (insert_eos (conn_of d) L1 sn (length cs)) as [e|] eqn:Ee; [|discriminate].
  inversion H; subst L1 e; clear H.
  assert (n_sn eos = sn) as ->.
  { unfold insert_eos in Ee. destruct (search_min _ _ _ _) as [[i c]|]; [|discriminate].
    destruct (scan_ok _ _ _ _); [|discriminate]. inversion Ee; reflexivity. }
  assert (K0 : K (conn_of d) (length cs) (reset L0 (length cs)) [] 0).
  { split; [apply reset_inv|]. split.
    - intros e n Hn. destruct (Nat.eq_dec e 0) as [->|Hne]; [lia|]. rewrite reset_at_other in Hn by exact Hne. destruct Hn.
    - unfold all_events. rewrite (flat_map_ext_in _ (fun _ => [])); [induction (seq 1 (length cs)); simpl; auto|].
      intros j Hj. apply in_seq in Hj. rewrite reset_at_other by lia. reflexivity. }
  destruct (scan_K d o ct cs _ _ _ _ [] 0%nat _ _ K0 (le_n _) (le_n _) Es) as (s' & _ & _ & P).
  rewrite count_events_eq. simpl in P. apply Permutation_app_tail. now apply Permutation_sym.
Qed.

(** ** Additivity: what a sentence adds to the counter does not depend on the worker's past *)
Lemma count_events_lat_eq L1 L2 len sn : lat_eq L1 L2 -> count_events L1 len sn = count_events L2 len sn.
Proof.
  intros H. unfold count_events. f_equal; [|now rewrite H].
  apply flat_map_ext_in. intros e _. rewrite H. apply flat_map_ext_in. intros r _. now rewrite H.
Qed.

(** events appended by [reset_sentence cs; tokenize; update_connid_counts] *)
Definition sentence_events (d : dict) (o : options) (w : worker) (cs : list N) : outcome (list (N * N)) :=
  match tokenize d o (reset_sentence d w cs) with
  | Done w' =>
      match update_counts (init_counter w') with
      | Some w'' => match w_counts w'' with Some ev => Done ev | None => Panicked end
      | None => Panicked
      end
  | Panicked => Panicked
  | OutOfFuel => OutOfFuel
  end.

Theorem sentence_events_indep d o w1 w2 cs : sentence_events d o w1 cs = sentence_events d o w2 cs.
Proof.
  destruct cs as [|c0 cs']; [reflexivity|].
  unfold sentence_events, tokenize. cbn [reset_sentence w_sent w_lat].
  set (s := compile (d_chars d) (c0 :: cs')).
  assert (Es : s_chars s = c0 :: cs') by reflexivity. rewrite Es.
  pose proof (build_lattice_eq d o s (w_lat w1) (w_lat w2)) as Hb.
  destruct (build_lattice d o s (w_lat w1)) as [[La ea]| |], (build_lattice d o s (w_lat w2)) as [[Lb eb]| |];
    simpl in Hb; try contradiction; try reflexivity.
  destruct Hb as [Hl He]; simpl in Hl, He; subst eb.
  rewrite (walk_eq La Lb Hl).
  destruct (walk Lb _ _ _); [|reflexivity].
  unfold update_counts, init_counter. cbn [w_counts w_sent w_eos w_lat w_len]. rewrite Es.
  cbn [app]. now rewrite (count_events_lat_eq La Lb _ _ Hl).
Qed.

Theorem empty_sentence_counts_nothing d o w : sentence_events d o w [] = Done [].
Proof. reflexivity. Qed.

(** [index_from] pairs every element with its position *)
Lemma index_from_nth_error {A} (l : list A) : forall k i x, In (i, x) (index_from k l) ->
  nth_error l (N.to_nat i - N.to_nat k) = Some x /\ (k <= i)%N.
Proof.
  induction l as [|y l IH]; intros k i x H; simpl in H; [destruct H|].
  destruct H as [H|H].
  - inversion H; subst. split; [now rewrite Nat.sub_diag|lia].
  - destruct (IH _ _ _ H) as [H2 H1]. split; [|lia].
    replace (N.to_nat i - N.to_nat k)%nat with (S (N.to_nat i - N.to_nat (N.succ k))) by lia. exact H2.
Qed.
Lemma nth_error_index_from_gen {A} (l : list A) : forall k j x, nth_error l j = Some x -> In ((k + N.of_nat j)%N, x) (index_from k l).
Proof.
  induction l as [|y l IH]; intros k j x H; destruct j; simpl in *; try discriminate.
  - inversion H; subst. left. f_equal. lia.
  - right. replace (k + N.pos (Pos.of_succ_nat j))%N with (N.succ k + N.of_nat j)%N by lia. now apply IH.
Qed.
