(** C01 / C10: under coverage (every character's primary category has an unk.def entry) and a bound
    on the costs that keeps accumulated costs inside i32, tokenization never panics. *)
From Vib Require Import Model.Base Model.Lattice Model.Tokenizer Proofs.Viterbi Proofs.TokenizerProofs
  Proofs.CountProofs Proofs.ScanInd Proofs.PartitionProofs Proofs.SpaceProofs Proofs.WorkerProofs Proofs.RenameProofs.
From Coq Require Import Arith.
Local Open Scope Z_scope.

Definition MAXI32 : Z := 2147483647.

Record wf (d : dict) (B : Z) (cs : list N) : Prop := {
  wf_B : 0 <= B;
  wf_conn : forall r l, Z.abs (conn_of d r l) <= B;
  wf_sys : forall r, In r (d_sys d) -> Z.abs (lr_cost r) <= B;
  wf_user : forall u r, d_user d = Some u -> In r u -> Z.abs (lr_cost r) <= B;
  wf_unk : forall u, In u (d_unk d) -> Z.abs (ur_cost u) <= B;
  (* every character of the sentence can start an unknown word *)
  wf_cover : forall c, In c cs -> exists u, In u (d_unk d) /\ ur_cate u = ci_base (char_info (d_chars d) c);
  wf_len : 2 * B * (Z.of_nat (length cs) + 1) <= MAXI32 }.

Definition cbound (B : Z) (L : lattice) : Prop := forall e n, In n (at_ L e) -> Z.abs (n_mc n) <= 2 * B * Z.of_nat e.

Lemma in_i32_abs z : Z.abs z <= MAXI32 -> in_i32 z = true.
Proof. unfold in_i32, MAXI32. intros H. apply andb_true_intro. split; apply Z.leb_le; lia. Qed.

Section Step.
Variable conn : N -> N -> Z.
Variable B : Z.
Variable len : nat.
Hypothesis HB : 0 <= B.
Hypothesis Hconn : forall r l, Z.abs (conn r l) <= B.
Hypothesis Hlen : 2 * B * (Z.of_nat len + 1) <= MAXI32.

Lemma insert_node_ok L sn sw e lex wid lid rid wc :
  cbound B L -> at_ L sn <> [] -> (sn < e <= len)%nat -> Z.abs wc <= B ->
  exists L', insert_node conn L sn sw e lex wid lid rid wc = Some L' /\ cbound B L' /\
             (forall j, at_ L j <> [] -> at_ L' j <> []) /\ at_ L' e <> [].
Proof.
  intros HC Hne He Hwc. unfold insert_node.
  destruct (search_min conn L sn lid) as [[i c]|] eqn:Hm.
  2:{ apply search_min_none in Hm. contradiction. }
  destruct (search_min_spec conn _ _ _ _ _ Hm) as [_ (p & Hp & Ec)].
  assert (Hpin : In p (at_ L sn)) by (eapply nth_error_In; eauto).
  pose proof (HC _ _ Hpin) as Hpb. pose proof (Hconn (n_rid p) lid) as Hcb.
  assert (Hsn : 2 * B * Z.of_nat sn + 2 * B <= 2 * B * Z.of_nat e) by nia.
  assert (HeM : 2 * B * Z.of_nat e <= MAXI32) by nia.
  assert (Hscan : scan_ok conn L sn lid = true).
  { unfold scan_ok. apply forallb_forall. intros q Hq. apply in_i32_abs.
    pose proof (HC _ _ Hq). pose proof (Hconn (n_rid q) lid). lia. }
  rewrite Hscan. cbn [andb].
  assert (Hcw : Z.abs (c + wc) <= MAXI32) by (rewrite Ec; lia).
  rewrite (in_i32_abs _ Hcw).
  eexists. split; [reflexivity|]. split; [|split].
  - intros j n Hn. destruct (Nat.eq_dec j e) as [->|Hne'].
    + rewrite at_push_same in Hn. apply in_app_or in Hn. destruct Hn as [Hn|[<-|[]]]; [eauto|]. cbn [n_mc mk_node]. rewrite Ec. lia.
    + rewrite at_push_other in Hn by exact Hne'. eauto.
  - intros j Hj. destruct (Nat.eq_dec j e) as [->|Hne']; [rewrite at_push_same; destruct (at_ L e); discriminate|now rewrite at_push_other].
  - rewrite at_push_same. destruct (at_ L e); discriminate.
Qed.

Lemma insert_all_ok cs : forall L sn,
  cbound B L -> at_ L sn <> [] ->
  Forall (fun c => (sn < c_end c <= len)%nat /\ Z.abs (c_wc c) <= B) cs ->
  exists L', insert_all conn L sn cs = Some L' /\ cbound B L' /\
             (forall j, at_ L j <> [] -> at_ L' j <> []) /\ (forall c, In c cs -> at_ L' (c_end c) <> []).
Proof.
  induction cs as [|c cs IH]; intros L sn HC Hne F.
  - exists L. cbn. split; [reflexivity|]. split; [exact HC|]. split; [auto|]. intros c [].
  - inversion F as [|? ? [He Hw] F']; subst. cbn [insert_all].
    destruct (insert_node_ok L sn (c_sw c) (c_end c) (c_lex c) (c_wid c) (c_lid c) (c_rid c) (c_wc c) HC Hne He Hw)
      as (L1 & E1 & HC1 & Hmono1 & Hend1).
    rewrite E1. destruct (IH L1 sn HC1 (Hmono1 _ Hne) F') as (L2 & E2 & HC2 & Hmono2 & Hends).
    exists L2. split; [exact E2|]. split; [exact HC2|]. split; [auto|].
    intros c' [<-|Hin]; [apply Hmono2; exact Hend1|auto].
Qed.
End Step.

(** candidates carry the costs of dictionary rows *)
Lemma cand_cost_bound d B cs o s sw c : wf d B cs -> In c (candidates d o s sw) -> Z.abs (c_wc c) <= B.
Proof.
  intros W Hc. unfold candidates in Hc.
  assert (Hlex : forall lex rows, (forall r, In r rows -> Z.abs (lr_cost r) <= B) ->
            In c (lex_matches lex rows sw (skipn sw (s_chars s))) -> Z.abs (c_wc c) <= B).
  { intros lex rows Hr Hin. unfold lex_matches in Hin. apply in_flat_map in Hin. destruct Hin as (k & _ & Hin).
    apply in_flat_map in Hin. destruct Hin as ([j r] & Hjr & Hin). cbn [fst snd] in Hin.
    destruct (str_eqb _ _); [|destruct Hin]. destruct Hin as [<-|[]]. cbn. apply Hr.
    apply index_from_nth_error in Hjr. destruct Hjr as [Hjr _]. eapply nth_error_In; eauto. }
  assert (Hse : forall e base, In c (scan_entries (d_unk d) sw e base) -> Z.abs (c_wc c) <= B).
  { intros e base Hin. unfold scan_entries in Hin. apply in_flat_map in Hin. destruct Hin as ([j u] & Hju & Hin). cbn [fst snd] in Hin.
    destruct (ur_cate u =? base)%N; [|destruct Hin]. destruct Hin as [<-|[]]. cbn. apply (wf_unk _ _ _ W).
    apply index_from_nth_error in Hju. destruct Hju as [Hju _]. eapply nth_error_In; eauto. }
  apply in_app_or in Hc. destruct Hc as [Hc|Hc].
  - destruct (d_user d) as [u|] eqn:Eu; [|destruct Hc]. apply (Hlex 1%N u); [|exact Hc]. intros r Hr. eapply (wf_user _ _ _ W); eauto.
  - apply in_app_or in Hc. destruct Hc as [Hc|Hc]; [apply (Hlex 0%N (d_sys d)); [apply (wf_sys _ _ _ W)|exact Hc]|].
    unfold gen_unk_words in Hc. destruct (_ && negb (ci_invoke _)); [destruct Hc|].
    apply in_app_or in Hc. destruct Hc as [Hc|Hc].
    + match type of Hc with In _ (if ?b then _ else _) => destruct b end; [eapply Hse; eauto|destruct Hc].
    + apply in_app_or in Hc. destruct Hc as [Hc|Hc].
      * apply in_flat_map in Hc. destruct Hc as (k & _ & Hc). eapply Hse; eauto.
      * match type of Hc with In _ (if ?b then _ else _) => destruct b end; [destruct Hc|eapply Hse; eauto].
Qed.

(** coverage makes the candidate list non-empty at every position *)
Lemma scan_entries_nonempty (d : dict) sw e base : (exists u, In u (d_unk d) /\ ur_cate u = base) ->
  scan_entries (d_unk d) sw e base <> [].
Proof.
  intros (u & Hu & Eb). apply In_nth_error in Hu. destruct Hu as [j Hj].
  pose proof (nth_error_index_from_gen (d_unk d) 0%N j u Hj) as Hin.
  intros E. unfold scan_entries in E.
  assert (Hx : In {| c_sw := sw; c_end := e; c_lex := 2%N; c_wid := (0 + N.of_nat j)%N; c_lid := ur_lid u; c_rid := ur_rid u; c_wc := ur_cost u |}
                  (flat_map (fun ir : N * unkrow => if (ur_cate (snd ir) =? base)%N then [{| c_sw := sw; c_end := e; c_lex := 2%N; c_wid := fst ir; c_lid := ur_lid (snd ir); c_rid := ur_rid (snd ir); c_wc := ur_cost (snd ir) |}] else []) (index_from 0 (d_unk d)))).
  { apply in_flat_map. eexists. split; [exact Hin|]. cbn [fst snd]. rewrite Eb, N.eqb_refl. now left. }
  rewrite E in Hx. destruct Hx.
Qed.

Lemma candidates_nonempty d B o cs sw : wf d B cs -> (sw < length cs)%nat ->
  candidates d o (compile (d_chars d) cs) sw <> [].
Proof.
  intros W Hsw. set (s := compile (d_chars d) cs). unfold candidates.
  set (u := match d_user d with Some rows => lex_matches 1%N rows sw (skipn sw (s_chars s)) | None => [] end).
  set (m := lex_matches 0%N (d_sys d) sw (skipn sw (s_chars s))).
  destruct (u ++ m) as [|x t] eqn:Eum.
  2:{ intros E. rewrite app_assoc, Eum in E. discriminate. }
  apply app_eq_nil in Eum. destruct Eum as [-> ->]. cbn [app].
  assert (Hcov : exists un, In un (d_unk d) /\ ur_cate un = ci_base (s_ci s sw)).
  { unfold s. rewrite (s_ci_compile _ cs sw Hsw). apply (wf_cover _ _ _ W). apply nth_In. exact Hsw. }
  unfold gen_unk_words. cbn [andb].
  match goal with |- (if ?b then _ else _) ++ _ <> [] => destruct b eqn:Eg end.
  - intros E. apply app_eq_nil in E. destruct E as [E _]. exact (scan_entries_nonempty d sw _ _ Hcov E).
  - cbn [app orb].
    match goal with |- flat_map _ ?l ++ _ <> [] => destruct l as [|k ks] eqn:El end.
    + cbn [flat_map app]. exact (scan_entries_nonempty d sw _ _ Hcov).
    + cbn [flat_map]. intros E. apply app_eq_nil in E. destruct E as [E _]. apply app_eq_nil in E. destruct E as [E _].
      exact (scan_entries_nonempty d sw _ _ Hcov E).
Qed.

(** ** the scan never panics and ends at a populated boundary *)
Lemma has_prev_iff L i : has_prev L i = true <-> at_ L i <> [].
Proof. unfold has_prev. destruct (at_ L i); split; intros H; congruence || discriminate || auto. Qed.

Lemma scan_total d B o cs : wf d B cs ->
  forall fuel sn sw L, sn = sw -> (sw <= length cs)%nat -> (length cs < fuel + sw)%nat ->
  cbound B L -> (exists e, (sw <= e <= length cs)%nat /\ at_ L e <> []) ->
  exists L' sn', scan d o (compile (d_chars d) cs) fuel sn sw L = Done (L', sn') /\ cbound B L' /\
                 at_ L' sn' <> [] /\ (sn' <= length cs)%nat.
Proof.
  intros W. set (s := compile (d_chars d) cs).
  assert (Hlen : s_len s = length cs) by reflexivity.
  induction fuel as [|f IH]; intros sn sw L Eq Hsw Hf HC (e & He & Hne); [lia|]. subst sw.
  cbn [scan]. rewrite Hlen.
  destruct (Nat.leb (length cs) sn) eqn:E1.
  - apply Nat.leb_le in E1. assert (sn = length cs) by lia. subst sn. assert (e = length cs) by lia. subst e.
    exists L, (length cs). auto.
  - apply Nat.leb_gt in E1.
    destruct (has_prev L sn) eqn:Ehp; cbn [negb].
    2:{ assert (at_ L sn = []) by (unfold has_prev in Ehp; destruct (at_ L sn); [reflexivity|discriminate]).
        apply (IH (S sn) (S sn) L eq_refl); [lia|lia|exact HC|]. exists e. split; [|exact Hne].
        destruct (Nat.eq_dec e sn) as [->|]; [contradiction|lia]. }
    apply has_prev_iff in Ehp.
    set (sw' := if is_space o (s_ci s sn) then (sn + s_grp s sn)%nat else sn).
    assert (Hsw' : (sn <= sw' <= length cs)%nat).
    { subst sw'. destruct (is_space o (s_ci s sn)); [|lia]. pose proof (s_grp_bound (d_chars d) cs sn E1). fold s in H. lia. }
    destruct (Nat.eqb sw' (length cs)) eqn:E2; [exists L, sn; repeat split; auto; lia|]. apply Nat.eqb_neq in E2.
    replace (Nat.ltb (length cs) sw') with false by (symmetry; apply Nat.ltb_ge; lia).
    assert (Hlt : (sw' < length cs)%nat) by lia.
    pose proof (candidates_in d o (d_chars d) cs sw' Hlt) as Fin. fold s in Fin.
    assert (Fok : Forall (fun c => (sn < c_end c <= length cs)%nat /\ Z.abs (c_wc c) <= B) (candidates d o s sw')).
    { apply Forall_forall. intros c Hc. rewrite Forall_forall in Fin. destruct (Fin c Hc) as [_ Hb]. split; [lia|].
      eapply cand_cost_bound; eauto. }
    destruct (insert_all_ok (conn_of d) B (length cs) (wf_B _ _ _ W) (wf_conn _ _ _ W) (wf_len _ _ _ W)
                (candidates d o s sw') L sn HC Ehp Fok) as (L1 & E & HC1 & Hmono & Hends).
    rewrite E.
    apply (IH (S sw') (S sw') L1 eq_refl); [lia|lia|exact HC1|].
    pose proof (candidates_nonempty d B o cs sw' W Hlt) as Hcne. fold s in Hcne.
    destruct (candidates d o s sw') as [|c0 rest] eqn:Ec; [congruence|].
    rewrite Forall_forall in Fin. destruct (Fin c0 (or_introl eq_refl)) as [_ Hb0].
    exists (c_end c0). split; [lia|]. apply Hends. now left.
Qed.

Lemma token_of_some d o s e n : node_ok d o s n -> n <> bos -> exists t, token_of d s (e, n) = Some t.
Proof.
  intros [->|(He & _)] Hnb; [congruence|]. unfold token_of, word_info.
  destruct He as [(El & r & Hr & _)|[(El & rows & Hu & r & Hr & _)|(El & u & Hu & _)]]; rewrite El; cbn.
  - rewrite Hr. cbn. eauto.
  - rewrite Hu, Hr. cbn. eauto.
  - rewrite Hu. cbn. eauto.
Qed.

(** tokenization of any sentence completes: no panic, no fuel exhaustion *)
Theorem tokenize_total d B o cs : wf d B cs -> exists ts L eos, tokenize_fresh d o cs = Done (ts, L, eos).
Proof.
  intros W. destruct cs as [|c0 cs']; [cbn; eauto|]. set (cs := c0 :: cs') in *.
  unfold tokenize_fresh, tokenize. cbn [reset_sentence w_sent w_lat new_worker].
  change (match cs with [] => empty_sentence | _ :: _ => compile (d_chars d) cs end) with (compile (d_chars d) cs).
  set (s := compile (d_chars d) cs). assert (Es : s_chars s = c0 :: cs') by reflexivity. rewrite Es.
  assert (Hlen : s_len s = length cs) by reflexivity.
  (* the scan *)
  assert (HC0 : cbound B (reset [] (length cs))).
  { intros e n Hn. destruct (Nat.eq_dec e 0) as [->|Hne]; [rewrite reset_at0 in Hn; destruct Hn as [<-|[]]; cbn; pose proof (wf_B _ _ _ W); lia|].
    rewrite reset_at_other in Hn by exact Hne. destruct Hn. }
  destruct (scan_total d B o cs W (S (length cs)) 0 0 (reset [] (length cs)) eq_refl ltac:(lia) ltac:(lia) HC0
              ltac:(exists 0%nat; split; [lia|rewrite reset_at0; discriminate])) as (L & sn & Esc & HC & Hne & Hsn).
  unfold build_lattice. rewrite Hlen. fold s in Esc. rewrite Esc.
  (* EOS *)
  assert (Heos : exists eos, insert_eos (conn_of d) L sn (length cs) = Some eos /\ n_sn eos = sn /\
                   exists p, nth_error (at_ L sn) (n_midx eos) = Some p).
  { unfold insert_eos. destruct (search_min (conn_of d) L sn 0%N) as [[i c]|] eqn:Hm.
    2:{ apply search_min_none in Hm. contradiction. }
    destruct (search_min_spec _ _ _ _ _ _ Hm) as [_ (p & Hp & _)].
    assert (Hscan : scan_ok (conn_of d) L sn 0%N = true).
    { unfold scan_ok. apply forallb_forall. intros q Hq. apply in_i32_abs.
      pose proof (HC _ _ Hq). pose proof (wf_conn _ _ _ W (n_rid q) 0%N). pose proof (wf_len _ _ _ W). pose proof (wf_B _ _ _ W). nia. }
    rewrite Hscan. eexists. split; [reflexivity|]. cbn. eauto. }
  destruct Heos as (eos & Ee & Esn & p & Hp). rewrite Ee.
  (* the walk *)
  assert (Eb : build_lattice d o s [] = Done (L, eos)) by (unfold build_lattice; rewrite Hlen, Esc, Ee; reflexivity).
  destruct (build_lattice_optimal _ _ _ _ _ _ _ Eb) as (s0 & Inv0 & _).
  rewrite Esn. destruct (walk_total (conn_of d) L s0 Inv0 (S (length cs)) sn (n_midx eos) p Hp ltac:(lia)) as [top Ew].
  rewrite Ew.
  (* the tokens *)
  unfold tokens. cbn [w_sent w_top w_lat w_eos].
  pose proof (build_lattice_nodes _ _ _ _ _ _ _ Eb) as HN.
  assert (Hall : forall l, Forall (fun en : nat * node => fst en <> 0%nat /\ In (snd en) (at_ L (fst en))) l ->
            exists ts, all_some (map (token_of d s) l) = Some ts).
  { induction l as [|[e n] l IHl]; intros F; [cbn; eauto|]. inversion F as [|? ? [He Hin] F']; subst. cbn [fst snd] in *.
    assert (n <> bos) by (intros ->; pose proof (inv_idx _ _ _ Inv0 _ _ Hin) as E; cbn in E; congruence).
    destruct (token_of_some d o s e n (HN _ _ Hin) H) as [t Ht]. destruct (IHl F') as [ts Hts].
    cbn [map all_some]. rewrite Ht, Hts. eauto. }
  destruct (Hall (rev top) ltac:(apply Forall_rev; eapply walk_in; eauto)) as [ts Hts].
  rewrite Hts. eauto.
Qed.
