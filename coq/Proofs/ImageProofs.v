(** C05 / C09: laws of the dictionary image codec. *)
From Vib Require Import Model.Base Model.Codec Model.DictImage Gen.Constants Proofs.CodecProofs.
Local Open Scope N_scope.

Definition fits (w : nat) (x : N) : Prop := x < 256 ^ N.of_nat w.
Definition short {A} (l : list A) : Prop := N.of_nat (length l) < 256 ^ 8.
Definition vdom {A} (d : A -> Prop) (l : list A) : Prop := Forall d l /\ short l.

Definition string_dom := vdom (fits 1).
Definition u31_dom (x : N) := fits 4 x /\ (x <=? 2147483647) = true.
Definition u31x8_dom (l : list N) := Forall u31_dom l /\ length l = 8%nat.
Definition param_dom (p : N * (N * N)) := fits 2 (fst p) /\ fits 2 (fst (snd p)) /\ fits 2 (snd (snd p)).
Definition lextype_dom (x : N) := fits 4 x /\ (x <? 3) = true.
Definition lexicon_dom (l : lexicon) :=
  vdom (fits 1) (fst l) /\ vdom (fits 4) (fst (snd l)) /\ vdom param_dom (fst (snd (snd l))) /\
  vdom string_dom (fst (snd (snd (snd l)))) /\ lextype_dom (snd (snd (snd (snd l)))).
Definition matrix_dom (m : matrix) := vdom (fits 2) (fst m) /\ fits 8 (fst (snd m)) /\ fits 8 (snd (snd m)).
Definition scorer_dom (s : scorer_img) :=
  (vdom (fits 4) (fst s) /\ vdom (fits 4) (fst (snd s)) /\ vdom (fits 4) (snd (snd s))) /\
  Nat.eqb (length (fst (snd s))) (length (snd (snd s))) = true.
Definition rawconn_dom (r : rawconn_img) :=
  vdom u31x8_dom (fst r) /\ vdom u31x8_dom (fst (snd r)) /\ fits 8 (fst (snd (snd r))) /\ scorer_dom (snd (snd (snd r))).
Definition dualconn_dom (r : dualconn_img) :=
  matrix_dom (fst r) /\ vdom (fits 2) (fst (snd r)) /\ vdom (fits 2) (fst (snd (snd r))) /\
  vdom u31x8_dom (fst (snd (snd (snd r)))) /\ vdom u31x8_dom (fst (snd (snd (snd (snd r))))) /\ scorer_dom (snd (snd (snd (snd (snd r))))).
Definition connector_dom (c : sum3 matrix rawconn_img dualconn_img) :=
  match c with In1 m => matrix_dom m | In2 r => rawconn_dom r | In3 d => dualconn_dom d end.
Definition mapper_dom (m : list N * list N) := vdom (fits 2) (fst m) /\ vdom (fits 2) (snd m).
Definition charprop_dom (c : list N * list (list N)) := vdom (fits 4) (fst c) /\ vdom string_dom (snd c).
Definition unkentry_dom (e : N * (N * (N * (N * list N)))) :=
  fits 2 (fst e) /\ fits 2 (fst (snd e)) /\ fits 2 (fst (snd (snd e))) /\ fits 2 (fst (snd (snd (snd e)))) /\ string_dom (snd (snd (snd (snd e)))).
Definition unk_dom (u : list N * list (N * (N * (N * (N * list N))))) := vdom (fits 8) (fst u) /\ vdom unkentry_dom (snd u).
Definition opt_dom {A} (d : A -> Prop) (o : option A) := match o with Some a => d a | None => True end.

Definition inner_dom d :=
  lexicon_dom (fst d) /\ opt_dom lexicon_dom (fst (snd d)) /\ connector_dom (fst (snd (snd d))) /\
  opt_dom mapper_dom (fst (snd (snd (snd d)))) /\ charprop_dom (fst (snd (snd (snd (snd d))))) /\ unk_dom (snd (snd (snd (snd (snd d))))).

Ltac lw := eapply laws_weaken.

Lemma string_laws : laws string_c string_dom.
Proof. apply (vec_laws u8 (fits 1)). apply (uint_laws 1). Qed.
Lemma u31_laws : laws u31 u31_dom.
Proof. apply (guard_laws u32 (fits 4)). apply (uint_laws 4). Qed.
Lemma u31x8_laws : laws u31x8 u31x8_dom.
Proof. apply (array_laws u31 u31_dom 8). apply u31_laws. Qed.
Lemma param_laws : laws param_c param_dom.
Proof.
  lw; [apply (pair_laws u16 (pair_c u16 u16) (fits 2) (fun q => fits 2 (fst q) /\ fits 2 (snd q)));
       [apply (uint_laws 2)|apply (pair_laws u16 u16 (fits 2) (fits 2)); apply (uint_laws 2)]|].
  intros p (H1 & H2 & H3). cbn. auto.
Qed.
Lemma lextype_laws : laws lextype_c lextype_dom.
Proof. apply (guard_laws u32 (fits 4)). apply (uint_laws 4). Qed.
Lemma vu (w : nat) : laws (vec_c (uint w)) (vdom (fits w)).
Proof. apply (vec_laws (uint w) (fits w)). apply uint_laws. Qed.

Lemma lexicon_laws : laws lexicon_c lexicon_dom.
Proof.
  lw; [apply (pair_laws _ _ _ _ (vu 1)
         (pair_laws _ _ _ _ (vu 4)
           (pair_laws _ _ _ _ (vec_laws _ _ param_laws)
             (pair_laws _ _ _ _ (vec_laws _ _ string_laws) lextype_laws))))|].
  intros l (H1 & H2 & H3 & H4 & H5). cbn. auto.
Qed.
Lemma matrix_laws : laws matrix_c matrix_dom.
Proof.
  lw; [apply (pair_laws _ _ _ _ (vu 2) (pair_laws _ _ _ _ (uint_laws 8) (uint_laws 8)))|].
  intros m (H1 & H2 & H3). cbn. auto.
Qed.
Lemma scorer_laws : laws scorer_c scorer_dom.
Proof.
  lw; [apply (guard_laws _ _ _ (pair_laws _ _ _ _ (vu 4) (pair_laws _ _ _ _ (vu 4) (vu 4))))|].
  intros s ((H1 & H2 & H3) & H4). cbn. auto.
Qed.
Lemma rawconn_laws : laws rawconn_c rawconn_dom.
Proof.
  lw; [apply (pair_laws _ _ _ _ (vec_laws _ _ u31x8_laws)
         (pair_laws _ _ _ _ (vec_laws _ _ u31x8_laws) (pair_laws _ _ _ _ (uint_laws 8) scorer_laws)))|].
  intros r (H1 & H2 & H3 & H4). cbn. auto.
Qed.
Lemma dualconn_laws : laws dualconn_c dualconn_dom.
Proof.
  lw; [apply (pair_laws _ _ _ _ matrix_laws
         (pair_laws _ _ _ _ (vu 2) (pair_laws _ _ _ _ (vu 2)
           (pair_laws _ _ _ _ (vec_laws _ _ u31x8_laws) (pair_laws _ _ _ _ (vec_laws _ _ u31x8_laws) scorer_laws)))))|].
  intros r (H1 & H2 & H3 & H4 & H5 & H6). cbn. auto 10.
Qed.
Lemma connector_laws : laws connector_c connector_dom.
Proof. apply (sum3_laws _ _ _ _ _ _ matrix_laws rawconn_laws dualconn_laws). Qed.
Lemma mapper_laws : laws mapper_c mapper_dom.
Proof. lw; [apply (pair_laws _ _ _ _ (vu 2) (vu 2))|]. intros m [H1 H2]. cbn. auto. Qed.
Lemma charprop_laws : laws charprop_c charprop_dom.
Proof. lw; [apply (pair_laws _ _ _ _ (vu 4) (vec_laws _ _ string_laws))|]. intros m [H1 H2]. cbn. auto. Qed.
Lemma unkentry_laws : laws unkentry_c unkentry_dom.
Proof.
  lw; [apply (pair_laws _ _ _ _ (uint_laws 2) (pair_laws _ _ _ _ (uint_laws 2)
         (pair_laws _ _ _ _ (uint_laws 2) (pair_laws _ _ _ _ (uint_laws 2) string_laws))))|].
  intros e (H1 & H2 & H3 & H4 & H5). cbn. auto 10.
Qed.
Lemma unk_laws : laws unk_c unk_dom.
Proof. lw; [apply (pair_laws _ _ _ _ (vu 8) (vec_laws _ _ unkentry_laws))|]. intros m [H1 H2]. cbn. auto. Qed.

Theorem inner_laws : laws inner_c inner_dom.
Proof.
  lw; [apply (pair_laws _ _ _ _ lexicon_laws
         (pair_laws _ _ _ _ (option_laws _ _ lexicon_laws)
           (pair_laws _ _ _ _ connector_laws
             (pair_laws _ _ _ _ (option_laws _ _ mapper_laws) (pair_laws _ _ _ _ charprop_laws unk_laws)))))|].
  intros d (H1 & H2 & H3 & H4 & H5 & H6). cbn. unfold opt_dom in *. auto 10.
Qed.

(** ** the image: magic + payload *)
Lemma strip_magic_app m r : strip_magic m (m ++ r) = Some r.
Proof. induction m as [|x m IH]; cbn; [reflexivity|]. now rewrite N.eqb_refl. Qed.

Lemma strip_magic_prefix m : forall p, strict_prefix p m -> strip_magic m p = None.
Proof.
  induction m as [|x m IH]; intros p (s & Hs & E).
  - destruct p; [destruct s; [congruence|discriminate]|discriminate].
  - destruct p as [|y p]; [reflexivity|]. cbn in E. injection E as E1 E2. subst y. cbn. rewrite N.eqb_refl. apply IH. exists s. auto.
Qed.

Section Image.
Context {A : Type} (c : codec A) (dom : A -> Prop) (L : laws c dom).

(** reading what was written gives the value back (and leaves anything that follows) *)
Theorem read_write d r : dom d -> read_image c (fst (write_image c d) ++ r) = Some (d, r).
Proof.
  intros H. unfold read_image, write_image. cbn [fst]. rewrite <- app_assoc, strip_magic_app. now apply (law_rt _ _ L).
Qed.

(** write reports exactly the number of bytes it emitted *)
Theorem write_count d : snd (write_image c d) = N.of_nat (length (fst (write_image c d))).
Proof. reflexivity. Qed.

(** no strict prefix of an image is accepted *)
Theorem read_truncated d p : dom d -> strict_prefix p (fst (write_image c d)) -> read_image c p = None.
Proof.
  intros H Hp. unfold read_image, write_image in *. cbn [fst] in Hp.
  destruct (prefix_split _ _ _ Hp) as [H1|(q & -> & Hq)].
  - now rewrite strip_magic_prefix.
  - rewrite strip_magic_app. now apply (law_cut _ _ L d q).
Qed.

(** a stream that does not start with the magic is rejected whatever follows *)
Theorem read_foreign bs : strip_magic MODEL_MAGIC bs = None -> read_image c bs = None.
Proof. intros H. unfold read_image. now rewrite H. Qed.

(** writing the re-read dictionary reproduces the bytes *)
Theorem rewrite_same d d' r : dom d -> read_image c (fst (write_image c d)) = Some (d', r) -> fst (write_image c d') = fst (write_image c d).
Proof.
  intros H E. pose proof (read_write d [] H) as E'. rewrite app_nil_r in E'. rewrite E' in E. now inversion E.
Qed.
End Image.
