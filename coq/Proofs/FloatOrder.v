(** C13: sorting by the binary64 probabilities count/total is sorting by the counts -- the comparator of
    compute_probs equals "count descending, then id ascending" for all counts below 2^53. *)
From Coq Require Import ZArith Reals Lia Lra List.
From Flocq Require Import Core IEEE754.BinarySingleNaN.
From Vib Require Import Model.Float Proofs.FloatProofs.
Local Open Scope R_scope.

Local Instance prec64o : Prec_gt_0 53 := f64_prec.

Lemma fexp64_eq : SpecFloat.fexp 53 1024 = fexp64.
Proof. reflexivity. Qed.

Lemma generic_Z (z : Z) : (Z.abs z < 2 ^ 53)%Z -> generic_format radix2 fexp64 (IZR z).
Proof.
  intros H. apply generic_format_FLT. apply (FLT_spec radix2 _ 53 (IZR z) (Float radix2 z 0)).
  - unfold F2R. cbn [Fnum Fexp bpow]. lra.
  - exact H.
  - cbn. lia.
Qed.

Lemma rnd64_generic x : generic_format radix2 fexp64 x -> rnd64 x = x.
Proof. intros G. apply round_generic; [typeclasses eauto|exact G]. Qed.

Lemma of_Z_correct (z : Z) : (Z.abs z < 2 ^ 53)%Z -> is_finite (f64_of_Z z) = true /\ B2R (f64_of_Z z) = IZR z.
Proof.
  intros H. unfold f64_of_Z.
  pose proof (binary_normalize_correct 53 1024 f64_prec f64_emax mode_NE z 0 false) as C. cbn zeta in C. cbn [round_mode] in C.
  assert (E : F2R (Float radix2 z 0) = IZR z) by (unfold F2R; cbn [Fnum Fexp bpow]; lra).
  rewrite E in C. change (round radix2 (SpecFloat.fexp 53 1024) ZnearestE (IZR z)) with (rnd64 (IZR z)) in C.
  rewrite (rnd64_generic _ (generic_Z z H)) in C.
  rewrite Rlt_bool_true in C.
  - destruct C as (C1 & C2 & _). now split.
  - rewrite <- abs_IZR, bpow_1024. apply IZR_lt. apply Z.lt_trans with (2 ^ 53)%Z; [exact H|reflexivity].
Qed.

(** the quotient of two counts, as a real number *)
Definition q (c t : Z) : R := rnd64 (IZR c / IZR t).

Lemma rnd64_1 : rnd64 1 = 1.
Proof. apply rnd64_generic. apply (generic_Z 1). reflexivity. Qed.

Lemma q_range c t : (0 <= c <= t)%Z -> (0 < t)%Z -> 0 <= q c t <= 1.
Proof.
  intros Hc Ht. unfold q. assert (0 < IZR t) by (now apply IZR_lt).
  assert (0 <= IZR c / IZR t <= 1).
  { split; [apply Rmult_le_pos; [apply IZR_le; lia|apply Rlt_le, Rinv_0_lt_compat; lra]|].
    apply Rmult_le_reg_r with (IZR t); [lra|]. unfold Rdiv. rewrite Rmult_assoc, Rinv_l by lra. rewrite Rmult_1_r, Rmult_1_l. apply IZR_le; lia. }
  split; [rewrite <- rnd64_0|rewrite <- rnd64_1]; apply rnd64_mono; lra.
Qed.

(** the rounding error of a number of [0, 1] is at most 2^-54 *)
Lemma err_unit x : 0 <= x <= 1 -> Rabs (rnd64 x - x) <= bpow radix2 (-54).
Proof.
  intros Hx. destruct (Req_dec x 0) as [->|N0]; [rewrite rnd64_0, Rminus_0_r, Rabs_R0; apply bpow_ge_0|].
  destruct (Req_dec x 1) as [->|N1]; [rewrite rnd64_1; replace (1 - 1) with 0 by lra; rewrite Rabs_R0; apply bpow_ge_0|].
  pose proof (error_le_half_ulp radix2 fexp64 (fun z => negb (Z.even z)) x) as E. fold (rnd64 x) in E.
  rewrite ulp_neq_0 in E by exact N0.
  assert (M : (mag radix2 x <= 0)%Z) by (apply mag_le_bpow; [exact N0|rewrite Rabs_pos_eq by lra; cbn; lra]).
  assert (L : bpow radix2 (cexp radix2 fexp64 x) <= bpow radix2 (-53)) by (apply bpow_le; unfold cexp, FLT_exp; lia).
  eapply Rle_trans; [exact E|]. replace (bpow radix2 (-54)) with (/ 2 * bpow radix2 (-53)).
  - apply Rmult_le_compat_l; [lra|exact L].
  - change (-54)%Z with (-1 + -53)%Z. rewrite bpow_plus. cbn. lra.
Qed.

Lemma q_strict a b t : (0 <= a)%Z -> (a < b)%Z -> (b <= t)%Z -> (t < 2 ^ 53)%Z -> q a t < q b t.
Proof.
  intros Ha Hab Hbt Ht. assert (T : 0 < IZR t) by (apply IZR_lt; lia).
  assert (Ra : 0 <= IZR a / IZR t <= 1).
  { split; [apply Rmult_le_pos; [apply IZR_le; lia|apply Rlt_le, Rinv_0_lt_compat; lra]|].
    apply Rmult_le_reg_r with (IZR t); [lra|]. unfold Rdiv. rewrite Rmult_assoc, Rinv_l by lra. rewrite Rmult_1_r, Rmult_1_l. apply IZR_le; lia. }
  assert (Rb : 0 <= IZR b / IZR t <= 1).
  { split; [apply Rmult_le_pos; [apply IZR_le; lia|apply Rlt_le, Rinv_0_lt_compat; lra]|].
    apply Rmult_le_reg_r with (IZR t); [lra|]. unfold Rdiv. rewrite Rmult_assoc, Rinv_l by lra. rewrite Rmult_1_r, Rmult_1_l. apply IZR_le; lia. }
  pose proof (err_unit _ Ra) as Ea. pose proof (err_unit _ Rb) as Eb. fold (q a t) in Ea. fold (q b t) in Eb.
  (* the two quotients are more than 2^-53 apart *)
  assert (D : bpow radix2 (-53) < IZR b / IZR t - IZR a / IZR t).
  { replace (IZR b / IZR t - IZR a / IZR t) with (IZR (b - a) / IZR t) by (rewrite minus_IZR; field; lra).
    assert (1 <= IZR (b - a)) by (apply IZR_le; lia).
    assert (IZR t < bpow radix2 53) by (change (bpow radix2 53) with (IZR (2 ^ 53)); apply IZR_lt; lia).
    apply Rlt_le_trans with (1 / IZR t).
    - change (-53)%Z with (- (53))%Z. rewrite bpow_opp. unfold Rdiv. rewrite Rmult_1_l. apply Rinv_lt_contravar; [|assumption].
      apply Rmult_lt_0_compat; [lra|apply bpow_gt_0].
    - apply Rmult_le_compat_r; [apply Rlt_le, Rinv_0_lt_compat; lra|lra]. }
  assert (H54 : bpow radix2 (-53) = 2 * bpow radix2 (-54)) by (change (-53)%Z with (1 + -54)%Z; rewrite bpow_plus; cbn; lra).
  apply Rabs_le_inv in Ea. apply Rabs_le_inv in Eb. lra.
Qed.

(** ** the quotient computed by the code *)
Lemma prob_correct c t : (0 <= c <= t)%Z -> (0 < t)%Z -> (t < 2 ^ 53)%Z ->
  is_finite (f64_prob c t) = true /\ B2R (f64_prob c t) = q c t.
Proof.
  intros Hc Ht Hb. unfold f64_prob.
  destruct (of_Z_correct c ltac:(lia)) as (Fc & Rc). destruct (of_Z_correct t ltac:(lia)) as (Ft & Rt).
  assert (NZ : B2R (f64_of_Z t) <> 0) by (rewrite Rt; apply not_0_IZR; lia).
  pose proof (Bdiv_correct 53 1024 f64_prec f64_emax mode_NE (f64_of_Z c) (f64_of_Z t) NZ) as C. cbn [round_mode] in C.
  rewrite Rc, Rt in C. change (round radix2 (SpecFloat.fexp 53 1024) ZnearestE (IZR c / IZR t)) with (q c t) in C.
  pose proof (q_range c t Hc Ht) as Q.
  rewrite Rlt_bool_true in C.
  - destruct C as (C1 & C2 & _). unfold f64_div. rewrite C2. now split.
  - rewrite Rabs_pos_eq by lra. apply Rle_lt_trans with 1; [lra|]. rewrite bpow_1024. apply IZR_lt. reflexivity.
Qed.

Theorem prob_order_counts (i1 c1 i2 c2 t : Z) : (0 <= c1 <= t)%Z -> (0 <= c2 <= t)%Z -> (t < 2 ^ 53)%Z ->
  prob_order i1 c1 i2 c2 t = match Z.compare c2 c1 with Eq => Z.compare i1 i2 | c => c end.
Proof.
  intros H1 H2 Ht. destruct (Z.eq_dec t 0) as [->|Nt].
  - assert (c1 = 0%Z) by lia. assert (c2 = 0%Z) by lia. subst. reflexivity.
  - assert (T : (0 < t)%Z) by lia.
    destruct (prob_correct c1 t H1 T Ht) as (F1 & R1). destruct (prob_correct c2 t H2 T Ht) as (F2 & R2).
    unfold prob_order, f64_cmp. rewrite (Bcompare_correct 53 1024 _ _ F2 F1), R1, R2.
    destruct (Z.compare_spec c2 c1) as [E|L|G].
    + subst. rewrite Rcompare_Eq by reflexivity. reflexivity.
    + rewrite Rcompare_Lt by (apply q_strict; lia). reflexivity.
    + rewrite Rcompare_Gt by (apply q_strict; lia). reflexivity.
Qed.

(** ** the model's order on counts is the code's order on binary64 probabilities *)
From Vib Require Import Model.Base Model.Mapper.

Definition total_of (cnt : list N) : N := fold_right N.add 0%N cnt.

Lemma cnt_le_total cnt i : (cnt_of cnt i <= total_of cnt)%N.
Proof.
  unfold cnt_of. generalize (N.to_nat i) as k. induction cnt as [|c cnt IH]; intros [|k]; cbn [nth total_of fold_right]; try lia.
  specialize (IH k). fold (total_of cnt). lia.
Qed.

Theorem before_is_prob_order cnt a b : (total_of cnt < 2 ^ 53)%N ->
  before cnt a b =
  match prob_order (Z.of_N a) (Z.of_N (cnt_of cnt a)) (Z.of_N b) (Z.of_N (cnt_of cnt b)) (Z.of_N (total_of cnt)) with
  | Gt => false
  | _ => true
  end.
Proof.
  intros Ht. pose proof (cnt_le_total cnt a) as Ha. pose proof (cnt_le_total cnt b) as Hb.
  rewrite prob_order_counts by (try split; try lia; change (2 ^ 53)%Z with (Z.of_N (2 ^ 53)); lia).
  unfold before. rewrite !N2Z.inj_compare.
  destruct (N.compare_spec (cnt_of cnt b) (cnt_of cnt a)) as [E|L|G].
  - rewrite E, N.ltb_irrefl, N.eqb_refl. cbn [orb andb]. rewrite N.leb_compare. now destruct (a ?= b)%N.
  - apply N.ltb_lt in L. now rewrite L.
  - assert (E1 : (cnt_of cnt b <? cnt_of cnt a)%N = false) by (apply N.ltb_ge; lia).
    assert (E2 : (cnt_of cnt a =? cnt_of cnt b)%N = false) by (apply N.eqb_neq; lia).
    now rewrite E1, E2.
Qed.
