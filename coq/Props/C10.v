(** C10 — Dictionary builders are total and their acceptance implies safe use (PARTIAL). *)
From Vib Require Import Model.Base Model.Lattice Model.Tokenizer Model.DictBuild Model.Mapper Check.TokCheck
  Proofs.BuildProofs Proofs.MapperProofs Proofs.PartitionProofs Proofs.TotalProofs Model.BigramText Proofs.BigramTextProofs.
Local Open Scope N_scope.

(** [CharProperty::from_reader] / [UnkHandler::from_reader] / the dictionary builder on parsed
    lines return a dictionary or an error, never panic: every category id they record is below
    18, so the shift [1 << base_id] cannot overflow; a LENGTH that does not fit, more than 18
    categories, an undefined category anywhere in a range line and a range line without category
    are errors. *)
Theorem c10_chardef_total : forall cd, compile_chardef cd <> Panic.
Proof. exact compile_chardef_total. Qed.
Theorem c10_unk_total : forall names ls, compile_unk names ls <> Panic.
Proof. exact compile_unk_total. Qed.
Theorem c10_build_total : forall c, build_dict c <> Panic.
Proof. exact build_dict_total. Qed.

(** categories are never silently mis-assigned: at most 18 are accepted (one bit each) *)
Theorem c10_at_most_18_categories : forall cd ct names, compile_chardef cd = Ok (ct, names) -> (length names <= 18)%nat.
Proof. exact compile_chardef_categories. Qed.

(** an accepted dictionary names only connection ids inside the connector *)
Theorem c10_ids_in_connector : forall c d names, build_dict c = Ok (d, names) ->
  rows_ok (d_conn d) (d_sys d) = true /\ unk_ok (d_conn d) (d_unk d) = true /\
  match d_user d with Some u => rows_ok (d_conn d) u = true | None => True end.
Proof. exact build_dict_ids_in_range. Qed.

(** mapping sequences: an error or a table, never a panic *)
Theorem c10_mapping_total : forall xs, N.of_nat (length xs) < 65535 -> mapper_parse xs <> Panic.
Proof. exact mapper_parse_never_panics. Qed.

(** the three bigram files at text level (Model/BigramText.v, compared with from_readers_with_bigram_info on valid
    and edited files on every run): a connector or an error, never a panic, for EVERY three texts *)
Theorem c10_bigram_text_total : forall rtxt ltxt ctxt maxl maxr, bigram_build_code rtxt ltxt ctxt maxl maxr <> 2.
Proof. exact bigram_build_code_total. Qed.

(** tokenizing with an accepted dictionary never runs out of the loop's fuel (termination) *)
Theorem c10_tokenize_terminates : forall d o cs, tokenize_fresh d o cs <> OutOfFuel.
Proof. exact tokenize_fresh_fuel. Qed.

(** an accepted dictionary tokenizes every string without panicking, provided every character's
    primary category has an unk.def entry and the costs are bounded ([wf]); acceptance itself
    gives the id ranges (c10_ids_in_connector) but NOT the coverage clause: without it the
    statement is false of the pinned code (known finding K1, c01_no_panic_refuted) *)
Theorem c10_accepted_tokenizes : forall d B o cs, wf d B cs -> exists ts L eos, tokenize_fresh d o cs = Done (ts, L, eos).
Proof. exact tokenize_total. Qed.

Print Assumptions c10_chardef_total.
Print Assumptions c10_unk_total.
Print Assumptions c10_build_total.
Print Assumptions c10_at_most_18_categories.
Print Assumptions c10_ids_in_connector.
Print Assumptions c10_mapping_total.
Print Assumptions c10_tokenize_terminates.
Print Assumptions c10_accepted_tokenizes.
Print Assumptions c10_bigram_text_total.
