(** C16 — The small (bigram) dictionary agrees with matrix.def up to rounding (PARTIAL). *)
From Coq Require Import QArith Qabs ZArith List.
From Vib Require Import Proofs.TrainProofs.

(** A matrix entry is the truncation of the scaled sum X of the K template weights of an id pair;
    the bigram dictionary adds K separately truncated scaled weights x_k.  Whenever the value
    truncated for the matrix and the exact sum of the x_k differ by less than 1 (floating-point
    accumulation error; checked per instance, not proved), the two costs differ by at most K + 1. *)
Theorem c16_trunc_sum_bound : forall (X : Q) (xs : list Q), Qabs (X - qsum xs) < 1 ->
  (Z.abs (qtrunc X - zsum (map qtrunc xs)) <= Z.of_nat (length xs) + 1)%Z.
Proof. exact trunc_sum_bound. Qed.

(** the bound is attained in the sense that K separately truncated weights can lose almost K *)
Example c16_example :
  qtrunc ((9 # 10) + (9 # 10) + (9 # 10)) = 2%Z /\ zsum (map qtrunc ((9 # 10) :: (9 # 10) :: (9 # 10) :: nil)) = 0%Z.
Proof. vm_compute. auto. Qed.

Print Assumptions c16_trunc_sum_bound.
