(** C02 — The reported segmentation is a minimum-cost path. *)
From Vib Require Import Model.Base Model.Lattice Model.Tokenizer Proofs.Viterbi Proofs.TokenizerProofs.
Local Open Scope Z_scope.

(** One insertion preserves the Viterbi invariant, for every connection-cost function (hence
    every connector kind) and wherever the candidates come from: each stored [min_cost] is
    attained by a BOS-rooted chain of lattice nodes and no chain into the node is cheaper. *)
Theorem c02_insert_invariant : forall conn L s sn sw e lex wid lid rid wc L',
  Inv conn L s -> (s <= sn)%nat -> (sn <= sw < e)%nat ->
  insert_node conn L sn sw e lex wid lid rid wc = Some L' -> Inv conn L' sn.
Proof. exact insert_inv. Qed.

(** The lattice the tokenizer builds satisfies the invariant, and EOS picks the cheapest
    predecessor including the connection to id 0: no sequence of candidate words reaching the
    EOS boundary is strictly cheaper than the reported total.  (Costs are in [Z]; the model
    returns [Panicked] instead of [Done] when an i32 computation would overflow.) *)
Theorem c02_optimal : forall d o ct cs L0 L eos,
  build_lattice d o (compile ct cs) L0 = Done (L, eos) ->
  exists s, Inv (conn_of d) L s /\
  (exists p, nth_error (at_ L (n_sn eos)) (n_midx eos) = Some p /\
             n_mc eos = n_mc p + conn_of d (n_rid p) 0%N /\ chain (conn_of d) L p (n_mc p)) /\
  (forall q c, In q (at_ L (n_sn eos)) -> chain (conn_of d) L q c ->
               n_mc eos <= c + conn_of d (n_rid q) 0%N).
Proof. exact build_lattice_optimal. Qed.

(** The reported tokens (reading order) are a path through the lattice from boundary 0 to the
    EOS boundary; each token's [total_cost] ([n_mc]) is the accumulated cost from the sentence
    start up to and including the token ([good_path]); adding the connection to EOS gives the
    optimum of [c02_optimal]. *)
Theorem c02_reported_path : forall d o ct cs w w',
  w_sent w = compile ct cs -> cs <> [] ->
  tokenize d o w = Done w' ->
  exists L eos s p,
    w_lat w' = L /\ w_eos w' = Some eos /\ Inv (conn_of d) L s /\
    nth_error (at_ L (n_sn eos)) (n_midx eos) = Some p /\
    good_path (conn_of d) L (n_sn eos) (n_mc p) (n_rid p) (rev (w_top w')) /\
    n_mc eos = n_mc p + conn_of d (n_rid p) 0%N /\
    (forall q c, In q (at_ L (n_sn eos)) -> chain (conn_of d) L q c ->
                 n_mc eos <= c + conn_of d (n_rid q) 0%N).
Proof. exact tokenize_path. Qed.

(** Non-vacuity: a two-word sentence with competing segmentations, evaluated in the model. *)
Definition ex_ci : cinfo := {| ci_cates := 1; ci_base := 0; ci_invoke := false; ci_group := false; ci_length := 1 |}.
Definition ex_dict : dict :=
  {| d_chars := {| ct_default := ex_ci; ct_ranges := [] |};
     d_sys := [ {| lr_surface := [97;98]%N; lr_lid := 1; lr_rid := 1; lr_cost := 10; lr_feature := [] |};
                {| lr_surface := [97]%N; lr_lid := 1; lr_rid := 1; lr_cost := 2; lr_feature := [] |};
                {| lr_surface := [98]%N; lr_lid := 1; lr_rid := 1; lr_cost := 3; lr_feature := [] |} ];
     d_user := None;
     d_unk := [ {| ur_cate := 0; ur_lid := 0; ur_rid := 0; ur_cost := 100; ur_feature := [] |} ];
     d_conn := [[0; 1]; [1; 1]] |}.
Example c02_example :
  exists L eos, build_lattice ex_dict {| o_space := None; o_mgl := None |}
                  (compile (d_chars ex_dict) [97;98]%N) [] = Done (L, eos) /\ n_mc eos = 8.
Proof. eexists; eexists. split; vm_compute; reflexivity. Qed.

Check c02_optimal.
Print Assumptions c02_insert_invariant.
Print Assumptions c02_optimal.
Print Assumptions c02_reported_path.
