(** C08 — A user lexicon adds candidates and can be replaced or cleared. *)
From Vib Require Import Model.Base Model.Lattice Model.Tokenizer Proofs.Viterbi Proofs.TokenizerProofs Proofs.WorkerProofs Proofs.CountProofs Proofs.UserLexProofs Proofs.PermProofs.
From Coq Require Import Permutation.

(** candidates with a user lexicon = candidates of the system lexicon extended by the same rows
    (same start, end, connection ids and cost; only the lexicon-type/word-id labels and the
    order differ), at every start position *)
Theorem c08_candidates_equiv : forall d u o s sw,
  Permutation (map strip (candidates (with_user d (Some u)) o s sw)) (map strip (candidates (merged d u) o s sw)).
Proof. exact candidates_user_merged. Qed.

(** ... and in optimal cost: for every sentence and option setting both dictionaries complete or
    panic together, reach the same minimum total cost and connect EOS to the same boundary (the
    Viterbi minimum depends only on the multiset of candidate keys at every boundary: insertion
    order within a start position and the lexicon-type / word-id labels are irrelevant) *)
Theorem c08_same_optimum : forall d u o cs L0,
  orel eos_same (build_lattice (with_user d (Some u)) o (compile (d_chars d) cs) L0)
                (build_lattice (merged d u) o (compile (d_chars d) cs) L0).
Proof. exact user_lexicon_same_optimum. Qed.

(** added words are reported as user-lexicon words with the parameters of their row *)
Theorem c08_user_labelled : forall u sw suffix c, In c (lex_matches 1%N u sw suffix) ->
  c_lex c = 1%N /\ exists r, nth_error u (N.to_nat (c_wid c)) = Some r /\ c_lid c = lr_lid r /\ c_rid c = lr_rid r /\ c_wc c = lr_cost r.
Proof. exact user_cands_labelled. Qed.

(** system words remain available *)
Theorem c08_system_kept : forall d u o s sw c, In c (lex_matches 0%N (d_sys d) sw (skipn sw (s_chars s))) ->
  In c (candidates (with_user d u) o s sw).
Proof. exact system_cands_kept. Qed.

(** loading a second user lexicon replaces the first; None restores the dictionary without one *)
Theorem c08_replace : forall d u1 u2 d1, reset_user d (Some u1) = Ok d1 -> reset_user d1 u2 = reset_user d u2.
Proof. exact reset_user_replaces. Qed.
Theorem c08_clear : forall d u d1, d_user d = None -> reset_user d (Some u) = Ok d1 -> reset_user d1 None = Ok d.
Proof. exact reset_user_clear_after_load. Qed.

(** an accepted user lexicon never produces an out-of-range connector lookup *)
Theorem c08_accept_in_range : forall d rows d1, reset_user d (Some rows) = Ok d1 ->
  d_user d1 = Some rows /\
  forall r, In r rows -> (N.to_nat (lr_rid r) < length (d_conn d1))%nat /\ (N.to_nat (lr_lid r) < length (hd [] (d_conn d1)))%nat.
Proof. exact reset_user_accept_in_range. Qed.

Example c08_example :
  let d := {| d_chars := {| ct_default := dummy_ci; ct_ranges := [] |}; d_sys := []; d_user := None; d_unk := []; d_conn := [[0%Z; 1%Z]] |} in
  reset_user d (Some [ {| lr_surface := [97%N]; lr_lid := 1; lr_rid := 0; lr_cost := 3; lr_feature := [] |} ]) <> Err /\
  reset_user d (Some [ {| lr_surface := [97%N]; lr_lid := 2; lr_rid := 0; lr_cost := 3; lr_feature := [] |} ]) = Err.
Proof. split; vm_compute; [discriminate|reflexivity]. Qed.

Check c08_candidates_equiv.
Print Assumptions c08_candidates_equiv.
Print Assumptions c08_same_optimum.
Print Assumptions c08_user_labelled.
Print Assumptions c08_system_kept.
Print Assumptions c08_replace.
Print Assumptions c08_clear.
Print Assumptions c08_accept_in_range.
