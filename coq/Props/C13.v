(** C13 — Reordering statistics always yield a valid, frequency-ordered mapping. *)
From Vib Require Import Model.Base Model.Lattice Model.Tokenizer Model.EvalLog Model.Mapper
  Proofs.Viterbi Proofs.TokenizerProofs Proofs.WorkerProofs Proofs.CountProofs Proofs.MapperProofs
  Model.Float Proofs.FloatOrder.
From Coq Require Import Permutation Sorted.
Local Open Scope N_scope.

(** What [add_connid_counts] adds for a sentence is, as a multiset of (left id, right id)
    events, exactly the connection-cost evaluations performed while its lattice was built
    (one per candidate node and node of the boundary it connects to, plus EOS). *)
Theorem c13_counts_are_evaluations : forall d o ct cs L0 L eos,
  build_lattice d o (compile ct cs) L0 = Done (L, eos) ->
  Permutation (count_events L (length cs) (n_sn eos)) (build_log d o (compile ct cs) L0).
Proof. exact counts_are_evaluations. Qed.

(** Each sentence contributes the same events whatever the worker processed before, and the
    empty sentence contributes nothing. *)
Theorem c13_history_additive : forall d o w1 w2 cs, sentence_events d o w1 cs = sentence_events d o w2 cs.
Proof. exact sentence_events_indep. Qed.
Theorem c13_empty_sentence : forall d o w, sentence_events d o w [] = Done [].
Proof. exact empty_sentence_counts_nothing. Qed.

(** The statistics list every id except 0 exactly once ... *)
Theorem c13_probs_perm : forall cnt, Permutation (probs_order cnt) (ids_from1 (length cnt)).
Proof. exact probs_order_perm. Qed.
(** ... by non-increasing count, ties by ascending id ... *)
Theorem c13_probs_sorted : forall cnt, StronglySorted (fun a b => before cnt a b = true) (probs_order cnt).
Proof. exact probs_order_sorted. Qed.
(** ... and are therefore always accepted by [ConnIdMapper::parse] (the map tool). *)
Theorem c13_probs_accepted : forall cnt, N.of_nat (length cnt) <= 65535 -> exists t, mapper_parse (probs_order cnt) = Ok t.
Proof. exact probs_order_accepted. Qed.

(** The code sorts by the binary64 quotients count / total ([p2.partial_cmp(p1)], ties and NaN by id); the model
    sorts by the counts. They are the same order whenever the total number of counted evaluations is below 2^53:
    the correctly rounded quotients of distinct integers by a common total below 2^53 are distinct, and with
    total = 0 every quotient is NaN. ([prob_order] is the comparator written with Flocq's IEEE-754 division and
    comparison, Model/Float.v; the check of every run recomputes the listed statistics with the same functions.) *)
Theorem c13_float_order : forall cnt a b, total_of cnt < 2 ^ 53 ->
  before cnt a b =
  match prob_order (Z.of_N a) (Z.of_N (cnt_of cnt a)) (Z.of_N b) (Z.of_N (cnt_of cnt b)) (Z.of_N (total_of cnt)) with
  | Gt => false
  | _ => true
  end.
Proof. exact before_is_prob_order. Qed.

Example c13_example : probs_order [7; 2; 5; 5; 0; 9] = [5; 2; 3; 1; 4].
Proof. vm_compute. reflexivity. Qed.
Example c13_before_meaning : before [7; 2; 5; 5; 0; 9] 2 3 = true /\ before [7; 2; 5; 5; 0; 9] 3 2 = false /\ before [7; 2; 5; 5; 0; 9] 5 1 = true.
Proof. vm_compute. auto. Qed.

Check c13_counts_are_evaluations.
Print Assumptions c13_counts_are_evaluations.
Print Assumptions c13_history_additive.
Print Assumptions c13_empty_sentence.
Print Assumptions c13_probs_perm.
Print Assumptions c13_probs_sorted.
Print Assumptions c13_probs_accepted.
Print Assumptions c13_float_order.
