(** C07 — Compact bigram connectors compute the defining feature-pair sum. *)
From Vib Require Import Model.Base Model.Scorer Model.Dual Proofs.ScorerProofs Proofs.RawSpecProofs Proofs.DualProofs Model.Simd Proofs.SimdProofs.
Local Open Scope N_scope.

(** The XOR double array ([bases], [checks]/[costs]) built by [ScorerBuilder::build] answers
    EVERY lookup — every pair of keys, listed or not, including the invalid feature id — exactly
    like the two-level trie it was built from. *)
Theorem c07_scorer_correct : forall fuel T sc, Forall (fun m => NoDup (keys m)) T -> build fuel T = Some sc ->
  forall k1 k2, retrieve sc k1 k2 = trie_get T k1 k2.
Proof. exact scorer_correct. Qed.

(** the tries produced from bigram.cost always satisfy the premise (distinct second-level keys) *)
Theorem c07_trie_wellformed : forall lines rt lt T, Forall (fun m => NoDup (keys m)) T ->
  Forall (fun m => NoDup (keys m)) (snd (read_costs lines rt lt T)).
Proof. exact read_costs_nodup. Qed.

(** hence the raw connector's cost for any id pair is the lane-by-lane sum of the listed costs of
    the (right feature id, left feature id) pairs; padding lanes hold the invalid id and add 0 *)
Theorem c07_raw_cost : forall fuel right left lines rc, build_raw fuel right left lines = Some rc ->
  let T := snd (read_costs lines [[]] [[]] []) in
  forall r l, raw_cost rc r l = lane_sum T (nth (N.to_nat r) (rc_right rc) []) (nth (N.to_nat l) (rc_left rc) []).
Proof. exact raw_cost_lane_sum. Qed.

(** ... and that lane sum over feature IDS is the defining sum over feature STRINGS: interning gives
    equal strings equal ids and different strings different ids, the empty feature is id 0 (the
    BOS/EOS row), a feature that occurs in no cost line gets the invalid id and contributes 0, and
    the last listing of a pair wins.  So for every connection-id pair the raw connector returns
    exactly [spec_cost]: the sum over positions of the listed cost of (right feature, left feature). *)
Theorem c07_raw_is_defining_sum : forall fuel right left lines rc,
  build_raw fuel right left lines = Some rc -> N.of_nat (length lines) + 1 < INVALID ->
  forall r l, (N.to_nat r <= length right)%nat -> (N.to_nat l <= length left)%nat ->
  raw_cost rc r l = spec_cost right left lines r l.
Proof. exact raw_cost_spec. Qed.

(** THE DUAL CONNECTOR.  Its template positions are split into a part that is pre-summed into a
    16-bit matrix and a part scored by a pruned double array; which positions go where is the
    result of a greedy search in the Rust code.  For EVERY split [mask] of the positions, and every
    connection-id pair whose pre-summed part fits 16 bits, the modelled dual connector returns the
    defining sum as well (so raw and dual agree): the lanes split additively by the mask, the clamp
    is the identity under the fit hypothesis, and the pruned trie answers like the full one on
    every feature the raw part uses. *)
Theorem c07_dual_is_defining_sum : forall fuel mask right left lines dc,
  build_dual fuel mask right left lines = Some dc -> N.of_nat (length lines) + 1 < INVALID ->
  length mask = fold_right Nat.max 0%nat (map (@length _) (right ++ left)) ->
  forall r l, (N.to_nat r <= length right)%nat -> (N.to_nat l <= length left)%nat ->
  (-32768 <= matrix_part dc r l <= 32767)%Z ->
  dual_cost dc r l = spec_cost right left lines r l.
Proof. exact dual_cost_spec. Qed.

(** non-vacuity and an instance of the property: A/a listed with 5, '*' and the BOS row *)
Example c07_example :
  match build_raw 100 [[[65%N]; [42%N]]] [[[97%N]; [42%N]]] [([65%N], [97%N], 5%Z); ([], [97%N], 7%Z)] with
  | Some rc => raw_cost rc 1 1 = 5%Z /\ raw_cost rc 0 1 = 7%Z /\ raw_cost rc 0 0 = 0%Z /\
               spec_cost [[[65%N]; [42%N]]] [[[97%N]; [42%N]]] [([65%N], [97%N], 5%Z); ([], [97%N], 7%Z)] 1 1 = 5%Z
  | None => False
  end.
Proof. vm_compute. auto. Qed.

(** non-vacuity of [c07_dual_is_defining_sum]: two templates, the first in the matrix part *)
Example c07_dual_example :
  match build_dual 100 [true; false] [[[65%N]; [66%N]]] [[[97%N]; [98%N]]] [([65%N], [97%N], 5%Z); ([66%N], [98%N], 11%Z); ([], [97%N], 7%Z)] with
  | Some dc => dual_cost dc 1 1 = 16%Z /\ matrix_part dc 1 1 = 5%Z /\ dual_cost dc 0 1 = 7%Z
  | None => False
  end.
Proof. vm_compute. auto. Qed.

(** ** the AVX2 path (target_feature = "avx2"): [retrieve_cost] / [accumulate_cost] written lane by lane with the
    semantics of the intrinsics they use -- SIGNED 32-bit comparisons, masked gathers that are undefined behaviour
    ([None]) when an enabled lane indexes outside its array, wrapping additions (Model/Simd.v).
    For a scorer whose array lengths and bases are below 2^31 and keys below 2^31 (U31): *)
(** no enabled lane ever reads outside its array, and every lane holds what the portable code finds *)
Theorem c07_avx2_lane : forall sc k1 k2, wf sc -> small k1 -> small k2 -> avx2_lane sc k1 k2 = Some (scalar_lane sc k1 k2).
Proof. exact avx2_lane_correct. Qed.
(** the eight wrapped lane sums and their horizontal sum return the portable total for rows of 8 lanes *)
Theorem c07_avx2_accumulate : forall sc rows1 rows2, wf sc -> Forall row8 rows1 -> Forall row8 rows2 ->
  (-2147483648 <= scalar_rows sc rows1 rows2 < 2147483648)%Z ->
  avx2_accumulate sc rows1 rows2 = Some (scalar_rows sc rows1 rows2).
Proof. exact avx2_accumulate_correct. Qed.
(** on the arrays of a built scorer the portable lane is [retrieve] of the abstract double array, which
    [c07_scorer_correct] identifies with the trie -- so the AVX2 build returns the same defining sums *)
Theorem c07_arrays_are_retrieve : forall sc len k1 k2, slots_ok sc len -> small k1 ->
  s32 (scalar_lane (arr_of sc len) k1 k2) = match retrieve sc k1 k2 with Some c => c | None => 0%Z end.
Proof. exact scalar_lane_is_retrieve. Qed.

Example c07_avx2_example :
  let sc := {| as_bases := [0; 5]; as_checks := [0; 4294967295; 0; 4294967295; 1; 4294967295; 1];
               as_costs := [7; 0; 4294967293; 0; 100; 0; 50] |} in
  avx2_accumulate sc [[0; 0; 1; 1; 2147483647; 2147483647; 2147483647; 2147483647]] [[0; 2; 1; 3; 0; 2147483647; 0; 0]]
  = Some 154%Z.
Proof. vm_compute. reflexivity. Qed.

Check c07_scorer_correct.
Print Assumptions c07_scorer_correct.
Print Assumptions c07_trie_wellformed.
Print Assumptions c07_raw_cost.
Print Assumptions c07_raw_is_defining_sum.
Print Assumptions c07_dual_is_defining_sum.
Print Assumptions c07_avx2_lane.
Print Assumptions c07_avx2_accumulate.
Print Assumptions c07_arrays_are_retrieve.
