(** C03 — Candidate words are exactly lexicon prefixes plus MeCab-style unknown words. *)
From Vib Require Import Model.Base Model.Lattice Model.Tokenizer Spec.CandSpec Proofs.Viterbi Proofs.TokenizerProofs
  Proofs.CountProofs Proofs.CandProofs.

(** a character's information comes from the last char.def range line covering it, DEFAULT
    otherwise (code points inside the table) *)
Theorem c03_char_info : forall ct c, (c < 65536)%N -> char_info ct c = cinfo_spec ct c.
Proof. exact char_info_spec. Qed.

(** [groupable] is the maximal run of characters whose neighbours share a category *)
Theorem c03_groupable_is_run : forall ct cs i, (i < length cs)%nat ->
  s_grp (compile ct cs) i = run_at (skipn i (map (char_info ct) cs)).
Proof. exact s_grp_run. Qed.
Theorem c03_run_maximal : forall cis, cis <> [] ->
  let g := run_at cis in
  (1 <= g <= length cis)%nat /\
  (forall j, (S j < g)%nat -> share (nth j cis dummy_ci) (nth (S j) cis dummy_ci) = true) /\
  (g = length cis \/ share (nth (g - 1) cis dummy_ci) (nth g cis dummy_ci) = false).
Proof. exact run_at_maximal. Qed.

(** unknown words: none if a lexicon entry matched and invoke=0; otherwise the whole run if
    group=1 (omitted when longer than max_grouping_len+1), the prefixes of length
    1..min(length, run) except the run length when group=1, and one character if nothing else
    was produced and nothing matched; each with every unk.def entry of the primary category *)
Theorem c03_unknown_words : forall unk ct cs sw hm mgl, (sw < length cs)%nat ->
  let s := compile ct cs in
  gen_unk_words unk s sw hm mgl =
  flat_map (fun k => scan_entries unk sw (sw + k) (ci_base (s_ci s sw)))
           (unk_lens_spec (s_ci s sw) (s_grp s sw) hm mgl).
Proof. exact gen_unk_words_spec. Qed.

(** lexicon candidates: exactly the rows whose surface is a non-empty prefix of the rest *)
Theorem c03_lexicon_prefixes : forall lex rows sw suffix c,
  In c (lex_matches lex rows sw suffix) <->
  exists j r, nth_error rows j = Some r /\ lr_surface r <> [] /\ is_prefix_b (lr_surface r) suffix = true /\
    c = {| c_sw := sw; c_end := sw + length (lr_surface r); c_lex := lex; c_wid := N.of_nat j;
           c_lid := lr_lid r; c_rid := lr_rid r; c_wc := lr_cost r |}.
Proof. exact lex_matches_iff. Qed.

(** Known finding K2: beyond the 2^16-entry table the pinned code answers with the entry of
    U+0000 instead of DEFAULT; the statement of [c03_char_info] is false there. *)
Theorem c03_astral_is_entry0 : forall ct c, (65536 <= c)%N -> char_info ct c = cinfo_spec ct 0%N.
Proof. exact char_info_astral. Qed.
Definition k2_z : cinfo := {| ci_cates := 2; ci_base := 1; ci_invoke := true; ci_group := true; ci_length := 2 |}.
Definition k2_d : cinfo := {| ci_cates := 1; ci_base := 0; ci_invoke := false; ci_group := false; ci_length := 1 |}.
Definition k2_table : chartable := {| ct_default := k2_d; ct_ranges := [(0%N, 1%N, k2_z)] |}.
Theorem c03_char_info_refuted : char_info k2_table 128512%N <> cinfo_spec k2_table 128512%N.
Proof. vm_compute. discriminate. Qed.
Theorem c03_char_info_outside_known : forall ct c,
  ~ ((65536 <= c)%N /\ cinfo_spec ct 0%N <> cinfo_spec ct c) -> char_info ct c = cinfo_spec ct c.
Proof.
  intros ct c H. destruct (N.ltb_spec c 65536) as [Hlt|Hge]; [now apply char_info_spec|].
  rewrite (char_info_astral ct c Hge).
  destruct (cinfo_spec ct 0%N) as [a1 b1 i1 g1 l1] eqn:E0, (cinfo_spec ct c) as [a2 b2 i2 g2 l2] eqn:Ec.
  destruct (N.eq_dec a1 a2), (N.eq_dec b1 b2), (Bool.bool_dec i1 i2), (Bool.bool_dec g1 g2), (PeanoNat.Nat.eq_dec l1 l2);
    try (subst; reflexivity); exfalso; apply H; (split; [exact Hge|congruence]).
Qed.

Example c03_example : unk_lens_spec {| ci_cates := 1; ci_base := 0; ci_invoke := true; ci_group := true; ci_length := 3 |} 4 true (Some 2)
  = [1; 2; 3]%nat.
Proof. reflexivity. Qed.

Check c03_unknown_words.
Print Assumptions c03_char_info.
Print Assumptions c03_groupable_is_run.
Print Assumptions c03_run_maximal.
Print Assumptions c03_unknown_words.
Print Assumptions c03_lexicon_prefixes.
Print Assumptions c03_astral_is_entry0.
Print Assumptions c03_char_info_refuted.
Print Assumptions c03_char_info_outside_known.
