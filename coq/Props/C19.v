(** C19 — The corpus text format round-trips and accepts the tokenizer's output. *)
From Vib Require Import Model.Base Model.Text Model.Corpus Proofs.CorpusProofs.

(** writing examples and parsing the text gives the same examples, for all examples whose
    surfaces/features contain no tab or line feed, whose features do not end in a carriage
    return, and whose concatenated surface is not empty *)
Theorem c19_parse_write : forall exs, Forall clean_example exs -> parse_corpus (write_corpus exs) = Ok exs.
Proof. exact parse_write. Qed.

(** malformed lines are reported as errors *)
Theorem c19_malformed : forall l rest cur acc,
  (split_on ch_tab l = [l] /\ l <> EOS_STR) \/ (exists a b c t, split_on ch_tab l = a :: b :: c :: t) ->
  parse_lines (l :: rest) cur acc = Err.
Proof. exact malformed_line_err. Qed.

(** the tokenizer's MeCab-style output (one "surface TAB feature" line per token, then EOS)
    parses as a corpus whose tokens are exactly the printed tokens; a sentence without text is dropped.
    Premise: surfaces/features free of tab / line feed / trailing carriage return — true of
    surfaces for tab-free single-line inputs; for features it is a condition on the dictionary
    (a lexicon feature containing a tab through a quoted CSV cell violates it). *)
Theorem c19_tokenizer_output : forall ex, Forall clean_word ex ->
  parse_corpus (write_example ex) = Ok (match concat (map fst ex) with [] => [] | _ => [ex] end).
Proof. exact tokenizer_output_parses. Qed.

Example c19_example :
  parse_corpus ([97; 9; 102; 10] ++ EOS_STR ++ [10] ++ EOS_STR ++ [10] ++ [98; 9; 103; 13; 10] ++ EOS_STR ++ [13; 10])%N
  = Ok [[([97], [102])]; [([98], [103])]]%N.
Proof. vm_compute. reflexivity. Qed.

Check c19_parse_write.
Print Assumptions c19_parse_write.
Print Assumptions c19_malformed.
Print Assumptions c19_tokenizer_output.
