(** C17 — Rewrite rules: the first registered matching rule applies. *)
From Vib Require Import Model.Base Model.Text Model.Rewriter Spec.RewriterSpec Proofs.RewriterProofs.

(** Every rule list and every feature list: the trie matcher returns the output of the
    earliest registered rule whose pattern matches position-wise as a prefix. *)
Theorem c17_first_match : forall (rules : list rule) (fs : list str),
  rewrite (build rules) fs = first_match rules fs.
Proof. exact rewrite_build_first_match. Qed.

(** ... and the features are used unchanged when no rule matches. *)
Theorem c17_fallback : forall (rules : list rule) (fs : list str),
  rewrite_or_id (build rules) fs = rewrite_spec rules fs.
Proof. exact rewrite_or_id_spec. Qed.

(** Text level: the three rule sets of a rewrite.def are independent and each is first-match. *)
Theorem c17_rewrite_def : forall text fss obs counts,
  run_rewrite_def text fss = Ok (obs, counts) ->
  exists rs, parse_rewrite_def text = Ok rs /\
    obs = map (fun fs => [first_match (rs_uni rs) fs; first_match (rs_left rs) fs;
                          first_match (rs_right rs) fs]) fss.
Proof. exact run_rewrite_def_spec. Qed.

Theorem c17_oracle_sound : forall text fs obs rs,
  parse_rewrite_def text = Ok rs ->
  oracle_c17 text fs obs = true ->
  obs = [first_match (rs_uni rs) fs; first_match (rs_left rs) fs; first_match (rs_right rs) fs].
Proof. exact oracle_c17_sound. Qed.

(** Non-vacuity / regression: the rule set that the pinned code got wrong
    ( *,x -> R1 ; a,y -> R2 ; *,y -> R3  on input (a,y) must give R2 ). *)
Example c17_witness :
  let a := [97%N] in let x := [120%N] in let y := [121%N] in
  let rules := [([PAny; PExact x], [RText [49%N]]);
                ([PExact a; PExact y], [RText [50%N]]);
                ([PAny; PExact y], [RText [51%N]])] in
  rewrite (build rules) [a; y] = Some [[50%N]] /\ first_match rules [a; y] = Some [[50%N]].
Proof. vm_compute. split; reflexivity. Qed.

(** the text-level premise is satisfiable *)
Example c17_text_example :
  exists obs counts,
    run_rewrite_def
      (* "[unigram rewrite]\n*,x 1\na,y $2,$1\n" *)
      [91;117;110;105;103;114;97;109;32;114;101;119;114;105;116;101;93;10;
       42;44;120;32;49;10; 97;44;121;32;36;50;44;36;49;10]%N
      [[[97%N]; [121%N]]] = Ok (obs, counts)
    /\ obs = [[Some [[121%N]; [97%N]]; None; None]].
Proof. eexists; eexists. split; vm_compute; reflexivity. Qed.

Check c17_first_match : forall (rules : list rule) (fs : list str),
  rewrite (build rules) fs = first_match rules fs.
Check c17_fallback : forall (rules : list rule) (fs : list str),
  rewrite_or_id (build rules) fs = rewrite_spec rules fs.
Print Assumptions c17_first_match.
Print Assumptions c17_fallback.
Print Assumptions c17_rewrite_def.
Print Assumptions c17_oracle_sound.
