(** C18 — Feature templates expand per MeCab semantics and define connection classes (PARTIAL). *)
From Vib Require Import Model.Base Model.Text Model.Scorer Model.Template Model.Mecab Proofs.TemplateProofs.
Local Open Scope N_scope.

(** equal expanded strings receive equal feature ids and different strings different ids
    (first-occurrence interning, the table stays duplicate-free) *)
Theorem c18_same_string_same_id : forall tbl s tbl1 i tbl2 j, NoDup tbl ->
  intern tbl s = (tbl1, i) -> intern tbl1 s = (tbl2, j) -> i = j /\ tbl2 = tbl1.
Proof. exact intern_same_id. Qed.
Theorem c18_diff_string_diff_id : forall tbl a b tbl1 i tbl2 j, NoDup tbl -> a <> b ->
  intern tbl a = (tbl1, i) -> intern tbl1 b = (tbl2, j) -> i <> j.
Proof. exact intern_diff_id. Qed.
Theorem c18_intern_wellformed : forall tbl s tbl' i, NoDup tbl -> intern tbl s = (tbl', i) ->
  NoDup tbl' /\ nth_error tbl' (N.to_nat i) = Some s /\ (exists ext, tbl' = tbl ++ ext) /\ i < N.of_nat (length tbl').
Proof. exact intern_spec. Qed.

(** a template containing %F?[i] / %L?[i] / %R?[i] yields no feature exactly when that feature is
    '*' or absent *)
Theorem c18_optional_reference : forall ps feats cate,
  expand ps feats cate = None <-> exists n, In (TIdx n true) ps /\ feat_at feats n = STAR.
Proof. exact expand_none_iff. Qed.

(** substitution: %L[0] and an optional %L?[2] with a literal tag; absent features are '*'; %t *)
Example c18_example :
  expand (parse_template 76 [66;58;37;76;91;48;93;44;37;76;63;91;50;93]) [[97]; [98]; [99]] 0 = Some [66;58;97;44;99] /\
  expand (parse_template 76 [66;58;37;76;91;48;93;44;37;76;63;91;50;93]) [[97]; [98]] 0 = None /\
  expand (parse_template 76 [37;76;91;53;93]) [[97]] 0 = Some [42] /\
  expand (parse_template 70 [85;58;37;116;47;37;70;91;48;93]) [[97]] 12 = Some [85;58;49;50;47;97].
Proof. vm_compute. auto. Qed.

Print Assumptions c18_same_string_same_id.
Print Assumptions c18_diff_string_diff_id.
Print Assumptions c18_intern_wellformed.
Print Assumptions c18_optional_reference.
