(** C06 — Connection-id remapping never changes tokenization. *)
From Vib Require Import Model.Base Model.Lattice Model.Tokenizer Model.Mapper Proofs.Viterbi Proofs.TokenizerProofs
  Proofs.WorkerProofs Proofs.CountProofs Proofs.MapperProofs Proofs.RenameProofs.
From Coq Require Import Permutation.
Local Open Scope N_scope.

(** [ConnIdMapper::parse] accepts exactly the permutations of 1..n (n = number of items): a
    mapping that mentions 0, repeats or omits an id or goes out of range is rejected, and it
    never panics *)
Theorem c06_parse_accepts_iff : forall xs, N.of_nat (length xs) < 65535 ->
  (exists t, mapper_parse xs = Ok t) <-> Permutation xs (map N.of_nat (seq 1 (length xs))).
Proof. exact mapper_parse_accepts_iff. Qed.
Theorem c06_parse_never_panics : forall xs, N.of_nat (length xs) < 65535 -> mapper_parse xs <> Panic.
Proof. exact mapper_parse_never_panics. Qed.
(** the returned table is the inverse: new id of the i-th listed old id is i+1, and 0 stays 0 *)
Theorem c06_parse_inverse : forall xs t, N.of_nat (length xs) < 65535 -> mapper_parse xs = Ok t ->
  length t = S (length xs) /\ nth_error t 0 = Some 0 /\
  forall i x, nth_error xs i = Some x -> nth_error t (N.to_nat x) = Some (N.of_nat (S i)).
Proof. exact mapper_parse_inverse. Qed.

(** Renaming every entry's ids through [fl]/[fr] (with 0 fixed) and the connector consistently
    ([conn' (fr r) (fl l) = conn r l], for any connector kind) leaves tokenization unchanged: same
    outcome and the same tokens — surfaces, ranges, features, lexicon types, word costs, total
    costs — with only the ids renamed. *)
Theorem c06_tokenize_invariant : forall fl fr, fr 0 = 0 -> fl 0 = 0 -> forall d d', renamed fl fr d d' ->
  forall o cs, out_rel fl fr (tokenize_fresh d o cs) (tokenize_fresh d' o cs).
Proof. exact tokenize_renamed. Qed.

(** every history of mappings and user-lexicon loads yields a renaming of the base dictionary
    (with the same user lexicon) by the COMPOSITION of the applied mappings *)
Theorem c06_history : forall d0 f g d, reach d0 f g d -> renamed f g d0 d.
Proof. exact reach_renamed. Qed.

Example c06_example : mapper_parse [2; 3; 1] = Ok [0; 3; 1; 2] /\ mapper_parse [2; 2; 1] = Err /\ mapper_parse [1; 0] = Err /\ mapper_parse [1; 4] = Err.
Proof. vm_compute. auto. Qed.

Check c06_tokenize_invariant.
Print Assumptions c06_parse_accepts_iff.
Print Assumptions c06_parse_never_panics.
Print Assumptions c06_parse_inverse.
Print Assumptions c06_tokenize_invariant.
Print Assumptions c06_history.
