(** C06 — Connection-id remapping never changes tokenization. *)
From Vib Require Import Model.Base Model.Lattice Model.Tokenizer Model.Mapper Proofs.Viterbi Proofs.TokenizerProofs
  Proofs.WorkerProofs Proofs.CountProofs Proofs.MapperProofs Proofs.RenameProofs.
From Vib Require Import Model.Remap Proofs.RemapProofs.
From Coq Require Import Permutation.
Local Open Scope N_scope.

(** [ConnIdMapper::parse] accepts exactly the permutations of 1..n (n = number of items): a
    mapping that mentions 0, repeats or omits an id or goes out of range is rejected, and it
    never panics *)
Theorem c06_parse_accepts_iff : forall xs, N.of_nat (length xs) < 65535 ->
  (exists t, mapper_parse xs = Ok t) <-> Permutation xs (map N.of_nat (seq 1 (length xs))).
Proof. exact mapper_parse_accepts_iff. Qed.
Theorem c06_parse_never_panics : forall xs, N.of_nat (length xs) < 65535 -> mapper_parse xs <> Panic.
Proof. exact mapper_parse_never_panics. Qed.
(** the returned table is the inverse: new id of the i-th listed old id is i+1, and 0 stays 0 *)
Theorem c06_parse_inverse : forall xs t, N.of_nat (length xs) < 65535 -> mapper_parse xs = Ok t ->
  length t = S (length xs) /\ nth_error t 0 = Some 0 /\
  forall i x, nth_error xs i = Some x -> nth_error t (N.to_nat x) = Some (N.of_nat (S i)).
Proof. exact mapper_parse_inverse. Qed.

(** Renaming every entry's ids through [fl]/[fr] (with 0 fixed) and the connector consistently
    ([conn' (fr r) (fl l) = conn r l], for any connector kind) leaves tokenization unchanged: same
    outcome and the same tokens — surfaces, ranges, features, lexicon types, word costs, total
    costs — with only the ids renamed. *)
Theorem c06_tokenize_invariant : forall fl fr, fr 0 = 0 -> fl 0 = 0 -> forall d d', renamed fl fr d d' ->
  forall o cs, out_rel fl fr (tokenize_fresh d o cs) (tokenize_fresh d' o cs).
Proof. exact tokenize_renamed. Qed.

(** every history of mappings and user-lexicon loads yields a renaming of the base dictionary
    (with the same user lexicon) by the COMPOSITION of the applied mappings *)
Theorem c06_history : forall d0 f g d, reach d0 f g d -> renamed f g d0 d.
Proof. exact reach_renamed. Qed.

(** THE THREE CONNECTORS' REMAPPING LOOPS satisfy the contract [c06_tokenize_invariant] needs --
    the cost of (new right id, new left id) after the call is the old cost of (right id, left id) --
    for every pair of permutations of the ids:
    - matrix connector: the data array scattered to [index(new r, new l)];
    - raw connector: one row of feature ids per connection id, scattered to the new ids;
    - dual connector: per id a matrix row number and a raw feature row, both scattered; then the
      matrix rows are renumbered by first appearance and the matrix is permuted accordingly (every
      matrix row being used by some id): the entry read and the two raw rows are unchanged. *)
Theorem c06_matrix_remap : forall data nr nl pr pl r l, perm pr nr -> perm pl nl -> length data = (nr * nl)%nat ->
  (r < nr)%nat -> (l < nl)%nat ->
  mat_cost (map_matrix data nr nl pr pl) nr (pr r) (pl l) = mat_cost data nr r l.
Proof. exact map_matrix_spec. Qed.

Theorem c06_raw_remap : forall (rows : list (list N)) p i, perm p (length rows) -> (i < length rows)%nat ->
  nth (p i) (map_rows [] rows p) [] = nth i rows [].
Proof. intros rows p i. apply (map_rows_spec (A := list N) [] rows p i). Qed.

Theorem c06_dual_remap : forall dm pr pl r l,
  perm pr (length (dm_rmap dm)) -> perm pl (length (dm_lmap dm)) ->
  length (dm_rfeat dm) = length (dm_rmap dm) -> length (dm_lfeat dm) = length (dm_lmap dm) ->
  (forall k, (k < length (dm_rmap dm))%nat -> (nth k (dm_rmap dm) 0 < dm_mr dm)%nat) -> (forall a, (a < dm_mr dm)%nat -> In a (dm_rmap dm)) ->
  (forall k, (k < length (dm_lmap dm))%nat -> (nth k (dm_lmap dm) 0 < dm_ml dm)%nat) -> (forall a, (a < dm_ml dm)%nat -> In a (dm_lmap dm)) ->
  length (dm_matrix dm) = (dm_mr dm * dm_ml dm)%nat ->
  (r < length (dm_rmap dm))%nat -> (l < length (dm_lmap dm))%nat ->
  dual_view (map_dual dm pr pl) (pr r) (pl l) = dual_view dm r l.
Proof. exact map_dual_spec. Qed.

(** non-vacuity: a 2x3 matrix, ids (0 1) swapped on the right and rotated on the left; a dual map
    with two ids sharing matrix row 1 *)
Example c06_remap_example :
  let pr := fun i => match i with 0 => 1 | 1 => 0 | _ => i end%nat in
  let pl := fun i => match i with 0 => 1 | 1 => 2 | 2 => 0 | _ => i end%nat in
  map_matrix [10; 11; 20; 21; 30; 31]%Z 2 3 pr pl = [31; 30; 11; 10; 21; 20]%Z /\
  (let dm := {| dm_rmap := [0; 1; 1]%nat; dm_lmap := [0; 1]%nat; dm_rfeat := [[0%N]; [5%N]; [6%N]]; dm_lfeat := [[0%N]; [7%N]];
                dm_matrix := [1; 2; 3; 4]%Z; dm_mr := 2; dm_ml := 2 |} in
   let p := fun i => match i with 0 => 2 | 1 => 0 | 2 => 1 | _ => i end%nat in
   dm_rmap (map_dual dm p (fun i => i)) = [0; 0; 1]%nat /\ dual_view (map_dual dm p (fun i => i)) (p 1) 1 = dual_view dm 1 1)%nat.
Proof. vm_compute. auto. Qed.

Example c06_example : mapper_parse [2; 3; 1] = Ok [0; 3; 1; 2] /\ mapper_parse [2; 2; 1] = Err /\ mapper_parse [1; 0] = Err /\ mapper_parse [1; 4] = Err.
Proof. vm_compute. auto. Qed.

Check c06_tokenize_invariant.
Print Assumptions c06_parse_accepts_iff.
Print Assumptions c06_parse_never_panics.
Print Assumptions c06_parse_inverse.
Print Assumptions c06_tokenize_invariant.
Print Assumptions c06_history.
Print Assumptions c06_matrix_remap.
Print Assumptions c06_raw_remap.
Print Assumptions c06_dual_remap.
