(** C20 — MeCab model conversion preserves the model's bigram costs. *)
From Vib Require Import Model.Base Model.Text Model.Scorer Model.Template Model.Mecab Proofs.ScorerProofs Proofs.TemplateProofs Proofs.RawSpecProofs Proofs.MecabProofs.
Local Open Scope N_scope.

(** END TO END.  [gen] is the model of [generate_bigram_info] on parsed inputs (interning of the
    template expansions of every right-id.def / left-id.def line, the id maps, the bigram.cost line
    of every model.def line, the rows of bigram.right / bigram.left); [build_raw] the model of the
    raw connector compiled from those three files (C07).  For every MeCab model meeting
    [wf_model] -- (a) a model.def line that yields a two-sided entry is the plain text
    left '/' right, (b) one line per feature text, (c) the expansions on the rows of the non-zero
    ids are non-empty, free of '/', and  a '/' c  holds no occurrence of BOS/EOS -- and for every
    pair of non-zero ids, the connection cost of the compiled dictionary equals [c20_spec]: the
    sum, over the bigram templates that apply to both ids, of -trunc(weight x cost_factor) of the
    model.def line whose text is the left expansion, '/', the right expansion. *)
Theorem c20_end_to_end : forall m right left lines fuel rc,
  gen m = Ok (right, left, lines) -> build_raw fuel right left lines = Some rc -> wf_model m = true ->
  N.of_nat (length lines) + 1 < INVALID ->
  forall r l, (1 <= r <= length right)%nat -> (1 <= l <= length left)%nat ->
  raw_cost rc (N.of_nat r) (N.of_nat l) = c20_spec m (N.of_nat r) (N.of_nat l).
Proof. exact gen_end_to_end. Qed.

(** the feature ids written as decimal numbers identify the interned strings *)
Theorem c20_decimal_ids_injective : forall a b, show_N a = show_N b -> a = b.
Proof. exact show_N_inj. Qed.

(** Components, also used on their own: *)

(** the intermediate feature ids written into bigram.right/left/cost identify the expanded
    strings: equal strings equal ids, different strings different ids *)
Theorem c20_same_string_same_id : forall tbl s tbl1 i tbl2 j, NoDup tbl ->
  intern tbl s = (tbl1, i) -> intern tbl1 s = (tbl2, j) -> i = j /\ tbl2 = tbl1.
Proof. exact intern_same_id. Qed.
Theorem c20_diff_string_diff_id : forall tbl a b tbl1 i tbl2 j, NoDup tbl -> a <> b ->
  intern tbl a = (tbl1, i) -> intern tbl1 b = (tbl2, j) -> i <> j.
Proof. exact intern_diff_id. Qed.

(** a template applies to an id unless one of its optional references is '*' or absent *)
Theorem c20_template_applies : forall ps feats cate,
  expand ps feats cate = None <-> exists n, In (TIdx n true) ps /\ feat_at feats n = STAR.
Proof. exact expand_none_iff. Qed.

(** the cost of a line: -(w * factor) truncated toward zero, whichever way the negation is taken *)
Theorem c20_line_cost : forall num e f, line_cost num e f = Z.quot (- (num * f)) (10 ^ Z.of_N e).
Proof. exact line_cost_neg. Qed.

(** and the compiled raw connector sums the listed costs of the id pairs lane by lane (C07) *)
Theorem c20_connector_sums : forall fuel right left lines rc, build_raw fuel right left lines = Some rc ->
  let T := snd (read_costs lines [[]] [[]] []) in
  forall r l, raw_cost rc r l = lane_sum T (nth (N.to_nat r) (rc_right rc) []) (nth (N.to_nat l) (rc_left rc) []).
Proof. exact raw_cost_lane_sum. Qed.

Example c20_example :
  let m := {| mi_bigrams := [([37;76;91;48;93], [37;82;63;91;49;93])];
              mi_rightdef := [(0, [BOSEOS]); (1, [[97]])]; mi_leftdef := [(0, [BOSEOS]); (1, [[120]; [98]]); (2, [[120]; [42]])];
              mi_model := [(25%Z, 1, [97;47;98])]; mi_factor := 700%Z |} in
  c20_spec m 1 1 = (-1750)%Z /\ c20_spec m 1 2 = 0%Z.
Proof. vm_compute. auto. Qed.

(** non-vacuity of [c20_end_to_end]: its hypotheses hold for a concrete model, whose files compile *)
Example c20_end_to_end_example :
  let m := {| mi_bigrams := [([37;76;91;48;93], [37;82;63;91;49;93])];
              mi_rightdef := [(0, [BOSEOS]); (1, [[97]])]; mi_leftdef := [(0, [BOSEOS]); (1, [[120]; [98]]); (2, [[120]; [42]])];
              mi_model := [(25%Z, 1, [97;47;98]); (1%Z, 0, BOSEOS ++ [47;98])]; mi_factor := 700%Z |} in
  wf_model m = true /\
  match gen m with
  | Ok (rrows, lrows, lines) =>
      (length rrows = 1 /\ length lrows = 2)%nat /\
      match build_raw 100 rrows lrows lines with Some rc => raw_cost rc 1 1 = (-1750)%Z /\ raw_cost rc 1 2 = 0%Z | None => False end
  | _ => False
  end.
Proof. vm_compute. auto. Qed.

Print Assumptions c20_end_to_end.
Print Assumptions c20_same_string_same_id.
Print Assumptions c20_diff_string_diff_id.
Print Assumptions c20_template_applies.
Print Assumptions c20_line_cost.
Print Assumptions c20_connector_sums.
