(** C20 — MeCab model conversion preserves the model's bigram costs (PARTIAL, see below). *)
From Vib Require Import Model.Base Model.Text Model.Scorer Model.Template Model.Mecab Proofs.ScorerProofs Proofs.TemplateProofs.
Local Open Scope N_scope.

(** The statement decided on every run by the oracle (Check/C20Check.v), kept visible:
      for all non-zero ids r, l:
        cost_raw (compile (generate_bigram_info m)) r l = c20_spec m r l
    where [c20_spec] is the sum, over the bigram templates that apply to both ids, of
    -trunc(weight x cost_factor) of the model.def line whose text is the left expansion, '/',
    the right expansion.  It is not proved end to end; what is proved are its components: *)

(** the intermediate feature ids written into bigram.right/left/cost identify the expanded
    strings: equal strings equal ids, different strings different ids *)
Theorem c20_same_string_same_id : forall tbl s tbl1 i tbl2 j, NoDup tbl ->
  intern tbl s = (tbl1, i) -> intern tbl1 s = (tbl2, j) -> i = j /\ tbl2 = tbl1.
Proof. exact intern_same_id. Qed.
Theorem c20_diff_string_diff_id : forall tbl a b tbl1 i tbl2 j, NoDup tbl -> a <> b ->
  intern tbl a = (tbl1, i) -> intern tbl1 b = (tbl2, j) -> i <> j.
Proof. exact intern_diff_id. Qed.

(** a template applies to an id unless one of its optional references is '*' or absent *)
Theorem c20_template_applies : forall ps feats cate,
  expand ps feats cate = None <-> exists n, In (TIdx n true) ps /\ feat_at feats n = STAR.
Proof. exact expand_none_iff. Qed.

(** the cost of a line: -(w * factor) truncated toward zero, whichever way the negation is taken *)
Theorem c20_line_cost : forall num e f, line_cost num e f = Z.quot (- (num * f)) (10 ^ Z.of_N e).
Proof. exact line_cost_neg. Qed.

(** and the compiled raw connector sums the listed costs of the id pairs lane by lane (C07) *)
Theorem c20_connector_sums : forall fuel right left lines rc, build_raw fuel right left lines = Some rc ->
  let T := snd (read_costs lines [[]] [[]] []) in
  forall r l, raw_cost rc r l = lane_sum T (nth (N.to_nat r) (rc_right rc) []) (nth (N.to_nat l) (rc_left rc) []).
Proof. exact raw_cost_lane_sum. Qed.

Example c20_example :
  let m := {| mi_bigrams := [([37;76;91;48;93], [37;82;63;91;49;93])];
              mi_rightdef := [(0, [BOSEOS]); (1, [[97]])]; mi_leftdef := [(0, [BOSEOS]); (1, [[120]; [98]]); (2, [[120]; [42]])];
              mi_model := [(25%Z, 1, [97;47;98])]; mi_factor := 700%Z |} in
  c20_spec m 1 1 = (-1750)%Z /\ c20_spec m 1 2 = 0%Z.
Proof. vm_compute. auto. Qed.

Print Assumptions c20_same_string_same_id.
Print Assumptions c20_diff_string_diff_id.
Print Assumptions c20_template_applies.
Print Assumptions c20_line_cost.
Print Assumptions c20_connector_sums.
