(** C11 — Lexicon CSV rows are preserved verbatim as words. *)
From Vib Require Import Model.Base Model.Text Model.LexCsv Proofs.LexCsvProofs.
Local Open Scope N_scope.

(** For every list of rows — surface any byte string (written quoted, quotes doubled, whenever it
    contains a comma, quote, CR or LF, or by choice), numerals any text that parses to the ids and
    the cost, feature = any number of comma-separated cells free of quotes and line breaks — the
    parser returns exactly one word per row with a non-empty surface, in row order: surface
    unquoted, numbers parsed, feature = the remainder of the row byte for byte.  Rows sharing a
    surface stay distinct (the result is a [map] over the kept rows); rows with an empty surface
    are skipped. *)
Theorem c11_parse_render : forall rows, Forall row_ok rows ->
  parse_lex_csv (concat (map render_row rows)) = Ok (map entry_of (filter keep rows)).
Proof. exact parse_render. Qed.

(** a quoted first cell comes back unquoted whatever bytes it holds *)
Theorem c11_surface_unquoted : forall q s rest, exists raw,
  take_field (render_cell q s ++ 44 :: rest) = (s, raw, FComma, rest).
Proof. exact take_field_cell. Qed.

(** blank lines are skipped *)
Theorem c11_blank_lines : forall fuel bs acc nl, (nl = 10 \/ nl = 13) ->
  parse_records (S fuel) (nl :: bs) acc = parse_records (S fuel) bs acc.
Proof. exact leading_blank_lines_ignored. Qed.

(** "a,b" quoted, homographs, an empty surface, a feature with several cells, no final newline
    and a trailing blank line, evaluated in the model *)
Example c11_example :
  parse_lex_csv ([34;97;44;98;34;44;49;44;50;44;45;51;44;102;44;103;10] ++ [97;44;48;44;48;44;53;44;120;10] ++ [97;44;48;44;48;44;54;44;121;13;10]
                 ++ [44;48;44;48;44;55;44;122;10;10] ++ [98;44;48;44;48;44;56;44])
  = Ok [ {| le_surface := [97;44;98]; le_lid := 1; le_rid := 2; le_cost := (-3)%Z; le_feature := [102;44;103] |};
         {| le_surface := [97]; le_lid := 0; le_rid := 0; le_cost := 5%Z; le_feature := [120] |};
         {| le_surface := [97]; le_lid := 0; le_rid := 0; le_cost := 6%Z; le_feature := [121] |};
         {| le_surface := [98]; le_lid := 0; le_rid := 0; le_cost := 8%Z; le_feature := [] |} ].
Proof. vm_compute. reflexivity. Qed.

Check c11_parse_render.
Print Assumptions c11_parse_render.
Print Assumptions c11_surface_unquoted.
Print Assumptions c11_blank_lines.
