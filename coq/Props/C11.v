(** C11 — Lexicon CSV rows are preserved verbatim as words. *)
From Vib Require Import Model.Base Model.Text Model.LexCsv Proofs.LexCsvProofs Proofs.LexCsvLayout.
Local Open Scope N_scope.

(** For every list of rows — surface any byte string (written quoted, quotes doubled, whenever it
    contains a comma, quote, CR or LF, or by choice), numerals any text that parses to the ids and
    the cost, feature = any number of comma-separated cells free of quotes and line breaks — the
    parser returns exactly one word per row with a non-empty surface, in row order: surface
    unquoted, numbers parsed, feature = the remainder of the row byte for byte.  Rows sharing a
    surface stay distinct (the result is a [map] over the kept rows); rows with an empty surface
    are skipped. *)
Theorem c11_parse_render : forall rows, Forall row_ok rows ->
  parse_lex_csv (concat (map render_row rows)) = Ok (map entry_of (filter keep rows)).
Proof. exact parse_render. Qed.

(** ALL LAYOUTS of the property's quantifier: blank lines in front; feature cells plain or quoted
    (any bytes inside the quotes: commas, doubled quotes, line breaks), kept byte for byte
    including the quoting; every row ended by LF, CR or CRLF and any number of blank lines
    ([eol]: a non-empty sequence of CR / LF bytes); optionally a last row that ends with the input
    (missing final newline).  The words are exactly the rows with a non-empty surface, in order. *)
Theorem c11_all_layouts : forall pre rows last,
  Forall crlf pre -> Forall (fun r => lrow_ok r /\ eol (l_term r)) rows ->
  match last with Some r => lrow_ok r /\ l_term r = [] | None => True end ->
  parse_lex_csv (pre ++ concat (map render_lrow rows) ++ match last with Some r => render_lrow r | None => [] end)
  = Ok (map lentry (filter lkeep (rows ++ match last with Some r => [r] | None => [] end))).
Proof. exact parse_render_layout. Qed.

(** a quoted first cell comes back unquoted whatever bytes it holds *)
Theorem c11_surface_unquoted : forall q s rest, exists raw,
  take_field (render_cell q s ++ 44 :: rest) = (s, raw, FComma, rest).
Proof. exact take_field_cell. Qed.

(** blank lines are skipped *)
Theorem c11_blank_lines : forall fuel bs acc nl, (nl = 10 \/ nl = 13) ->
  parse_records (S fuel) (nl :: bs) acc = parse_records (S fuel) bs acc.
Proof. exact leading_blank_lines_ignored. Qed.

(** "a,b" quoted, homographs, an empty surface, a feature with several cells, no final newline
    and a trailing blank line, evaluated in the model *)
Example c11_example :
  parse_lex_csv ([34;97;44;98;34;44;49;44;50;44;45;51;44;102;44;103;10] ++ [97;44;48;44;48;44;53;44;120;10] ++ [97;44;48;44;48;44;54;44;121;13;10]
                 ++ [44;48;44;48;44;55;44;122;10;10] ++ [98;44;48;44;48;44;56;44])
  = Ok [ {| le_surface := [97;44;98]; le_lid := 1; le_rid := 2; le_cost := (-3)%Z; le_feature := [102;44;103] |};
         {| le_surface := [97]; le_lid := 0; le_rid := 0; le_cost := 5%Z; le_feature := [120] |};
         {| le_surface := [97]; le_lid := 0; le_rid := 0; le_cost := 6%Z; le_feature := [121] |};
         {| le_surface := [98]; le_lid := 0; le_rid := 0; le_cost := 8%Z; le_feature := [] |} ].
Proof. vm_compute. reflexivity. Qed.

(** non-vacuity of [c11_all_layouts]: a leading blank line, a row ended by CRLF + a blank line whose
    feature has a quoted cell holding a comma and a doubled quote, and a last row without newline *)
Definition ex11_head (sf : list N) : srow :=
  {| s_surface := sf; s_quote := false; s_ltxt := [49]; s_rtxt := [50]; s_ctxt := [45;51];
     s_lid := 1; s_rid := 2; s_cost := (-3)%Z; s_cells := [] |}.
Definition ex11_r1 : lrow := {| l_head := ex11_head [97;44;98]; l_cells := [FP [102]; FQ [120;44;34;121]]; l_term := [13;10;10] |}.
Definition ex11_r2 : lrow := {| l_head := ex11_head [99]; l_cells := [FP []]; l_term := [] |}.
Example c11_layout_example :
  (lrow_ok ex11_r1 /\ eol (l_term ex11_r1)) /\ (lrow_ok ex11_r2 /\ l_term ex11_r2 = []) /\
  [10] ++ render_lrow ex11_r1 ++ render_lrow ex11_r2 =
    [10] ++ [34;97;44;98;34;44;49;44;50;44;45;51;44;102;44;34;120;44;34;34;121;34;13;10;10] ++ [99;44;49;44;50;44;45;51;44] /\
  le_feature (lentry ex11_r1) = [102;44;34;120;44;34;34;121;34].
Proof.
  assert (P : forall l, Forall (fun b => b <> 44 /\ b <> 10 /\ b <> 13 /\ b <> 34) l -> plain l).
  { intros l F b Hb. rewrite Forall_forall in F. now apply F. }
  assert (Hk : forall sf cells t, cells <> [] -> Forall cell_ok cells -> lrow_ok {| l_head := ex11_head sf; l_cells := cells; l_term := t |}).
  { intros sf cells t H1 H2. unfold lrow_ok. cbn [l_head l_cells ex11_head s_ltxt s_rtxt s_ctxt s_lid s_rid s_cost].
    refine (conj _ (conj _ (conj _ (conj _ (conj _ (conj _ (conj H1 H2))))))); try (apply P; repeat constructor; discriminate); vm_compute; reflexivity. }
  split; [split|split; [split|split]].
  - apply Hk; [discriminate|]. apply Forall_cons; [apply P; repeat constructor; discriminate|]. apply Forall_cons; [exact I|constructor].
  - split; [discriminate|]. apply Forall_cons; [now right|]. apply Forall_cons; [now left|]. apply Forall_cons; [now left|constructor].
  - apply Hk; [discriminate|]. apply Forall_cons; [intros b []|constructor].
  - reflexivity.
  - vm_compute. reflexivity.
  - vm_compute. reflexivity.
Qed.

Check c11_parse_render.
Print Assumptions c11_parse_render.
Print Assumptions c11_surface_unquoted.
Print Assumptions c11_blank_lines.
Print Assumptions c11_all_layouts.
