(** C05 — A compiled dictionary round-trips through write/read. *)
From Vib Require Import Model.Base Model.Codec Model.DictImage Gen.Constants Proofs.CodecProofs Proofs.ImageProofs.

(** reading the written image returns the dictionary data itself (hence every later operation —
    tokenizing, loading a user lexicon, remapping, writing again — behaves identically, being a
    function of that data), and leaves anything that follows the image unread *)
Theorem c05_read_write : forall d r, inner_dom d -> read_image inner_c (fst (write_image inner_c d) ++ r) = Some (d, r).
Proof. exact (read_write inner_c inner_dom inner_laws). Qed.

(** write reports exactly the number of bytes it emitted *)
Theorem c05_write_count : forall d, snd (write_image inner_c d) = N.of_nat (length (fst (write_image inner_c d))).
Proof. exact (write_count inner_c). Qed.

(** writing the reloaded dictionary reproduces the same bytes *)
Theorem c05_rewrite_same : forall d d' r, inner_dom d ->
  read_image inner_c (fst (write_image inner_c d)) = Some (d', r) -> fst (write_image inner_c d') = fst (write_image inner_c d).
Proof. exact (rewrite_same inner_c inner_dom inner_laws). Qed.

(** the eight lanes of a U31x8 are eight little-endian u32 in both builds: the encoding is a
    function of the lane values only *)
Theorem c05_lanes : forall l r, u31x8_dom l -> dec u31x8 (enc u31x8 l ++ r) = Some (l, r).
Proof. intros l r H. apply (law_rt _ _ u31x8_laws l r H). Qed.

Check c05_read_write.
Print Assumptions c05_read_write.
Print Assumptions c05_write_count.
Print Assumptions c05_rewrite_same.
Print Assumptions c05_lanes.
