(** C01 — Tokens partition the input text. *)
From Vib Require Import Model.Base Model.Lattice Model.Tokenizer Proofs.Viterbi Proofs.TokenizerProofs
  Proofs.CountProofs Proofs.ScanInd Proofs.PartitionProofs Proofs.TotalProofs.
From Coq Require Import Sorted.

(** Whenever tokenization completes, the tokens (reading order) form a [tok_seq]: every token
    is non-empty and inside the sentence, starts where the previous one ended or after a skipped
    run that begins with a SPACE character ([word_start]), its byte range is the UTF-8 offset
    of its character range, its surface is that slice of the input, and its feature, lexicon
    type, connection ids and word cost are those of the dictionary entry it names
    ([token_ok] / [tok_entry]); after the last token the sentence ends or only a skipped space
    run remains ([tail_ok]). *)
Theorem c01_partition : forall d o cs ts L eos, cs <> [] ->
  tokenize_fresh d o cs = Done (ts, L, eos) ->
  exists q, tok_seq d o (compile (d_chars d) cs) ts q /\ tail_ok o (compile (d_chars d) cs) q.
Proof. exact tokens_partition. Qed.

(** in order, non-empty, non-overlapping *)
Theorem c01_ordered : forall d o s ts q, tok_seq d o s ts q ->
  Forall (fun t => (t_cs t < t_ce t <= q)%nat) ts /\
  StronglySorted (fun a b => (t_ce a <= t_cs b)%nat) ts.
Proof. exact tokens_ordered. Qed.

(** without ignore_space the surfaces concatenate to the input *)
Theorem c01_cover : forall d o cs ts L eos, cs <> [] -> o_space o = None ->
  tokenize_fresh d o cs = Done (ts, L, eos) -> concat (map t_surface ts) = cs.
Proof. exact tokens_cover_all. Qed.

(** byte offsets strictly increase with character offsets (ranges agree with one another) *)
Theorem c01_byte_offsets : forall cs i j, (i < j <= length cs)%nat -> (byte_off cs i < byte_off cs j)%nat.
Proof. exact byte_off_mono. Qed.

(** the loop terminates within the fuel of the model (no out-of-fuel outcome) *)
Theorem c01_terminates : forall d o cs, tokenize_fresh d o cs <> OutOfFuel.
Proof. exact tokenize_fresh_fuel. Qed.

(** the empty string yields no tokens *)
Theorem c01_empty : forall d o, exists L eos, tokenize_fresh d o [] = Done ([], L, eos).
Proof. exact tokenize_fresh_empty. Qed.

(** Tokenization never panics and never runs out of fuel, for every dictionary, option setting and
    sentence satisfying [wf]: every character's primary category has an unk.def entry (the clause
    the builder does not establish: known finding K1) and costs are bounded by some [B] with
    [2 * B * (length + 1)] inside i32 (the 32-bit restriction; it holds for every sentence of up
    to 16383 characters when all costs fit 16 bits). *)
Theorem c01_total : forall d B o cs, wf d B cs -> exists ts L eos, tokenize_fresh d o cs = Done (ts, L, eos).
Proof. exact tokenize_total. Qed.

(** Without the coverage clause the statement is false of the pinned code (known finding K1):
    a dictionary whose char.def names a category without
    unk.def rows is accepted and panics.  Witness, evaluated in the model: *)
Definition k1_ci : cinfo := {| ci_cates := 1; ci_base := 0; ci_invoke := false; ci_group := false; ci_length := 1 |}.
Definition k1_dict : dict :=
  {| d_chars := {| ct_default := k1_ci; ct_ranges := [] |};
     d_sys := [ {| lr_surface := [97]%N; lr_lid := 0; lr_rid := 0; lr_cost := 1; lr_feature := [] |} ];
     d_user := None; d_unk := []; d_conn := [[0%Z]] |}.
Theorem c01_no_panic_refuted : tokenize_fresh k1_dict {| o_space := None; o_mgl := None |} [98]%N = Panicked.
Proof. vm_compute. reflexivity. Qed.

(** Non-vacuity of [c01_partition]: a covered dictionary tokenizes "ab" into two tokens. *)
Definition ex_dict : dict :=
  {| d_chars := {| ct_default := k1_ci; ct_ranges := [] |};
     d_sys := [ {| lr_surface := [97]%N; lr_lid := 0; lr_rid := 0; lr_cost := 1; lr_feature := [] |} ];
     d_user := None;
     d_unk := [ {| ur_cate := 0; ur_lid := 0; ur_rid := 0; ur_cost := 5; ur_feature := [] |} ];
     d_conn := [[0%Z]] |}.
Example c01_example : exists ts L eos,
  tokenize_fresh ex_dict {| o_space := None; o_mgl := None |} [97; 98]%N = Done (ts, L, eos) /\ length ts = 2%nat.
Proof. eexists; eexists; eexists. split; vm_compute; reflexivity. Qed.

(** Non-vacuity of [c01_total]: the dictionary above is well-formed for "ab" with B = 100. *)
Example c01_wf_example : wf ex_dict 100 [97; 98]%N.
Proof.
  constructor.
  - lia.
  - intros r l. unfold conn_of, ex_dict; cbn [d_conn]. destruct (N.to_nat r) as [|[|?]]; destruct (N.to_nat l) as [|[|?]]; cbn; lia.
  - intros r [<-|[]]. cbn. lia.
  - intros u r H. discriminate.
  - intros u [<-|[]]. cbn. lia.
  - intros c _. eexists. split; [now left|]. reflexivity.
  - cbn. unfold MAXI32. lia.
Qed.

Check c01_partition.
Print Assumptions c01_partition.
Print Assumptions c01_ordered.
Print Assumptions c01_cover.
Print Assumptions c01_byte_offsets.
Print Assumptions c01_terminates.
Print Assumptions c01_empty.
Print Assumptions c01_no_panic_refuted.
Print Assumptions c01_total.
