(** C12 — With ignore_space, the amount of whitespace does not matter. *)
From Vib Require Import Model.Base Model.Lattice Model.Tokenizer Model.DictBuild Spec.CandSpec Proofs.Viterbi Proofs.TokenizerProofs
  Proofs.CountProofs Proofs.ScanInd Proofs.CandProofs Proofs.PartitionProofs Proofs.SpaceProofs
  Proofs.RespaceBase Proofs.RespaceProofs.

(** Under the property's precondition on the characters of the sentence ([space_sep]: space
    characters share a category with one another and with nobody else): *)

(** a space run is grouped as a whole: the skip covers exactly the maximal run of spaces *)
Theorem c12_run_of_spaces : forall o cis, space_sep o cis -> forall c t, cis = c :: t -> is_space o c = true ->
  run_at cis = count_while (is_space o) cis.
Proof. exact run_at_space. Qed.

(** words start at a non-space character (right after the skipped run) *)
Theorem c12_words_start_after_run : forall o ct cs sn sw, sent_space_sep o (compile ct cs) -> (sw < length cs)%nat ->
  word_start o (compile ct cs) sn sw -> is_space o (s_ci (compile ct cs) sw) = false.
Proof. exact word_start_nonspace. Qed.

(** space characters are skipped rather than tokenized: no stored word (hence no token)
    contains a space character, when no lexicon surface contains one *)
Theorem c12_no_space_in_words : forall d o cs L0 L eos,
  sent_space_sep o (compile (d_chars d) cs) -> lex_space_free d o ->
  build_lattice d o (compile (d_chars d) cs) L0 = Done (L, eos) ->
  all_nodes L (no_space_inside o (compile (d_chars d) cs)).
Proof. exact nodes_no_space. Qed.

(** a sentence of spaces only yields no tokens *)
Theorem c12_spaces_only : forall d o cs, cs <> [] ->
  sent_space_sep o (compile (d_chars d) cs) ->
  (forall i, (i < length cs)%nat -> is_space o (s_ci (compile (d_chars d) cs) i) = true) ->
  in_i32 (conn_of d 0%N 0%N) = true ->
  exists L eos, tokenize_fresh d o cs = Done ([], L, eos).
Proof. exact spaces_only_no_tokens. Qed.

(** ignore_space is rejected with an error when SPACE is undefined *)
Theorem c12_ignore_space_rejected : forall names, index_of SPACE_NAME names 0%N = None -> space_mask names = Err.
Proof. intros names H. unfold space_mask. now rewrite H. Qed.

(** THE INVARIANCE.  [dict_space_sep]: the space characters share a category with one another
    and with no other character (they belong to SPACE alone and nobody else does);
    [lex_space_free]: no lexicon surface contains a space character.  [respaced cs cs']: cs' is
    obtained from cs by any number of steps, each replacing one maximal run of space characters by
    another run of space characters -- of any non-zero length for an interior run, of any length
    including zero for a leading or trailing run (so leading and trailing runs are added or
    removed) -- neither sentence being empty.  Then whenever one sentence tokenizes, so does the
    other, and the token sequences agree in everything but the character and byte ranges
    ([strip]: surface, lexicon type, word id, feature, left and right connection ids, word cost
    and total cost -- the cost across the gap is therefore the same). *)
Theorem c12_invariance : forall d o cs cs', dict_space_sep d o -> lex_space_free d o -> respaced d o cs cs' ->
  (forall ts L eos, tokenize_fresh d o cs = Done (ts, L, eos) ->
     exists ts' L' eos', tokenize_fresh d o cs' = Done (ts', L', eos') /\ map strip ts' = map strip ts) /\
  (forall ts L eos, tokenize_fresh d o cs' = Done (ts, L, eos) ->
     exists ts' L' eos', tokenize_fresh d o cs = Done (ts', L', eos') /\ map strip ts' = map strip ts).
Proof. exact respaced_same_tokens. Qed.

(** and a re-spacing never turns a sentence that tokenizes into one that panics, or back *)
Theorem c12_same_outcome : forall d o cs cs', dict_space_sep d o -> lex_space_free d o -> respaced d o cs cs' ->
  (tokenize_fresh d o cs = Panicked <-> tokenize_fresh d o cs' = Panicked).
Proof. exact respaced_same_outcome. Qed.

(** the single-run statement the proof is built from: the loops of the two sentences simulate
    each other position by position (positions before the run unchanged, positions after it
    shifted, the run itself crossed without effect) *)
Theorem c12_one_run : forall d o P R R' Q,
  space_sep o (map (char_info (d_chars d)) (P ++ R ++ Q)) -> space_sep o (map (char_info (d_chars d)) (P ++ R' ++ Q)) ->
  (forall c, In c R -> is_space o (char_info (d_chars d) c) = true) ->
  (forall c, In c R' -> is_space o (char_info (d_chars d) c) = true) ->
  (forall P0 c, P = P0 ++ [c] -> is_space o (char_info (d_chars d) c) = false) ->
  (forall c Q0, Q = c :: Q0 -> is_space o (char_info (d_chars d) c) = false) ->
  (P <> [] -> Q <> [] -> R <> []) -> (P <> [] -> Q <> [] -> R' <> []) -> lex_space_free d o ->
  forall ts L eos, P ++ R ++ Q <> [] -> P ++ R' ++ Q <> [] ->
  tokenize_fresh d o (P ++ R ++ Q) = Done (ts, L, eos) ->
  exists ts' L' eos', tokenize_fresh d o (P ++ R' ++ Q) = Done (ts', L', eos') /\ map strip ts' = map strip ts.
Proof. exact respace_tokens. Qed.

(** Non-vacuity: a dictionary meeting the precondition, "ab c" re-spaced to "  ab   c " in three
    steps (leading run added, interior run lengthened, trailing run added), and both tokenize. *)
Definition ex12_sp : cinfo := {| ci_cates := 1; ci_base := 0; ci_invoke := false; ci_group := true; ci_length := 0 |}.
Definition ex12_df : cinfo := {| ci_cates := 2; ci_base := 1; ci_invoke := false; ci_group := false; ci_length := 1 |}.
Definition ex12_dict : dict :=
  {| d_chars := {| ct_default := ex12_df; ct_ranges := [(32%N, 33%N, ex12_sp)] |};
     d_sys := [ {| lr_surface := [97; 98]%N; lr_lid := 0; lr_rid := 0; lr_cost := 1; lr_feature := [65]%N |};
                {| lr_surface := [99]%N; lr_lid := 0; lr_rid := 0; lr_cost := 2; lr_feature := [66]%N |} ];
     d_user := None;
     d_unk := [ {| ur_cate := 0; ur_lid := 0; ur_rid := 0; ur_cost := 9; ur_feature := [] |};
                {| ur_cate := 1; ur_lid := 0; ur_rid := 0; ur_cost := 9; ur_feature := [] |} ];
     d_conn := [[3%Z]] |}.
Definition ex12_opts : options := {| o_space := Some 1%N; o_mgl := None |}.

Lemma ex12_ci c : char_info (d_chars ex12_dict) c = ex12_sp \/ char_info (d_chars ex12_dict) c = ex12_df.
Proof.
  unfold char_info. cbn [d_chars ex12_dict ct_ranges ct_default lookup_ranges].
  destruct ((32 <=? _)%N && (_ <? 33)%N); auto.
Qed.

Ltac ex12_last := let P0 := fresh in let c := fresh in let E := fresh in
  intros P0 c E; apply (f_equal (fun l => last l 0%N)) in E; rewrite last_last in E; subst c; reflexivity.

Example c12_example :
  dict_space_sep ex12_dict ex12_opts /\ lex_space_free ex12_dict ex12_opts /\
  respaced ex12_dict ex12_opts [97; 98; 32; 99]%N [32; 32; 97; 98; 32; 32; 32; 99; 32]%N /\
  (exists ts L eos, tokenize_fresh ex12_dict ex12_opts [97; 98; 32; 99]%N = Done (ts, L, eos) /\
     map strip ts = [([97; 98]%N, 0%N, 0%N, [65]%N, 0%N, 0%N, 1%Z, 4%Z); ([99]%N, 0%N, 1%N, [66]%N, 0%N, 0%N, 2%Z, 9%Z)]).
Proof.
  split; [|split; [|split]].
  - intros c1 c2. cbn zeta. destruct (ex12_ci c1) as [->| ->], (ex12_ci c2) as [->| ->]; vm_compute; split; intros; try split; congruence.
  - intros rw [Hr|(u & Hu & _)] c Hc; [|discriminate].
    destruct Hr as [<-|[<-|[]]]; cbn in Hc; repeat (destruct Hc as [<-|Hc]; [reflexivity|]); destruct Hc.
  - eapply (rs_step _ _ _ [32; 32; 97; 98; 32; 99]%N).
    { exists [], [], [32; 32]%N, [97; 98; 32; 99]%N. repeat split; try discriminate; try congruence.
      - intros c [].
      - intros c [<-|[<-|[]]]; reflexivity.
      - intros P0 c E. destruct P0; discriminate.
      - intros c Q0 E. inversion E; reflexivity. }
    eapply (rs_step _ _ _ [32; 32; 97; 98; 32; 32; 32; 99]%N).
    { exists [32; 32; 97; 98]%N, [32]%N, [32; 32; 32]%N, [99]%N. repeat split; try discriminate.
      - intros c [<-|[]]; reflexivity.
      - intros c [<-|[<-|[<-|[]]]]; reflexivity.
      - ex12_last.
      - intros c Q0 E. inversion E; reflexivity. }
    eapply (rs_step _ _ _ [32; 32; 97; 98; 32; 32; 32; 99; 32]%N).
    { exists [32; 32; 97; 98; 32; 32; 32; 99]%N, [], [32]%N, []. repeat split; try discriminate; try congruence.
      - intros c [].
      - intros c [<-|[]]; reflexivity.
      - ex12_last. }
    apply rs_refl.
  - vm_compute. eexists; eexists; eexists. split; reflexivity.
Qed.

Check c12_no_space_in_words.
Print Assumptions c12_run_of_spaces.
Print Assumptions c12_words_start_after_run.
Print Assumptions c12_no_space_in_words.
Print Assumptions c12_spaces_only.
Print Assumptions c12_ignore_space_rejected.
Print Assumptions c12_invariance.
Print Assumptions c12_same_outcome.
Print Assumptions c12_one_run.
