(** C12 — With ignore_space, the amount of whitespace does not matter (PARTIAL, see below). *)
From Vib Require Import Model.Base Model.Lattice Model.Tokenizer Model.DictBuild Spec.CandSpec Proofs.Viterbi Proofs.TokenizerProofs
  Proofs.CountProofs Proofs.ScanInd Proofs.CandProofs Proofs.PartitionProofs Proofs.SpaceProofs.

(** Under the property's precondition on the characters of the sentence ([space_sep]: space
    characters share a category with one another and with nobody else): *)

(** a space run is grouped as a whole: the skip covers exactly the maximal run of spaces *)
Theorem c12_run_of_spaces : forall o cis, space_sep o cis -> forall c t, cis = c :: t -> is_space o c = true ->
  run_at cis = count_while (is_space o) cis.
Proof. exact run_at_space. Qed.

(** words start at a non-space character (right after the skipped run) *)
Theorem c12_words_start_after_run : forall o ct cs sn sw, sent_space_sep o (compile ct cs) -> (sw < length cs)%nat ->
  word_start o (compile ct cs) sn sw -> is_space o (s_ci (compile ct cs) sw) = false.
Proof. exact word_start_nonspace. Qed.

(** space characters are skipped rather than tokenized: no stored word (hence no token)
    contains a space character, when no lexicon surface contains one *)
Theorem c12_no_space_in_words : forall d o cs L0 L eos,
  sent_space_sep o (compile (d_chars d) cs) -> lex_space_free d o ->
  build_lattice d o (compile (d_chars d) cs) L0 = Done (L, eos) ->
  all_nodes L (no_space_inside o (compile (d_chars d) cs)).
Proof. exact nodes_no_space. Qed.

(** a sentence of spaces only yields no tokens *)
Theorem c12_spaces_only : forall d o cs, cs <> [] ->
  sent_space_sep o (compile (d_chars d) cs) ->
  (forall i, (i < length cs)%nat -> is_space o (s_ci (compile (d_chars d) cs) i) = true) ->
  in_i32 (conn_of d 0%N 0%N) = true ->
  exists L eos, tokenize_fresh d o cs = Done ([], L, eos).
Proof. exact spaces_only_no_tokens. Qed.

(** ignore_space is rejected with an error when SPACE is undefined *)
Theorem c12_ignore_space_rejected : forall names, index_of SPACE_NAME names 0%N = None -> space_mask names = Err.
Proof. intros names H. unfold space_mask. now rewrite H. Qed.

(** NOT proved (the full statement, kept visible):
      c12_invariance : space_pre d o -> segments d s = segments d s' ->
                       strip_ranges (tokenize d o s) = strip_ranges (tokenize d o s')
    It needs a simulation between the scans of two re-spaced sentences (DESIGN.md section 5, C12).
    The invariance itself is decided on the implementation by the metamorphic oracle of
    Check/C12Check.v and on the model through the correspondence. *)

Check c12_no_space_in_words.
Print Assumptions c12_run_of_spaces.
Print Assumptions c12_words_start_after_run.
Print Assumptions c12_no_space_in_words.
Print Assumptions c12_spaces_only.
Print Assumptions c12_ignore_space_rejected.
