(** C15 — A trained model round-trips through write_model/read_model (PARTIAL). *)
From Coq Require Import List.
From Vib Require Import Proofs.TrainProofs Model.Base Model.Codec Model.DictImage Model.TrainImage Proofs.CodecProofs Proofs.ImageProofs Proofs.TrainImageProofs.

(** The merged model kept inside [Model] is a cache of merge(raw model); every operation that
    changes the raw model (reading a user lexicon) or rebuilds the object (write/read) clears it.
    Hence after ANY history of {generate, read_user_lexicon, write/read} a generation emits the
    files of the cache-free reference, and generating twice gives the same files.  (raw model,
    merge and the file emitter are abstract: rucrf's merge is an external function.) *)
Theorem c15_history_cache_ok : forall (raw merged files : Type) (merge : raw -> merged)
  (emit : raw -> merged -> files) (add_user : raw -> raw) (s : mstate raw merged) (ops : list mop),
  cache_ok raw merged merge s -> cache_ok raw merged merge (mrun raw merged files merge emit add_user s ops).
Proof. exact history_cache_ok. Qed.

Theorem c15_generate_reference : forall raw merged files (merge : raw -> merged) (emit : raw -> merged -> files) (add_user : raw -> raw) s,
  cache_ok raw merged merge s ->
  snd (mstep raw merged files merge emit add_user s (Generate)) = Some (emit (st_raw raw merged s) (merge (st_raw raw merged s))).
Proof. exact generate_uses_fresh_merge. Qed.

Theorem c15_generate_twice : forall raw merged files (merge : raw -> merged) (emit : raw -> merged -> files) (add_user : raw -> raw) s,
  cache_ok raw merged merge s ->
  snd (mstep raw merged files merge emit add_user (fst (mstep raw merged files merge emit add_user s Generate)) Generate)
  = snd (mstep raw merged files merge emit add_user s Generate).
Proof. exact generate_twice. Qed.

(** ** the model file itself: bincode(ModelData { config: TrainerConfig, raw_model }) -- our part of the codec
    ([config_c]: feature extractor with its three id tables, next ids and parsed templates; the three rewriter
    tries; the whole dictionary; the surfaces), composed from the combinators whose laws C05 / C09 use.
    rucrf's raw model follows as opaque bytes.  [config_dom] bounds lengths by 2^64 and field values by their
    integer widths (ids non-zero, enum tags in range). *)
(** reading a written model returns the configuration itself and hands rucrf exactly the bytes rucrf wrote *)
Theorem c15_model_read_write : forall cfg raw, config_dom cfg ->
  read_model config_c (write_model config_c cfg raw) = Some (cfg, raw).
Proof. exact model_read_write. Qed.
(** a file cut anywhere inside the configuration is rejected *)
Theorem c15_model_truncated : forall cfg p, config_dom cfg -> strict_prefix p (enc config_c cfg) -> read_model config_c p = None.
Proof. exact model_truncated. Qed.
(** writing what was read back reproduces the file *)
Theorem c15_model_rewrite_same : forall cfg cfg' raw raw', config_dom cfg ->
  read_model config_c (write_model config_c cfg raw) = Some (cfg', raw') -> write_model config_c cfg' raw' = write_model config_c cfg raw.
Proof. exact model_rewrite_same. Qed.

Print Assumptions c15_history_cache_ok.
Print Assumptions c15_generate_reference.
Print Assumptions c15_generate_twice.
Print Assumptions c15_model_read_write.
Print Assumptions c15_model_truncated.
Print Assumptions c15_model_rewrite_same.
