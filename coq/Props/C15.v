(** C15 — A trained model round-trips through write_model/read_model (PARTIAL). *)
From Coq Require Import List.
From Vib Require Import Proofs.TrainProofs.

(** The merged model kept inside [Model] is a cache of merge(raw model); every operation that
    changes the raw model (reading a user lexicon) or rebuilds the object (write/read) clears it.
    Hence after ANY history of {generate, read_user_lexicon, write/read} a generation emits the
    files of the cache-free reference, and generating twice gives the same files.  (raw model,
    merge and the file emitter are abstract: rucrf's merge is an external function.) *)
Theorem c15_history_cache_ok : forall (raw merged files : Type) (merge : raw -> merged)
  (emit : raw -> merged -> files) (add_user : raw -> raw) (s : mstate raw merged) (ops : list mop),
  cache_ok raw merged merge s -> cache_ok raw merged merge (mrun raw merged files merge emit add_user s ops).
Proof. exact history_cache_ok. Qed.

Theorem c15_generate_reference : forall raw merged files (merge : raw -> merged) (emit : raw -> merged -> files) (add_user : raw -> raw) s,
  cache_ok raw merged merge s ->
  snd (mstep raw merged files merge emit add_user s (Generate)) = Some (emit (st_raw raw merged s) (merge (st_raw raw merged s))).
Proof. exact generate_uses_fresh_merge. Qed.

Theorem c15_generate_twice : forall raw merged files (merge : raw -> merged) (emit : raw -> merged -> files) (add_user : raw -> raw) s,
  cache_ok raw merged merge s ->
  snd (mstep raw merged files merge emit add_user (fst (mstep raw merged files merge emit add_user s Generate)) Generate)
  = snd (mstep raw merged files merge emit add_user s Generate).
Proof. exact generate_twice. Qed.

Print Assumptions c15_history_cache_ok.
Print Assumptions c15_generate_reference.
Print Assumptions c15_generate_twice.
