(** C04 — A worker's result depends only on dictionary, options and sentence. *)
From Vib Require Import Model.Base Model.Lattice Model.Tokenizer Proofs.Viterbi Proofs.TokenizerProofs Proofs.WorkerProofs.

(** For EVERY worker state [w1], [w2] (not only reachable ones): resetting to [cs] and
    tokenizing gives the same outcome and the same token nodes. *)
Theorem c04_state_independent : forall d o w1 w2 cs,
  orel tok_rel (tokenize d o (reset_sentence d w1 cs)) (tokenize d o (reset_sentence d w2 cs)).
Proof. exact tokenize_reset_indep. Qed.

(** Histories: after any sequence [h] of reset_sentence / tokenize operations, resetting to
    [cs] and calling tokenize once or repeatedly ([S k] times) reports exactly the tokens of a
    fresh worker (same outcome, same tokens through every accessor of token.rs). *)
Theorem c04_history : forall d o h wh cs k,
  wrun d o (Done new_worker) h = Done wh ->
  out_tokens d (wrun d o (Done wh) (OReset cs :: repeat OTokenize (S k)))
  = out_tokens d (tokenize d o (reset_sentence d new_worker cs)).
Proof. exact history_independent. Qed.

(** tokenize invoked again for the same sentence does not change the reported tokens *)
Theorem c04_idempotent : forall d o w w',
  tokenize d o w = Done w' -> exists w'', tokenize d o w' = Done w'' /\ tok_rel w' w''.
Proof. exact tokenize_twice. Qed.

(** Workers of one tokenizer share no mutable component: under any interleaving [sched] of the
    operations of a family of workers, worker [i] ends in the state its own operations produce.
    (What the model cannot exhibit: real thread schedules and memory effects; the harness checks
    [Tokenizer: Send + Sync] at compile time and runs threads, see DESIGN.md.) *)
Theorem c04_interleave : forall d o sched (P : pool) i,
  fold_left (pstep d o) sched P i
  = wrun d o (P i) (map snd (filter (fun x => Nat.eqb i (fst x)) sched)).
Proof. exact interleave_projection. Qed.

(** Non-vacuity: a worker that processed "ab" then is reset to "a" reports one token, as a fresh one does. *)
Definition ex_ci : cinfo := {| ci_cates := 1; ci_base := 0; ci_invoke := false; ci_group := false; ci_length := 1 |}.
Definition ex_dict : dict :=
  {| d_chars := {| ct_default := ex_ci; ct_ranges := [] |};
     d_sys := [ {| lr_surface := [97;98]%N; lr_lid := 1; lr_rid := 1; lr_cost := 10; lr_feature := [] |};
                {| lr_surface := [97]%N; lr_lid := 1; lr_rid := 1; lr_cost := 2; lr_feature := [] |} ];
     d_user := None;
     d_unk := [ {| ur_cate := 0; ur_lid := 0; ur_rid := 0; ur_cost := 100; ur_feature := [] |} ];
     d_conn := [[0; 1]; [1; 1]]%Z |}.
Definition ex_opts : options := {| o_space := None; o_mgl := None |}.
Example c04_example :
  exists wh ts, wrun ex_dict ex_opts (Done new_worker) [OReset [97;98]%N; OTokenize] = Done wh /\
    out_tokens ex_dict (wrun ex_dict ex_opts (Done wh) [OReset [97]%N; OTokenize; OTokenize]) = Done (Some ts) /\
    length ts = 1%nat.
Proof. eexists; eexists. split; [vm_compute; reflexivity|]. split; vm_compute; reflexivity. Qed.

Check c04_history.
Print Assumptions c04_state_independent.
Print Assumptions c04_history.
Print Assumptions c04_idempotent.
Print Assumptions c04_interleave.
