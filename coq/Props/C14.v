(** C14 — Generated dictionary files are the exact image of the trained model (PARTIAL). *)
From Coq Require Import QArith Qabs ZArith.
From Vib Require Import Proofs.TrainProofs.

(** cost w = trunc(-w x scale): a higher model score gives a lower (or equal) cost *)
Theorem c14_cost_antitone : forall scale w1 w2, 0 < scale -> w1 <= w2 -> (cost scale w2 <= cost scale w1)%Z.
Proof. exact cost_antitone. Qed.
(** with scale = 32767 / largest absolute weight every cost fits 16 bits *)
Theorem c14_cost_in_i16 : forall maxabs w, 0 < maxabs -> Qabs w <= maxabs ->
  (-32767 <= cost ((32767 # 1) / maxabs) w <= 32767)%Z.
Proof. exact cost_in_i16. Qed.
(** truncation toward zero is monotone and off by less than one *)
Theorem c14_trunc_mono : forall a b, a <= b -> (qtrunc a <= qtrunc b)%Z.
Proof. exact qtrunc_mono. Qed.

Example c14_example : cost ((32767 # 1) / (5 # 2)) (-(5 # 2)) = 32767%Z /\ cost ((32767 # 1) / (5 # 2)) (1 # 2) = (-6553)%Z.
Proof. vm_compute. auto. Qed.

Print Assumptions c14_cost_antitone.
Print Assumptions c14_cost_in_i16.
Print Assumptions c14_trunc_mono.
