(** C14 — Generated dictionary files are the exact image of the trained model (PARTIAL). *)
From Coq Require Import QArith Qabs ZArith Reals List.
From Flocq Require Import Core IEEE754.BinarySingleNaN.
From Vib Require Import Proofs.TrainProofs Model.Float Proofs.FloatProofs Model.Base Model.LexCsv Model.DictGen Proofs.LexCsvProofs Proofs.LexCsvLayout Proofs.DictGenProofs Model.DefText.
Import ListNotations.

(** cost w = trunc(-w x scale): a higher model score gives a lower (or equal) cost *)
Theorem c14_cost_antitone : forall scale w1 w2, 0 < scale -> w1 <= w2 -> (cost scale w2 <= cost scale w1)%Z.
Proof. exact cost_antitone. Qed.
(** with scale = 32767 / largest absolute weight every cost fits 16 bits *)
Theorem c14_cost_in_i16 : forall maxabs w, 0 < maxabs -> Qabs w <= maxabs ->
  (-32767 <= cost ((32767 # 1) / maxabs) w <= 32767)%Z.
Proof. exact cost_in_i16. Qed.
(** truncation toward zero is monotone and off by less than one *)
Theorem c14_trunc_mono : forall a b, a <= b -> (qtrunc a <= qtrunc b)%Z.
Proof. exact qtrunc_mono. Qed.

(** ** the same statements about the binary64 computation the code performs
    ([f64_cost sc w] = [((-w) * sc) as i16], [f64_scale ws] = [32767.0 / max |w|], Flocq's IEEE-754 operations;
    the check of every run evaluates exactly these functions against the emitted files) *)
(** the cost is the saturated truncation of the correctly rounded product of the real numbers the floats denote *)
Theorem c14_f64_cost_real : forall sc w : f64, is_finite sc = true -> is_finite w = true ->
  f64_cost sc w = clampZ (-32768) 32767 (Ztrunc (rnd64 (- B2R w * B2R sc)%R)).
Proof. exact f64_cost_real. Qed.
(** with the scale the writers compute from ANY list of finite weights (finite, or +infinity when every weight is
    zero or 32767 / max overflows), a larger weight never gets a larger cost *)
Theorem c14_f64_costs_antitone : forall (ws : list f64) (w1 w2 : f64), Forall (fun w => is_finite w = true) ws ->
  is_finite w1 = true -> is_finite w2 = true -> (B2R w1 <= B2R w2)%R ->
  (f64_cost (f64_scale ws) w2 <= f64_cost (f64_scale ws) w1)%Z.
Proof. exact f64_costs_antitone. Qed.
(** every cost fits 16 bits, whatever the operands (NaN and infinities included) *)
Theorem c14_f64_cost_i16 : forall sc w : f64, (-32768 <= f64_cost sc w <= 32767)%Z.
Proof. exact f64_cost_i16. Qed.

(** ** the writer itself (Model/DictGen.v: write_dictionary produces lex.csv, unk.def, matrix.def and user.csv as
    bytes from the seed definition files and the merged model; the check of every run requires the four real files
    to equal the model's byte for byte).
    Whenever the seed lexicon text reads as the rows [rows] (any layout of the CSV dialect: quoted surfaces,
    feature cells plain or quoted) with non-empty surfaces, the merged ids fit 16 bits and the writer succeeds,
    the emitted lex.csv -- read back by the lexicon parser the dictionary builder uses -- is exactly one word
    per seed row, in order, with the seed's surface and feature bytes and the merged model's left id, right id and
    scaled cost [f64_cost scale weight] (composition of the layout theorem of C11 with the decimal rendering). *)
Theorem c14_written_lexicon : forall chardef lex unk user m f rows,
  parse_lex_csv lex = Ok (map lentry rows) ->
  Forall seed_ok rows -> Forall (fun r => s_surface (l_head r) <> []) rows -> Forall ids_ok (mg_sets m) ->
  write_dictionary chardef lex unk user m = Ok f ->
  parse_lex_csv (gf_lex f) = Ok (map (emitted_entry (mg_scale m)) (combine rows (mg_sets m)))
  /\ length (combine rows (mg_sets m)) = length rows.
Proof. exact written_lexicon. Qed.

(** user.csv of the same writer model: every user row comes back with its surface and feature bytes; its parameters
    ([user_params]) are the merged model's for its label exactly when the row was given as 0,0,0, and otherwise the
    row's own left id, right id and cost (re-rendered in canonical decimal, the same numbers) *)
Theorem c14_user_rows : forall sc sets rows labels txt,
  Forall lrow_ok rows -> Forall (fun r => s_surface (l_head r) <> []) rows -> Forall ids_ok sets ->
  gen_user sc sets (map lentry rows) labels = Ok txt ->
  exists ps, Forall2 (fun rl p => user_params sc sets (lentry (fst rl)) (snd rl) = Some p) (combine rows labels) ps /\
             length ps = length rows /\
             parse_lex_csv txt = Ok (map user_entry (combine rows ps)).
Proof. exact user_roundtrip. Qed.
Theorem c14_user_params_meaning : forall sc sets e lb w l r, nth_error sets (N.to_nat (lb - 1)) = Some (w, l, r) ->
  user_params sc sets e lb = Some (if is_zero3 e then (l, r, f64_cost sc (f64_of_bits w)) else (le_lid e, le_rid e, le_cost e)).
Proof. intros sc sets e lb w l r H. unfold user_params. rewrite H. now destruct (is_zero3 e). Qed.

(** unk.def of the same writer model: the rows of the seed unk.def in the stored order (grouped by category, [unk_stored])
    come back with their category name, feature bytes and the merged parameters of their labels (category names hold no
    comma, quote or line break) *)
Theorem c14_unk_rows : forall sc rows sets txt,
  Forall seed_ok rows -> Forall (fun r => s_surface (l_head r) <> []) rows ->
  Forall (fun r => needs_quote (s_surface (l_head r)) = false) rows -> Forall ids_ok sets ->
  gen_rows sc (fun e => le_surface e) (map lentry rows) sets = Ok txt ->
  parse_lex_csv txt = Ok (map (emitted_entry sc) (combine rows sets)) /\ length (combine rows sets) = length rows.
Proof. exact unk_roundtrip. Qed.

(** matrix.def of the same writer model: whenever the dimensions fit 16 bits and every merged matrix entry lies inside
    them, the emitted text is accepted by the matrix.def reader (Model/DefText.v, the model compared with the real reader
    in C10) and yields the matrix whose cells are the scaled costs [f64_cost scale weight] of the merged entries (all other
    cells 0) -- header, one line per entry in (right id, left id) order *)
Theorem c14_written_matrix : forall sc m,
  (fst (mg_dims m) <= 65535)%N -> (snd (mg_dims m) <= 65535)%N ->
  Forall (fun e => (fst (fst e) < fst (mg_dims m))%N /\ (snd (fst e) < snd (mg_dims m))%N) (mg_matrix m) ->
  parse_matrix_text (gen_matrix sc m) =
  Ok (apply_entries sc (fold_right insert_rl [] (mg_matrix m))
        (repeat (repeat 0%Z (N.to_nat (snd (mg_dims m)))) (N.to_nat (fst (mg_dims m))))).
Proof. exact matrix_roundtrip. Qed.

Example c14_f64_example :
  let ws := map f64_of_bits [4612811918334230528; 13826050856027422720; 0]%Z in   (* 2.5, -0.5, 0.0 *)
  map (f64_cost (f64_scale ws)) ws = [-32767; 6553; 0]%Z.
Proof. vm_compute. reflexivity. Qed.

Example c14_example : cost ((32767 # 1) / (5 # 2)) (-(5 # 2)) = 32767%Z /\ cost ((32767 # 1) / (5 # 2)) (1 # 2) = (-6553)%Z.
Proof. vm_compute. auto. Qed.

Print Assumptions c14_cost_antitone.
Print Assumptions c14_cost_in_i16.
Print Assumptions c14_trunc_mono.
Print Assumptions c14_f64_cost_real.
Print Assumptions c14_f64_costs_antitone.
Print Assumptions c14_f64_cost_i16.
Print Assumptions c14_written_lexicon.
Print Assumptions c14_user_rows.
Print Assumptions c14_user_params_meaning.
Print Assumptions c14_unk_rows.
Print Assumptions c14_written_matrix.
