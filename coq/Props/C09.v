(** C09 — Truncated or foreign dictionary images are rejected. *)
From Vib Require Import Model.Base Model.Codec Model.DictImage Gen.Constants Proofs.CodecProofs Proofs.ImageProofs.

(** No strict prefix of a valid image is accepted: whichever byte offset writing stopped at, the
    decoder of the model fails (a fixed-width integer needs all its bytes, a length-prefixed
    sequence needs its prefix and then every element, composition by [prefix_split]). *)
Theorem c09_truncated_rejected : forall d p, inner_dom d ->
  strict_prefix p (fst (write_image inner_c d)) -> read_image inner_c p = None.
Proof. exact (read_truncated inner_c inner_dom inner_laws). Qed.

(** A stream that does not start with the current magic is rejected, whatever follows. *)
Theorem c09_foreign_rejected : forall bs, strip_magic MODEL_MAGIC bs = None -> read_image inner_c bs = None.
Proof. exact (read_foreign inner_c). Qed.

(** the generic statement for every combinator, used above *)
Theorem c09_no_strict_prefix_decodes : forall d p, inner_dom d -> strict_prefix p (enc inner_c d) -> dec inner_c p = None.
Proof. intros d p H. apply (law_cut _ _ inner_laws d p H). Qed.

(** Non-vacuity: a small well-formed image, and one of its prefixes. *)
Definition ex_lex : lexicon := ([1; 2]%N, ([1; 0]%N, ([(1, (2, 65535))]%N, ([[102]]%N, 0%N)))).
Definition ex_inner := (ex_lex, (@None lexicon, (@In1 matrix rawconn_img dualconn_img ([5]%N, (1, 1))%N,
                        (@None (list N * list N), (([7]%N, [[68]]%N), ([0; 1]%N, [(0, (0, (0, (3, [117]))))]%N)))))).
Example c09_example :
  read_image inner_c (fst (write_image inner_c ex_inner)) = Some (ex_inner, []) /\
  read_image inner_c (firstn 60 (fst (write_image inner_c ex_inner))) = None /\
  (60 < length (fst (write_image inner_c ex_inner)))%nat.
Proof. vm_compute. repeat split; reflexivity || lia. Qed.

Check c09_truncated_rejected.
Print Assumptions c09_truncated_rejected.
Print Assumptions c09_foreign_rejected.
Print Assumptions c09_no_strict_prefix_decodes.
