(** Specification of C17: the first registered matching rule applies. *)
From Vib Require Import Model.Base Model.Text Model.Rewriter.

(** position-wise prefix match; a pattern longer than the feature list does not match *)
Fixpoint matches (ps : list pattern) (fs : list str) : bool :=
  match ps, fs with
  | [], _ => true
  | p :: ps', f :: fs' => pmatch p f && matches ps' fs'
  | _ :: _, [] => false
  end.

Fixpoint first_match (rules : list rule) (fs : list str) : option (list str) :=
  match rules with
  | [] => None
  | (ps, r) :: rest => if matches ps fs then Some (apply_rw r fs) else first_match rest fs
  end.

Definition rewrite_spec (rules : list rule) (fs : list str) : list str :=
  match first_match rules fs with Some x => x | None => fs end.

(** Oracle evaluated on the implementation's observation: given the rewrite.def text, a
    feature list and what the implementation returned for the three rule sets. *)
Definition oracle_c17 (text : str) (fs : list str) (obs : list (option (list str))) : bool :=
  match parse_rewrite_def text with
  | Ok rs =>
      list_eqb (option_eqb (list_eqb str_eqb)) obs
        [first_match (rs_uni rs) fs; first_match (rs_left rs) fs; first_match (rs_right rs) fs]
  | _ => true
  end.
