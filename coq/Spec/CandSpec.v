(** Declarative specification of the candidate words (C03), written from the property
    statement and independent of the code-shaped model functions. *)
From Vib Require Import Model.Base Model.Lattice Model.Tokenizer.

(** ** character information: the last char.def range line covering the code point *)
Definition covers (c : N) (r : N * N * cinfo) : bool := ((fst (fst r) <=? c) && (c <? snd (fst r)))%N.
Definition cinfo_spec (ct : chartable) (c : N) : cinfo :=
  match find (covers c) (rev (ct_ranges ct)) with
  | Some r => snd r
  | None => ct_default ct
  end.

(** ** maximal run of characters in which neighbours share a category *)
Fixpoint run_at (cis : list cinfo) : nat :=
  match cis with
  | [] => 0
  | c :: t => match t with
              | [] => 1
              | c' :: _ => if share c c' then S (run_at t) else 1
              end
  end.

(** ** lengths of the unknown words starting at a position *)
Definition unk_lens_spec (ci : cinfo) (run : nat) (matched : bool) (mgl : option nat) : list nat :=
  if matched && negb (ci_invoke ci) then [] else
  let fits := match mgl with None => true | Some m => Nat.leb run (S m) end in
  let A := if ci_group ci && fits then [run] else [] in
  let B := filter (fun i => negb (ci_group ci && Nat.eqb i run)) (seq 1 (Nat.min (ci_length ci) run)) in
  let C := match A ++ B with [] => if matched then [] else [1] | _ => [] end in
  A ++ B ++ C.

(** ** lexicon entries whose surface is a non-empty prefix of the remaining text *)
Definition is_prefix_b (p s : list N) : bool := str_eqb p (firstn (length p) s) && Nat.leb (length p) (length s).
