(** Executable oracle for C02 on the implementation's own lattice dump: an independent
    forward recursion over boundaries computes, for every dumped candidate, the cheapest cost
    of a BOS-rooted sequence ending in it; the reported tokens must form a sequence of dumped
    candidates whose accumulated costs are the reported total costs, and the total including
    the connection to EOS must equal the optimum. *)
From Vib Require Import Model.Base Model.Lattice Model.Tokenizer.
Local Open Scope Z_scope.

Definition zmin_list (l : list Z) : option Z :=
  match l with
  | [] => None
  | x :: t => Some (fold_left Z.min t x)
  end.

(** one candidate as the oracle sees it: start_node, left id, right id, word cost *)
Definition ocand := (nat * N * N * Z)%type.

Definition best_of (conn : N -> N -> Z) (done : list (list (N * Z))) (c : ocand) : option Z :=
  let '(sn, lid, rid, wc) := c in
  option_map (fun m => m + wc) (zmin_list (map (fun rc => snd rc + conn (fst rc) lid) (nth sn done []))).

Fixpoint all_some_z (l : list (option (N * Z))) : option (list (N * Z)) :=
  match l with
  | [] => Some []
  | None :: _ => None
  | Some x :: t => match all_some_z t with Some r => Some (x :: r) | None => None end
  end.

(** boundaries in increasing order; [done] holds (right id, best cost) per processed boundary *)
Fixpoint dp (conn : N -> N -> Z) (ends : list (list ocand)) (done : list (list (N * Z)))
  : option (list (list (N * Z))) :=
  match ends with
  | [] => Some done
  | cs :: rest =>
      match all_some_z (map (fun c => option_map (fun b => (snd (fst c), b)) (best_of conn done c)) cs) with
      | None => None
      | Some row => dp conn rest (done ++ [row])
      end
  end.

Definition opt_cost (conn : N -> N -> Z) (ends : list (list ocand)) (eos_sn : nat) : option Z :=
  match dp conn ends [[(0%N, 0)]] with
  | None => None
  | Some done => zmin_list (map (fun rc => snd rc + conn (fst rc) 0%N) (nth eos_sn done []))
  end.

(** accumulated cost along a reported sequence (left id, right id, word cost, reported total) *)
Fixpoint totals_ok (conn : N -> N -> Z) (prev_rid : N) (acc : Z) (ts : list (N * N * Z * Z)) : option (N * Z) :=
  match ts with
  | [] => Some (prev_rid, acc)
  | (lid, rid, wc, total) :: rest =>
      let acc' := acc + conn prev_rid lid + wc in
      if acc' =? total then totals_ok conn rid acc' rest else None
  end.
