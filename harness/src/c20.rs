//! C20: MeCab model descriptions -> generate_bigram_info -> raw connector -> every connection cost.
use crate::util::*;
use std::collections::BTreeMap;
use std::io::Write;

#[derive(Clone)]
enum Piece { Lit(String), Idx(usize, bool) }

fn render_tpl(ps: &[Piece], k: char) -> String {
    ps.iter().map(|p| match p { Piece::Lit(s) => s.clone(), Piece::Idx(n, req) => format!("%{}{}[{}]", k, if *req { "?" } else { "" }, n) }).collect()
}
fn expand(ps: &[Piece], feats: &[String]) -> Option<String> {
    for p in ps { if let Piece::Idx(n, true) = p { if feats.get(*n).map_or("*", |s| s.as_str()) == "*" { return None; } } }
    Some(ps.iter().map(|p| match p { Piece::Lit(s) => s.clone(), Piece::Idx(n, _) => feats.get(*n).cloned().unwrap_or("*".into()) }).collect())
}

fn gen_tpl(rng: &mut Rng, tag: &str) -> Vec<Piece> {
    let mut ps = vec![];
    if rng.chance(1, 2) { ps.push(Piece::Lit(tag.to_string())); }
    let n = 1 + rng.below(2);
    for i in 0..n {
        if i > 0 { ps.push(Piece::Lit(if rng.chance(1, 6) { "#".into() } else { ",".into() })); } // '#' inside a template is text, not a comment
        ps.push(Piece::Idx(rng.below(4) as usize, rng.chance(1, 3)));
    }
    if rng.chance(1, 6) { ps.push(Piece::Lit("%x".into())); } // a '%' that is not a reference
    ps
}

pub fn run(seed: u64, n: usize, outdir: &str, _corpus: Option<&str>) -> std::io::Result<()> {
    let mut sh = Shards::new("C20", "From Vib Require Import Model.Base Model.Text Model.Scorer Model.Template Model.Mecab Check.C20Check.", "c20case", "c20_report");
    let mut dist: BTreeMap<String, usize> = BTreeMap::new();
    let mut samples = vec![];
    let mut master = Rng::new(seed ^ 0xC20);
    let pool = ["名詞", "動詞", "*", "a", "b", "一般", "x y", "\u{3000}", "b ", " c", "固有,地名", "q\"t", "a,"];
    for _ in 0..n {
        let sub = master.next();
        let mut rng = Rng(sub);
        let ntmax = if rng.chance(1, 3) { 10 } else { 5 };
        let nt = 1 + rng.below(ntmax) as usize;
        let tpls: Vec<(Vec<Piece>, Vec<Piece>)> = (0..nt).map(|p| (gen_tpl(&mut rng, &format!("B{}:", p)), gen_tpl(&mut rng, ""))).collect();
        let mut feature_def = String::from("# generated\nUNIGRAM U0:%F[0]\nUNIGRAM U1:%F[0],%F?[1]/%t\n");
        for (l, r) in &tpls { feature_def.push_str(&format!("BIGRAM {}/{}\n", render_tpl(l, 'L'), render_tpl(r, 'R'))); }
        let gen_table = |rng: &mut Rng| -> Vec<(u32, Vec<String>)> {
            let n = 2 + rng.below(4) as u32;
            let mut t: Vec<(u32, Vec<String>)> = vec![(0, vec!["BOS/EOS".into(), "*".into(), "*".into(), "*".into()])];
            for id in 1..n { t.push((id, (0..2 + rng.below(3)).map(|_| rng.pick(&pool[..]).to_string()).collect())); }
            t
        };
        let mut rdef = gen_table(&mut rng);
        let mut ldef = gen_table(&mut rng);
        // error stream
        let mut malformed_line = false;
        match rng.below(14) {
            0 => { let k = 1 + rng.below(rdef.len() as u64 - 1) as usize; if k + 1 < rdef.len() { rdef.remove(k); } } // gap
            1 => { ldef.remove(0); }                                              // no id 0
            2 => { rdef[0].1[0] = "名詞".into(); }                                  // id 0 not BOS/EOS
            3 => { malformed_line = true; }
            4 => { rng.shuffle(&mut ldef); }                                      // any order of lines
            _ => {}
        }
        // the feature columns of an id line are CSV cells: quoted when they hold ',' or '"' (and sometimes by choice)
        let mut qrng = Rng(sub ^ 0x51);
        let mut table_txt = |t: &Vec<(u32, Vec<String>)>, bad: bool| -> String {
            let mut cell = |c: &String| -> String {
                if c.contains(',') || c.contains('"') || qrng.chance(1, 8) { format!("\"{}\"", c.replace('"', "\"\"")) } else { c.clone() }
            };
            let mut s: String = t.iter().map(|(id, f)| format!("{} {}\n", id, f.iter().map(|c| cell(c)).collect::<Vec<_>>().join(","))).collect();
            if bad { s.push_str("x 名詞,*\n"); }
            s
        };
        let (rtxt, ltxt) = (table_txt(&rdef, malformed_line), table_txt(&ldef, false));
        // model.def
        let weights = ["2", "-3", "10", "0.5", "-1.25", "0", "0.0", "7.75", "-0.125", "100", "-41"];
        let mut lines: Vec<(String, String)> = vec![];
        for (l, r) in &tpls {
            for (_, fr) in &rdef { for (_, fl) in &ldef {
                if rng.chance(1, 2) { continue; }
                if let (Some(a), Some(b)) = (expand(l, fr), expand(r, fl)) {
                    if a.matches('/').count() > 1 || b.matches('/').count() > 1 { continue; }
                    lines.push((rng.pick(&weights[..]).to_string(), format!("{}/{}", a, b)));
                }
            } }
        }
        for _ in 0..rng.below(4) { lines.push((rng.pick(&weights[..]).to_string(), format!("{}/{}", rng.pick(&pool[..]), rng.pick(&pool[..])))); }
        rng.shuffle(&mut lines);
        // one line per feature text (the property speaks of THE line whose feature text is ...)
        let mut seen_txt = std::collections::BTreeSet::new();
        lines.retain(|(_, t)| seen_txt.insert(t.clone()));
        let mut model_def = String::from("cost-factor: 700\nbos-feature: BOS/EOS,*,*\n\n");
        for (w, t) in &lines { model_def.push_str(&format!("{}\t{}\n", w, t)); }
        model_def.push_str("0.5\tU0:名詞\n"); // a unigram line (no '/')
        let factor = *rng.pick(&[1i64, 8, 100, 700, 800]);
        let (mut br, mut bl, mut bc) = (vec![], vec![], vec![]);
        // each of the four files may come with CRLF line ends
        let dos = |rng: &mut Rng, t: &String| -> String { if rng.chance(1, 5) { t.replace('\n', "\r\n") } else { t.clone() } };
        let (fd, rt, lt, md) = (dos(&mut rng, &feature_def), dos(&mut rng, &rtxt), dos(&mut rng, &ltxt), dos(&mut rng, &model_def));
        let out = {
            let (br, bl, bc) = (&mut br, &mut bl, &mut bc);
            guarded(std::panic::AssertUnwindSafe(move || vibrato::mecab::generate_bigram_info(fd.as_bytes(), rt.as_bytes(), lt.as_bytes(), md.as_bytes(), factor as f64, br, bl, bc)))
        };
        let oc = match out { Outcome::Ok(_) => 0, Outcome::Err => 1, Outcome::Panic => 2 };
        let (conn_t, dims) = if oc == 0 {
            let (r, l, c) = (br.clone(), bl.clone(), bc.clone());
            let d = guarded(move || vibrato::SystemDictionaryBuilder::from_readers_with_bigram_info("a,0,0,1,w\n".as_bytes(), &r[..], &l[..], &c[..], "DEFAULT 0 1 0\n".as_bytes(), "DEFAULT,0,0,1,u\n".as_bytes(), false));
            let t = match &d {
                Outcome::Ok(d) => {
                    let (nr, nl) = d.verif_conn_dims();
                    let m: Vec<Vec<i32>> = (0..nr).map(|r| (0..nl).map(|l| d.verif_conn_cost(r as u16, l as u16)).collect()).collect();
                    format!("(Ok {})", clist(&m, |row| clist(row, |c| cz(*c as i64))))
                }
                Outcome::Err => "Err".to_string(),
                Outcome::Panic => "Panic".to_string(),
            };
            let rows = |b: &Vec<u8>| String::from_utf8_lossy(b).lines().count();
            (t, (rows(&br), rows(&bl)))
        } else { ("Err".to_string(), (0, 0)) };
        // the generated files themselves (for the correspondence with the model of generate_bigram_info)
        let files_t = if oc == 0 {
            let rows_t = |b: &Vec<u8>| -> String {
                let txt = String::from_utf8_lossy(b).to_string();
                let v: Vec<Vec<String>> = txt.lines().map(|l| l.split_once('\t').map_or(vec![], |x| x.1.split(',').map(|c| c.to_string()).collect())).collect();
                clist(&v, |r| clist(r, |x| cstr(x)))
            };
            let ids_ok = |b: &Vec<u8>| String::from_utf8_lossy(b).lines().enumerate().all(|(i, l)| l.split_once('\t').map_or(false, |x| x.0 == format!("{}", i + 1)));
            let costs: Vec<(String, String, i64)> = String::from_utf8_lossy(&bc).lines().filter_map(|l| {
                let (f, c) = l.split_once('\t')?; let (a, b) = f.split_once('/')?; Some((a.to_string(), b.to_string(), c.parse().ok()?))
            }).collect();
            let ncost = String::from_utf8_lossy(&bc).lines().count();
            if ids_ok(&br) && ids_ok(&bl) && ncost == costs.len() {
                format!("(Some ({}, {}, {}))", rows_t(&br), rows_t(&bl), clist(&costs, |(a, b, c)| format!("({}, {}, {})", cstr(a), cstr(b), cz(*c))))
            } else { "None".to_string() }
        } else { "None".to_string() };
        let wq = |w: &str| -> (i64, u32) {
            let neg = w.starts_with('-');
            let w2 = w.trim_start_matches('-');
            let (ip, fp) = match w2.split_once('.') { Some((a, b)) => (a, b), None => (w2, "") };
            let num: i64 = format!("{}{}", ip, fp).parse().unwrap();
            (if neg { -num } else { num }, fp.len() as u32)
        };
        let ctab = |t: &Vec<(u32, Vec<String>)>| clist(t, |(id, f)| format!("({}, {})", id, clist(f, |x| cstr(x))));
        let term = format!(
            "(Build_c20case (Build_mecab_in {} {} {} {} {}) {} {} ({}, {}) {})",
            clist(&tpls, |(l, r)| format!("({}, {})", cstr(&render_tpl(l, 'L')), cstr(&render_tpl(r, 'R')))),
            if malformed_line { "[(0, [[120]])]".to_string() /* a table that is not well-formed: forces the error expectation */ } else { ctab(&rdef) },
            ctab(&ldef),
            clist(&lines, |(w, t)| { let (n, e) = wq(w); format!("({}, {}, {})", cz(n), e, cstr(t)) }),
            cz(factor), oc, conn_t, dims.0, dims.1, files_t
        );
        *dist.entry(format!("outcome_{}", oc)).or_default() += 1;
        *dist.entry(format!("templates_{}", nt)).or_default() += 1;
        let human = format!("feature.def={} right-id.def={} left-id.def={} model.def={} cost_factor={}", json_str(&feature_def), json_str(&rtxt), json_str(&ltxt), json_str(&model_def), factor);
        if sh.push_h(format!("seed:{}", sub), term, human.clone()) && samples.len() < 2 { samples.push(format!("{{\"case\":{}}}", json_str(&human))); }
    }
    let shards = sh.write(outdir, 100)?;
    let mut meta = std::fs::File::create(format!("{}/meta.json", outdir))?;
    let d: Vec<String> = dist.iter().map(|(k, v)| format!("{}:{}", json_str(k), v)).collect();
    writeln!(meta, "{{\"cases\":{},\"duplicates\":{},\"shards\":{},\"distribution\":{{{}}},\"samples\":[{}]}}", sh.cases.len(), sh.duplicates, shards, d.join(","), samples.join(","))?;
    Ok(())
}
