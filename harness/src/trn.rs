//! C14 C15 C16 C18: tiny trainings; the generated dictionary files, the model round trip, the
//! bigram ("small") dictionary and the connection classes are observed.
use crate::util::*;
use std::collections::BTreeMap;
use std::io::Write;
use vibrato::trainer::{Corpus, Model, Trainer, TrainerConfig};

/// CSV row -> cells (csv dialect of the project: a cell starting with '"' is quoted, '""' = quote)
pub fn csv_cells(row: &str) -> Vec<String> {
    let mut out = vec![];
    let b: Vec<char> = row.chars().collect();
    let mut i = 0;
    loop {
        let mut cell = String::new();
        if i < b.len() && b[i] == '"' {
            i += 1;
            while i < b.len() {
                if b[i] == '"' {
                    if i + 1 < b.len() && b[i + 1] == '"' { cell.push('"'); i += 2; } else { i += 1; break; }
                } else { cell.push(b[i]); i += 1; }
            }
            while i < b.len() && b[i] != ',' { cell.push(b[i]); i += 1; }
        } else {
            while i < b.len() && b[i] != ',' { cell.push(b[i]); i += 1; }
        }
        out.push(cell);
        if i < b.len() && b[i] == ',' { i += 1; if i == b.len() { out.push(String::new()); break; } } else { break; }
    }
    out
}

/// lexicon / unk row -> (first cell unquoted, l, r, cost, raw feature)
fn split_row(line: &str) -> Option<(String, i64, i64, i64, String)> {
    let b: Vec<char> = line.chars().collect();
    let mut i = 0;
    let mut first = String::new();
    if !b.is_empty() && b[0] == '"' {
        i = 1;
        while i < b.len() {
            if b[i] == '"' { if i + 1 < b.len() && b[i + 1] == '"' { first.push('"'); i += 2; } else { i += 1; break; } } else { first.push(b[i]); i += 1; }
        }
    } else {
        while i < b.len() && b[i] != ',' { first.push(b[i]); i += 1; }
    }
    let rest: String = b[i..].iter().collect();
    let mut it = rest.strip_prefix(',')?.splitn(4, ',');
    let l = it.next()?.parse().ok()?;
    let r = it.next()?.parse().ok()?;
    let c = it.next()?.parse().ok()?;
    let f = it.next().unwrap_or("").to_string();
    Some((first, l, r, c, f))
}

fn quote(s: &str) -> String {
    if s.contains(',') || s.contains('"') { format!("\"{}\"", s.replace('"', "\"\"")) } else { s.to_string() }
}

struct Cfg { virtual_tokens: bool, bare_right: bool, lex: String, chardef: String, unk: String, feature_def: String, rewrite_def: String, corpus: String, user: String, bigrams: Vec<(String, String)>, k: usize }

fn gen_cfg(rng: &mut Rng, expose: bool) -> Cfg {
    let pos = ["名詞", "動詞", "助詞"];
    // cells with surrounding white space and a cell that is only U+3000 are features like any other
    let sub = ["一般", "*", "固有", "x,y", "\"q", "i\"j", " 一般", "固有 ", "\u{3000}"];
    let base = ["基", "*", "b2"];
    let read = ["ア", "イ", "*"];
    let surf = ["a", "b", "ab", "ba", "c", "猫", "犬", "走る", "bc", "a,b", "#猫", "#"];
    let feats = |rng: &mut Rng| -> String {
        let n = 2 + rng.below(3) as usize;
        let v = [quote(*rng.pick(&pos[..])), quote(*rng.pick(&sub[..])), quote(*rng.pick(&base[..])), quote(*rng.pick(&read[..]))];
        v[..n].join(",")
    };
    let nrows = 5 + rng.below(7) as usize;
    let rows: Vec<(String, String)> = (0..nrows).map(|_| (rng.pick(&surf[..]).to_string(), feats(rng))).collect();
    let mut rows = rows;
    // 1 configuration in 4: a seed row immediately followed by an identical copy (two rows, two words)
    if rng.chance(1, 4) { let k = rng.below(rows.len() as u64) as usize; let dup = rows[k].clone(); rows.insert(k, dup); }
    // 1 configuration in 30: a row with three feature columns of about 3000 bytes each (every cell below the 4096-byte
    // field buffer, an expansion over several columns far above 8192 bytes)
    let long_cols = rng.chance(1, 12);
    if long_cols {
        let col = |c: char| -> String { std::iter::repeat(c).take(2900 + 17).collect() };
        // (the middle column is made of three-byte characters after one or two ASCII letters: a 4096-byte chunk of the
        // expanded template then ends inside a character)
        let mid: String = format!("{}{}", if rng.chance(1, 2) { "m" } else { "mm" }, std::iter::repeat('あ').take(960).collect::<String>());
        rows.push(("長".to_string(), format!("名詞,{},{},{}", col('p'), mid, col('r'))));
    }
    // 1 configuration in 6: a seed row whose feature string is empty
    let empty_feature = rng.chance(1, 6);
    if empty_feature { rows.push(("ね".to_string(), String::new())); }
    if rng.chance(1, 25) {
        // a surface whose CSV-escaped form is longer than 4096 bytes (3900 letters and 150 double quotes)
        let long: String = (0..4050).map(|i| if i % 27 == 0 { '"' } else { 'a' }).collect();
        rows.push((long, feats(rng)));
    }
    let mut lex: String = rows.iter().map(|(s, f)| format!("{},0,0,0,{}\n", quote(s), f)).collect();
    // 1 configuration in 3: a word class that occurs only at the beginning of sentences (its right-context features
    // earn weights only against BOS), and a 0,0,0 user word of the same class
    let initial_only = !expose && rng.chance(1, 3);
    let initial_feat = format!("接続詞,{},*,{}", *rng.pick(&["一般", "固有"][..]), *rng.pick(&["ア", "イ"][..]));
    if initial_only { lex.push_str(&format!("ああ,0,0,0,{}\n", initial_feat)); }
    let chardef = "DEFAULT 0 1 0\nALPHA 1 1 0\nKANJI 0 0 2\n0x0061..0x007A ALPHA\n0x4E00..0x9FFF KANJI\n".to_string();
    let mut unk = String::new();
    for c in ["DEFAULT", "ALPHA", "KANJI"] { for _ in 0..1 + rng.below(2) { unk.push_str(&format!("{},0,0,0,{}\n", c, feats(rng))); } }
    // templates
    let k = match rng.below(4) { 0 => 8 + rng.below(3) as usize, 1 => 1, _ => 2 + rng.below(5) as usize };
    let mut bigrams = vec![];
    let bare_right = rng.chance(1, 10);
    // 1 configuration in 8 with more than 8 templates: the first eight left templates are optional references to one
    // column that is '*' for some rows (a whole leading 8-lane block without a feature, features only in later blocks)
    let lead_col: Option<u64> = if k > 8 && rng.chance(1, 2) { Some(1 + rng.below(3)) } else { None };
    for p in 0..k {
        let side = |rng: &mut Rng, c: char| -> String {
            if let (Some(col), true) = (lead_col, p < 8) { if c == 'L' || rng.chance(1, 2) { return format!("%{}?[{}]", c, col); } }
            let n = 1 + rng.below(2);
            (0..n).map(|_| format!("%{}{}[{}]", c, if rng.chance(1, 4) { "?" } else { "" }, if rng.chance(1, 12) { 10 + rng.below(3) } else { rng.below(4) })).collect::<Vec<_>>().join(",")
        };
        // a literal tag on both sides keeps every expansion different from the file format's
        // markers '*' and ''; 1 case in 10 omits the right tag (known-finding class K3)
        let rtag = if bare_right { String::new() } else { format!("r{}:", p) };
        // a literal '#' inside a template (left or right part) in 1 template of 5
        let (hl, hr) = match rng.below(10) { 0 => ("#", ""), 1 => ("", "#"), _ => ("", "") };
        let rtag = if rtag.is_empty() { rtag } else { format!("r{}{}:", hr, p) };
        bigrams.push((format!("B{}{}:{}", hl, p, side(rng, 'L')), format!("{}{}", rtag, side(rng, 'R'))));
    }
    if long_cols { bigrams.push(("BL:%L[0],%L[1],%L[2],%L[3]".to_string(), "rL:%R[0],%R[1],%R[2],%R[3]".to_string())); }
    let k = bigrams.len();
    // C17's stream: four templates that expose the columns of the left- and right-rewritten features one by one
    let (bigrams, k, bare_right) = if expose {
        ((0..4).map(|p| (format!("L{}:%L[{}]", p, p), format!("R{}:%R[{}]", p, p))).collect::<Vec<_>>(), 4usize, false)
    } else { (bigrams, k, bare_right) };
    let mut feature_def = String::from("UNIGRAM U0:%F[0]\nUNIGRAM U1:%F[0],%F?[1]\nUNIGRAM U2:%t\nUNIGRAM U3:%F?[3]\n");
    for (l, r) in &bigrams { feature_def.push_str(&format!("BIGRAM {}/{}\n", l, r)); }
    // rewrite rules: the left and the right side treat rows differently
    let rule = |rng: &mut Rng| -> String {
        if rng.chance(1, 10) { let k = 1 + rng.below(4) as usize; return format!("{} {}\n", vec!["*"; k].join(","), (1..=k).map(|i| format!("${}", i)).collect::<Vec<_>>().join(",")); }
        // (U+3000 and U+00A0 are not separators of a rule line: only ASCII white space is)
        let pat = [*rng.pick(&["名詞", "*", "(名詞|動詞)", "助詞"][..]), *rng.pick(&["*", "固有", "一般", "\u{3000}", " 一般".trim_start(), "(\u{3000}|固有)"][..]), "*", "*"];
        let out = [*rng.pick(&["$1", "体言", "$1"][..]), *rng.pick(&["$2", "*", "$2", "空\u{a0}白"][..]), *rng.pick(&["$3", "*"][..]), *rng.pick(&["$4", "*"][..])];
        let n = 2 + rng.below(3) as usize;
        format!("{} {}\n", pat[..n].join(","), out.join(","))
    };
    // 1 section in 3 starts with a long rule, a shorter rule that is a prefix of it, and a second long rule sharing that
    // prefix (first-match order must follow the file, not the shape of the rule trie)
    let triple = |rng: &mut Rng| -> String {
        if !rng.chance(1, 3) { return String::new(); }
        let p0 = *rng.pick(&["名詞", "動詞"][..]);
        let q0 = *rng.pick(&["固有", "一般"][..]);
        format!("{p},{q},基,* {p},甲,$3,$4\n{p} $1,乙,*,*\n{p},{q},* {p},丙,$3,$4\n{p},* 丁,$2,*,*\n", p = p0, q = q0)
    };
    let mut rewrite_def = String::from("[unigram rewrite]\n");
    rewrite_def.push_str(&triple(rng));
    for _ in 0..rng.below(3) { rewrite_def.push_str(&rule(rng)); }
    rewrite_def.push_str("[left rewrite]\n");
    rewrite_def.push_str(&triple(rng));
    for _ in 0..rng.below(4) { rewrite_def.push_str(&rule(rng)); }
    rewrite_def.push_str("[right rewrite]\n");
    rewrite_def.push_str(&triple(rng));
    for _ in 0..rng.below(4) { rewrite_def.push_str(&rule(rng)); }
    // corpus of lexicon words
    let mut corpus = String::new();
    for si in 0..3 + rng.below(4) {
        if initial_only && si < 2 { corpus.push_str(&format!("ああ\t{}\n", initial_feat)); }
        for _ in 0..2 + rng.below(4) { let (s, f) = rng.pick(&rows); corpus.push_str(&format!("{}\t{}\n", s, f)); }
        corpus.push_str("EOS\n");
    }
    // 1 configuration in 3: the corpus also holds tokens that are neither lexicon words nor compatible
    // with an unk.def entry (the trainer gives them feature-less labels of their own)
    let virtual_tokens = rng.chance(1, 3);
    let mut virtual_feats: Vec<String> = vec![];
    if virtual_tokens {
        for _ in 0..1 + rng.below(2) {
            let (s, f) = rng.pick(&rows);
            let vf = format!("感動詞,未知{}", rng.below(3));
            corpus.push_str(&format!("{}\t{}\n{}\t{}\n", s, f, rng.pick(&["zq", "猫犬", "q"][..]), vf));
            virtual_feats.push(vf);
            if rng.chance(1, 2) { let (s, f) = rng.pick(&rows); corpus.push_str(&format!("{}\t{}\n", s, f)); }
            corpus.push_str("EOS\n");
        }
    }
    let mut user = String::new();
    // a 0,0,0 user word with exactly the features of a seed word (must behave like that word)
    { let (_, f) = rng.pick(&rows); user.push_str(&format!("uz,0,0,0,{}\n", f)); }
    // ... and one with the SURFACE and the features of a seed word (must get that word's cost as well)
    { let (sf, f) = rng.pick(&rows); if sf.chars().count() < 100 { user.push_str(&format!("{},0,0,0,{}\n", quote(sf), f)); } }
    if empty_feature { user.push_str("ue,0,0,0,\nuf,1,1,7,\n"); }
    if initial_only { user.push_str(&format!("uh,0,0,0,{}\n", initial_feat)); }
    // a 0,0,0 user word with the features of a corpus token that no lexicon word has: its label carries the weights
    // that token earned in training and can be the heaviest of the whole model
    for (j, vf) in virtual_feats.iter().enumerate() { user.push_str(&format!("uv{},0,0,0,{}\n", j, vf)); }
    // 0,0,0 user words whose columns are taken from different seed rows: such a combination can outweigh every seed
    // word, so that the largest absolute weight of the model belongs to a user label
    for j in 0..2 + rng.below(3) {
        let cols: Vec<Vec<String>> = rows.iter().map(|(_, f)| csv_cells(f)).collect();
        let n = 2 + rng.below(3) as usize;
        let mixed: Vec<String> = (0..n).map(|c| { let r = rng.pick(&cols); quote(r.get(c).map_or("*", |x| x.as_str())) }).collect();
        user.push_str(&format!("um{},0,0,0,{}\n", j, mixed.join(",")));
    }
    for i in 0..1 + rng.below(6) {
        let s = format!("u{}{}", ["x", "y", "猫猫"][i as usize % 3], i);
        match rng.below(6) {
            0 | 1 | 2 => user.push_str(&format!("{},0,0,0,{}\n", s, feats(rng))),
            3 => user.push_str(&format!("{},0,0,{},{}\n", s, *rng.pick(&[77i64, -5, 1]), feats(rng))),   // explicit although both ids are 0
            4 => user.push_str(&format!("{},{},{},0,{}\n", s, rng.below(2), 1 - rng.below(2).min(1), feats(rng))),
            _ => user.push_str(&format!("{},1,1,{},{}\n", s, rng.range(-50, 50), feats(rng))),
        }
    }
    Cfg { virtual_tokens, bare_right, lex, chardef, unk, feature_def, rewrite_def, corpus, user, bigrams, k }
}


/// Pinned configurations that run before the generated ones (minimised failures kept as a corpus):
/// the known-finding class K7 and the configuration of the defect repaired by 8f2bdbc.
fn pinned_cfgs() -> Vec<(Cfg, u64)> {
    let chardef = "DEFAULT 0 1 0\nALPHA 1 1 0\nKANJI 0 0 2\n0x0061..0x007A ALPHA\n0x4E00..0x9FFF KANJI\n".to_string();
    let uni = "UNIGRAM U0:%F[0]\nUNIGRAM U1:%F[0],%F?[1]\nUNIGRAM U2:%t\nUNIGRAM U3:%F?[3]\n";
    vec![
        (Cfg {
            virtual_tokens: false, bare_right: false,
            lex: "ab,0,0,0,助詞,一般\nbc,0,0,0,名詞,\"x,y\",*\na,0,0,0,助詞,*,b2,*\nba,0,0,0,動詞,固有,基,*\n\"a,b\",0,0,0,名詞,一般,b2\n犬,0,0,0,名詞,\"x,y\",b2\nb,0,0,0,名詞,\"x,y\"\nb,0,0,0,名詞,固有,基,*\nc,0,0,0,助詞,\"x,y\"\n".into(),
            chardef: chardef.clone(),
            unk: "DEFAULT,0,0,0,助詞,固有,b2\nDEFAULT,0,0,0,名詞,一般,基\nALPHA,0,0,0,名詞,*,基\nKANJI,0,0,0,名詞,*\n".into(),
            feature_def: format!("{}BIGRAM B0:%L?[3]/r0:%R?[3]\n", uni),
            rewrite_def: "[unigram rewrite]\n[left rewrite]\n*,固有 $1,$2,*,*\n名詞,一般,*,* $1,*,$3,*\n[right rewrite]\n".into(),
            corpus: "ba\t動詞,固有,基,*\nb\t名詞,固有,基,*\nbc\t名詞,\"x,y\",*\nEOS\nb\t名詞,\"x,y\"\na,b\t名詞,一般,b2\nb\t名詞,\"x,y\"\nc\t助詞,\"x,y\"\nEOS\n犬\t名詞,\"x,y\",b2\na,b\t名詞,一般,b2\nab\t助詞,一般\nEOS\na,b\t名詞,一般,b2\na\t助詞,*,b2,*\nb\t名詞,固有,基,*\na\t助詞,*,b2,*\nEOS\na\t助詞,*,b2,*\nb\t名詞,\"x,y\"\nbc\t名詞,\"x,y\",*\nab\t助詞,一般\nEOS\nbc\t名詞,\"x,y\",*\nb\t名詞,固有,基,*\nbc\t名詞,\"x,y\",*\nEOS\n".into(),
            user: "uz,0,0,0,名詞,\"x,y\",b2\nux0,1,1,16,動詞,固有\nuy1,0,0,0,動詞,*,*\nu猫猫2,1,1,-30,助詞,\"x,y\",基\nux3,1,1,43,助詞,\"x,y\",*\nuy4,1,1,-34,名詞,一般,*,イ\nu猫猫5,0,0,0,助詞,*,*,*\n".into(),
            bigrams: vec![("B0:%L?[3]".into(), "r0:%R?[3]".into())], k: 1,
        }, 6),
        (Cfg {
            virtual_tokens: true, bare_right: false,
            lex: "c,0,0,0,助詞,*,*\na,0,0,0,名詞,*\n猫,0,0,0,名詞,\"x,y\",b2\nab,0,0,0,助詞,固有,基\n\"a,b\",0,0,0,助詞,一般,b2\n".into(),
            chardef,
            unk: "DEFAULT,0,0,0,動詞,固有,*,ア\nDEFAULT,0,0,0,助詞,一般,b2,*\nALPHA,0,0,0,助詞,\"x,y\"\nALPHA,0,0,0,動詞,固有,*\nKANJI,0,0,0,動詞,\"x,y\",基\n".into(),
            feature_def: format!("{}BIGRAM B0:%L[1]/r0:%R[3]\nBIGRAM B1:%L[3],%L[0]/r1:%R[0]\n", uni),
            rewrite_def: "[unigram rewrite]\n[left rewrite]\n名詞,一般,* $1,$2,*,*\n助詞,一般,*,* 体言,$2,*,$4\n[right rewrite]\n(名詞|動詞),固有,*,* $1,*,$3,*\n*,一般,* $1,$2,$3,*\n*,固有,* 体言,*,$3,*\n".into(),
            corpus: "c\t助詞,*,*\na,b\t助詞,一般,b2\nab\t助詞,固有,基\na\t名詞,*\nEOS\na\t名詞,*\na,b\t助詞,一般,b2\n猫\t名詞,\"x,y\",b2\na\t名詞,*\nab\t助詞,固有,基\nEOS\nc\t助詞,*,*\na,b\t助詞,一般,b2\nEOS\nab\t助詞,固有,基\na\t名詞,*\nEOS\na,b\t助詞,一般,b2\nzq\t感動詞,未知1\nab\t助詞,固有,基\nEOS\na\t名詞,*\nzq\t感動詞,未知2\nab\t助詞,固有,基\nEOS\n".into(),
            user: "uz,0,0,0,助詞,固有,基\nux0,1,1,42,名詞,*\nuy1,0,0,0,動詞,固有,基\nu猫猫2,0,0,0,名詞,*\nux3,1,1,-15,名詞,固有\nuy4,0,0,0,動詞,固有\n".into(),
            bigrams: vec![("B0:%L[1]".into(), "r0:%R[3]".into()), ("B1:%L[3],%L[0]".into(), "r1:%R[0]".into())], k: 2,
        }, 4),
    ]
}

struct Files { lex: Vec<u8>, matrix: Vec<u8>, unk: Vec<u8>, user: Vec<u8>, left: Vec<u8>, right: Vec<u8>, cost: Vec<u8> }
fn generate(m: &mut Model) -> Option<Files> {
    let mut f = Files { lex: vec![], matrix: vec![], unk: vec![], user: vec![], left: vec![], right: vec![], cost: vec![] };
    m.write_dictionary(&mut f.lex, &mut f.matrix, &mut f.unk, &mut f.user).ok()?;
    m.write_bigram_details(&mut f.left, &mut f.right, &mut f.cost).ok()?;
    Some(f)
}
fn sorted_lines(b: &[u8]) -> Vec<String> { let mut v: Vec<String> = String::from_utf8_lossy(b).lines().map(|s| s.to_string()).collect(); v.sort(); v }
fn same_files(a: &Files, b: &Files) -> bool {
    a.lex == b.lex && a.matrix == b.matrix && a.unk == b.unk && a.user == b.user && a.left == b.left && a.right == b.right && sorted_lines(&a.cost) == sorted_lines(&b.cost)
}

fn train(c: &Cfg, iters: u64, reg: Option<f64>) -> Option<Model> {
    let config = TrainerConfig::from_readers(c.lex.as_bytes(), c.chardef.as_bytes(), c.unk.as_bytes(), c.feature_def.as_bytes(), c.rewrite_def.as_bytes()).ok()?;
    let corpus = Corpus::from_reader(c.corpus.as_bytes()).ok()?;
    let t = Trainer::new(config).ok()?.max_iter(iters).num_threads(1);
    let t = match reg { Some(r) => t.regularization_cost(r), None => t };
    t.train(corpus).ok()
}

fn conn_of(d: &vibrato::Dictionary) -> Vec<Vec<i32>> {
    let (nr, nl) = d.verif_conn_dims();
    (0..nr).map(|r| (0..nl).map(|l| d.verif_conn_cost(r as u16, l as u16)).collect()).collect()
}

pub fn run(prop: &str, seed: u64, n: usize, outdir: &str, _corpus: Option<&str>) -> std::io::Result<()> {
    let report = match prop { "C14" => "c14_report", "C15" => "c15_report", "C16" => "c16_report", "C17T" => "c17t_report", _ => "c18_report" };
    let expose = prop == "C17T";
    let mut sh = Shards::new(prop, "From Vib Require Import Model.Base Model.Text Model.Rewriter Model.Template Check.TrnCheck.", "trncase", report);
    let mut dist: BTreeMap<String, usize> = BTreeMap::new();
    let mut samples = vec![];
    let mut master = Rng::new(seed ^ 0x7A11);
    // VERIF_SUBSEED=<case seed> re-runs exactly one case and prints the connection costs that differ
    let only: Option<u64> = std::env::var("VERIF_SUBSEED").ok().and_then(|x| x.parse().ok());
    let mut pinned = if only.is_some() || expose { vec![] } else { pinned_cfgs() };
    pinned.reverse();
    let npinned = pinned.len();
    for round in 0..(if only.is_some() { 1 } else { n + npinned }) {
        let pin = pinned.pop();
        let sub = if pin.is_some() { 1000 + round as u64 } else { only.unwrap_or_else(|| master.next()) };
        let mut rng = Rng(sub);
        let pinned_case = pin.is_some();
        let (mut c, iters) = match pin { Some((c, it)) => (c, it), None => { let c = gen_cfg(&mut rng, expose); let it = 2 + rng.below(5); (c, it) } };
        // adaptive part of the generator (1 case in 2): among ~30 candidate 0,0,0 user words (column-wise mixtures of the seed
        // rows and of the corpus-only tokens) the one whose label is heaviest in a throw-away training of the same
        // configuration is added to the user lexicon -- so that, where the configuration allows it, the largest absolute
        // weight of the whole model belongs to a user label
        if !pinned_case && !expose && rng.chance(1, 2) {
            let heavy = std::panic::catch_unwind(std::panic::AssertUnwindSafe(|| -> Option<String> {
                let pre = train(&c, iters, None)?;
                let mut mb = vec![];
                pre.write_model(&mut mb).ok()?;
                let cols: Vec<Vec<String>> = c.lex.lines().chain(c.corpus.lines().filter_map(|l| l.split('\t').nth(1))).map(|l| { let v = csv_cells(l); if v.len() > 4 && l.contains(",0,0,0,") { v[4..].to_vec() } else { v } }).collect();
                let mut best: Option<(f64, String)> = None;
                let mut crng = Rng(sub ^ 0xCA2D);
                for _ in 0..30 {
                    let n = 2 + crng.below(3) as usize;
                    let feats: Vec<String> = (0..n).map(|k| { let r = crng.pick(&cols); quote(r.get(k).map_or("*", |x| x.as_str())) }).collect();
                    let row = format!("uh,0,0,0,{}\n", feats.join(","));
                    let mut m = Model::read_model(&mb[..]).ok()?;
                    if m.read_user_lexicon(row.as_bytes()).is_err() { continue; }
                    let lb = *m.verif_user_labels().first()? as usize;
                    let w = m.verif_merged().ok()?.0.get(lb - 1)?.0.abs();
                    if best.as_ref().map_or(true, |b| w > b.0) { best = Some((w, row)); }
                }
                best.map(|b| b.1)
            }));
            if let Ok(Some(row)) = heavy { c.user.push_str(&row); *dist.entry("adaptive_heavy_user_word".into()).or_default() += 1; }
        }
        let human = format!("lex.csv={} unk.def={} feature.def={} rewrite.def={} corpus={} user.csv={} iters={}", json_str(&c.lex), json_str(&c.unk), json_str(&c.feature_def), json_str(&c.rewrite_def), json_str(&c.corpus), json_str(&c.user), iters);
        let mut flags: Vec<(String, u8)> = vec![];
        flags.push(("k3_bare_template".into(), 0)); // set below, once bigram.cost is known
        // the generated definition files are well-formed: the configuration must be accepted
        let cfg_ok = std::panic::catch_unwind(|| TrainerConfig::from_readers(c.lex.as_bytes(), c.chardef.as_bytes(), c.unk.as_bytes(), c.feature_def.as_bytes(), c.rewrite_def.as_bytes()).is_ok()).unwrap_or(false);
        if !cfg_ok {
            flags.push(("c18_definition_files_accepted".into(), 0));
            *dist.entry("configuration_rejected".into()).or_default() += 1;
            let term = format!(
                "(Build_trncase {} {} {} {} [([], [], [])] None None)",
                sub, clist(&flags, |(k, v)| format!("({}, {})", cstr(k), v)),
                clist(&c.bigrams, |(l, r)| format!("({}, {})", cstr(l), cstr(r))), cstr(&c.rewrite_def)
            );
            sh.push_h(format!("seed:{}", sub), term, human.clone());
            continue;
        }
        let mut model = match std::panic::catch_unwind(std::panic::AssertUnwindSafe(|| train(&c, iters, if expose { Some(1e-9) } else { None }))) { Ok(Some(m)) => m, _ => { *dist.entry("training_failed".into()).or_default() += 1; continue; } };
        // 1 case in 3: a user lexicon whose SECOND row is malformed is offered first; the call must fail and leave no
        // trace (everything below compares this in-memory model with copies that never saw the call)
        if !expose && rng.chance(1, 3) {
            let r = std::panic::catch_unwind(std::panic::AssertUnwindSafe(|| model.read_user_lexicon("uq,0,0,0,名詞,一般\nbroken,1\n".as_bytes()).is_err()));
            flags.push(("c15_malformed_user_lexicon_is_an_error".into(), matches!(r, Ok(true)) as u8));
            *dist.entry("malformed_user_lexicon_first".into()).or_default() += 1;
        }
        *dist.entry(format!("templates_{}", if c.k >= 8 { "ge8" } else { "lt8" })).or_default() += 1;
        if c.virtual_tokens { *dist.entry("corpus_with_uncovered_tokens".into()).or_default() += 1; }
        if c.lex.contains("ああ,0,0,0,接続詞") { *dist.entry("sentence_initial_only_class".into()).or_default() += 1; }
        let maxabs_of = |m: &Model| -> f64 { m.verif_merged().map(|(sets, matrix)| sets.iter().map(|s| s.0.abs()).chain(matrix.iter().map(|x| x.2.abs())).fold(0f64, f64::max)).unwrap_or(0.0) };
        // ---- C15 part 1: generate from the in-memory model (before any user lexicon)
        // (a panic of the first generation is recorded as an observation: known-finding class K7 when the
        // trained model has no bigram weight row at all)
        let first = std::panic::catch_unwind(std::panic::AssertUnwindSafe(|| generate(&mut model)));
        let f0 = match first {
            Ok(Some(f)) => f,
            other => {
                // Err from the writers (Ok(None)) or a panic: the trained model could not be written out
                let k7 = other.is_err() && model.verif_bigram_weight_rows() == 0;
                flags.push(("k7_no_bigram_weights".into(), k7 as u8));
                for f in ["c14_write_dictionary_succeeds", "c15_generate_succeeds", "c16_write_bigram_details_succeeds"] { flags.push((f.into(), 0)); }
                *dist.entry(format!("first_generation_fails_panic_{}_k7_{}", other.is_err(), k7)).or_default() += 1;
                let term = format!(
                    "(Build_trncase {} {} {} {} [] None None)",
                    sub, clist(&flags, |(k, v)| format!("({}, {})", cstr(k), v)),
                    clist(&c.bigrams, |(l, r)| format!("({}, {})", cstr(l), cstr(r))), cstr(&c.rewrite_def)
                );
                sh.push_h(format!("seed:{}", sub), term, human.clone());
                continue;
            }
        };
        let model_rows = model.verif_bigram_weight_rows();
        // everything after the first generation runs under catch_unwind: a panic is an observation
        let flags_before = flags.clone();
        let rest = std::panic::catch_unwind(std::panic::AssertUnwindSafe(|| {
        let max_before = maxabs_of(&model);
        let f0b = generate(&mut model).unwrap();
        flags.push(("c15_generate_twice".into(), same_files(&f0, &f0b) as u8));
        let mut mbytes = vec![];
        let wrote = model.write_model(&mut mbytes).is_ok();
        // the same model through a sink that takes the bytes in small pieces
        let mut ch = crate::util::Chunked { data: vec![], cap: 1 + rng.below(700) as usize };
        let wrote_ch = model.write_model(&mut ch).is_ok();
        flags.push(("c15_write_model_short_writes".into(), (wrote_ch == wrote && ch.data == mbytes) as u8));
        // a sink that runs out of room shortly before the end: write_model must report the failure
        {
            struct Limited { room: usize }
            impl std::io::Write for Limited {
                fn write(&mut self, buf: &[u8]) -> std::io::Result<usize> {
                    if self.room == 0 && !buf.is_empty() { return Err(std::io::Error::new(std::io::ErrorKind::Other, "no room left")); }
                    let k = buf.len().min(self.room); self.room -= k; Ok(k)
                }
                fn flush(&mut self) -> std::io::Result<()> { Ok(()) }
            }
            let all_err = [1usize, 7, 100, 5000].iter().all(|k| model.write_model(Limited { room: mbytes.len().saturating_sub(*k) }).is_err());
            flags.push(("c15_write_model_reports_a_sink_that_fails_near_the_end".into(), all_err as u8));
        }
        let mut m2 = match Model::read_model(&mbytes[..]) { Ok(m) => m, Err(_) => { flags.push(("c15_read_model".into(), 0)); model.read_user_lexicon(c.user.as_bytes()).ok(); Model::read_model(&mbytes[..]).unwrap_or_else(|_| panic!()) } };
        flags.push(("c15_write_read_model".into(), wrote as u8));
        let g2 = generate(&mut m2).unwrap();
        flags.push(("c15_roundtrip_files".into(), same_files(&f0, &g2) as u8));
        // add the user lexicon on both sides (after a generation: the cached merged model must be refreshed)
        let u1 = model.read_user_lexicon(c.user.as_bytes()).is_ok();
        if maxabs_of(&model) > max_before { *dist.entry("user_lexicon_raises_largest_weight".into()).or_default() += 1; }
        let u2 = m2.read_user_lexicon(c.user.as_bytes()).is_ok();
        let f1 = generate(&mut model).unwrap();
        let g3 = generate(&mut m2).unwrap();
        flags.push(("c15_user_after_reload".into(), (u1 == u2 && same_files(&f1, &g3)) as u8));
        // a third model: user lexicon first, then the first generation (no cache involved)
        let mut m3 = Model::read_model(&mbytes[..]).unwrap();
        m3.read_user_lexicon(c.user.as_bytes()).ok();
        let g4 = generate(&mut m3).unwrap();
        flags.push(("c15_cache_free_reference".into(), same_files(&f1, &g4) as u8));
        // the model written AFTER the user lexicon was read: read back it generates the same lexicon, matrix, unk and
        // bigram files (its user.csv is empty: the user entries themselves are not part of the model file)
        {
            let mut mb2 = vec![];
            let ok = model.write_model(&mut mb2).is_ok();
            let same = match Model::read_model(&mb2[..]) {
                Ok(mut m4) => match generate(&mut m4) { Some(g5) => g5.lex == f1.lex && g5.matrix == f1.matrix && g5.unk == f1.unk && g5.left == f1.left && g5.right == f1.right && sorted_lines(&g5.cost) == sorted_lines(&f1.cost), None => false },
                Err(_) => false,
            };
            flags.push(("c15_written_after_user_lexicon".into(), (ok && same) as u8));
            // two models written back to back into one stream are read back one after the other
            let mut both = mbytes.clone();
            both.extend_from_slice(&mb2);
            let mut cur = std::io::Cursor::new(&both[..]);
            let first = Model::read_model(&mut cur);
            let pos_ok = cur.position() as usize == mbytes.len();
            let second = Model::read_model(&mut cur);
            let two = match (first, second) {
                (Ok(mut a), Ok(mut b)) => pos_ok && generate(&mut a).map_or(false, |x| same_files(&x, &f0)) && generate(&mut b).map_or(false, |x| x.lex == f1.lex && x.matrix == f1.matrix),
                _ => false,
            };
            flags.push(("c15_two_models_in_one_stream".into(), two as u8));
        }
        // known-finding class K3 applies only when bigram.cost really lists the bare string '*' as a feature
        let star_listed = String::from_utf8_lossy(&f1.cost).lines().any(|l| l.split('\t').next().map_or(false, |f| f.split('/').any(|x| x == "*")));
        // ... or when a bare template expands to the EMPTY string for a real word (a seed row with an empty feature
        // cell): bigram.left/right then list '' for a non-zero id, the marker of the BOS/EOS row (K3-empty-expansion)
        let empty_listed = [&f1.left, &f1.right].iter().any(|b| String::from_utf8_lossy(b).lines().any(|l| l.split_once('\t').map_or(false, |x| csv_cells(x.1).iter().any(|cell| cell.is_empty()))));
        flags[0].1 = (c.bare_right && (star_listed || empty_listed)) as u8;
        // ---- C14
        let lex_out = String::from_utf8_lossy(&f1.lex).to_string();
        let seed_rows: Vec<_> = c.lex.lines().map(|l| split_row(l)).collect();
        let out_rows: Vec<_> = lex_out.lines().map(|l| split_row(l)).collect();
        let rows_ok = seed_rows.len() == out_rows.len() && seed_rows.iter().zip(&out_rows).all(|(a, b)| match (a, b) { (Some(a), Some(b)) => a.0 == b.0 && a.4 == b.4, _ => false });
        flags.push(("c14_rows_preserved".into(), rows_ok as u8));
        let unk_out = String::from_utf8_lossy(&f1.unk).to_string();
        // seed unk entries grouped in char.def category order (DEFAULT, ALPHA, KANJI), file order inside a group
        let mut expect_unk: Vec<(String, String)> = vec![];
        for cat in ["DEFAULT", "ALPHA", "KANJI"] { for l in c.unk.lines() { if let Some(r) = split_row(l) { if r.0 == cat { expect_unk.push((r.0, r.4)); } } } }
        let got_unk: Vec<(String, String)> = unk_out.lines().filter_map(split_row).map(|r| (r.0, r.4)).collect();
        flags.push(("c14_unk_rows".into(), (expect_unk == got_unk) as u8));
        let matrix_txt = String::from_utf8_lossy(&f1.matrix).to_string();
        let dims: Vec<i64> = matrix_txt.lines().next().unwrap_or("").split(' ').filter_map(|x| x.parse().ok()).collect();
        let (nright, nleft) = (dims.first().copied().unwrap_or(0), dims.get(1).copied().unwrap_or(0));
        let user_out = String::from_utf8_lossy(&f1.user).to_string();
        let all_ids: Vec<(i64, i64, i64)> = lex_out.lines().chain(unk_out.lines()).chain(user_out.lines()).filter_map(split_row).map(|r| (r.1, r.2, r.3)).collect();
        flags.push(("c14_ids_in_dims".into(), (nright >= 1 && nleft >= 1 && all_ids.iter().all(|(l, r, _)| *l >= 0 && *l < nleft && *r >= 0 && *r < nright)) as u8));
        // cost formula from the freshly merged model
        if let Ok((sets, matrix)) = model.verif_merged() {
            let mut maxabs = 0f64;
            for s in &sets { maxabs = maxabs.max(s.0.abs()); }
            for m in &matrix { maxabs = maxabs.max(m.2.abs()); }
            let scale = f64::from(i16::MAX) / maxabs;
            let cost = |w: f64| (-w * scale) as i16 as i64;
            let nseed = seed_rows.len();
            let lex_costs_ok = out_rows.iter().enumerate().all(|(i, r)| r.as_ref().map_or(false, |r| r.3 == cost(sets[i].0) && r.1 == sets[i].1 as i64 && r.2 == sets[i].2 as i64));
            let unk_costs_ok = unk_out.lines().filter_map(split_row).enumerate().all(|(i, r)| r.3 == cost(sets[nseed + i].0) && r.1 == sets[nseed + i].1 as i64);
            let mat_ok = matrix_txt.lines().skip(1).all(|l| {
                let v: Vec<i64> = l.split(' ').filter_map(|x| x.parse().ok()).collect();
                v.len() == 3 && matrix.iter().any(|m| m.0 as i64 == v[0] && m.1 as i64 == v[1] && cost(m.2) == v[2])
            }) && matrix_txt.lines().skip(1).count() == matrix.len();
            // lower cost <=> higher score, all costs in 16 bits (by construction of the cast) 
            let antitone = sets.iter().all(|a| sets.iter().all(|b| !(a.0 < b.0) || cost(a.0) >= cost(b.0)));
            flags.push(("c14_cost_formula".into(), (lex_costs_ok && unk_costs_ok && mat_ok && antitone) as u8));
        } else { flags.push(("c14_cost_formula".into(), 0)); }
        // the same numbers for the exact binary64 recomputation in Coq (weights as bit patterns)
        let num_t = match model.verif_merged() {
            Ok((sets, matrix)) => {
                let rows3 = |txt: &str| -> Vec<(i64, i64, i64)> { txt.lines().filter_map(split_row).map(|r| (r.1, r.2, r.3)).collect() };
                let mlines: Vec<(i64, i64, i64)> = matrix_txt.lines().skip(1).filter_map(|l| { let v: Vec<i64> = l.split(' ').filter_map(|x| x.parse().ok()).collect(); if v.len() == 3 { Some((v[0], v[1], v[2])) } else { None } }).collect();
                format!("(Some (Build_numdata {} {} {} {} {} ({}, {})))",
                    clist(&sets, |s| format!("({}%Z, {}, {})", s.0.to_bits(), s.1, s.2)),
                    clist(&matrix, |m| format!("({}, {}, {}%Z)", m.0, m.1, m.2.to_bits())),
                    clist(&rows3(&lex_out), |r| format!("({}, {}, {})", r.0, r.1, cz(r.2))),
                    clist(&rows3(&unk_out), |r| format!("({}, {}, {})", r.0, r.1, cz(r.2))),
                    clist(&mlines, |r| format!("({}, {}, {})", r.0, r.1, cz(r.2))),
                    nright, nleft)
            }
            Err(_) => "None".to_string(),
        };
        // the definition files, the hooks' labels / dimensions and the four emitted files for the model of write_dictionary
        let gen_t = match (prop == "C14", model.verif_merged_dims()) {
            (true, Ok((dr, dl))) => {
                let b = |x: &[u8]| crate::util::cbytes(x);
                format!("(Some (Build_gendata {} {} {} {} {} ({}, {}) {} {} {} {}))",
                    b(c.chardef.as_bytes()), b(c.lex.as_bytes()), b(c.unk.as_bytes()), b(c.user.as_bytes()),
                    clist(&model.verif_user_labels(), |x| cn(x)), dr, dl,
                    b(&f1.lex), b(&f1.unk), b(&f1.matrix), b(&f1.user))
            }
            _ => "None".to_string(),
        };
        // user rows: trained iff given as 0,0,0
        let user_ok = c.user.lines().zip(user_out.lines()).all(|(a, b)| match (split_row(a), split_row(b)) {
            (Some(a), Some(b)) => a.0 == b.0 && a.4 == b.4 && ((a.1, a.2, a.3) == (0, 0, 0) || (a.1, a.2, a.3) == (b.1, b.2, b.3)),
            _ => false,
        }) && c.user.lines().count() == user_out.lines().count();
        flags.push(("c14_user_rows".into(), user_ok as u8));
        // the emitted files compile (with the same char.def), the user lexicon loads
        let (lx, mx, ux, us, cd) = (f1.lex.clone(), f1.matrix.clone(), f1.unk.clone(), f1.user.clone(), c.chardef.clone());
        let dmat = guarded(move || {
            let d = vibrato::SystemDictionaryBuilder::from_readers(&lx[..], &mx[..], cd.as_bytes(), &ux[..])?;
            d.reset_user_lexicon_from_reader(Some(&us[..]))
        });
        flags.push(("c14_compiles".into(), matches!(dmat, Outcome::Ok(_)) as u8));
        // ---- C16
        if let Outcome::Ok(dm) = &dmat {
            let mconn = conn_of(dm);
            for dual in [false, true] {
                let (lx, l, r, co, ux, cd) = (f1.lex.clone(), f1.left.clone(), f1.right.clone(), f1.cost.clone(), f1.unk.clone(), c.chardef.clone());
                let d = guarded(move || vibrato::SystemDictionaryBuilder::from_readers_with_bigram_info(&lx[..], &r[..], &l[..], &co[..], cd.as_bytes(), &ux[..], dual));
                let name = if dual { "dual" } else { "raw" };
                match d {
                    Outcome::Ok(d) => {
                        let bc = match std::panic::catch_unwind(std::panic::AssertUnwindSafe(|| conn_of(&d))) { Ok(b) => b, Err(_) => { flags.push((format!("c16_{}_within_k1", name), 0)); continue; } };
                        let dims_ok = bc.len() == mconn.len() && bc.first().map(|r| r.len()) == mconn.first().map(|r| r.len());
                        flags.push((format!("c16_{}_dims", name), dims_ok as u8));
                        let mut worst = 0i64;
                        if dims_ok { for r in 0..bc.len() { for l in 0..bc[r].len() { worst = worst.max((bc[r][l] as i64 - mconn[r][l] as i64).abs()); } } }
                        if only.is_some() {
                            eprintln!("{} k={} worst={}", name, c.k, worst);
                            if dims_ok { for r in 0..bc.len() { for l in 0..bc[r].len() { if (bc[r][l] as i64 - mconn[r][l] as i64).abs() > c.k as i64 + 1 { eprintln!("  conn({},{}) matrix={} bigram={}", r, l, mconn[r][l], bc[r][l]); } } } }
                            if !dual { eprintln!("bigram.left:\n{}bigram.right:\n{}bigram.cost:\n{}lex:\n{}unk:\n{}", String::from_utf8_lossy(&f1.left), String::from_utf8_lossy(&f1.right), String::from_utf8_lossy(&f1.cost), String::from_utf8_lossy(&f1.lex), String::from_utf8_lossy(&f1.unk)); }
                        }
                        flags.push((format!("c16_{}_within_k1", name), (dims_ok && worst <= c.k as i64 + 1) as u8));
                        // "can stand in for the matrix-based one": also after the documented id mapping step (docs/map.md),
                        // the same permutation (a rotation of the left ids, the reversal of the right ids) applied to both
                        if dims_ok && mconn.len() >= 2 && mconn[0].len() >= 2 {
                            let (nr, nl) = (mconn.len() as u16, mconn[0].len() as u16);
                            let lmap: Vec<u16> = (2..nl).chain(1..2).collect();
                            let rmap: Vec<u16> = (1..nr).rev().collect();
                            let copy = |x: &vibrato::Dictionary| -> Option<vibrato::Dictionary> { let mut b = vec![]; x.write(&mut b).ok()?; vibrato::Dictionary::read(&b[..]).ok() };
                            let both = std::panic::catch_unwind(std::panic::AssertUnwindSafe(|| {
                                let a = copy(dm)?.map_connection_ids_from_iter(lmap.clone(), rmap.clone()).ok()?;
                                let b = copy(&d)?.map_connection_ids_from_iter(lmap.clone(), rmap.clone()).ok()?;
                                Some((conn_of(&a), conn_of(&b)))
                            }));
                            let okm = match both {
                                Ok(Some((a, b))) => a.len() == b.len() && a.iter().zip(b.iter()).all(|(x, y)| x.len() == y.len() && x.iter().zip(y.iter()).all(|(p, q)| (*p as i64 - *q as i64).abs() <= c.k as i64 + 1)),
                                _ => false,
                            };
                            flags.push((format!("c16_{}_within_k1_after_id_mapping", name), okm as u8));
                        }
                    }
                    _ => flags.push((format!("c16_{}_compiles", name), 0)),
                }
            }
        }
        // ---- C14 on the files generated by the RELOADED model (the train -> dictgen path)
        {
            let lo = String::from_utf8_lossy(&g3.lex).to_string();
            let orows: Vec<_> = lo.lines().map(|l| split_row(l)).collect();
            let ok = seed_rows.len() == orows.len() && seed_rows.iter().zip(&orows).all(|(a, b)| match (a, b) { (Some(a), Some(b)) => a.0 == b.0 && a.4 == b.4, _ => false });
            flags.push(("c14_reload_rows_preserved".into(), ok as u8));
            let (lx, mx, ux, us, cd) = (g3.lex.clone(), g3.matrix.clone(), g3.unk.clone(), g3.user.clone(), c.chardef.clone());
            let d3 = guarded(move || {
                let d = vibrato::SystemDictionaryBuilder::from_readers(&lx[..], &mx[..], cd.as_bytes(), &ux[..])?;
                d.reset_user_lexicon_from_reader(Some(&us[..]))
            });
            flags.push(("c14_reload_compiles".into(), matches!(d3, Outcome::Ok(_)) as u8));
            // a 0,0,0 user word with the features of a seed word gets that word's cost and connection behaviour
            if let Outcome::Ok(d3) = &d3 {
                let conn = conn_of(d3);
                let uo = String::from_utf8_lossy(&g3.user).to_string();
                let mut like = true;
                for (ul, uo_l) in c.user.lines().zip(uo.lines()) {
                    if let (Some(u), Some(o)) = (split_row(ul), split_row(uo_l)) {
                        if (u.1, u.2, u.3) != (0, 0, 0) { continue; }
                        for (sl, so_l) in c.lex.lines().zip(lo.lines()) {
                            if let (Some(sd), Some(so)) = (split_row(sl), split_row(so_l)) {
                                if sd.4 == u.4 {
                                    let col = |m: &Vec<Vec<i32>>, l: i64| -> Vec<i32> { m.iter().map(|r| r[l as usize]).collect() };
                                    // (the word cost may differ: the unigram template %t sees the category of the surface's first character)
                                    like &= conn[o.2 as usize] == conn[so.2 as usize] && col(&conn, o.1) == col(&conn, so.1);
                                    // same surface as well: same unigram features, hence the same cost
                                    if sd.0 == u.0 { like &= o.3 == so.3; }
                                }
                            }
                        }
                    }
                }
                flags.push(("c14_reload_user_like_seed".into(), like as u8));
            }
        }
        // ---- C18 data for the Coq oracle
        let rows_of = |b: &[u8]| -> String { clist(&String::from_utf8_lossy(b).lines().map(|l| csv_cells(l.split_once('\t').map_or("", |x| x.1))).collect::<Vec<_>>(), |r| clist(r, |x| cstr(x))) };
        // a view = the words (lexicon rows, unk.def rows in emitted order, 0,0,0 user rows) with their
        // emitted ids, and the listed tuples; one view for the in-memory model, one for the reloaded model
        let view = |f: &Files| -> String {
            let lo = String::from_utf8_lossy(&f.lex).to_string();
            let uno = String::from_utf8_lossy(&f.unk).to_string();
            let uso = String::from_utf8_lossy(&f.user).to_string();
            let mut words: Vec<String> = vec![];
            let mut push = |feat: &str, l: i64, r: i64, kind: u8| words.push(format!("({}, {}, {}, {})", clist(&csv_cells(feat), |x| cstr(x)), l, r, kind));
            for (s, o) in c.lex.lines().zip(lo.lines()) { if let (Some(a), Some(b)) = (split_row(s), split_row(o)) { push(&a.4, b.1, b.2, 0); } }
            for o in uno.lines() { if let Some(b) = split_row(o) { push(&b.4, b.1, b.2, 1); } }
            for (s, o) in c.user.lines().zip(uso.lines()) { if let (Some(a), Some(b)) = (split_row(s), split_row(o)) { if (a.1, a.2, a.3) == (0, 0, 0) { push(&a.4, b.1, b.2, 2); } } }
            format!("({}, {}, {})", clist(&words, |w| w.clone()), rows_of(&f.left), rows_of(&f.right))
        };
        let term = format!(
            "(Build_trncase {} {} {} {} {} {} {})",
            sub, clist(&flags, |(k, v)| format!("({}, {})", cstr(k), v)),
            clist(&c.bigrams, |(l, r)| format!("({}, {})", cstr(l), cstr(r))), cstr(&c.rewrite_def),
            clist(&[view(&f1), view(&g3)], |v| v.clone()), num_t, gen_t
        );
        term
        }));
        let term = match rest {
            Ok(t) => t,
            Err(_) => {
                let mut flags = flags_before;
                let k7 = model_rows == 0;
                flags.push(("k7_no_bigram_weights".into(), k7 as u8));
                for f in ["c14_write_dictionary_succeeds", "c15_generate_succeeds", "c16_write_bigram_details_succeeds"] { flags.push((f.into(), 0)); }
                *dist.entry(format!("later_generation_panics_k7_{}", k7)).or_default() += 1;
                format!(
                    "(Build_trncase {} {} {} {} [] None None)",
                    sub, clist(&flags, |(k, v)| format!("({}, {})", cstr(k), v)),
                    clist(&c.bigrams, |(l, r)| format!("({}, {})", cstr(l), cstr(r))), cstr(&c.rewrite_def)
                )
            }
        };
        if sh.push_h(format!("seed:{}", sub), term, human.clone()) && samples.len() < 2 { samples.push(format!("{{\"case\":{}}}", json_str(&human))); }
    }
    let shards = sh.write(outdir, 12)?;
    let mut meta = std::fs::File::create(format!("{}/meta.json", outdir))?;
    let d: Vec<String> = dist.iter().map(|(k, v)| format!("{}:{}", json_str(k), v)).collect();
    writeln!(meta, "{{\"cases\":{},\"duplicates\":{},\"shards\":{},\"distribution\":{{{}}},\"samples\":[{}]}}", sh.cases.len(), sh.duplicates, shards, d.join(","), samples.join(","))?;
    Ok(())
}

/// C15M: model files written by `Model::write_model` for the layout model (Model/TrainImage.v)
pub fn run_model_images(seed: u64, n: usize, outdir: &str) -> std::io::Result<()> {
    let mut sh = Shards::new("C15M", "From Vib Require Import Model.Base Model.Codec Model.DictImage Model.TrainImage Check.MdlCheck.", "mdlcase", "mdl_report");
    let mut dist: BTreeMap<String, usize> = BTreeMap::new();
    let mut master = Rng::new(seed ^ 0x15AD);
    let mut done = 0usize;
    let mut tries = 0usize;
    while done < n && tries < 20 * n + 20 {
        tries += 1;
        let sub = master.next();
        let mut rng = Rng(sub);
        let c = gen_cfg(&mut rng, false);
        let iters = 2 + rng.below(3);
        let cfg_ok = std::panic::catch_unwind(|| TrainerConfig::from_readers(c.lex.as_bytes(), c.chardef.as_bytes(), c.unk.as_bytes(), c.feature_def.as_bytes(), c.rewrite_def.as_bytes()).is_ok()).unwrap_or(false);
        if !cfg_ok { *dist.entry("configuration_rejected".into()).or_default() += 1; continue; }
        let model = match std::panic::catch_unwind(std::panic::AssertUnwindSafe(|| train(&c, iters, None))) { Ok(Some(m)) => m, _ => { *dist.entry("training_failed".into()).or_default() += 1; continue; } };
        let mut mbytes = vec![];
        if model.write_model(&mut mbytes).is_err() { *dist.entry("write_model_failed".into()).or_default() += 1; continue; }
        let again_len = match Model::read_model(&mbytes[..]) { Ok(m2) => { let mut b = vec![]; if m2.write_model(&mut b).is_ok() { b.len() } else { 0 } } Err(_) => 0 };
        // what the definition files say
        let mut uni: Vec<String> = vec![];
        for line in c.feature_def.lines() { let line = line.trim(); if let Some(t) = line.strip_prefix("UNIGRAM ") { uni.push(t.to_string()); } }
        let surfaces: Vec<String> = c.lex.lines().filter(|l| !l.trim().is_empty()).map(|l| csv_cells(l).into_iter().next().unwrap_or_default()).collect();
        let term = format!(
            "(Build_mdlcase {} {} {} {} {} {} {})",
            sub, crate::util::cbytes(&mbytes), clist(&uni, |t| crate::util::cbytes(t.as_bytes())), clist(&c.bigrams, |(l, _)| crate::util::cbytes(l.as_bytes())), clist(&c.bigrams, |(_, r)| crate::util::cbytes(r.as_bytes())),
            clist(&surfaces, |t| crate::util::cbytes(t.as_bytes())), again_len
        );
        *dist.entry("model_files".into()).or_default() += 1;
        *dist.entry(format!("file_kb_{}", mbytes.len() / 1024 / 50 * 50)).or_default() += 1;
        let human = format!("model file of {} bytes trained from lex.csv={} unk.def={} feature.def={} rewrite.def={} corpus={} iters={}", mbytes.len(), json_str(&c.lex), json_str(&c.unk), json_str(&c.feature_def), json_str(&c.rewrite_def), json_str(&c.corpus), iters);
        sh.push_h(format!("seed:{}", sub), term, human);
        done += 1;
    }
    let shards = sh.write(outdir, 1)?;
    let mut meta = std::fs::File::create(format!("{}/meta.json", outdir))?;
    let d: Vec<String> = dist.iter().map(|(k, v)| format!("{}:{}", json_str(k), v)).collect();
    writeln!(meta, "{{\"cases\":{},\"duplicates\":{},\"shards\":{},\"distribution\":{{{}}},\"samples\":[]}}", sh.cases.len(), sh.duplicates, shards, d.join(","))?;
    Ok(())
}
