//! Structured generator of small dictionaries (char.def, unk.def, lex.csv, matrix.def, user
//! lexicon) together with their text rendering and their Coq terms.
use crate::util::*;
use std::fmt::Write as _;

pub const ALPHABET: &[char] = &[
    'a', 'b', 'c', '0', '1', ' ', '\u{e9}', '\u{3042}', '\u{30ab}', '\u{4e00}', '\u{4e8c}', '\u{ffff}',
    '\u{10000}', '\u{1f600}', '\u{3000}', 'z',
];

#[derive(Clone, Debug)]
pub struct CatLine {
    pub name: String,
    pub invoke: bool,
    pub group: bool,
    pub length: u16,
}
#[derive(Clone, Debug)]
pub struct RangeLine {
    pub start: u32,
    pub end_incl: u32,
    pub cats: Vec<String>,
}
#[derive(Clone, Debug)]
pub struct Row {
    pub surface: String,
    pub lid: u16,
    pub rid: u16,
    pub cost: i16,
    pub feature: String,
}
#[derive(Clone, Debug)]
pub struct GenDict {
    pub cats: Vec<CatLine>,
    pub ranges: Vec<RangeLine>,
    pub unk: Vec<Row>, // surface = category name
    pub sys: Vec<Row>,
    pub user: Option<Vec<Row>>,
    pub nright: usize,
    pub nleft: usize,
    pub matrix: Vec<Vec<i16>>, // [right][left]
    pub space_clean: bool,     // generated so that C12's precondition holds
    pub unk_covered: bool,     // every category has at least one unk.def row
    /// bigram.right / bigram.left / bigram.cost / dual: build a raw or dual connector instead of matrix.def
    pub bigram: Option<(String, String, String, bool)>,
    /// with `bigram`: `matrix` holds the DECLARED costs (the defining feature-pair sums of the bigram files)
    pub declared_conn: bool,
    /// the definition files are handed to the builders with CRLF line ends
    pub crlf: bool,
    /// how matrix.def is written: 0 canonical, 1 blank lines, 2 repeated rows (the last one counts), 3 zero cells omitted, 4 '+' and leading zeros
    pub mstyle: u8,
    /// the built dictionary is written and read back before use
    pub reload: bool,
}

pub struct GenOpts {
    pub force_space: bool,   // always define SPACE and satisfy the C12 precondition
    pub allow_uncovered: bool,
    pub with_user: u64,      // chance in 100
    pub tie_heavy: bool,
    /// structured malformations (C10): LENGTH >= 16, more than 18 categories, undefined / missing
    /// categories in range lines, ids outside the connector
    pub malformed: bool,
    /// 1 dictionary in 8 has 21..48 connection ids on a side (sorts of more than 20 elements)
    pub many_ids: bool,
}
impl Default for GenOpts {
    fn default() -> Self {
        GenOpts { force_space: false, allow_uncovered: true, with_user: 35, tie_heavy: false, malformed: false, many_ids: false }
    }
}

fn gen_cost(rng: &mut Rng, tie: bool) -> i16 {
    if tie {
        return rng.range(0, 2) as i16;
    }
    match rng.below(20) {
        0 => i16::MAX,
        1 => i16::MIN,
        2..=5 => rng.range(-3, 3) as i16,
        6..=8 => rng.range(-3000, 3000) as i16,
        _ => rng.range(-40, 120) as i16,
    }
}

pub fn gen_surface(rng: &mut Rng, alphabet: &[char], maxlen: usize) -> String {
    let n = 1 + rng.below(maxlen as u64) as usize;
    (0..n).map(|_| *rng.pick(alphabet)).collect()
}

pub fn gen_dict(rng: &mut Rng, o: &GenOpts) -> GenDict {
    let tie = o.tie_heavy || rng.chance(1, 4);
    // categories
    let pool = ["SPACE", "ALPHA", "NUM", "KANJI", "KANA", "SYM", "X1", "X2"];
    let mut names: Vec<String> = vec!["DEFAULT".to_string()];
    let ncat = rng.below(6) as usize;
    let mut p: Vec<&str> = pool.to_vec();
    rng.shuffle(&mut p);
    for n in p.iter().take(ncat) {
        names.push(n.to_string());
    }
    // 1 dictionary in 40: 17 to 20 categories (the category set of a character has 18 bits: 19 or more are rejected)
    if rng.chance(1, 40) {
        let want = 17 + rng.below(4) as usize;
        let mut k = 0;
        while names.len() < want { names.push(format!("C{}", k)); k += 1; }
    }
    if o.force_space && !names.iter().any(|n| n == "SPACE") {
        names.push("SPACE".to_string());
    }
    // DEFAULT is usually not first in the file
    if rng.chance(2, 3) {
        let d = names.remove(0);
        let pos = rng.below(names.len() as u64 + 1) as usize;
        names.insert(pos, d);
    }
    let mut cats: Vec<CatLine> = names
        .iter()
        .map(|n| CatLine {
            name: n.clone(),
            invoke: rng.chance(1, 2),
            group: rng.chance(1, 2),
            length: *rng.pick(&[0u16, 0, 1, 1, 2, 2, 3, 5, 15]),
        })
        .collect();
    // occasional redefinition of a category (later line wins)
    if rng.chance(1, 10) && !cats.is_empty() {
        let mut c = rng.pick(&cats).clone();
        c.invoke = !c.invoke;
        c.length = 2;
        cats.push(c);
    }
    // ranges
    let space_clean = o.force_space || (names.iter().any(|n| n == "SPACE") && rng.chance(1, 2));
    let spaces: Vec<u32> = if rng.chance(1, 2) { vec![0x20] } else { vec![0x20, 0x3000] };
    let mut ranges: Vec<RangeLine> = vec![];
    let nonspace: Vec<String> = names.iter().filter(|n| *n != "SPACE").cloned().collect();
    let nr = rng.below(9) as usize;
    for _ in 0..nr {
        let c = *rng.pick(ALPHABET) as u32;
        let c = c.min(0xFFFF);
        let (s, e) = match rng.below(5) {
            0 => (c, c),
            1 => (c.saturating_sub(rng.below(40) as u32), (c + rng.below(40) as u32).min(0xFFFF)),
            2 => (c, (c + rng.below(0x2000) as u32).min(0xFFFF)),
            3 => (0, c),
            _ => (c, c + rng.below(3) as u32),
        };
        let e = e.min(0xFFFF);
        let pool: &Vec<String> = if space_clean { &nonspace } else { &names };
        if pool.is_empty() {
            continue;
        }
        let k = 1 + if rng.chance(1, 3) { rng.below(3) as usize } else { 0 };
        let cs: Vec<String> = (0..k).map(|_| rng.pick(pool).clone()).collect();
        ranges.push(RangeLine { start: s, end_incl: e, cats: cs });
    }
    if space_clean {
        // carve the space characters out of every other range by appending SPACE-only lines last
        for &s in &spaces {
            ranges.push(RangeLine { start: s, end_incl: s, cats: vec!["SPACE".to_string()] });
        }
        // and make sure nobody else is in SPACE: ranges above never mention SPACE
        // a code point >= U+10000 is looked up as U+0000: keep U+0000 out of SPACE (it is, unless a range covers it)
    } else if names.iter().any(|n| n == "SPACE") && rng.chance(2, 3) {
        ranges.push(RangeLine { start: 0x20, end_incl: 0x20, cats: vec!["SPACE".to_string()] });
    }
    // connection ids
    let big = o.many_ids && rng.chance(1, 8);
    let nright = if big { 21 + rng.below(28) as usize } else { 1 + rng.below(5) as usize };
    let nleft = if big { 21 + rng.below(28) as usize } else { 1 + rng.below(5) as usize };
    let matrix: Vec<Vec<i16>> = (0..nright).map(|_| (0..nleft).map(|_| gen_cost(rng, tie)).collect()).collect();
    // unk.def
    let mut unk = vec![];
    let uncovered = o.allow_uncovered && rng.chance(1, 12);
    let mut unk_covered = true;
    let mut idx = 0;
    for n in &names {
        let k = if uncovered && rng.chance(1, 2) { 0 } else { 1 + if rng.chance(1, 3) { rng.below(3) as usize } else { 0 } };
        if k == 0 {
            unk_covered = false;
        }
        for _ in 0..k {
            unk.push(Row {
                surface: n.clone(),
                lid: rng.below(nleft as u64) as u16,
                rid: rng.below(nright as u64) as u16,
                cost: gen_cost(rng, tie),
                feature: format!("U{},{}", idx, n),
            });
            idx += 1;
        }
    }
    rng.shuffle(&mut unk);
    // lexicon
    let lex_alpha: Vec<char> = if space_clean {
        ALPHABET.iter().cloned().filter(|c| !spaces.contains(&(*c as u32))).collect()
    } else {
        ALPHABET.to_vec()
    };
    let small: Vec<char> = lex_alpha.iter().cloned().take(5).collect();
    let gen_rows = |rng: &mut Rng, n: usize, tag: &str| -> Vec<Row> {
        let mut rows: Vec<Row> = vec![];
        for i in 0..n {
            let surface = if !rows.is_empty() && rng.chance(1, 5) {
                rng.pick(&rows).surface.clone() // homograph
            } else if !rows.is_empty() && rng.chance(1, 4) {
                let mut s = rng.pick(&rows).surface.clone(); // nested prefix
                s.push(*rng.pick(&small));
                s
            } else if rng.chance(2, 3) {
                gen_surface(rng, &small, 3)
            } else {
                gen_surface(rng, &lex_alpha, 4)
            };
            // a surface may begin with '#' (a comment marker in char.def / feature.def, but not in a lexicon)
            let surface = if rng.chance(1, 14) { format!("#{}", surface) } else { surface };
            rows.push(Row {
                surface,
                lid: rng.below(nleft as u64) as u16,
                rid: rng.below(nright as u64) as u16,
                cost: gen_cost(rng, tie),
                feature: format!("{}{},f", tag, i),
            });
        }
        rows
    };
    let nsys = if rng.chance(1, 40) { 0 } else { 1 + rng.below(14) as usize };
    let sys = gen_rows(rng, nsys, "S");
    let user = if rng.below(100) < o.with_user {
        let n = if rng.chance(1, 30) { 0 } else { 1 + rng.below(5) as usize };
        let mut u = gen_rows(rng, n, "W");
        for r in u.iter_mut() {
            // homographs of system words, and longer / shorter overlapping surfaces
            if !sys.is_empty() && rng.chance(1, 3) {
                let base: Vec<char> = rng.pick(&sys).surface.chars().collect();
                r.surface = match rng.below(3) {
                    0 => base.iter().collect(),
                    1 => base.iter().chain(std::iter::once(rng.pick(ALPHABET))).collect(),
                    _ => base[..(base.len() + 1) / 2].iter().collect(),
                };
            }
            // occasionally a connection id outside the connector (must be rejected)
            // (more often when the user lexicon is the subject; the id may lie in the gap between the two
            // dimensions of a non-square connector, where a crossed or stale bound would let it pass)
            if rng.chance(1, if o.with_user >= 90 { 9 } else { 25 }) {
                if rng.chance(1, 2) {
                    r.lid = if nright > nleft && rng.chance(1, 2) { (nleft + rng.below((nright - nleft) as u64) as usize) as u16 } else { (nleft + rng.below(2) as usize) as u16 };
                } else {
                    r.rid = if nleft > nright && rng.chance(1, 2) { (nright + rng.below((nleft - nright) as u64) as usize) as u16 } else { (nright + rng.below(2) as usize) as u16 };
                }
            }
        }
        Some(u)
    } else {
        None
    };
    let mut cats = cats;
    let mut ranges = ranges;
    let mut unk = unk;
    let mut sys = sys;
    if o.malformed {
        match rng.below(9) {
            0 => { if let Some(c) = cats.last_mut() { c.length = *rng.pick(&[16u16, 17, 40, 255]); } }
            1 => { for k in 0..(14 + rng.below(8)) { cats.push(CatLine { name: format!("Y{}", k), invoke: false, group: false, length: 0 }); } } // 19+ categories
            2 => { ranges.push(RangeLine { start: 0x41, end_incl: 0x41, cats: vec!["NOSUCH".into()] }); }
            3 => { let first = cats[0].name.clone(); ranges.push(RangeLine { start: 0x41, end_incl: 0x42, cats: vec![first, "NOSUCH".into()] }); }
            4 => { ranges.push(RangeLine { start: 0x41, end_incl: 0x41, cats: vec![] }); }
            5 => { if let Some(r) = sys.last_mut() { r.lid = nleft as u16 + rng.below(2) as u16; } }
            6 => { if let Some(r) = unk.last_mut() { r.rid = nright as u16; } }
            7 => { unk.push(Row { surface: "NOSUCH".into(), lid: 0, rid: 0, cost: 0, feature: "x".into() }); }
            _ => { cats.retain(|c| c.name != "DEFAULT"); } // DEFAULT never defined
        }
    }
    GenDict { cats, ranges, unk, sys, user, nright, nleft, matrix, space_clean, unk_covered, bigram: None, declared_conn: false, crlf: rng.chance(1, 6), mstyle: if rng.chance(1, 3) { 1 + rng.below(4) as u8 } else { 0 }, reload: rng.chance(1, 5) }
}

impl GenDict {
    pub fn char_def(&self) -> String {
        let mut s = String::from("# generated\n");
        for c in &self.cats {
            writeln!(s, "{} {} {} {}", c.name, c.invoke as u8, c.group as u8, c.length).unwrap();
        }
        s.push('\n');
        for r in &self.ranges {
            if r.start == r.end_incl {
                write!(s, "0x{:04X}", r.start).unwrap();
            } else {
                write!(s, "0x{:04X}..0x{:04X}", r.start, r.end_incl).unwrap();
            }
            for c in &r.cats {
                write!(s, " {}", c).unwrap();
            }
            s.push_str(" # c\n");
        }
        s
    }
    pub fn rows_csv(rows: &[Row]) -> String {
        let mut s = String::new();
        for r in rows {
            writeln!(s, "{},{},{},{},{}", r.surface, r.lid, r.rid, r.cost, r.feature).unwrap();
        }
        s
    }
    pub fn matrix_def(&self) -> String {
        let mut s = format!("{} {}\n", self.nright, self.nleft);
        if self.mstyle == 1 { s.push('\n'); }
        for r in 0..self.nright {
            for l in 0..self.nleft {
                let c = self.matrix[r][l];
                match self.mstyle {
                    2 if (r + l) % 3 == 0 => { writeln!(s, "{} {} {}", r, l, c.wrapping_add(7)).unwrap(); writeln!(s, "{} {} {}", r, l, c).unwrap(); }
                    3 if c == 0 => {}
                    4 => { if c >= 0 { writeln!(s, "+{} {:03} +{}", r, l, c).unwrap(); } else { writeln!(s, "{:02} +{} -{:05}", r, l, -(c as i32)).unwrap(); } }
                    _ => { writeln!(s, "{} {} {}", r, l, c).unwrap(); }
                }
            }
            if self.mstyle == 1 && r % 2 == 0 { s.push('\n'); }
        }
        s
    }
    pub fn build(&self) -> Outcome<vibrato::Dictionary> {
        let lex = Self::rows_csv(&self.sys);
        let m = self.matrix_def();
        let c = self.char_def();
        let u = Self::rows_csv(&self.unk);
        let user = self.user.as_ref().map(|r| Self::rows_csv(r));
        let bigram = self.bigram.clone();
        let dos = |t: String| if self.crlf { t.replace('\n', "\r\n") } else { t };
        let (lex, m, c, u) = (dos(lex), dos(m), dos(c), dos(u));
        let user = user.map(dos);
        let bigram = bigram.map(|(r, l, cost, dual)| (dos(r), dos(l), dos(cost), dual));
        let reload = self.reload;
        guarded(move || {
            let d = match bigram {
                Some((r, l, cost, dual)) => vibrato::SystemDictionaryBuilder::from_readers_with_bigram_info(
                    lex.as_bytes(), r.as_bytes(), l.as_bytes(), cost.as_bytes(), c.as_bytes(), u.as_bytes(), dual)?,
                None => vibrato::SystemDictionaryBuilder::from_readers(lex.as_bytes(), m.as_bytes(), c.as_bytes(), u.as_bytes())?,
            };
            let d = match user {
                Some(t) => d.reset_user_lexicon_from_reader(Some(t.as_bytes()))?,
                None => d,
            };
            if reload { let mut buf = vec![]; d.write(&mut buf)?; vibrato::Dictionary::read(&buf[..]) } else { Ok(d) }
        })
    }

    /// The same dictionary with its connection ids renamed by a mapping as `map_connection_ids_from_iter` takes it
    /// (`lmap[i]` = the old left id that becomes i + 1): rows, matrix and bigram rows of the renamed dictionary.
    pub fn renamed(&self, lmap: &[u16], rmap: &[u16]) -> GenDict {
        let mut newl: Vec<u16> = (0..self.nleft as u16).collect();
        let mut newr: Vec<u16> = (0..self.nright as u16).collect();
        for (i, &o) in lmap.iter().enumerate() { newl[o as usize] = (i + 1) as u16; }
        for (i, &o) in rmap.iter().enumerate() { newr[o as usize] = (i + 1) as u16; }
        let f = |r: &Row| Row {
            lid: if (r.lid as usize) < self.nleft { newl[r.lid as usize] } else { r.lid },
            rid: if (r.rid as usize) < self.nright { newr[r.rid as usize] } else { r.rid },
            ..r.clone()
        };
        let mut g = self.clone();
        g.sys = self.sys.iter().map(f).collect();
        g.unk = self.unk.iter().map(f).collect();
        g.user = self.user.as_ref().map(|u| u.iter().map(f).collect());
        for r in 0..self.nright { for l in 0..self.nleft { g.matrix[newr[r] as usize][newl[l] as usize] = self.matrix[r][l]; } }
        if let Some((rt, lt, ct, dual)) = &self.bigram {
            let perm = |txt: &str, newid: &[u16]| -> String {
                let lines: Vec<&str> = txt.lines().collect();
                let mut out = vec![String::new(); lines.len()];
                for (k, line) in lines.iter().enumerate() {
                    let rest = line.splitn(2, '\t').nth(1).unwrap_or("");
                    let j = newid[k + 1] as usize;
                    out[j - 1] = format!("{}\t{}", j, rest);
                }
                out.join("\n") + "\n"
            };
            g.bigram = Some((perm(rt, &newr), perm(lt, &newl), ct.clone(), *dual));
        }
        g
    }
    /// `self` built, then sent through the id mapping; the user lexicon is loaded before or after the mapping
    pub fn build_mapped(&self, lmap: &[u16], rmap: &[u16], user_after: bool) -> Outcome<vibrato::Dictionary> {
        let (l, r) = (lmap.to_vec(), rmap.to_vec());
        if user_after && self.user.is_some() {
            let mut nouser = self.clone();
            nouser.user = None;
            let ucsv = { let t = Self::rows_csv(self.user.as_ref().unwrap()); if self.crlf { t.replace('\n', "\r\n") } else { t } };
            match nouser.build() {
                Outcome::Ok(d) => guarded(move || d.map_connection_ids_from_iter(l, r)?.reset_user_lexicon_from_reader(Some(ucsv.as_bytes()))),
                o => o,
            }
        } else {
            match self.build() {
                Outcome::Ok(d) => guarded(move || d.map_connection_ids_from_iter(l, r)),
                o => o,
            }
        }
    }

    // ---------------------------------------------------------------- Coq terms
    pub fn coq_chardef(&self) -> String {
        format!(
            "(Build_chardef {} {})",
            clist(&self.cats, |c| format!(
                "(Build_catline {} {} {} {})",
                cstr(&c.name),
                cbool(c.invoke),
                cbool(c.group),
                c.length
            )),
            clist(&self.ranges, |r| format!(
                "(Build_rangeline {} {} {})",
                r.start,
                r.end_incl + 1,
                clist(&r.cats, |c| cstr(c))
            ))
        )
    }
    pub fn coq_matrix(&self) -> String {
        clist(&self.matrix, |row| clist(row, |c| cz(*c as i64)))
    }
    pub fn coq_unk(&self) -> String {
        clist(&self.unk, |r| {
            format!("(Build_unkline {} {} {} {} {})", cstr(&r.surface), r.lid, r.rid, cz(r.cost as i64), cstr(&r.feature))
        })
    }
    pub fn coq_rows(rows: &[Row]) -> String {
        clist(rows, |r| {
            format!("(Build_lexrow {} {} {} {} {})", cstr(&r.surface), r.lid, r.rid, cz(r.cost as i64), cstr(&r.feature))
        })
    }
}

/// Connection costs of a built dictionary through the hook, as a Coq `list (list Z)`.
pub fn coq_conn(d: &vibrato::Dictionary) -> String {
    let (nr, nl) = d.verif_conn_dims();
    let rows: Vec<Vec<i32>> = (0..nr).map(|r| (0..nl).map(|l| d.verif_conn_cost(r as u16, l as u16)).collect()).collect();
    clist(&rows, |row| clist(row, |c| cz(*c as i64)))
}

pub fn gen_sentence(rng: &mut Rng, d: &GenDict) -> String {
    let n = match rng.below(12) {
        0 => 0,
        1 => 1,
        _ => 1 + rng.below(12) as usize,
    };
    let mut s = String::new();
    let small: Vec<char> = ALPHABET.iter().cloned().take(6).collect();
    while s.chars().count() < n {
        match rng.below(10) {
            0..=2 if !d.sys.is_empty() => s.push_str(&rng.pick(&d.sys).surface),
            3 if d.user.as_ref().map_or(false, |u| !u.is_empty()) => {
                s.push_str(&rng.pick(d.user.as_ref().unwrap()).surface)
            }
            4 => {
                let c = *rng.pick(ALPHABET);
                for _ in 0..(1 + rng.below(4)) {
                    s.push(c);
                }
            }
            5 => s.push(' '),
            6..=7 => s.push(*rng.pick(&small)),
            _ => s.push(*rng.pick(ALPHABET)),
        }
    }
    s
}
