//! C19: corpus text format (parse / write round trip, malformed lines) and the tokenizer's
//! MeCab-style output fed back to `Corpus::from_reader`.
use crate::dictgen::*;
use crate::util::*;
use std::collections::BTreeMap;
use std::io::Write;
use vibrato::trainer::Corpus;

type Exs = Vec<Vec<(String, String)>>;

fn parse(text: &[u8]) -> Outcome<Exs> {
    let t = text.to_vec();
    guarded(move || {
        Corpus::from_reader(&t[..]).map(|c| {
            c.iter().map(|e| e.tokens().iter().map(|w| (w.surface().to_string(), w.feature().to_string())).collect()).collect()
        })
    })
}

fn write_all(text: &[u8]) -> Outcome<Vec<u8>> {
    let t = text.to_vec();
    guarded(move || {
        let c = Corpus::from_reader(&t[..])?;
        // the sink takes the bytes in pieces of at most `cap` bytes (legal for std::io::Write)
        let mut out = Chunked { data: vec![], cap: 1 + t.len() % 4093 };
        for e in c.iter() {
            e.write(&mut out)?;
        }
        Ok::<_, vibrato::errors::VibratoError>(out.data)
    })
}

fn cexs(e: &Exs) -> String {
    clist(e, |ex| clist(ex, |(s, f)| format!("({}, {})", cstr(s), cstr(f))))
}

fn gen_corpus(rng: &mut Rng) -> String {
    let surf = ["a", "b", "東京", " ", "\u{3000}", "EOS", "", "x y", "é", "😀", "\r", "q\"", "EOS ", "\u{feff}", "\u{feff}a", "#", "#東京", ";a"];
    let feat = ["名詞,一般", "f", "", "g ", "h\u{3000}", "EOS", "a,b,\"c\"", "x\ry", "*"];
    let nl = if rng.chance(1, 5) { "\r\n" } else { "\n" };
    let mut s = String::new();
    // 1 corpus in 12 starts with a token whose surface begins with U+FEFF (not a byte-order mark here)
    if rng.chance(1, 12) { s.push('\u{feff}'); s.push_str(&format!("{}\tf{}EOS{}", *rng.pick(&["", "a", "東京"][..]), nl, nl)); }
    let ns = rng.below(5);
    for _ in 0..ns {
        let nt = rng.below(4);
        for _ in 0..nt {
            s.push_str(*rng.pick(&surf[..]));
            s.push('\t');
            s.push_str(*rng.pick(&feat[..]));
            s.push_str(nl);
        }
        s.push_str("EOS");
        s.push_str(nl);
    }
    // 1 corpus in 25: a token whose surface or feature is longer than a BufWriter's buffer (8 KiB)
    if rng.chance(1, 25) {
        let long: String = (0..9000).map(|i| ["a", "東", "b"][i % 3]).collect();
        if rng.chance(1, 2) { s.push_str(&format!("{}\tf{}a\tg{}EOS{}", long, nl, nl, nl)); } else { s.push_str(&format!("a\t{}{}EOS{}", long, nl, nl)); }
    }
    // malformed stream and edge cases
    match rng.below(12) {
        0 => s.push_str("trailing\tf\n"),                    // tokens after the last EOS
        1 => s.push_str("no tab here\nEOS\n"),
        2 => s.push_str("a\tb\tc\nEOS\n"),
        3 => s.push_str("\nEOS\n"),                          // blank line
        4 => s.push_str("a\tf\nEOS"),                        // no final newline
        5 => s.push_str("EOS\tx\nEOS\n"),                    // a token whose surface is EOS
        6 => s.push_str("\tBOS/EOS,*\n\tf\nEOS\na\tf\nEOS\n"), // only empty surfaces, then a sentence
        7 => s.push_str(" EOS\n"),
        8 => s.push_str("eos\n"),
        // long malformed lines of multi-byte characters (no TAB; three fields; astral characters)
        9 => s.push_str("これはタブのかわりに空白をつかったとてもながい行です 名詞,一般\nEOS\n"),
        10 => { if rng.chance(1, 2) { s.push_str("東京都千代田区永田町一丁目七番一号\t名詞,固有名詞,地名\t余分な三つ目の欄がある\nEOS\n"); } else { s.push_str("😀😀😀😀😀😀😀😀😀😀😀😀😀😀😀😀😀😀😀😀\nEOS\n"); } }
        _ => {}
    }
    s
}

pub fn run(seed: u64, n: usize, outdir: &str, _corpus: Option<&str>) -> std::io::Result<()> {
    let mut sh = Shards::new(
        "C19",
        "From Vib Require Import Model.Base Model.Text Model.Corpus Check.C19Check.",
        "c19case",
        "c19_report",
    );
    let mut dist: BTreeMap<String, usize> = BTreeMap::new();
    let mut samples = vec![];
    let mut master = Rng::new(seed ^ 0xC19);
    for i in 0..n {
        let sub = master.next();
        let mut rng = Rng(sub);
        let mut real_tokens: Vec<(String, String)> = vec![];
        let (kind, text): (u8, String) = if i % 4 != 3 {
            (0, gen_corpus(&mut rng))
        } else {
            // the tokenizer's MeCab-style output for a generated dictionary and sentence
            let go = GenOpts { force_space: false, allow_uncovered: false, with_user: 30, tie_heavy: false, malformed: false, many_ids: false };
            let gd = gen_dict(&mut rng, &go);
            let sent = gen_sentence(&mut rng, &gd);
            let out = match gd.build() {
                Outcome::Ok(d) => {
                    let t = vibrato::Tokenizer::new(d);
                    let t = if rng.chance(1, 3) { t.ignore_space(true).ok() } else { Some(t) };
                    t.and_then(|t| {
                        std::panic::catch_unwind(std::panic::AssertUnwindSafe(|| {
                            let mut w = t.new_worker();
                            let mut toks: Vec<(String, String)> = vec![];
                            w.reset_sentence(&sent);
                            w.tokenize();
                            // exactly what tokenize/src/main.rs prints in the mecab output mode
                            let mut o = String::new();
                            for k in 0..w.num_tokens() {
                                let tk = w.token(k);
                                toks.push((tk.surface().to_string(), tk.feature().to_string()));
                                o.push_str(tk.surface());
                                o.push('\t');
                                o.push_str(tk.feature());
                                o.push('\n');
                            }
                            o.push_str("EOS\n");
                            (o, toks)
                        }))
                        .ok()
                    })
                }
                _ => None,
            };
            match out {
                Some((o, toks)) => { real_tokens = toks; (1, o) }
                None => (0, gen_corpus(&mut rng)),
            }
        };
        // kind 2 (1 corpus in 30): the same text with a byte that is not UTF-8 inserted into one of its lines -- reading
        // must fail, whatever precedes or follows
        let (kind, raw): (u8, Vec<u8>) = if kind == 0 && !text.is_empty() && rng.chance(1, 30) {
            let mut b = text.clone().into_bytes();
            let mut k = rng.below(b.len() as u64) as usize;
            while k < b.len() && (b[k] & 0xC0) == 0x80 { k += 1; }   // not inside a character: the byte itself is the offence
            b.insert(k.min(b.len()), 0xFF);
            (2, b)
        } else { (kind, text.clone().into_bytes()) };
        let p = parse(&raw);
        let w = write_all(&raw);
        let rp = match &w {
            Outcome::Ok(b) => parse(b),
            Outcome::Err => Outcome::Err,
            Outcome::Panic => Outcome::Panic,
        };
        let wtxt = match &w {
            Outcome::Ok(b) => Outcome::Ok(String::from_utf8_lossy(b).to_string()),
            Outcome::Err => Outcome::Err,
            Outcome::Panic => Outcome::Panic,
        };
        let term = format!(
            "(Build_c19case {} {} {} {} {} {})",
            kind, cstr(&text), cres(&p, cexs), cres(&wtxt, |s| cstr(s)), cres(&rp, cexs),
            clist(&real_tokens, |(a, b)| format!("({}, {})", cstr(a), cstr(b)))
        );
        *dist.entry(format!("kind_{}", if kind == 0 { "corpus" } else { "tokenizer_output" })).or_default() += 1;
        *dist.entry(format!("parse_{}", p.kind())).or_default() += 1;
        let human = format!("kind={} text={}", kind, json_str(&text));
        if sh.push_h(format!("seed:{}", sub), term, human.clone()) && samples.len() < 3 {
            samples.push(format!("{{\"case\":{}}}", json_str(&human)));
        }
    }
    let shards = sh.write(outdir, 250)?;
    let mut meta = std::fs::File::create(format!("{}/meta.json", outdir))?;
    let d: Vec<String> = dist.iter().map(|(k, v)| format!("{}:{}", json_str(k), v)).collect();
    writeln!(
        meta,
        "{{\"cases\":{},\"duplicates\":{},\"shards\":{},\"distribution\":{{{}}},\"samples\":[{}]}}",
        sh.cases.len(), sh.duplicates, shards, d.join(","), samples.join(",")
    )?;
    Ok(())
}
