//! C05 / C09: compiled dictionary images. C09: every tested strict prefix and every wrong magic
//! must be rejected with Err. C05: D and read(write(D)) must behave identically under tokenization
//! and under later operation sequences; write reports its byte count; images are identical across
//! the portable and the AVX2 build.
use crate::c06::Op;
use crate::dictgen::*;
use crate::util::*;
use std::collections::BTreeMap;
use std::io::Write;

const MAGIC_LEN: usize = 21;

fn gen_any_dict(rng: &mut Rng, empty_scorer: bool) -> (GenDict, Vec<Op>) {
    let go = GenOpts { force_space: false, allow_uncovered: false, with_user: 40, tie_heavy: false, malformed: false, many_ids: false };
    let mut gd = gen_dict(rng, &go);
    // only valid user rows here (rejection is C08's subject)
    if let Some(u) = gd.user.as_mut() {
        for r in u.iter_mut() {
            r.lid %= gd.nleft as u16;
            r.rid %= gd.nright as u16;
        }
        if u.is_empty() { gd.user = None; }
    }
    // 1 dictionary in 8 has a word whose surface is U+10FFFF, the largest code point (the trie's code table then reaches
    // 0x110000 entries and the image grows to several MB: such images are not handed to the Coq decoder)
    if rng.chance(1, 8) { gd.sys.push(Row { surface: "\u{10FFFF}".to_string(), lid: 0, rid: 0, cost: 7, feature: "MAX,f".to_string() }); }
    let kind = if empty_scorer { 1 + rng.below(2) } else { rng.below(3) };
    if kind >= 1 && gd.nright >= 2 && gd.nleft >= 2 {
        let big = rng.chance(1, 6);
        let bg = crate::c07::gen_bigram_sized(rng, big, false, gd.nright - 1, gd.nleft - 1);
        // 1 in 8: no cost entry at all, or only entries for features no id carries (the scorer, resp. the dual
        // connector's pruned scorer, is then empty)
        let cost_file = match if empty_scorer { rng.below(2) } else { rng.below(16) } { 0 => String::new(), 1 => "UNUSED/unused\t7\n".to_string(), _ => bg.cost_file() };
        gd.bigram = Some((bg.right_file(), bg.left_file(), cost_file, kind == 2));
    }
    let mut pre = vec![];
    if rng.chance(1, 2) {
        let mut l: Vec<u16> = (1..gd.nleft as u16).collect();
        let mut r: Vec<u16> = (1..gd.nright as u16).collect();
        rng.shuffle(&mut l);
        rng.shuffle(&mut r);
        pre.push(Op::Map(l, r));
    }
    (gd, pre)
}

fn build_with(gd: &GenDict, pre: &[Op]) -> Outcome<vibrato::Dictionary> {
    let mut cur = gd.build();
    for op in pre {
        cur = match cur {
            Outcome::Ok(d) => apply(d, op),
            o => o,
        };
    }
    cur
}

fn apply(d: vibrato::Dictionary, op: &Op) -> Outcome<vibrato::Dictionary> {
    let op = op.clone();
    match op {
        Op::Map(l, r) => {
                // the ids are handed over as a Vec, or as lazy iterators whose length is not known in advance
                // (as when they are streamed from the lines of a mapping file)
                if (l.len() + r.len()) % 2 == 0 { guarded(move || d.map_connection_ids_from_iter(l, r)) }
                else { guarded(move || d.map_connection_ids_from_iter(l.into_iter().filter(|_| true), r.into_iter().filter(|_| true))) }
            }
        Op::User(Some(rows)) => {
            let csv = GenDict::rows_csv(&rows);
            guarded(move || d.reset_user_lexicon_from_reader(Some(csv.as_bytes())))
        }
        Op::User(None) => guarded(move || d.reset_user_lexicon_from_reader(None::<&[u8]>)),
        Op::WriteRead => guarded(move || {
            let mut buf = vec![];
            d.write(&mut buf)?;
            vibrato::Dictionary::read(&buf[..])
        }),
    }
}

fn read_outcome(bytes: &[u8]) -> u8 {
    match std::panic::catch_unwind(|| vibrato::Dictionary::read(bytes).is_ok()) {
        Ok(true) => 0,
        Ok(false) => 1,
        Err(_) => 2,
    }
}

fn tokens_of(d: vibrato::Dictionary, sentences: &[String], ignore_space: bool, mgl: usize) -> (Option<Vec<Vec<String>>>, vibrato::Dictionary) {
    // Tokenizer takes the dictionary by value; write/read it back out afterwards is not possible,
    // so the caller passes a dictionary it no longer needs and gets the tokens
    let t = vibrato::Tokenizer::new(d).max_grouping_len(mgl);
    let t = match t.ignore_space(ignore_space) {
        Ok(t) => t,
        Err(_) => panic!("ignore_space"),
    };
    let toks = std::panic::catch_unwind(std::panic::AssertUnwindSafe(|| {
        let mut w = t.new_worker();
        sentences
            .iter()
            .map(|s| {
                w.reset_sentence(s);
                w.tokenize();
                (0..w.num_tokens())
                    .map(|i| {
                        let k = w.token(i);
                        format!("{:?}|{}|{}|{}|{}|{}|{:?}", k.range_char(), k.surface(), k.feature(), k.left_id(), k.right_id(), k.total_cost(), k.lex_type())
                    })
                    .collect()
            })
            .collect()
    }))
    .ok();
    // rebuild is the caller's business; return a dummy by re-reading what the tokenizer holds
    let mut buf = vec![];
    t.dictionary().write(&mut buf).unwrap();
    (toks, vibrato::Dictionary::read(&buf[..]).unwrap())
}

/// a writer with room for `room` bytes; afterwards every write fails
struct Limited { room: usize }
impl std::io::Write for Limited {
    fn write(&mut self, buf: &[u8]) -> std::io::Result<usize> {
        if self.room == 0 && !buf.is_empty() { return Err(std::io::Error::new(std::io::ErrorKind::Other, "no room left")); }
        let k = buf.len().min(self.room);
        self.room -= k;
        Ok(k)
    }
    fn flush(&mut self) -> std::io::Result<()> { Ok(()) }
}

pub fn run(prop: &str, seed: u64, n: usize, outdir: &str, _corpus: Option<&str>) -> std::io::Result<()> {
    let (ctype, report) = if prop == "C09" { ("c09case", "c09_report") } else { ("c05case", "c05_report") };
    let mut sh = Shards::new(
        prop,
        "From Vib Require Import Model.Base Model.Codec Model.DictImage Check.ImgCheck.",
        ctype,
        report,
    );
    let thorough = std::env::var("VERIF_TIER").map_or(false, |t| t == "thorough");
    let imgdir = std::env::var("VERIF_IMAGE_DIR").ok();
    let mut dist: BTreeMap<String, usize> = BTreeMap::new();
    let mut samples = vec![];
    let mut master = Rng::new(seed ^ 0xC09);
    let mut with_image = 0usize;
    for i in 0..n {
        let sub = master.next();
        let mut rng = Rng(sub);
        let (gd, pre) = gen_any_dict(&mut rng, i % 6 == 4); // every sixth image: a bigram connector with an empty scorer
        let d = match build_with(&gd, &pre) {
            Outcome::Ok(d) => d,
            _ => {
                *dist.entry("build_failed".into()).or_default() += 1;
                continue;
            }
        };
        let kind = match &gd.bigram { None => "matrix", Some((_, _, _, false)) => "raw", Some(_) => "dual" };
        *dist.entry(format!("connector_{}", kind)).or_default() += 1;
        *dist.entry(format!("user_{}", gd.user.is_some())).or_default() += 1;
        *dist.entry(format!("mapped_{}", !pre.is_empty())).or_default() += 1;
        // 1 case in 2: an earlier export of the same dictionary on this thread failed part-way (a writer that runs
        // out of room); the export that follows must be unaffected by it
        if rng.chance(1, 2) {
            let room = *rng.pick(&[0usize, 1, 20, 21, 22, 4096, 100_000, 1 << 20]);
            let failed = d.write(Limited { room }).is_err();
            *dist.entry(format!("earlier_failed_write_{}", failed)).or_default() += 1;
        }
        let mut img = vec![];
        let count = d.write(&mut img).unwrap();
        // the model decodes the first few images of a run (an image is ~263 kB)
        let give_image = !cfg!(target_feature = "avx2") && img.len() < 1_000_000 && (with_image < 2 || (thorough && with_image < 9));
        let img_t = if give_image { with_image += 1; format!("(Some {})", cbytes(&img)) } else { "None".to_string() };
        let human = format!(
            "connector={} user={:?} pre_ops={:?} image_len={} char.def={} unk.def={} lex.csv={} matrix.def={} bigram={:?}",
            kind, gd.user.as_ref().map(|u| GenDict::rows_csv(u)), pre, img.len(), json_str(&gd.char_def()),
            json_str(&GenDict::rows_csv(&gd.unk)), json_str(&GenDict::rows_csv(&gd.sys)), json_str(&gd.matrix_def()), gd.bigram
        );
        if prop == "C09" {
            // strict prefixes
            let len = img.len();
            let mut offs: Vec<usize> = (0..len.min(400)).collect();
            offs.extend((len.saturating_sub(3000))..len);
            let nrand = if thorough { 40000 } else { 2500 };
            for _ in 0..nrand { offs.push(rng.below(len as u64) as usize); }
            if thorough && i < 3 { offs = (0..len).collect(); }
            offs.sort_unstable();
            offs.dedup();
            let chunks: Vec<&[usize]> = offs.chunks((offs.len() / 16).max(1)).collect();
            let bad: Vec<(usize, u8)> = std::thread::scope(|sc| {
                let hs: Vec<_> = chunks.iter().map(|ch| { let img = &img; sc.spawn(move || ch.iter().filter_map(|&k| { let o = read_outcome(&img[..k]); if o != 1 { Some((k, o)) } else { None } }).collect::<Vec<_>>()) }).collect();
                hs.into_iter().flat_map(|h| h.join().unwrap()).collect()
            });
            // wrong or partial magic, each alone and followed by the valid payload
            let mut mtests = 0usize;
            let mut mbad: Vec<(usize, u8)> = vec![];
            let mut try_magic = |m: Vec<u8>, code: usize, mtests: &mut usize, mbad: &mut Vec<(usize, u8)>| {
                for with_body in [false, true] {
                    let mut s = m.clone();
                    if with_body { s.extend_from_slice(&img[MAGIC_LEN..]); }
                    // only streams that do NOT start with the current magic are C09's subject
                    if s.len() >= MAGIC_LEN && s[..MAGIC_LEN] == img[..MAGIC_LEN] { continue; }
                    *mtests += 1;
                    let o = read_outcome(&s);
                    if o != 1 { mbad.push((code, o)); }
                }
            };
            for pos in 0..MAGIC_LEN {
                let subs: Vec<u8> = if thorough || i < 2 { (0..=255u8).collect() } else { vec![img[pos] ^ 1, img[pos].wrapping_add(1), img[pos].wrapping_sub(1), 0, 255, b'\r', b' '] };
                for b in subs {
                    if b == img[pos] { continue; }
                    let mut m = img[..MAGIC_LEN].to_vec();
                    m[pos] = b;
                    try_magic(m, pos * 256 + b as usize, &mut mtests, &mut mbad);
                }
                try_magic(img[..pos].to_vec(), 100000 + pos, &mut mtests, &mut mbad); // partial magic
                let mut m = img[..MAGIC_LEN].to_vec(); m.remove(pos);
                try_magic(m, 200000 + pos, &mut mtests, &mut mbad); // a byte missing
                let mut m = img[..MAGIC_LEN].to_vec(); m.insert(pos, img[pos]);
                try_magic(m, 300000 + pos, &mut mtests, &mut mbad); // a byte doubled
            }
            for (k, alt) in [&b"VibratoTokenizer 0.4\n"[..], b"VibratoTokenizer 0.6\n", b"VibratoTokenizer 1.0\n", b"VibratoTokenizer 0.5\r", b"vibratotokenizer 0.5\n", b"MeCabDictionary  0.5\n", b""].iter().enumerate() {
                try_magic(alt.to_vec(), 400000 + k, &mut mtests, &mut mbad);
            }
            // a load that fails must leave nothing behind: right after reading the strict prefix image[..k] (an error) on
            // this thread, the remainder image[k..] -- a stream without the magic -- must be rejected as well
            for k in [1usize, 20, 21, 22, 100, len / 2, len - 1] {
                if k == 0 || k >= len { continue; }
                mtests += 1;
                let first = read_outcome(&img[..k]);
                let second = read_outcome(&img[k..]);
                if first != 1 { mbad.push((500000 + k, first)); }
                if second != 1 { mbad.push((600000 + k, second)); }
            }
            // offsets at which the model evaluates its own decoder
            let model_offs: Vec<usize> = if give_image { (0..6).map(|_| rng.below(len as u64) as usize).chain([0, 20, 21, 22, len - 1]).collect() } else { vec![] };
            let term = format!(
                "(Build_c09case {} {} {} {} {} {} {})",
                img_t, len, offs.len(), clist(&bad, |(k, o)| format!("({}, {})", k, o)), mtests,
                clist(&mbad, |(k, o)| format!("({}, {})", k, o)), clist(&model_offs, |k| cn(k))
            );
            *dist.entry("prefixes_tested".into()).or_default() += offs.len();
            *dist.entry("magics_tested".into()).or_default() += mtests;
            if sh.push_h(format!("seed:{}", sub), term, human.clone()) && samples.len() < 2 {
                samples.push(format!("{{\"case\":{}}}", json_str(&human)));
            }
        } else {
            // C05
            let mut flags: Vec<(String, u8)> = vec![];
            flags.push(("write_count".into(), (count == img.len()) as u8));
            let d2 = match guarded(|| vibrato::Dictionary::read(&img[..])) {
                Outcome::Ok(d2) => d2,
                _ => {
                    flags.push(("read_back".into(), 0));
                    let term = format!("(Build_c05case {} {} {})", sub, img_t, clist(&flags, |(k, v)| format!("({}, {})", cstr(k), v)));
                    sh.push_h(format!("seed:{}", sub), term, human.clone());
                    continue;
                }
            };
            flags.push(("read_back".into(), 1));
            let mut img2 = vec![];
            let c2 = d2.write(&mut img2).unwrap();
            flags.push(("rewrite_same_bytes".into(), (img2 == img && c2 == img.len()) as u8));
            // a sink that runs out of room shortly before the end (1, 7, 100, 5000 bytes short): write must report the failure
            {
                let all_err = [1usize, 7, 100, 5000].iter().all(|k| {
                    let room = img.len().saturating_sub(*k);
                    std::panic::catch_unwind(std::panic::AssertUnwindSafe(|| d2.write(Limited { room }).is_err())).unwrap_or(false)
                });
                flags.push(("write_reports_a_sink_that_fails_near_the_end".into(), all_err as u8));
            }
            // the image followed by a second image and a trailer in ONE stream: each read consumes exactly the bytes its
            // write reported and leaves what follows to the next reader
            {
                let mut both = img.clone();
                both.extend_from_slice(&img2);
                both.extend_from_slice(b"trailer");
                let mut cur = std::io::Cursor::new(&both[..]);
                let ok = std::panic::catch_unwind(std::panic::AssertUnwindSafe(|| {
                    let a = vibrato::Dictionary::read(&mut cur).is_ok();
                    let pa = cur.position() as usize;
                    let b = vibrato::Dictionary::read(&mut cur).is_ok();
                    let pb = cur.position() as usize;
                    a && b && pa == img.len() && pb == img.len() + img2.len() && &both[pb..] == b"trailer"
                })).unwrap_or(false);
                flags.push(("two_images_in_one_stream".into(), ok as u8));
            }
            // cross-build interchange: the portable run leaves its image on disk, the AVX2 run compares
            if let Some(dir) = &imgdir {
                let path = format!("{}/{}.bin", dir, sub);
                if cfg!(target_feature = "avx2") {
                    if let Ok(other) = std::fs::read(&path) {
                        flags.push(("cross_build_same_bytes".into(), (other == img) as u8));
                        flags.push(("cross_build_readable".into(), (read_outcome(&other) == 0) as u8));
                    }
                } else if kind != "dual" {
                    // (the dual connector's template split depends on hash order: not reproducible)
                    std::fs::create_dir_all(dir).ok();
                    std::fs::write(&path, &img).ok();
                }
            }
            // later operations on both
            let nops = rng.below(4) as usize;
            let mut ops = vec![];
            for _ in 0..nops {
                ops.push(match rng.below(8) {
                    0..=2 => {
                        let mut l: Vec<u16> = (1..gd.nleft as u16).collect();
                        let mut r: Vec<u16> = (1..gd.nright as u16).collect();
                        rng.shuffle(&mut l);
                        rng.shuffle(&mut r);
                        Op::Map(l, r)
                    }
                    3..=4 => Op::User(Some(
                        (0..1 + rng.below(2) as usize)
                            .map(|k| Row {
                                surface: if !gd.sys.is_empty() { rng.pick(&gd.sys).surface.clone() } else { "a".to_string() },
                                lid: rng.below(gd.nleft as u64) as u16,
                                rid: rng.below(gd.nright as u64) as u16,
                                cost: rng.range(-30, 30) as i16,
                                feature: format!("V{},u", k),
                            })
                            .collect(),
                    )),
                    5 => Op::User(None),
                    _ => Op::WriteRead,
                });
            }
            let ignore_space = rng.chance(1, 4);
            let mgl = *rng.pick(&[0usize, 2, 24]);
            let sentences: Vec<String> = (0..3).map(|_| gen_sentence(&mut rng, &gd)).collect();
            let run_side = |d: vibrato::Dictionary| -> (u8, Option<Vec<Vec<String>>>, Option<Vec<Vec<String>>>, Vec<u8>) {
                // tokens before the operations, then operations, then tokens and image after
                let space_ok = !ignore_space || d.verif_cate_id("SPACE").is_some();
                let isp = ignore_space && space_ok;
                let (t0, d) = tokens_of(d, &sentences, isp, mgl);
                let mut cur = Outcome::Ok(d);
                for op in &ops {
                    cur = match cur { Outcome::Ok(d) => apply(d, op), o => o };
                }
                match cur {
                    Outcome::Ok(d) => {
                        let mut b = vec![];
                        d.write(&mut b).unwrap();
                        let (t1, _) = tokens_of(d, &sentences, isp, mgl);
                        (0, t0, t1, b)
                    }
                    Outcome::Err => (1, t0, None, vec![]),
                    Outcome::Panic => (2, t0, None, vec![]),
                }
            };
            let a = run_side(d);
            let b = run_side(d2);
            flags.push(("same_tokens".into(), (a.1 == b.1 && a.1.is_some()) as u8));
            flags.push(("same_outcome_after_ops".into(), (a.0 == b.0) as u8));
            flags.push(("same_tokens_after_ops".into(), (a.2 == b.2) as u8));
            flags.push(("same_image_after_ops".into(), (a.3 == b.3) as u8));
            *dist.entry(format!("later_ops_{}", ops.len())).or_default() += 1;
            let term = format!("(Build_c05case {} {} {})", sub, img_t, clist(&flags, |(k, v)| format!("({}, {})", cstr(k), v)));
            let human = format!("{} later_ops={:?} sentences={:?}", human, ops, sentences);
            if sh.push_h(format!("seed:{}", sub), term, human.clone()) && samples.len() < 2 {
                samples.push(format!("{{\"case\":{}}}", json_str(&human)));
            }
        }
    }
    if prop == "C05" && !cfg!(target_feature = "avx2") {
        // one LARGE dictionary (a 8500 x 8500 connection matrix: an image of about 145 MB): the round
        // trip must not depend on the size of the image
        let t0 = std::time::Instant::now();
        let big = guarded(|| vibrato::SystemDictionaryBuilder::from_readers("a,0,0,1,w\n".as_bytes(), "8500 8500\n0 0 1\n8499 8499 -7\n".as_bytes(), "DEFAULT 0 1 0\n".as_bytes(), "DEFAULT,0,0,1,u\n".as_bytes()));
        let mut flags: Vec<(String, u8)> = vec![];
        if let Outcome::Ok(d) = big {
            let mut img = vec![];
            let count = d.write(&mut img).unwrap_or(0);
            flags.push(("large_write_count".into(), (count == img.len() && img.len() > 140_000_000) as u8));
            match guarded(|| vibrato::Dictionary::read(&img[..])) {
                Outcome::Ok(d2) => {
                    flags.push(("large_read_back".into(), 1));
                    flags.push(("large_same_cost".into(), (d2.verif_conn_cost(8499, 8499) == -7 && d2.verif_conn_cost(0, 0) == 1) as u8));
                    let mut img2 = vec![];
                    d2.write(&mut img2).ok();
                    flags.push(("large_rewrite_same_bytes".into(), (img2 == img) as u8));
                }
                _ => flags.push(("large_read_back".into(), 0)),
            }
        } else {
            flags.push(("large_build".into(), 0));
        }
        *dist.entry(format!("large_image_seconds_{}", t0.elapsed().as_secs())).or_default() += 1;
        let term = format!("(Build_c05case {} None {})", 999_999_999u64, clist(&flags, |(k, v)| format!("({}, {})", cstr(k), v)));
        sh.push_h("large".to_string(), term, "8500 x 8500 matrix connector (image of about 145 MB), one word".to_string());
    }
    let shards = sh.write_split(outdir, 40)?;
    let mut meta = std::fs::File::create(format!("{}/meta.json", outdir))?;
    let d: Vec<String> = dist.iter().map(|(k, v)| format!("{}:{}", json_str(k), v)).collect();
    writeln!(
        meta,
        "{{\"cases\":{},\"duplicates\":{},\"shards\":{},\"avx2\":{},\"distribution\":{{{}}},\"samples\":[{}]}}",
        sh.cases.len(), sh.duplicates, shards, cfg!(target_feature = "avx2"), d.join(","), samples.join(",")
    )?;
    Ok(())
}
