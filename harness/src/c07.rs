//! C07: bigram models (bigram.right / bigram.left / bigram.cost) -> raw and dual connectors;
//! every connection cost is observed through the hook and compared in Coq with the defining
//! feature-pair sum and with the model of the scorer.
use crate::util::*;
use std::collections::BTreeMap;
use std::io::Write;

pub struct Bigram {
    pub right: Vec<Vec<String>>, // rows of ids 1..
    pub left: Vec<Vec<String>>,
    pub cost: Vec<(String, String, i32)>,
    pub k: usize,
}

fn quote(s: &str) -> String {
    if s.contains(',') || s.contains('"') || s.contains('\n') {
        format!("\"{}\"", s.replace('"', "\"\""))
    } else {
        s.to_string()
    }
}

impl Bigram {
    pub fn right_file(&self) -> String {
        self.right.iter().enumerate().map(|(i, r)| format!("{}\t{}\n", i + 1, r.iter().map(|f| quote(f)).collect::<Vec<_>>().join(","))).collect()
    }
    pub fn left_file(&self) -> String {
        self.left.iter().enumerate().map(|(i, r)| format!("{}\t{}\n", i + 1, r.iter().map(|f| quote(f)).collect::<Vec<_>>().join(","))).collect()
    }
    pub fn cost_file(&self) -> String {
        self.cost.iter().map(|(r, l, c)| format!("{}/{}\t{}\n", r, l, c)).collect()
    }
    /// the sum of the ABSOLUTE values of the listed costs that apply to a pair: when it fits 16 bits, no partial sum of the
    /// dual connector's pre-summed part can leave 16 bits, whatever the split of the template positions
    pub fn spec_abs(&self, r: usize, l: usize) -> i64 {
        let mut table: BTreeMap<(&str, &str), i32> = BTreeMap::new();
        for (a, b, c) in &self.cost { table.insert((a.as_str(), b.as_str()), *c); }
        let mut sum = 0i64;
        for p in 0..self.k {
            let rf: Option<&str> = if r == 0 { Some("") } else { self.right[r - 1].get(p).map(|s| s.as_str()) };
            let lf: Option<&str> = if l == 0 { Some("") } else { self.left[l - 1].get(p).map(|s| s.as_str()) };
            if let (Some(a), Some(b)) = (rf, lf) { if let Some(c) = table.get(&(a, b)) { sum += (*c as i64).abs(); } }
        }
        sum
    }
    /// the defining sum, computed here only to materialise matrix.def (the oracle is in Coq)
    pub fn spec(&self, r: usize, l: usize) -> i64 {
        let mut table: BTreeMap<(&str, &str), i32> = BTreeMap::new();
        for (a, b, c) in &self.cost {
            table.insert((a.as_str(), b.as_str()), *c);
        }
        let mut sum = 0i64;
        for p in 0..self.k {
            let rf: Option<&str> = if r == 0 { Some("") } else { self.right[r - 1].get(p).map(|s| s.as_str()) };
            let lf: Option<&str> = if l == 0 { Some("") } else { self.left[l - 1].get(p).map(|s| s.as_str()) };
            if let (Some(a), Some(b)) = (rf, lf) {
                if let Some(c) = table.get(&(a, b)) {
                    sum += *c as i64;
                }
            }
        }
        sum
    }
}

pub fn gen_bigram(rng: &mut Rng, big_costs: bool, star_listed: bool) -> Bigram {
    let nr = 1 + rng.below(4) as usize;
    let nl = 1 + rng.below(4) as usize;
    gen_bigram_sized(rng, big_costs, star_listed, nr, nl)
}

/// `nr` / `nl`: number of rows of bigram.right / bigram.left (ids 1..)
pub fn gen_bigram_sized(rng: &mut Rng, big_costs: bool, star_listed: bool, nr: usize, nl: usize) -> Bigram {
    let k = match rng.below(10) {
        0 => 1,
        1 => 1 + rng.below(7) as usize,
        2..=6 => 8 + rng.below(5) as usize,
        7 => 16 + rng.below(4) as usize,
        _ => 1 + rng.below(12) as usize,
    };
    // (features with white space at their edges, one that is only U+3000, and one that begins with '#': all plain text)
    let pool_r = ["A", "B", "C", "x,y", "q\"t", "", "*", "D", "名詞", "A", " A", "#A", "\u{3000}"];
    let pool_l = ["a", "b", "A", "x,y", "", "*", "c", "名詞", "d", "a ", "b\u{3000}", "#a"];
    let row = |rng: &mut Rng, pool: &[&str]| -> Vec<String> {
        let len = if rng.chance(1, 4) { 1 + rng.below(k as u64) as usize } else { k };
        (0..len)
            .map(|p| {
                let f = *rng.pick(pool);
                // position-tagged features (as real templates produce) mixed with shared strings
                if !f.is_empty() && f != "*" && rng.chance(1, 2) { format!("{}{}", f, p % 3) } else { f.to_string() }
            })
            .collect()
    };
    let mut right: Vec<Vec<String>> = (0..nr).map(|_| row(rng, &pool_r)).collect();
    let mut left: Vec<Vec<String>> = (0..nl).map(|_| row(rng, &pool_l)).collect();
    // at least one row has full length so that K is the template count
    right[0].resize(k, "A".to_string());
    left[0].resize(k, "a".to_string());
    // 1 case in 5: only one side reaches K templates, every row of the other side is shorter
    // (possibly by more than one 8-lane block)
    if k > 1 && rng.chance(1, 5) {
        let cap = 1 + rng.below(k as u64 - 1) as usize;
        let side = if rng.chance(1, 2) { &mut right } else { &mut left };
        for r in side.iter_mut() { r.truncate(cap); }
    }
    // with more than 8 templates, 1 row in 6 has no feature in its whole first 8-lane block ('*' = no feature there)
    // and features only in later blocks
    if k > 8 {
        for r in right.iter_mut().chain(left.iter_mut()).skip(1) {
            if rng.chance(1, 6) { for f in r.iter_mut().take(8) { *f = "*".to_string(); } }
        }
    }
    // 1 model in 25: one listed feature longer than 4096 bytes (the CSV reader's buffer size)
    if rng.chance(1, 25) {
        // (ASCII or three-byte characters after 0-3 ASCII bytes: a chunk of 4096 bytes then ends inside a character)
        let long: String = if rng.chance(1, 2) { std::iter::repeat('L').take(4097 + rng.below(3000) as usize).collect() }
            else { let mut t: String = std::iter::repeat('L').take(rng.below(4) as usize).collect(); t.extend(std::iter::repeat('あ').take(1400 + rng.below(900) as usize)); t };
        let p = rng.below(right[0].len() as u64) as usize;
        right[0][p] = long;
    }
    // 1 model in 10: at one template position every row of one side is '*' (no feature), the other side keeps its
    // features there (they still pair with the empty feature of BOS/EOS)
    if rng.chance(1, 10) {
        let p = rng.below(k as u64) as usize;
        let side = if rng.chance(1, 2) { &mut right } else { &mut left };
        for r in side.iter_mut() { if p < r.len() { r[p] = "*".to_string(); } }
    }
    // occasional duplicate rows (ids sharing all features)
    if nr > 1 && rng.chance(1, 4) { right[nr - 1] = right[0].clone(); }
    if nl > 1 && rng.chance(1, 4) { left[nl - 1] = left[0].clone(); }
    let mut cost = vec![];
    let mut seen = std::collections::BTreeSet::new();
    let lim = if big_costs { 200000 } else { 2000 };
    let mut add = |rng: &mut Rng, a: String, b: String, cost: &mut Vec<(String, String, i32)>| {
        if a.contains('/') || b.contains('/') { return; }
        if !star_listed && (a == "*" || b == "*") { return; }
        if seen.insert((a.clone(), b.clone())) {
            let c = match rng.below(8) { 0 => 0, 1 => lim, 2 => -lim, _ => rng.range(-(lim as i64), lim as i64) as i32 };
            cost.push((a, b, c));
        }
    };
    let dense = rng.chance(1, 3);
    for r in 0..=nr {
        for l in 0..=nl {
            for p in 0..k {
                let a = if r == 0 { Some(String::new()) } else { right[r - 1].get(p).cloned() };
                let b = if l == 0 { Some(String::new()) } else { left[l - 1].get(p).cloned() };
                if let (Some(a), Some(b)) = (a, b) {
                    if dense || rng.chance(1, 3) { add(rng, a, b, &mut cost); }
                }
            }
        }
    }
    // cross-position and unused pairs
    for _ in 0..rng.below(6) {
        let a = rng.pick(&right).get(rng.below(k as u64) as usize).cloned().unwrap_or_default();
        let b = rng.pick(&left).get(rng.below(k as u64) as usize).cloned().unwrap_or_default();
        add(rng, a, b, &mut cost);
    }
    add(rng, "UNUSED".into(), "unused".into(), &mut cost);
    // 1 model in 8 with more than 8 templates: three positions of the first right / left row carry +30000, +30000 and
    // -30000 (every partial sum of two leaves 16 bits, the sum of the three fits)
    // (only in models with large costs, i.e. in C07's own stream and the image streams: where two builds of one dual
    // dictionary are compared, a pre-summed part outside 16 bits would make the -- unordered -- greedy split visible)
    if big_costs && k >= 9 && right[0].len() == k && left[0].len() == k && rng.chance(1, 2) {
        // every position of the first right / left row carries +30000, +30000, -30000, ... in turn: whatever positions the
        // dual connector pre-sums, the order of adding and saturating matters
        for p in 0..k {
            let c = if p % 3 == 2 { -30000 } else { 30000 };
            let (a, b) = (format!("S{}", p), format!("s{}", p));
            right[0][p] = a.clone();
            left[0][p] = b.clone();
            cost.push((a, b, c));
        }
    }
    rng.shuffle(&mut cost);
    Bigram { right, left, cost, k }
}

fn conn_matrix(d: &vibrato::Dictionary) -> Vec<Vec<i32>> {
    let (nr, nl) = d.verif_conn_dims();
    (0..nr).map(|r| (0..nl).map(|l| d.verif_conn_cost(r as u16, l as u16)).collect()).collect()
}

const CHAR_DEF: &str = "DEFAULT 0 1 0\n";

pub fn run(seed: u64, n: usize, outdir: &str, _corpus: Option<&str>) -> std::io::Result<()> {
    let mut sh = Shards::new(
        "C07",
        "From Vib Require Import Model.Base Model.Scorer Check.C07Check.",
        "c07case",
        "c07_report",
    );
    let mut dist: BTreeMap<String, usize> = BTreeMap::new();
    let mut samples = vec![];
    let mut master = Rng::new(seed ^ 0xC07);
    for _ in 0..n {
        let sub = master.next();
        let mut rng = Rng(sub);
        let big = rng.chance(1, 8);
        let star = rng.chance(1, 10);
        let bg = gen_bigram(&mut rng, big, star);
        let (nr, nl) = (bg.right.len() + 1, bg.left.len() + 1);
        // a lexicon with one word per (left, right) id pair over two letters, so that
        // tokenization exercises many connections
        let mut lex = String::new();
        let letters = ["a", "b", "ab", "ba", "aa"];
        let mut wi = 0;
        for l in 0..nl {
            for r in 0..nr {
                lex.push_str(&format!("{},{},{},{},w{}\n", letters[wi % letters.len()], l, r, (wi * 7 % 23) as i64 - 5, wi));
                wi += 1;
            }
        }
        let unk = "DEFAULT,0,0,100,unk\n".to_string();
        let (rf, lf, cf) = (bg.right_file(), bg.left_file(), bg.cost_file());
        let reload = rng.chance(1, 2);
        let build = |dual: bool| {
            let (lex, rf, lf, cf, unk) = (lex.clone(), rf.clone(), lf.clone(), cf.clone(), unk.clone());
            guarded(move || {
                let d = vibrato::SystemDictionaryBuilder::from_readers_with_bigram_info(
                    lex.as_bytes(), rf.as_bytes(), lf.as_bytes(), cf.as_bytes(), CHAR_DEF.as_bytes(), unk.as_bytes(), dual,
                )?;
                // half of the cases observe the connector after a write / read round trip (decoded scorer)
                if reload {
                    let mut buf = vec![];
                    d.write(&mut buf)?;
                    vibrato::Dictionary::read(&buf[..])
                } else {
                    Ok(d)
                }
            })
        };
        let raw = build(false);
        let dual = build(true);
        // the implementation's own split of the template positions (hook; same thread as the build)
        let split_t = match &dual {
            Outcome::Ok(_) => format!("(Some {})", clist(&vibrato::Dictionary::verif_last_dual_split(), |p| format!("{}%N", p))),
            _ => "None".to_string(),
        };
        // matrix.def materialised from the defining sums (when they fit 16 bits)
        let fits = (0..nr).all(|r| (0..nl).all(|l| bg.spec(r, l).abs() <= 32767));
        let matrix = if fits {
            let mut m = format!("{} {}\n", nr, nl);
            for r in 0..nr { for l in 0..nl { m.push_str(&format!("{} {} {}\n", r, l, bg.spec(r, l))); } }
            let (lex, unk) = (lex.clone(), unk.clone());
            guarded(move || vibrato::SystemDictionaryBuilder::from_readers(lex.as_bytes(), m.as_bytes(), CHAR_DEF.as_bytes(), unk.as_bytes()))
        } else {
            Outcome::Err
        };
        let mat_of = |d: &Outcome<vibrato::Dictionary>| match d {
            Outcome::Ok(d) => match std::panic::catch_unwind(std::panic::AssertUnwindSafe(|| conn_matrix(d))) {
                Ok(m) => format!("(Ok {})", clist(&m, |row| clist(row, |c| cz(*c as i64)))),
                Err(_) => "Panic".to_string(), // a cost lookup panicked
            },
            Outcome::Err => "Err".to_string(),
            Outcome::Panic => "Panic".to_string(),
        };
        let raw_t = mat_of(&raw);
        let dual_t = mat_of(&dual);
        // tokenization with the three dictionaries
        let sentences = ["abab", "aab", "ba", "a", "bbaab"];
        let toks = |d: Outcome<vibrato::Dictionary>| -> Option<Vec<Vec<(String, i32, String)>>> {
            match d {
                Outcome::Ok(d) => {
                    let t = vibrato::Tokenizer::new(d);
                    std::panic::catch_unwind(std::panic::AssertUnwindSafe(|| {
                        let mut w = t.new_worker();
                        sentences.iter().map(|s| {
                            w.reset_sentence(*s);
                            w.tokenize();
                            (0..w.num_tokens()).map(|i| { let k = w.token(i); (k.surface().to_string(), k.total_cost(), k.feature().to_string()) }).collect()
                        }).collect()
                    })).ok()
                }
                _ => None,
            }
        };
        let (t_raw, t_dual, t_mat) = (toks(raw), toks(dual), toks(matrix));
        let same = |a: &Option<Vec<Vec<(String, i32, String)>>>, b: &Option<Vec<Vec<(String, i32, String)>>>| match (a, b) {
            (Some(x), Some(y)) => x.iter().zip(y).all(|(p, q)| p.last().map(|t| t.1) == q.last().map(|t| t.1)) as u8, // same optimum
            _ => 2, // not comparable
        };
        let term = format!(
            "(Build_c07case {} {} {} {} {} {} {} {} {})",
            clist(&bg.right, |r| clist(r, |f| cstr(f))),
            clist(&bg.left, |r| clist(r, |f| cstr(f))),
            clist(&bg.cost, |(a, b, c)| format!("({}, {}, {})", cstr(a), cstr(b), cz(*c as i64))),
            bg.k, raw_t, dual_t, same(&t_raw, &t_dual), same(&t_raw, &t_mat), split_t
        );
        let human = format!("bigram.right={} bigram.left={} bigram.cost={}", json_str(&rf), json_str(&lf), json_str(&cf));
        *dist.entry(format!("templates_{}", if bg.k < 8 { "lt8" } else if bg.k == 8 { "8" } else { "gt8" })).or_default() += 1;
        *dist.entry(format!("big_costs_{}", big)).or_default() += 1;
        *dist.entry(format!("star_listed_{}", star)).or_default() += 1;
        *dist.entry(format!("cost_lines_{}", (bg.cost.len() / 10) * 10)).or_default() += 1;
        if sh.push_h(format!("seed:{}", sub), term, human.clone()) && samples.len() < 2 {
            samples.push(format!("{{\"case\":{}}}", json_str(&human)));
        }
    }
    let shards = sh.write(outdir, 40)?;
    let mut meta = std::fs::File::create(format!("{}/meta.json", outdir))?;
    let d: Vec<String> = dist.iter().map(|(k, v)| format!("{}:{}", json_str(k), v)).collect();
    writeln!(
        meta,
        "{{\"cases\":{},\"duplicates\":{},\"shards\":{},\"avx2\":{},\"distribution\":{{{}}},\"samples\":[{}]}}",
        sh.cases.len(), sh.duplicates, shards, cfg!(target_feature = "avx2"), d.join(","), samples.join(",")
    )?;
    Ok(())
}
