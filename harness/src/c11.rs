//! C11: lexicon CSVs rendered from rows with layout choices (quoting, terminators, blank lines,
//! BOM-free, optional final newline) + a malformed stream; parsed by the real `Lexicon::parse_csv`.
use crate::util::*;
use std::collections::BTreeMap;
use std::io::Write;

#[derive(Clone)]
struct SrcRow {
    surface: String,
    lid: u16,
    rid: u16,
    cost: i16,
    feature_raw: String, // as written in the file (may contain quoted cells)
}

fn quote_cell(s: &str, force: bool) -> String {
    if force || s.contains(',') || s.contains('"') || s.contains('\n') || s.contains('\r') {
        format!("\"{}\"", s.replace('"', "\"\""))
    } else {
        s.to_string()
    }
}

fn gen_rows(rng: &mut Rng) -> Vec<SrcRow> {
    let surf = ["東京", "a", "a,b", "q\"t", " ", "x y", "", "京都", "a", "東", "\"", "1,2,\"3\"", "é", "😀", "ab", "#", "#tag", ";x", "𠮷野", "😀a", "\u{10FFFF}"];
    // (a long cell of three-byte characters, and a quoted cell of about 2 kB with doubled quotes in its first part)
    let long_jp: String = std::iter::repeat("読み仮名").take(12).collect();
    let long_q: String = format!("q\"{}", std::iter::repeat("ab\"cd,").take(330).collect::<String>());
    let cells = ["名詞", "f", "", "*", "a b", "x,y", "i\"j", " ", "終", "l1\nl2"];
    // the long cells appear in 1 lexicon of 12 only (and not in the lexicons with hundreds of homographs): they make the
    // Coq literals of a case large
    let long_case = rng.chance(1, 12);
    // 1 case in 20: one surface with 255..600 homographs (posting lists longer than one byte can count)
    let many = rng.chance(1, 20);
    let n = if many { *rng.pick(&[255usize, 256, 257, 300, 512, 600]) } else { 1 + rng.below(6) as usize };
    let many_surface = *rng.pick(&["東京", "a", "ab"]);
    (0..n)
        .map(|_| {
            let nf = rng.below(5) as usize;
            let feature_raw = (0..nf)
                .map(|_| {
                    let c = if long_case && !many && rng.chance(1, 4) { if rng.chance(1, 2) { long_jp.as_str() } else { long_q.as_str() } } else { *rng.pick(&cells[..]) };
                    quote_cell(c, rng.chance(1, 6))
                })
                .collect::<Vec<_>>()
                .join(",");
            SrcRow {
                surface: if many && !rng.chance(1, 40) { many_surface.to_string() } else { rng.pick(&surf[..]).to_string() },
                lid: *rng.pick(&[0u16, 1, 7, 65535, 12]),
                rid: *rng.pick(&[0u16, 2, 9, 65535]),
                cost: *rng.pick(&[0i16, -1, 5, 32767, -32768, 120, -3000]),
                feature_raw,
            }
        })
        .collect()
}

fn render(rng: &mut Rng, rows: &[SrcRow]) -> String {
    // 1 file in 10 ends with two rows whose surface is empty (skipped rows, at the very end of the input)
    let tail = if rng.chance(1, 10) { *rng.pick(&["\n,1,1,5,a\n,1,1,6,b\n", ",0,0,5,a\n,0,0,6,b", "\n,0,0,0,\n,0,0,0,\n"]) } else { "" };
    let body = render_rows(rng, rows);
    if tail.is_empty() { body } else if body.ends_with('\n') || body.ends_with('\r') || body.is_empty() { format!("{}{}", body, tail.trim_start_matches('\n')) } else { format!("{}\n{}", body, tail.trim_start_matches('\n')) }
}

fn render_rows(rng: &mut Rng, rows: &[SrcRow]) -> String {
    let term = *rng.pick(&["\n", "\n", "\r\n", "\r"]);
    let mut s = String::new();
    if rng.chance(1, 6) { s.push_str(term); }
    for (i, r) in rows.iter().enumerate() {
        s.push_str(&quote_cell(&r.surface, rng.chance(1, 5)));
        // the numerals in any form Rust's integer parser accepts: a leading '+', leading zeros
        let num = |rng: &mut Rng, v: i64| -> String {
            match rng.below(12) {
                0 if v >= 0 => format!("+{}", v),
                1 => if v < 0 { format!("-{:06}", -v) } else { format!("{:06}", v) },
                2 if v >= 0 => format!("{:09}", v),
                _ => format!("{}", v),
            }
        };
        s.push_str(&format!(",{},{},{},{}", num(rng, r.lid as i64), num(rng, r.rid as i64), num(rng, r.cost as i64), r.feature_raw));
        let last = i + 1 == rows.len();
        if !last || rng.chance(3, 4) { s.push_str(term); }
        if rng.chance(1, 6) && (!last || s.ends_with(term)) { s.push_str(term); } // blank line
    }
    s
}

fn corrupt(rng: &mut Rng, s: &str) -> String {
    let mut b: Vec<char> = s.chars().collect();
    if b.is_empty() { return "x".into(); }
    let k = rng.below(b.len() as u64) as usize;
    match rng.below(9) {
        // a number that does not fit its type: the cost (i16) or a connection id (u16) of the first row
        7 | 8 => {
            let big = *rng.pick(&["40000", "-32769", "65536", "-100000", "99999999999"]);
            let mut cells: Vec<String> = s.splitn(5, ',').map(|x| x.to_string()).collect();
            if cells.len() == 5 && !cells[0].contains('"') && !cells[0].contains('\n') {
                let which = if big.starts_with('-') || big == "40000" { 3 } else { 1 + rng.below(2) as usize };
                cells[which] = big.to_string();
                return cells.join(",");
            }
            b.insert(k, ',');
        }
        0 => { b.remove(k); }
        1 => { b.insert(k, ','); }
        2 => { b.insert(k, '"'); }
        3 => { b.truncate(k); }
        4 => { b[k] = 'x'; }
        5 => { b.insert(k, '\n'); }
        _ => { let c = b[k]; b.insert(k, c); }
    }
    b.into_iter().collect()
}

fn crow(s: &str, l: u16, r: u16, c: i16, f: &str) -> String {
    format!("(Build_c11row {} {} {} {} {})", cbytes(s.as_bytes()), l, r, cz(c as i64), cbytes(f.as_bytes()))
}

pub fn run(seed: u64, n: usize, outdir: &str, _corpus: Option<&str>) -> std::io::Result<()> {
    let mut sh = Shards::new("C11", "From Vib Require Import Model.Base Model.Text Model.LexCsv Check.C11Check.", "c11case", "c11_report");
    let mut dist: BTreeMap<String, usize> = BTreeMap::new();
    let mut samples = vec![];
    let mut master = Rng::new(seed ^ 0xC11);
    for i in 0..n {
        let sub = master.next();
        let mut rng = Rng(sub);
        let rows = gen_rows(&mut rng);
        let good = render(&mut rng, &rows);
        let wellformed = i % 3 != 2;
        let text = if wellformed { good } else { corrupt(&mut rng, &good) };
        let t2 = text.clone();
        let parsed = guarded(move || vibrato::Dictionary::verif_parse_lex_csv(t2.as_bytes()));
        *dist.entry(format!("{}_{}", if wellformed { "wellformed" } else { "corrupted" }, parsed.kind())).or_default() += 1;
        // the same rows (ids reduced into a 4x4 connector) compiled into a dictionary: the features
        // as STORED, read back with Dictionary::word_feature in row order
        let small: Vec<SrcRow> = rows.iter().map(|r| SrcRow { lid: r.lid % 4, rid: r.rid % 4, ..r.clone() }).collect();
        let csv2 = render(&mut rng, &small);
        let do_build = wellformed && i % 4 == 0;
        let reload = rng.chance(1, 2);
        let with_bigram = if rng.chance(1, 3) { 1 + rng.below(2) } else { 0 };
        let stored = if !do_build { Outcome::Err } else { guarded(move || {
            let mut m = String::from("4 4\n");
            for r in 0..4 { for l in 0..4 { m.push_str(&format!("{} {} 0\n", r, l)); } }
            // 1 compiled dictionary in 3 gets a raw or dual connector from bigram files instead of matrix.def (the rows keep their ids)
            let d = if with_bigram == 0 {
                vibrato::SystemDictionaryBuilder::from_readers(csv2.as_bytes(), m.as_bytes(), "DEFAULT 0 1 0\n".as_bytes(), "DEFAULT,0,0,1,u\n".as_bytes())?
            } else {
                let rows3 = "1\tA\n2\tB\n3\tA\n";
                vibrato::SystemDictionaryBuilder::from_readers_with_bigram_info(csv2.as_bytes(), rows3.as_bytes(), rows3.as_bytes(), "A/B\t3\n".as_bytes(), "DEFAULT 0 1 0\n".as_bytes(), "DEFAULT,0,0,1,u\n".as_bytes(), with_bigram == 2)?
            };
            // half of the compiled dictionaries are observed after a write / read round trip
            if reload { let mut buf = vec![]; d.write(&mut buf)?; vibrato::Dictionary::read(&buf[..]) } else { Ok(d) }
        }) };
        let nkept = rows.iter().filter(|r| !r.surface.is_empty()).count();
        let stored_t = match &stored {
            Outcome::Ok(d) => {
                let fs: Vec<String> = (0..nkept)
                    .map(|i| d.word_feature(vibrato::dictionary::WordIdx { lex_type: vibrato::dictionary::LexType::System, word_id: i as u32 }).to_string())
                    .collect();
                format!("(Ok {})", clist(&fs, |f| cbytes(f.as_bytes())))
            }
            Outcome::Err => "Err".to_string(),
            Outcome::Panic => "Panic".to_string(),
        };
        let stored_t = if do_build { format!("(Some {})", stored_t) } else { "None".to_string() };
        // the same CSV loaded as a USER lexicon (Lexicon::from_reader path) into a one-word dictionary
        let csv3 = render(&mut rng, &small);
        let user_t = if !do_build { "None".to_string() } else {
            let loaded = guarded(move || {
                let mut m = String::from("4 4\n");
                for r in 0..4 { for l in 0..4 { m.push_str(&format!("{} {} 0\n", r, l)); } }
                let d = vibrato::SystemDictionaryBuilder::from_readers("z,0,0,1,base\n".as_bytes(), m.as_bytes(), "DEFAULT 0 1 0\n".as_bytes(), "DEFAULT,0,0,1,u\n".as_bytes())?;
                d.reset_user_lexicon_from_reader(Some(csv3.as_bytes()))
            });
            match &loaded {
                Outcome::Ok(d) => {
                    let fs = std::panic::catch_unwind(std::panic::AssertUnwindSafe(|| (0..nkept)
                        .map(|i| d.word_feature(vibrato::dictionary::WordIdx { lex_type: vibrato::dictionary::LexType::User, word_id: i as u32 }).to_string())
                        .collect::<Vec<String>>()));
                    match fs { Ok(fs) => format!("(Some (Ok {}))", clist(&fs, |f| cbytes(f.as_bytes()))), Err(_) => "(Some Panic)".to_string() }
                }
                Outcome::Err => "(Some Err)".to_string(),
                Outcome::Panic => "(Some Panic)".to_string(),
            }
        };
        // homographs as the tokenizer finds them: every distinct surface tokenized as a sentence; the
        // system-lexicon nodes spanning the whole sentence, in lattice order, are its homographs
        let mut homs: Vec<(String, Vec<u64>)> = vec![];
        if let Outcome::Ok(d) = stored {
            let mut seen: Vec<String> = vec![];
            for r in rows.iter().filter(|r| !r.surface.is_empty()) {
                if seen.contains(&r.surface) { continue; }
                seen.push(r.surface.clone());
            }
            let tok = vibrato::Tokenizer::new(d);
            for sf in seen {
                let t = &tok;
                let sf2 = sf.clone();
                let ids = guarded_plain(std::panic::AssertUnwindSafe(move || {
                    let mut w = t.new_worker();
                    w.reset_sentence(&sf2);
                    w.tokenize();
                    let (ends, _, _) = w.verif_lattice_dump();
                    let n = sf2.chars().count();
                    ends.get(n).map(|v| v.iter().filter(|x| x[1] == 0 && x[2] == 0).map(|x| x[3] as u64 * 16 + x[4] as u64 * 4 + x[5] as u64).collect::<Vec<u64>>()).unwrap_or_default()
                }));
                match ids {
                    Outcome::Ok(v) => homs.push((sf, v)),
                    _ => homs.push((sf, vec![4294967295])),
                }
            }
        }
        let term = format!(
            "(Build_c11case {} {} {} {} {} {} {})",
            cbool(wellformed), cbytes(text.as_bytes()),
            clist(&rows, |r| crow(&r.surface, r.lid, r.rid, r.cost, &r.feature_raw)),
            cres(&parsed, |v| clist(v, |(s, l, r, c, f)| crow(s, *l, *r, *c, f))),
            stored_t, user_t,
            clist(&homs, |(s, v)| format!("({}, {})", cbytes(s.as_bytes()), clist(v, |x| format!("{}", x))))
        );
        let human = format!("wellformed={} csv={}", wellformed, json_str(&text));
        if sh.push_h(format!("seed:{}", sub), term, human.clone()) && samples.len() < 3 {
            samples.push(format!("{{\"case\":{}}}", json_str(&human)));
        }
    }
    let shards = sh.write(outdir, 150)?;
    let mut meta = std::fs::File::create(format!("{}/meta.json", outdir))?;
    let d: Vec<String> = dist.iter().map(|(k, v)| format!("{}:{}", json_str(k), v)).collect();
    writeln!(meta, "{{\"cases\":{},\"duplicates\":{},\"shards\":{},\"distribution\":{{{}}},\"samples\":[{}]}}", sh.cases.len(), sh.duplicates, shards, d.join(","), samples.join(","))?;
    Ok(())
}
