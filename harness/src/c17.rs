//! C17: rewrite.def texts x feature lists -> TrainerConfig::verif_rewrite
use crate::util::*;
use std::collections::BTreeMap;
use std::io::Write;

const COLS: &[&str] = &[
    "*", "*", "a", "a", "b", "c", "(a|b)", "(b|a)", "(b|c)", "(|a)", "(b||c)", "(a)", "あ", "(あ|a)", "x", "y", "()", "(", "(|a)", "ab", "*a", "\u{3000}", "(\u{3000}|a)", "a\u{a0}", "\"a\"", "\"", "\"a",
];
// alternative lists whose first member starts with '(' or whose last member ends with ')'
const PAREN_COLS: &[&str] = &["((|a)", "(a|))", "((|))", "(()", "())", "((|b|[)", "(]|a|))"];
const OUTS: &[&str] = &[
    "$1", "$2", "$3", "$4", "$5", "R", "S", "*", "$", "$x", "$1x", "あ", "$10", "x$1", "$01", "\u{3000}", "$1\u{a0}",
];
const FEATS: &[&str] = &["a", "a", "b", "b", "c", "あ", "x", "y", "", "", "ab", "*", "(", ")", "[", "]", "\u{3000}", "a\u{a0}", "\"a\"", "\""];

fn gen_rule(rng: &mut Rng, tag: usize, dirty: bool) -> String {
    // 1 rule in 14 copies the first k columns: all-'*' pattern, output $1..$k (it truncates longer
    // entries and shadows every later rule of its section)
    if rng.chance(1, 14) {
        let k = 1 + rng.below(4) as usize;
        return format!("{} {}", vec!["*"; k].join(","), (1..=k).map(|i| format!("${}", i)).collect::<Vec<_>>().join(","));
    }
    let ncol = 1 + rng.below(4) as usize;
    let mut cols = vec![];
    for _ in 0..ncol {
        // mostly the small alphabet so that rules overlap
        let c = if rng.chance(1, 12) { *rng.pick(PAREN_COLS) } else if !dirty || rng.chance(9, 10) { COLS[rng.below(11) as usize] } else { *rng.pick(COLS) };
        cols.push(c.to_string());
    }
    let nout = 1 + rng.below(3) as usize;
    let mut outs = vec![format!("R{}", tag)];
    for _ in 0..nout {
        let o = if dirty && rng.chance(1, 30) { "$0" } else { *rng.pick(OUTS) };
        outs.push(o.to_string());
    }
    let sep = *rng.pick(&[" ", " ", "\t", "  ", " \t "]);
    let mut line = format!("{}{}{}", cols.join(","), sep, outs.join(","));
    if dirty && rng.chance(1, 20) {
        line.push_str(" extra");
    }
    if dirty && rng.chance(1, 30) {
        line = cols.join(",");
    }
    line
}

pub fn gen_text(rng: &mut Rng) -> String {
    let mut t = String::new();
    let eol = if rng.chance(1, 6) { "\r\n" } else { "\n" };
    let nsec = 1 + rng.below(4) as usize;
    let mut tag = 0;
    let dirty = rng.chance(1, 7);
    if dirty && rng.chance(1, 6) {
        t.push_str(&gen_rule(rng, 99, dirty));
        t.push_str(eol);
    }
    for _ in 0..nsec {
        let h = *rng.pick(&["[unigram rewrite]", "[unigram rewrite]", "[left rewrite]", "[right rewrite]"]);
        if rng.chance(1, 8) {
            t.push_str("  ");
        }
        t.push_str(h);
        if rng.chance(1, 8) {
            t.push_str(" \u{3000}");
        }
        if dirty && rng.chance(1, 20) {
            t.push_str("x");
        }
        t.push_str(eol);
        let nr = rng.below(7) as usize;
        for _ in 0..nr {
            if rng.chance(1, 10) {
                t.push_str("# comment");
                t.push_str(eol);
            }
            if rng.chance(1, 10) {
                t.push_str(eol);
            }
            if rng.chance(1, 10) {
                t.push_str(" ");
            }
            t.push_str(&gen_rule(rng, tag, dirty));
            tag += 1;
            t.push_str(eol);
        }
    }
    if rng.chance(1, 5) && t.ends_with('\n') {
        t.pop();
        if t.ends_with('\r') && rng.chance(1, 2) {
            t.pop();
        }
    }
    t
}

pub fn gen_features(rng: &mut Rng) -> Vec<String> {
    let n = if rng.chance(1, 8) { 0 } else { 1 + rng.below(5) as usize };
    (0..n).map(|_| if rng.chance(3, 4) { FEATS[rng.below(5) as usize] } else { *rng.pick(FEATS) }.to_string()).collect()
}

type Obs = (Vec<[Option<Vec<String>>; 3]>, [usize; 3]);

fn run_impl(text: &str, fss: &[Vec<String>]) -> Outcome<Obs> {
    let t = text.as_bytes().to_vec();
    let f = fss.to_vec();
    guarded(move || vibrato::trainer::TrainerConfig::verif_rewrite(&t, &f))
}

fn term(text: &str, fss: &[Vec<String>], out: &Outcome<Obs>) -> String {
    let fss_t = clist(fss, |fs| clist(fs, |s| cstr(s)));
    let out_t = cres(out, |(obs, counts)| {
        format!(
            "({}, {})",
            clist(obs, |o| clist(&o[..], |x| copt(x, |v| clist(v, |s| cstr(s))))),
            clist(&counts[..], |c| cn(c))
        )
    });
    format!("({}, {}, {})", cstr(text), fss_t, out_t)
}

pub fn run(seed: u64, n: usize, outdir: &str, corpus: Option<&str>) -> std::io::Result<()> {
    let mut sh = Shards::new(
        "C17",
        "From Vib Require Import Model.Base Model.Rewriter Check.C17Check.",
        "c17_case",
        "c17_report",
    );
    let mut dist: BTreeMap<String, usize> = BTreeMap::new();
    let mut samples = vec![];
    let mut total_fs = 0usize;
    // corpus first: lines "text-as-json-string <TAB> f1,f2,...;f1,f2"
    if let Some(path) = corpus {
        if let Ok(body) = std::fs::read_to_string(path) {
            for (i, line) in body.lines().enumerate() {
                if line.is_empty() || line.starts_with('#') {
                    continue;
                }
                let mut it = line.split('\t');
                let text = it.next().unwrap_or("").replace("\\n", "\n").replace("\\r", "\r").replace("\\t", "\t");
                let fss: Vec<Vec<String>> = it
                    .next()
                    .unwrap_or("")
                    .split(';')
                    .map(|fs| if fs.is_empty() { vec![] } else { fs.split(',').map(|s| s.to_string()).collect() })
                    .collect();
                let out = run_impl(&text, &fss);
                *dist.entry(format!("outcome_{}", out.kind())).or_default() += 1;
                total_fs += fss.len();
                sh.push(format!("corpus:{}", i), term(&text, &fss, &out));
            }
        }
    }
    let mut master = Rng::new(seed);
    for i in 0..n {
        let sub = master.next();
        let mut rng = Rng(sub);
        let text = gen_text(&mut rng);
        let nfs = 1 + rng.below(6) as usize;
        let fss: Vec<Vec<String>> = (0..nfs).map(|_| gen_features(&mut rng)).collect();
        let out = run_impl(&text, &fss);
        *dist.entry(format!("outcome_{}", out.kind())).or_default() += 1;
        *dist.entry(format!("rule_lines_{}", text.lines().filter(|l| l.contains(',') || l.contains(' ')).count().min(12))).or_default() += 1;
        if let Outcome::Ok((obs, _)) = &out {
            for o in obs {
                for x in o.iter() {
                    *dist.entry(if x.is_some() { "rewrite_some".into() } else { "rewrite_none".into() }).or_default() += 1;
                }
            }
        }
        total_fs += fss.len();
        let human = format!("rewrite_def={} features={:?} outcome={}", json_str(&text), fss, match &out { Outcome::Ok(o) => format!("{:?}", o), x => x.kind().to_string() });
        if sh.push_h(format!("seed:{}", sub), term(&text, &fss, &out), human) && samples.len() < 3 {
            samples.push(format!(
                "{{\"rewrite_def\":{},\"features\":{},\"outcome\":\"{}\"}}",
                json_str(&text),
                json_str(&format!("{:?}", fss)),
                out.kind()
            ));
        }
        let _ = i;
    }
    let shards = sh.write(outdir, 250)?;
    let mut meta = std::fs::File::create(format!("{}/meta.json", outdir))?;
    let d: Vec<String> = dist.iter().map(|(k, v)| format!("{}:{}", json_str(k), v)).collect();
    writeln!(
        meta,
        "{{\"cases\":{},\"duplicates\":{},\"shards\":{},\"feature_lists\":{},\"distribution\":{{{}}},\"samples\":[{}]}}",
        sh.cases.len(),
        sh.duplicates,
        shards,
        total_fs,
        d.join(","),
        samples.join(",")
    )?;
    Ok(())
}
