//! Tokenizer family (C01 C02 C03 C04 C08 C12 C13): dictionaries x options x sentence histories on
//! one reused worker; the observations are tokens, lattice dump, groupable, char infos, counters.
use crate::dictgen::*;
use crate::util::*;
use std::collections::BTreeMap;
use std::io::Write;

pub struct SentObs {
    pub text: String,
    pub outcome: u8, // 0 ok, 2 panic
    pub tokens: Vec<String>,
    pub ends: String,
    pub eos: String,
    pub group: Vec<usize>,
    pub cinfos: String,
    pub counts: Option<(Vec<usize>, Vec<usize>)>,
    pub ntokens: usize,
    pub nnodes: usize,
    pub has_unk: bool,
    pub alt: Vec<Vec<String>>,
    pub pre: usize,
}

fn dnode(r: &[i64; 8]) -> String {
    format!(
        "(Build_dnode {} {} {} {} {} {} {} {})",
        r[0].max(0), r[1].max(0), r[2], r[3], r[4], r[5], r[6], cz(r[7])
    )
}

/// Coq terms of the tokens currently held by a worker.
pub fn token_terms(worker: &vibrato::tokenizer::worker::Worker) -> (Vec<String>, bool) {
    let mut tokens = vec![];
    let mut has_unk = false;
    for i in 0..worker.num_tokens() {
        let t = worker.token(i);
        let lex = t.lex_type() as u8;
        has_unk |= lex == 2;
        tokens.push(format!(
            "(Build_dtoken {} {} {} {} {} {} {} {} {} {} {} {})",
            t.range_char().start, t.range_char().end, t.range_byte().start, t.range_byte().end,
            cstr(t.surface()), lex, t.word_idx().word_id, cstr(t.feature()), t.left_id(), t.right_id(),
            cz(t.word_cost() as i64), cz(t.total_cost() as i64)
        ));
    }
    (tokens, has_unk)
}

/// Tokens of `text` on a brand-new worker of the same tokenizer (None = panic).
pub fn fresh_tokens(tokenizer: &vibrato::Tokenizer, text: &str) -> Option<Vec<String>> {
    std::panic::catch_unwind(std::panic::AssertUnwindSafe(|| {
        let mut w = tokenizer.new_worker();
        w.reset_sentence(text);
        w.tokenize();
        token_terms(&w).0
    }))
    .ok()
}

pub fn observe(dict: &vibrato::Dictionary, worker: &mut vibrato::tokenizer::worker::Worker, text: &str, rng: &mut Rng, counting: bool) -> SentObs {
    // operation pattern on the reused worker (the model always tokenizes once on a fresh worker)
    let pattern = rng.below(8);
    observe_pattern(dict, worker, text, pattern, counting)
}

/// `pattern`: 0 abandoned sentence first, 1 empty sentence first, 2/3 repeated tokenize, otherwise plain.
pub fn observe_pattern(dict: &vibrato::Dictionary, worker: &mut vibrato::tokenizer::worker::Worker, text: &str, pattern: u64, counting: bool) -> SentObs {
    let cinfos: Vec<(u32, u32, bool, bool, u16)> = text.chars().map(|c| dict.verif_char_info(c)).collect();
    let cinfos_t = clist(&cinfos, |c| format!("({},{},{},{},{})", c.0, c.1, cbool(c.2), cbool(c.3), c.4));
    let mut pre = 0usize;
    let res = std::panic::catch_unwind(std::panic::AssertUnwindSafe(|| {
        if pattern == 0 {
            worker.reset_sentence(text);
            worker.reset_sentence(""); // abandoned sentence
        }
        if pattern == 1 {
            worker.reset_sentence("");
            worker.tokenize();
        }
        worker.reset_sentence(text);
        pre = worker.num_tokens(); // read between reset_sentence and tokenize
        worker.tokenize();
        if pattern == 2 || pattern == 3 {
            let _ = worker.num_tokens();
            worker.tokenize(); // repeated tokenize for the same sentence
        }
        if pattern == 3 {
            worker.tokenize();
        }
        if counting {
            worker.update_connid_counts();
        }
    }));
    if res.is_err() {
        return SentObs {
            text: text.to_string(), outcome: 2, tokens: vec![], ends: "[]".into(), eos: "None".into(),
            group: vec![], cinfos: cinfos_t, counts: None, ntokens: 0, nnodes: 0, has_unk: false, alt: vec![], pre,
        };
    }
    let (tokens, has_unk) = token_terms(worker);
    let (ends, eos, _nlists) = worker.verif_lattice_dump();
    let nnodes: usize = ends.iter().skip(1).map(|v| v.len()).sum();
    let (ends_t, eos_t) = if text.is_empty() {
        ("[]".to_string(), "None".to_string())
    } else {
        (clist(&ends[1..], |v| clist(v, dnode)), copt(&eos, dnode))
    };
    SentObs {
        text: text.to_string(), outcome: 0, ntokens: tokens.len(), tokens, ends: ends_t, eos: eos_t,
        group: worker.verif_groupable(), cinfos: cinfos_t,
        counts: if counting { worker.verif_counts() } else { None }, nnodes, has_unk, alt: vec![], pre,
    }
}

pub fn sentobs_term(o: &SentObs) -> String {
    format!(
        "(Build_sentobs {} {} {} {} {} {} {} {} {} {})",
        cstr(&o.text), o.outcome, clist(&o.tokens, |t| t.clone()), o.ends, o.eos,
        clist(&o.group, |g| cn(g)), o.cinfos,
        copt(&o.counts, |(l, r)| format!("({}, {})", clist(l, |x| cn(x)), clist(r, |x| cn(x)))),
        clist(&o.alt, |a| clist(a, |t| t.clone())), o.pre
    )
}

pub struct CaseOut {
    pub term: String,
    pub human: String,
    pub built: u8,
    pub sents: Vec<SentObs>,
}

/// Builds the dictionary, runs the sentences on one worker, and returns the Coq term of the case.
pub fn run_case(gd: &GenDict, ignore_space: bool, mgl: usize, sentences: &[String], rng: &mut Rng, counting: bool, threads: usize, mode: &str) -> CaseOut {
    run_case_with(gd, &|| gd.build(), ignore_space, mgl, sentences, rng, counting, threads, mode)
}

/// Like `run_case`, with the dictionary under observation produced by `mk` (the Coq term still carries `gd`'s source rows).
#[allow(clippy::too_many_arguments)]
pub fn run_case_with(gd: &GenDict, mk: &dyn Fn() -> Outcome<vibrato::Dictionary>, ignore_space: bool, mgl: usize, sentences: &[String], rng: &mut Rng, counting: bool, threads: usize, mode: &str) -> CaseOut {
    let built = mk();
    let head = |built: u8, conn: &str, space_res: u8, sents: &str| {
        format!(
            "(Build_tokcase {} {} {} {} {} {} {} {} {} {} @@EXTRA@@)",
            gd.coq_chardef(), gd.coq_unk(), GenDict::coq_rows(&gd.sys),
            copt(&gd.user, |u| GenDict::coq_rows(u)), built, conn, cbool(ignore_space), space_res, mgl, sents
        )
    };
    let fin = |t: String, extra: &Vec<Vec<u64>>| t.replace("@@EXTRA@@", &clist(extra, |v| clist(v, |x| cn(x))));
    let mut extra: Vec<Vec<u64>> = vec![];
    if mode == "C08" {
        if let Some(urows) = gd.user.as_ref() {
            // the user lexicon loaded AFTER an id mapping (valid permutations of both sides): accepted or rejected exactly
            // like on the unmapped dictionary -- its ids are given in the original numbering
            let mut nouser = gd.clone();
            nouser.user = None;
            if let Outcome::Ok(d0) = nouser.build() {
                let mut l: Vec<u16> = (1..gd.nleft as u16).collect();
                let mut r: Vec<u16> = (1..gd.nright as u16).collect();
                rng.shuffle(&mut l);
                rng.shuffle(&mut r);
                let ucsv = GenDict::rows_csv(urows);
                let res = guarded(move || d0.map_connection_ids_from_iter(l, r)?.reset_user_lexicon_from_reader(Some(ucsv.as_bytes())));
                extra = vec![vec![match res { Outcome::Ok(_) => 0, Outcome::Err => 1, Outcome::Panic => 2 }]];
            }
        }
    }
    let human = format!(
        "char.def={} unk.def={} lex.csv={} user={:?} matrix.def={} bigram(right,left,cost,dual)={:?} ignore_space={} max_grouping_len={} sentences={:?}",
        json_str(&gd.char_def()), json_str(&GenDict::rows_csv(&gd.unk)), json_str(&GenDict::rows_csv(&gd.sys)),
        gd.user.as_ref().map(|u| GenDict::rows_csv(u)), json_str(&gd.matrix_def()), gd.bigram, ignore_space, mgl, sentences
    );
    let dict = match built {
        Outcome::Ok(d) => d,
        Outcome::Err => return CaseOut { term: fin(head(1, &gd.coq_matrix(), 0, "[]"), &extra), human, built: 1, sents: vec![] },
        Outcome::Panic => return CaseOut { term: fin(head(2, &gd.coq_matrix(), 0, "[]"), &extra), human, built: 2, sents: vec![] },
    };
    // the model is given the costs the definition files DECLARE (matrix.def as generated; for bigram files the defining
    // sums when they fit 16 bits), not what the compiled connector answers: a connector that misreads its files shows up
    // as a path that is not optimal for the declared dictionary. (C06's histories pass the connector's own answers: its
    // check renames them by the composed mapping.)
    let conn = if mode != "C06" && (gd.bigram.is_none() || gd.declared_conn) { gd.coq_matrix() } else { coq_conn(&dict) };
    // option setters are applied as a sequence: sometimes the opposite / another value is set
    // first and then overridden (the last call must win)
    let mut tokenizer = vibrato::Tokenizer::new(dict);
    if rng.chance(1, 3) {
        tokenizer = tokenizer.max_grouping_len(if mgl == 0 { 3 } else { 0 });
        tokenizer = match tokenizer.ignore_space(!ignore_space) {
            Ok(t) => t,
            Err(_) => match mk() {
                Outcome::Ok(d) => vibrato::Tokenizer::new(d), // SPACE undefined: start over
                _ => return CaseOut { term: fin(head(2, &gd.coq_matrix(), 0, "[]"), &extra), human, built: 2, sents: vec![] },
            },
        };
    }
    // the two setters in either order (each must leave the other option alone)
    let mgl_last = rng.chance(1, 2);
    let tokenizer = if mgl_last { tokenizer } else { tokenizer.max_grouping_len(mgl) };
    let tokenizer = match tokenizer.ignore_space(ignore_space) {
        Ok(t) => t,
        Err(_) => return CaseOut { term: fin(head(0, &conn, 1, "[]"), &extra), human, built: 0, sents: vec![] },
    };
    let tokenizer = if mgl_last { tokenizer.max_grouping_len(mgl) } else { tokenizer };
    let mut worker = tokenizer.new_worker();
    if counting {
        worker.init_connid_counter();
        // 1 counting case in 3: an earlier counting run on the same worker (some of the sentences),
        // then the counter is initialised again; the recorded run starts from zero counts
        if rng.chance(1, 3) {
            let _ = std::panic::catch_unwind(std::panic::AssertUnwindSafe(|| {
                for s in sentences.iter().rev().take(2) {
                    worker.reset_sentence(s);
                    worker.tokenize();
                    worker.update_connid_counts();
                }
            }));
            worker = match std::panic::catch_unwind(std::panic::AssertUnwindSafe(move || { worker.init_connid_counter(); worker })) {
                Ok(w) => w,
                Err(_) => { let mut w = tokenizer.new_worker(); w.init_connid_counter(); w }
            };
        }
    }
    let mut sents = vec![];
    for s in sentences {
        let mut o = observe(tokenizer.dictionary(), &mut worker, s, rng, counting);
        if o.outcome == 0 {
            if let Some(f) = fresh_tokens(&tokenizer, s) {
                o.alt.push(f);
            }
        }
        let stop = o.outcome != 0;
        sents.push(o);
        if stop {
            // a panic may leave the worker in an arbitrary state: continue with a new one
            worker = tokenizer.new_worker();
            if counting {
                break;
            }
        }
    }
    if !counting && sents.iter().all(|o| o.outcome == 0) {
        // a worker created after another one was dropped on this thread is blank: no tokens before its first
        // reset_sentence, and tokenize() without a sentence yields none (observed as one more, empty, sentence)
        let last = sentences.iter().rev().find(|s| !s.is_empty());
        let res = std::panic::catch_unwind(std::panic::AssertUnwindSafe(|| {
            if let Some(s) = last {
                let mut used = tokenizer.new_worker();
                used.reset_sentence(s);
                used.tokenize();
                drop(used);
            }
            let mut w = tokenizer.new_worker();
            let pre = w.num_tokens();
            w.tokenize();
            let (tokens, has_unk) = token_terms(&w);
            (pre, tokens, has_unk, w.verif_groupable())
        }));
        sents.push(match res {
            Ok((pre, tokens, has_unk, group)) => SentObs {
                text: String::new(), outcome: 0, ntokens: tokens.len(), tokens, ends: "[]".into(), eos: "None".into(),
                group, cinfos: "[]".into(), counts: None, nnodes: 0, has_unk, alt: vec![], pre,
            },
            Err(_) => SentObs {
                text: String::new(), outcome: 2, tokens: vec![], ends: "[]".into(), eos: "None".into(),
                group: vec![], cinfos: "[]".into(), counts: None, ntokens: 0, nnodes: 0, has_unk: false, alt: vec![], pre: 0,
            },
        });
    }
    if threads > 0 {
        // independent workers of the one shared tokenizer on other threads, each going through
        // the sentences in its own order while the others run
        let texts: Vec<String> = sents.iter().map(|o| o.text.clone()).collect();
        let results: Vec<Vec<Option<Vec<String>>>> = std::thread::scope(|sc| {
            let hs: Vec<_> = (0..threads)
                .map(|t| {
                    let tk = &tokenizer;
                    let texts = &texts;
                    sc.spawn(move || {
                        let mut out: Vec<Option<Vec<String>>> = vec![None; texts.len()];
                        let mut w = tk.new_worker();
                        for round in 0..3 {
                            for k in 0..texts.len() {
                                let i = (k * (t + 1) + t + round) % texts.len().max(1);
                                let r = std::panic::catch_unwind(std::panic::AssertUnwindSafe(|| {
                                    w.reset_sentence(&texts[i]);
                                    w.tokenize();
                                    token_terms(&w).0
                                }));
                                match r {
                                    Ok(v) => out[i] = Some(v),
                                    Err(_) => w = tk.new_worker(),
                                }
                            }
                        }
                        out
                    })
                })
                .collect();
            hs.into_iter().map(|h| h.join().unwrap_or_default()).collect()
        });
        for r in results {
            for (i, v) in r.into_iter().enumerate() {
                if let (Some(v), true) = (v, sents[i].outcome == 0) {
                    sents[i].alt.push(v);
                }
            }
        }
    }
    if mode == "C08" && gd.user.is_some() {
        // the same sentences on (1) a system lexicon extended by the user rows, (2) the dictionary
        // after load(other); load(user) [replace], (3) after load(user); load(None) [clear],
        // (4) a dictionary that never had a user lexicon
        let tok_all = |d: Outcome<vibrato::Dictionary>| -> Vec<Option<Vec<String>>> {
            match d {
                Outcome::Ok(d) => {
                    let t = vibrato::Tokenizer::new(d).max_grouping_len(mgl);
                    match t.ignore_space(ignore_space) {
                        Ok(t) => sents.iter().map(|o| fresh_tokens(&t, &o.text)).collect(),
                        Err(_) => vec![None; sents.len()],
                    }
                }
                _ => vec![None; sents.len()],
            }
        };
        let user_rows = gd.user.clone().unwrap();
        let mut merged = gd.clone();
        merged.sys.extend(user_rows.iter().cloned());
        merged.user = None;
        let mut nouser = gd.clone();
        nouser.user = None;
        let mut other = gd.clone();
        other.user = Some(gd.sys.iter().take(2).cloned().collect());
        let user_csv = GenDict::rows_csv(&user_rows);
        // half of the time the dictionary goes through three id mappings whose composition is the
        // identity (two random ones and the inverse of their composition) before the user lexicon is
        // loaded: the loaded rows must be read with the composed (= identity) mapping
        let net_identity_maps = |rng: &mut Rng, n: usize| -> Vec<Vec<u16>> {
            let p = |rng: &mut Rng| -> Vec<u16> { let mut v: Vec<u16> = (1..n as u16).collect(); rng.shuffle(&mut v); v };
            let (v1, v2) = (p(rng), p(rng));
            let f = |v: &Vec<u16>, x: u16| -> u16 { v.iter().position(|y| *y == x).unwrap() as u16 + 1 };
            let v3: Vec<u16> = (1..n as u16).map(|k| f(&v2, f(&v1, k))).collect();
            vec![v1, v2, v3]
        };
        let maps = if rng.chance(1, 2) { Some((net_identity_maps(rng, gd.nleft), net_identity_maps(rng, gd.nright))) } else { None };
        // where the user lexicon is loaded relative to the three mappings: after all of them (0); after the
        // first one, following another user lexicon (1) or not (2) -- the later mappings must carry it along
        let hist = rng.below(3);
        let other_csv = GenDict::rows_csv(other.user.as_ref().unwrap());
        let with_maps = move |d: vibrato::Dictionary, user_csv: &str| -> vibrato::errors::Result<vibrato::Dictionary> {
            let mut d = d;
            match maps {
                Some((ls, rs)) => {
                    for (k, (l, r)) in ls.into_iter().zip(rs).enumerate() {
                        d = d.map_connection_ids_from_iter(l, r)?;
                        if hist == 1 && k == 0 { d = d.reset_user_lexicon_from_reader(Some(other_csv.as_bytes()))?; }
                        if hist >= 1 && k == 0 { d = d.reset_user_lexicon_from_reader(Some(user_csv.as_bytes()))?; }
                    }
                    if hist == 0 { d = d.reset_user_lexicon_from_reader(Some(user_csv.as_bytes()))?; }
                    Ok(d)
                }
                None => d.reset_user_lexicon_from_reader(Some(user_csv.as_bytes())),
            }
        };
        let user_csv2 = user_csv.clone();
        let replaced = match other.build() {
            Outcome::Ok(d) => guarded(move || with_maps(d, &user_csv2)),
            Outcome::Err => match nouser.build() {
                // the first user lexicon was rejected (e.g. empty): load directly
                Outcome::Ok(d) => guarded(move || d.reset_user_lexicon_from_reader(Some(user_csv.as_bytes()))),
                _ => Outcome::Err,
            },
            Outcome::Panic => Outcome::Panic,
        };
        let cleared = match gd.build() {
            Outcome::Ok(d) => guarded(move || d.reset_user_lexicon_from_reader(None::<&[u8]>)),
            _ => Outcome::Err,
        };
        let cols = [tok_all(merged.build()), tok_all(replaced), tok_all(cleared), tok_all(nouser.build())];
        for (i, o) in sents.iter_mut().enumerate() {
            if o.outcome == 0 && cols.iter().all(|c| c[i].is_some()) {
                for c in &cols {
                    o.alt.push(c[i].clone().unwrap());
                }
            }
        }
    }
    if counting && sents.iter().all(|o| o.outcome == 0) {
        // the reorder tool: statistics -> id orders; then the map tool on a rebuilt dictionary
        let probs = std::panic::catch_unwind(std::panic::AssertUnwindSafe(|| worker.compute_connid_probs()));
        if let Ok((lp, rp)) = probs {
            let lo: Vec<u64> = lp.iter().map(|x| x.0 as u64).collect();
            let ro: Vec<u64> = rp.iter().map(|x| x.0 as u64).collect();
            let mut flags = vec![0u64, 0u64]; // accepted by map, same tokenization afterwards
            if let Outcome::Ok(d2) = mk() {
                let l16: Vec<u16> = lo.iter().map(|&x| x as u16).collect();
                let r16: Vec<u16> = ro.iter().map(|&x| x as u16).collect();
                let mapped = guarded(move || d2.map_connection_ids_from_iter(l16, r16));
                if let Outcome::Ok(d3) = mapped {
                    flags[0] = 1;
                    let t2 = vibrato::Tokenizer::new(d3).max_grouping_len(mgl);
                    if let Ok(t2) = t2.ignore_space(ignore_space) {
                        let same = sents.iter().all(|o| {
                            let r = std::panic::catch_unwind(std::panic::AssertUnwindSafe(|| {
                                let mut w = t2.new_worker();
                                w.reset_sentence(&o.text);
                                w.tokenize();
                                (0..w.num_tokens())
                                    .map(|i| {
                                        let t = w.token(i);
                                        (t.range_char(), t.feature().to_string(), t.word_cost(), t.total_cost())
                                    })
                                    .collect::<Vec<_>>()
                            }));
                            let orig: Vec<_> = {
                                let mut w = tokenizer.new_worker();
                                w.reset_sentence(&o.text);
                                w.tokenize();
                                (0..w.num_tokens())
                                    .map(|i| {
                                        let t = w.token(i);
                                        (t.range_char(), t.feature().to_string(), t.word_cost(), t.total_cost())
                                    })
                                    .collect()
                            };
                            r.map_or(false, |v| v == orig)
                        });
                        flags[1] = same as u64;
                    }
                }
            }
            // the statistics themselves (binary64 bit patterns, in the order of the lists): Coq recomputes count / total
            let lpb: Vec<u64> = lp.iter().map(|x| x.1.to_bits()).collect();
            let rpb: Vec<u64> = rp.iter().map(|x| x.1.to_bits()).collect();
            extra = vec![lo, ro, flags, lpb, rpb];
        }
    }
    let sents_t = clist(&sents, sentobs_term);
    CaseOut { term: fin(head(0, &conn, 0, &sents_t), &extra), human, built: 0, sents }
}

#[allow(dead_code)]
fn assert_send_sync<T: Send + Sync>() {}
#[allow(dead_code)]
fn static_bounds() {
    // C04: "The tokenizer can be shared across threads" — a compile-time fact
    assert_send_sync::<vibrato::Tokenizer>();
    assert_send_sync::<vibrato::Dictionary>();
}

pub fn run(prop: &str, seed: u64, n: usize, outdir: &str, _corpus: Option<&str>) -> std::io::Result<()> {
    let (check_mod, report) = match prop {
        "C01" => ("C01Check", "c01_report"),
        "C02" => ("C02Check", "c02_report"),
        "C03" => ("C03Check", "c03_report"),
        "C04" => ("C04Check", "c04_report"),
        "C08" => ("C08Check", "c08_report"),
        "C12" => ("C12Check", "c12_report"),
        "C13" => ("C13Check", "c13_report"),
        "C10" => ("C10Check", "c10_report"),
        _ => ("TokCheck", "tok_report"),
    };
    let mut sh = Shards::new(
        prop,
        &format!("From Vib Require Import Model.Base Model.Lattice Model.Tokenizer Model.DictBuild Check.TokCheck Check.{}.", check_mod),
        if prop == "C10" { "c10case" } else { "tokcase" },
        report,
    );
    let mut dist: BTreeMap<String, usize> = BTreeMap::new();
    let mut samples = vec![];
    let mut master = Rng::new(seed ^ 0x70C);
    let mut nsent = 0usize;
    for _ in 0..n {
        let sub = master.next();
        let mut rng = Rng(sub);
        let go = GenOpts {
            force_space: prop == "C12" && rng.chance(9, 10),
            allow_uncovered: prop == "C01" || prop == "C10",
            with_user: if prop == "C08" { 90 } else { 35 },
            tie_heavy: prop == "C02" && rng.chance(1, 2),
            many_ids: prop == "C13",
            malformed: prop == "C10" && rng.chance(1, 2),
        };
        let mut gd = gen_dict(&mut rng, &go);
        // 1 dictionary in 4 (not for C10, whose text stream edits matrix.def) uses a raw or dual bigram
        // connector instead of matrix.def; the model takes every connection cost through the hook anyway
        if prop != "C10" && gd.nright >= 2 && gd.nleft >= 2 && gd.nright <= 6 && rng.chance(1, if prop == "C08" { 2 } else { 4 }) {
            let bg = crate::c07::gen_bigram_sized(&mut rng, false, false, gd.nright - 1, gd.nleft - 1);
            gd.bigram = Some((bg.right_file(), bg.left_file(), bg.cost_file(), rng.chance(1, 2)));
            // the model is given the costs the files DECLARE (the defining sums, computed from the generator's own
            // description), not what the compiled connector answers: a connector that misreads its files then shows
            // up as a path that is not optimal for the declared dictionary
            let spec: Vec<Vec<i64>> = (0..gd.nright).map(|r| (0..gd.nleft).map(|l| bg.spec(r, l)).collect()).collect();
            let abs_fits = (0..gd.nright).all(|r| (0..gd.nleft).all(|l| bg.spec_abs(r, l) <= i16::MAX as i64));
            if abs_fits && spec.iter().flatten().all(|c| *c >= i16::MIN as i64 && *c <= i16::MAX as i64) {
                gd.matrix = spec.iter().map(|row| row.iter().map(|c| *c as i16).collect()).collect();
                gd.declared_conn = true;
            }
        }
        let gd = gd;
        let ignore_space = if prop == "C12" { true } else { rng.chance(1, 3) };
        let mgl = *rng.pick(&[0usize, 0, 1, 2, 3, 24]);
        let counting = prop == "C13" || rng.chance(1, 5);
        let ns = 1 + rng.below(if prop == "C04" || prop == "C13" { 8 } else { 4 }) as usize;
        let mut sentences: Vec<String> = (0..ns).map(|_| gen_sentence(&mut rng, &gd)).collect();
        if prop == "C12" {
            // re-spacings of one sentence
            let base = sentences[0].clone();
            sentences.truncate(1);
            for _ in 0..3 {
                sentences.push(respace(&mut rng, &base));
            }
        }
        // related sentences: a sentence that shares a prefix with its predecessor on the same worker (kept prefix +
        // new tail, an extension, a truncation, the last character changed) -- what survives in a reused worker
        // between two sentences is most visible when the texts overlap
        if prop != "C12" && sentences.len() > 1 && rng.chance(if prop == "C04" { 2 } else { 1 }, 3) {
            for i in 1..sentences.len() {
                if !rng.chance(2, 3) { continue; }
                let prev: Vec<char> = sentences[i - 1].chars().collect();
                if prev.is_empty() { continue; }
                let keep = 1 + rng.below(prev.len() as u64) as usize;
                let mut t: String = prev[..keep].iter().collect();
                match rng.below(5) {
                    0 => {}                                                              // truncation
                    1 => { t = prev.iter().collect(); t.push_str(&gen_sentence(&mut rng, &gd)); }   // extension
                    2 => { t = prev[..prev.len() - 1].iter().collect(); t.push(*rng.pick(ALPHABET)); } // last character changed
                    _ => { let tail: String = gen_sentence(&mut rng, &gd).chars().take(6).collect(); t.push_str(&tail); } // shared prefix, new tail
                }
                sentences[i] = t;
            }
        }
        if (prop == "C04" || prop == "C13") && rng.chance(1, 2) && sentences.len() > 1 {
            let k = rng.below(sentences.len() as u64) as usize;
            let dup = sentences[k].clone();
            sentences.push(dup); // repeated sentence
            sentences.insert(0, String::new()); // empty first line
        }
        // 1 dictionary in 5 (not in C10, whose other streams use the definition files as they are): the dictionary under
        // observation has gone through a random id mapping (user lexicon loaded before or after it); the model is given
        // the renamed rows and costs
        let premap: Option<(Vec<u16>, Vec<u16>, bool)> = if prop != "C10" && gd.nleft >= 2 && gd.nright >= 2 && rng.chance(1, 5) {
            let mut l: Vec<u16> = (1..gd.nleft as u16).collect();
            let mut r: Vec<u16> = (1..gd.nright as u16).collect();
            rng.shuffle(&mut l);
            rng.shuffle(&mut r);
            Some((l, r, rng.chance(1, 2)))
        } else { None };
        let threads = if prop == "C04" { 3 } else { 0 };
        let (out, gd) = match &premap {
            None => (run_case(&gd, ignore_space, mgl, &sentences, &mut rng, counting, threads, prop), gd),
            Some((l, r, after)) => {
                let view = gd.renamed(l, r);
                let o = run_case_with(&view, &|| gd.build_mapped(l, r, *after), ignore_space, mgl, &sentences, &mut rng, counting, threads, prop);
                *dist.entry("dictionary_premapped".into()).or_default() += 1;
                (o, view)
            }
        };
        *dist.entry(format!("build_{}", ["ok", "err", "panic"][out.built as usize])).or_default() += 1;
        *dist.entry(format!("ignore_space_{}", ignore_space)).or_default() += 1;
        *dist.entry(format!("user_lexicon_{}", gd.user.is_some())).or_default() += 1;
        *dist.entry(format!("connector_{}", match &gd.bigram { None => "matrix", Some((_, _, _, false)) => "raw", Some(_) => "dual" })).or_default() += 1;
        *dist.entry(format!("categories_{}", gd.cats.len())).or_default() += 1;
        if counting {
            *dist.entry("counting_cases".into()).or_default() += 1;
        }
        for s in &out.sents {
            nsent += 1;
            *dist.entry(format!("sentence_{}", if s.outcome == 0 { "ok" } else { "panic" })).or_default() += 1;
            *dist.entry(format!("sentence_len_{}", (s.text.chars().count() / 4) * 4)).or_default() += 1;
            if s.has_unk {
                *dist.entry("sentences_with_unknown_token".into()).or_default() += 1;
            }
            if s.nnodes > s.ntokens {
                *dist.entry("sentences_with_competing_nodes".into()).or_default() += 1;
            }
        }
        let out_term = if prop == "C10" { format!("(C10Struct {})", out.term) } else { out.term.clone() };
        if prop == "C10" {
            // second stream: one random edit of ONE of the definition files of this dictionary (text level)
            let files = [gd.char_def(), GenDict::rows_csv(&gd.unk), gd.matrix_def(), GenDict::rows_csv(&gd.sys), gd.user.as_ref().map_or(String::new(), |u| GenDict::rows_csv(u))];
            let which = rng.below(5) as usize;
            // 1 case in 4 keeps the files as they are (the text-level model on unedited files)
            let edited = if rng.chance(1, 4) { files[which].clone() }
                else if which == 0 && files[0].contains("..") && rng.chance(1, 3) { corrupt_range_end(&mut rng, &files[0]) }
                else { corrupt_text(&mut rng, &files[which]) };
            let mut fs = files.clone();
            fs[which] = edited.clone();
            let has_user = gd.user.is_some() || which == 4;
            let (c, u, m, l, us) = (fs[0].clone(), fs[1].clone(), fs[2].clone(), fs[3].clone(), fs[4].clone());
            let built = guarded(move || {
                let d = vibrato::SystemDictionaryBuilder::from_readers(l.as_bytes(), m.as_bytes(), c.as_bytes(), u.as_bytes())?;
                if has_user { d.reset_user_lexicon_from_reader(Some(us.as_bytes())) } else { Ok(d) }
            });
            let code = match &built { Outcome::Ok(_) => 0, Outcome::Err => 1, Outcome::Panic => 2 };
            // the same files with one byte that is not UTF-8 inserted into file `which` (char.def, unk.def, matrix.def,
            // lex.csv or the user lexicon): an error, never an accepted dictionary, never a panic
            if rng.chance(1, 6) {
                let mut raw: Vec<Vec<u8>> = files.iter().map(|t| t.clone().into_bytes()).collect();
                if !raw[which].is_empty() {
                    let mut k = rng.below(raw[which].len() as u64) as usize;
                    while k < raw[which].len() && (raw[which][k] & 0xC0) == 0x80 { k += 1; }
                    let k = k.min(raw[which].len());
                    raw[which].insert(k, 0xFF);
                    let has_u = gd.user.is_some() || which == 4;
                    let r2 = raw.clone();
                    let b2 = guarded(move || {
                        let d = vibrato::SystemDictionaryBuilder::from_readers(&r2[3][..], &r2[2][..], &r2[0][..], &r2[1][..])?;
                        if has_u { d.reset_user_lexicon_from_reader(Some(&r2[4][..])) } else { Ok(d) }
                    });
                    let c2 = match &b2 { Outcome::Ok(_) => 0, Outcome::Err => 1, Outcome::Panic => 2 };
                    // (a base dictionary that is rejected anyway stays rejected)
                    *dist.entry(format!("invalid_utf8_outcome_{}", c2)).or_default() += 1;
                    sh.push_h(format!("seed:{}:bytes", sub), format!("(C10Invalid {} {} {})", sub, which, c2), format!("file #{} (0 char.def, 1 unk.def, 2 matrix.def, 3 lex.csv, 4 user.csv) with the byte 0xFF inserted at offset {}; files: {}", which, k, out.human));
                }
            }
            // full observation of the dictionary built from the edited texts: connection costs, option
            // outcome, every sentence with tokens / lattice / character infos (fresh worker each)
            let mut conn_t = "[]".to_string();
            let mut space_res = 0u8;
            let mut sobs: Vec<SentObs> = vec![];
            let mut uncovered: Vec<bool> = vec![];
            if let Outcome::Ok(d) = built {
                conn_t = coq_conn(&d);
                let unk_cats: std::collections::BTreeSet<u32> = d.verif_unk_entries().iter().map(|e| e.0 as u32).collect();
                uncovered = sentences.iter().map(|s| s.chars().any(|ch| !unk_cats.contains(&d.verif_char_info(ch).1))).collect();
                let t = vibrato::Tokenizer::new(d).max_grouping_len(mgl);
                match t.ignore_space(ignore_space) {
                    Ok(t) => {
                        for s in sentences.iter() {
                            let mut w = t.new_worker();
                            sobs.push(observe_pattern(t.dictionary(), &mut w, s, 7, false));
                        }
                    }
                    Err(_) => { space_res = 1; }
                }
            }
            let souts: Vec<(u8, bool)> = sobs.iter().zip(uncovered.iter()).map(|(o, u)| (o.outcome, *u)).collect();
            let tterm = format!(
                "(C10Text {} {} {} {} {} {} {} {} {} {} {} {} {} {})",
                sub, which, cstr(&fs[0]), cstr(&fs[1]), cstr(&fs[2]), cstr(&fs[3]),
                if has_user { format!("(Some {})", cstr(&fs[4])) } else { "None".to_string() },
                code, conn_t, cbool(ignore_space), space_res, mgl,
                clist(&sobs, sentobs_term), clist(&souts, |(o, u)| format!("({}, {})", o, cbool(*u)))
            );
            let thuman = format!("edited file #{} (0 char.def, 1 unk.def, 2 matrix.def, 3 lex.csv, 4 user.csv) = {} ; other files: {} sentences={:?}", which, json_str(&edited), out.human, sentences);
            *dist.entry(format!("text_edit_outcome_{}", code)).or_default() += 1;
            sh.push_h(format!("seed:{}:text", sub), tterm, thuman);
        }
        if prop == "C10" && gd.nright > 1 && gd.nleft > 1 {
            // fourth stream: the same dictionary with a bigram connector (raw or dual) built from generated
            // bigram.right / bigram.left / bigram.cost, half of the time with one random edit of one of them
            let bg = crate::c07::gen_bigram_sized(&mut rng, false, false, gd.nright - 1, gd.nleft - 1);
            let mut fs = [bg.right_file(), bg.left_file(), bg.cost_file()];
            let which = rng.below(3) as usize;
            let edit = rng.chance(1, 2);
            if edit { fs[which] = corrupt_text(&mut rng, &fs[which]); }
            let dual = rng.chance(1, 2);
            let (c, u, l) = (gd.char_def(), GenDict::rows_csv(&gd.unk), GenDict::rows_csv(&gd.sys));
            let (f0, f1, f2) = (fs[0].clone(), fs[1].clone(), fs[2].clone());
            let built = guarded(move || vibrato::SystemDictionaryBuilder::from_readers_with_bigram_info(l.as_bytes(), f0.as_bytes(), f1.as_bytes(), f2.as_bytes(), c.as_bytes(), u.as_bytes(), dual));
            let code = match &built { Outcome::Ok(_) => 0, Outcome::Err => 1, Outcome::Panic => 2 };
            let mut souts: Vec<(u8, bool)> = vec![];
            if let Outcome::Ok(d) = built {
                let unk_cats: std::collections::BTreeSet<u32> = d.verif_unk_entries().iter().map(|e| e.0 as u32).collect();
                let uncovered: Vec<bool> = sentences.iter().map(|s| s.chars().any(|ch| !unk_cats.contains(&d.verif_char_info(ch).1))).collect();
                let t = vibrato::Tokenizer::new(d);
                for (s, unc) in sentences.iter().zip(uncovered) {
                    let r = std::panic::catch_unwind(std::panic::AssertUnwindSafe(|| { let mut w = t.new_worker(); w.reset_sentence(s); w.tokenize(); w.num_tokens() }));
                    souts.push((if r.is_ok() { 0 } else { 2 }, unc));
                }
            }
            let maxl = gd.sys.iter().chain(gd.unk.iter()).map(|r| r.lid).max().unwrap_or(0);
            let maxr = gd.sys.iter().chain(gd.unk.iter()).map(|r| r.rid).max().unwrap_or(0);
            let bterm = format!("(C10Bigram {} {} {} {} {} {} {} {} {} {} {})", sub, if edit { which + 1 } else { 0 }, cbool(dual), code, clist(&souts, |(o, u)| format!("({}, {})", o, cbool(*u))),
                cstr(&fs[0]), cstr(&fs[1]), cstr(&fs[2]), maxl, maxr, cbool(out.built == 0));
            let bhuman = format!("bigram connector dual={} edited={} (0 none, 1 right, 2 left, 3 cost) right={} left={} cost={} ; other files: {} sentences={:?}", dual, if edit { which + 1 } else { 0 }, json_str(&fs[0]), json_str(&fs[1]), json_str(&fs[2]), out.human, sentences);
            *dist.entry(format!("bigram_{}_outcome_{}", if edit { "edited" } else { "valid" }, code)).or_default() += 1;
            sh.push_h(format!("seed:{}:bigram", sub), bterm, bhuman);
        }
        if prop == "C10" && out.built == 0 {
            // third stream: arbitrary mapping sequences (not only permutations) on the accepted dictionary
            let seqv = |rng: &mut Rng, n: usize| -> Vec<u16> {
                let len = (n as i64 - 1 + rng.range(-1, 1)).max(0) as usize;
                let mut v: Vec<u16> = if rng.chance(1, 2) { let mut p: Vec<u16> = (1..n as u16).collect(); rng.shuffle(&mut p); p } else { (0..len).map(|_| rng.below(n as u64 + 1) as u16).collect() };
                if rng.chance(1, 2) && v.len() >= 2 { let k = rng.below(v.len() as u64) as usize; v[k] = v[(k + 1) % v.len()]; } // repeat one id (omit another)
                v
            };
            let (lm, rm) = (seqv(&mut rng, gd.nleft), seqv(&mut rng, gd.nright));
            if let Outcome::Ok(d) = gd.build() {
                let (l2, r2) = (lm.clone(), rm.clone());
                let mapped = guarded(move || d.map_connection_ids_from_iter(l2, r2));
                let code = match &mapped { Outcome::Ok(_) => 0, Outcome::Err => 1, Outcome::Panic => 2 };
                let mut souts: Vec<(u8, bool)> = vec![];
                // a second sequence: after an accepted mapping, a further (valid) mapping, THEN a user lexicon whose ids
                // are given in the original numbering, then sentences made of the user words as well
                let mut second: Option<(Vec<u16>, Vec<u16>, u8, Vec<(u8, bool)>)> = None;
                if matches!(mapped, Outcome::Ok(_)) {
                    if let Outcome::Ok(d0) = gd.build() {
                        let perm = |rng: &mut Rng, n: usize| -> Vec<u16> { let mut p: Vec<u16> = (1..n as u16).collect(); rng.shuffle(&mut p); p };
                        let (l1, r1) = (lm.clone(), rm.clone());
                        let (lm2, rm2) = (perm(&mut rng, gd.nleft), perm(&mut rng, gd.nright));
                        let urows: Vec<Row> = (0..3).map(|k| Row { surface: (0..1 + rng.below(3)).map(|_| *rng.pick(&ALPHABET[..8])).collect(), lid: rng.below(gd.nleft as u64) as u16, rid: rng.below(gd.nright as u64) as u16, cost: -50 * k as i16, feature: format!("user{}", k) }).collect();
                        let ucsv = GenDict::rows_csv(&urows);
                        let (l2, r2) = (lm2.clone(), rm2.clone());
                        let step = guarded(move || d0.map_connection_ids_from_iter(l1, r1)?.map_connection_ids_from_iter(l2, r2));
                        let code2 = match &step { Outcome::Ok(_) => 0, Outcome::Err => 1, Outcome::Panic => 2 };
                        let mut souts2: Vec<(u8, bool)> = vec![];
                        if let Outcome::Ok(d1) = step {
                            let uc = ucsv.clone();
                            let loaded = guarded(move || d1.reset_user_lexicon_from_reader(Some(uc.as_bytes())));
                            match loaded {
                                Outcome::Ok(d2) => {
                                    let unk_cats: std::collections::BTreeSet<u32> = d2.verif_unk_entries().iter().map(|e| e.0 as u32).collect();
                                    let mut sents2: Vec<String> = sentences.clone();
                                    for r in &urows { sents2.push(r.surface.clone()); sents2.push(format!("{}{}", r.surface, urows[0].surface)); }
                                    let uncovered: Vec<bool> = sents2.iter().map(|s| s.chars().any(|ch| !unk_cats.contains(&d2.verif_char_info(ch).1))).collect();
                                    let t = vibrato::Tokenizer::new(d2);
                                    for (s, unc) in sents2.iter().zip(uncovered) {
                                        let r = std::panic::catch_unwind(std::panic::AssertUnwindSafe(|| { let mut w = t.new_worker(); w.reset_sentence(s); w.tokenize(); w.num_tokens() }));
                                        souts2.push((if r.is_ok() { 0 } else { 2 }, unc));
                                    }
                                }
                                Outcome::Err => {}
                                Outcome::Panic => souts2.push((2, false)),
                            }
                        }
                        second = Some((lm2, rm2, code2, souts2));
                    }
                }
                if let Outcome::Ok(d) = mapped {
                    let unk_cats: std::collections::BTreeSet<u32> = d.verif_unk_entries().iter().map(|e| e.0 as u32).collect();
                    let uncovered: Vec<bool> = sentences.iter().map(|s| s.chars().any(|ch| !unk_cats.contains(&d.verif_char_info(ch).1))).collect();
                    let t = vibrato::Tokenizer::new(d);
                    for (s, unc) in sentences.iter().zip(uncovered) {
                        let r = std::panic::catch_unwind(std::panic::AssertUnwindSafe(|| { let mut w = t.new_worker(); w.reset_sentence(s); w.tokenize(); w.num_tokens() }));
                        souts.push((if r.is_ok() { 0 } else { 2 }, unc));
                    }
                }
                if let Some((lm2, rm2, code2, souts2)) = second {
                    let mterm2 = format!("(C10Map {} {} {} {} {} {} {})", sub, gd.nleft, gd.nright, clist(&lm2, |x| cn(x)), clist(&rm2, |x| cn(x)), code2, clist(&souts2, |(o, u)| format!("({}, {})", o, cbool(*u))));
                    *dist.entry(format!("second_mapping_then_user_lexicon_outcome_{}", code2)).or_default() += 1;
                    sh.push_h(format!("seed:{}:map2", sub), mterm2, format!("first lmap={:?} rmap={:?}, then lmap={:?} rmap={:?}, then a user lexicon of 3 rows (ids in the original numbering) drawn from the same case seed, on {}", lm, rm, lm2, rm2, out.human));
                }
                let mterm = format!("(C10Map {} {} {} {} {} {} {})", sub, gd.nleft, gd.nright, clist(&lm, |x| cn(x)), clist(&rm, |x| cn(x)), code, clist(&souts, |(o, u)| format!("({}, {})", o, cbool(*u))));
                *dist.entry(format!("mapping_outcome_{}", code)).or_default() += 1;
                sh.push_h(format!("seed:{}:map", sub), mterm, format!("lmap={:?} rmap={:?} on {}", lm, rm, out.human));
            }
        }
        if sh.push_h(format!("seed:{}", sub), out_term, out.human.clone()) && samples.len() < 2 {
            samples.push(format!("{{\"case\":{}}}", json_str(&out.human)));
        }
    }
    if prop == "C10" {
        // pinned: a connector with exactly 65536 right (resp. left) ids -- u16::MAX is then a legal id -- built from
        // bigram files (matrix.def cannot describe it), and a valid mapping of all of them
        for side in 0..2u64 {
            let mut rng = Rng(0xC10_0000 + side);
            let big = 65535usize;
            let rows_big: String = (1..=big).map(|i| format!("{}\tF{}\n", i, i % 5)).collect();
            let rows_small = "1\tg0\n".to_string();
            let cost = "F1/g0\t7\nF2/g0\t-3\n/g0\t2\n".to_string();
            let (right, left, cost) = if side == 0 { (rows_big, rows_small, cost) } else { (rows_small.replace("g0", "F1"), rows_big.replace('F', "g"), "F1/g1\t7\nF1/g2\t-3\nF1/\t2\n".to_string()) };
            let (nr, nl) = if side == 0 { (big + 1, 2) } else { (2, big + 1) };
            let lex = format!("a,{},{},5,wa\nb,0,0,3,wb\nab,{},{},1,wab\n", nl - 1, nr - 1, (nl - 1) / 2, (nr - 1) / 2);
            let built = guarded(move || vibrato::SystemDictionaryBuilder::from_readers_with_bigram_info(lex.as_bytes(), right.as_bytes(), left.as_bytes(), cost.as_bytes(), "DEFAULT 0 1 0\n".as_bytes(), "DEFAULT,0,0,9,u\n".as_bytes(), false));
            if let Outcome::Ok(d) = built {
                let p = |rng: &mut Rng, n: usize| -> Vec<u16> { let mut v: Vec<u16> = (1..n as u32).map(|x| x as u16).collect(); rng.shuffle(&mut v); v };
                let (lm, rm) = (p(&mut rng, nl), p(&mut rng, nr));
                let (l2, r2) = (lm.clone(), rm.clone());
                let mapped = guarded(move || d.map_connection_ids_from_iter(l2, r2));
                let code = match &mapped { Outcome::Ok(_) => 0, Outcome::Err => 1, Outcome::Panic => 2 };
                let mut souts: Vec<(u8, bool)> = vec![];
                if let Outcome::Ok(d) = mapped {
                    let t = vibrato::Tokenizer::new(d);
                    for s in ["ab", "ba", "abab"] {
                        let r = std::panic::catch_unwind(std::panic::AssertUnwindSafe(|| { let mut w = t.new_worker(); w.reset_sentence(s); w.tokenize(); w.num_tokens() }));
                        souts.push((if r.is_ok() { 0 } else { 2 }, false));
                    }
                }
                // the permutations themselves are not put into the case (evaluating the quadratic list model on 65535
                // elements takes minutes): a VALID permutation must be accepted (theorem c06_parse_accepts_iff)
                let mterm = format!("(C10BigMap {} {} {} {} {})", 0xC10_0000u64 + side, nl, nr, code, clist(&souts, |(o, u)| format!("({}, {})", o, cbool(*u))));
                *dist.entry(format!("mapping_65536_ids_outcome_{}", code)).or_default() += 1;
                sh.push_h(format!("pinned:65536-ids-side-{}", side), mterm, format!("raw connector with {} right and {} left ids (bigram.right / bigram.left rows i<TAB>F(i mod 5) resp. g..., lexicon a/b/ab using the largest ids); map_connection_ids_from_iter with the shuffles of 1..n drawn from Rng(0xC100000 + side)", nr, nl));
            } else {
                *dist.entry("mapping_65536_ids_not_built".into()).or_default() += 1;
            }
        }
    }
    let shards = sh.write(outdir, 60)?;
    let mut meta = std::fs::File::create(format!("{}/meta.json", outdir))?;
    let d: Vec<String> = dist.iter().map(|(k, v)| format!("{}:{}", json_str(k), v)).collect();
    writeln!(
        meta,
        "{{\"cases\":{},\"duplicates\":{},\"shards\":{},\"sentences\":{},\"distribution\":{{{}}},\"samples\":[{}]}}",
        sh.cases.len(), sh.duplicates, shards, nsent, d.join(","), samples.join(",")
    )?;
    Ok(())
}

/// One random edit of a definition file: drop / duplicate / alter a character, cut the tail,
/// remove or duplicate a line, blank the file, insert an out-of-range number.
/// the end of a range ("a..b") replaced by something that is not a number
pub fn corrupt_range_end(rng: &mut Rng, s: &str) -> String {
    let starts: Vec<usize> = s.match_indices("..").map(|m| m.0).collect();
    if starts.is_empty() { return s.to_string(); }
    let k = *rng.pick(&starts) + 2;
    let rest = &s[k..];
    let stop = rest.find(|c: char| c == ' ' || c == '\n').unwrap_or(rest.len());
    format!("{}{}{}", &s[..k], rng.pick(&["0x005G", "0x", "", "-0x41", "0xＡ", "0x1FFFFFFFFFFFFFFFFF"][..]), &rest[stop..])
}

pub fn corrupt_text(rng: &mut Rng, s: &str) -> String {
    let mut lines: Vec<String> = s.lines().map(|l| l.to_string()).collect();
    let mut b: Vec<char> = s.chars().collect();
    match rng.below(10) {
        0 => return String::new(),
        1 if !lines.is_empty() => { let k = rng.below(lines.len() as u64) as usize; lines.remove(k); return lines.join("\n") + "\n"; }
        2 if !lines.is_empty() => { let k = rng.below(lines.len() as u64) as usize; let l = lines[k].clone(); lines.insert(k, l); return lines.join("\n") + "\n"; }
        3 if !b.is_empty() => { let k = rng.below(b.len() as u64) as usize; b.truncate(k); }
        4 if !b.is_empty() => { let k = rng.below(b.len() as u64) as usize; b.remove(k); }
        5 if !b.is_empty() => { let k = rng.below(b.len() as u64) as usize; b[k] = *rng.pick(&['9', ',', ' ', 'x', '-', '.', '\n', '#']); }
        6 if !lines.is_empty() => {
            // replace one number by an out-of-range one
            let k = rng.below(lines.len() as u64) as usize;
            let big = *rng.pick(&["70000", "-40000", "99999999999999999999", "0xFFFFFFFFFFFFFFFF", "16", "-1"]);
            let mut done = false;
            lines[k] = lines[k].split(|c: char| c == ' ' || c == ',').map(|t| if !done && t.chars().all(|c| c.is_ascii_digit()) && !t.is_empty() { done = true; big.to_string() } else { t.to_string() }).collect::<Vec<_>>().join(if lines[k].contains(',') { "," } else { " " });
            return lines.join("\n") + "\n";
        }
        7 if !lines.is_empty() => { let k = rng.below(lines.len() as u64) as usize; lines[k] = lines[k].split(|c: char| c == ' ' || c == ',').next().unwrap_or("").to_string(); return lines.join("\n") + "\n"; }
        // the end of a range ("a..b") replaced by something that is not a number
        7 if s.contains("..") && rng.chance(1, 2) => { return corrupt_range_end(rng, s); }
        8 if rng.chance(1, 2) => { b.extend("\n,0,0,5,a\n,0,0,6,b\n".chars()); }   // two rows with an empty first cell at the very end
        8 => { b.extend("\n0x0..0xFFFFFFFFFFFFFFFF DEFAULT\n".chars()); }
        _ => { b.extend("\nZZ 1 1\n".chars()); }
    }
    b.into_iter().collect()
}

/// Changes the length of every space run to another non-zero length, and adds/removes
/// leading and trailing runs.
pub fn respace(rng: &mut Rng, s: &str) -> String {
    let mut out = String::new();
    let chars: Vec<char> = s.chars().collect();
    let mut i = 0;
    let trimmed_start = chars.iter().position(|c| *c != ' ').unwrap_or(chars.len());
    let trimmed_end = chars.iter().rposition(|c| *c != ' ').map_or(0, |p| p + 1);
    if rng.chance(1, 2) {
        for _ in 0..rng.below(3) {
            out.push(' ');
        }
        i = trimmed_start;
    }
    let end = if rng.chance(1, 2) { trimmed_end.max(i) } else { chars.len() };
    while i < end {
        if chars[i] == ' ' {
            while i < end && chars[i] == ' ' {
                i += 1;
            }
            for _ in 0..(1 + rng.below(3)) {
                out.push(' ');
            }
        } else {
            out.push(chars[i]);
            i += 1;
        }
    }
    if end < chars.len() || rng.chance(1, 3) {
        for _ in 0..rng.below(3) {
            out.push(' ');
        }
    }
    out
}
